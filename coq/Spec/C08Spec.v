(* C08 — Subscriptions: exact registry and exactly-once notification fan-out,
   as a trace monitor.  The monitor keeps its own specification registry (a list of
   (server feature, peer, client address) triples) which it updates by the grant /
   delete rules of the property, and a copy of the model state [w] that is used
   ONLY to resolve addresses in the announced trees (local features, the peer's
   remote features) and to decide whether a write was authorised — both are the
   business of other properties (C06/C07, C03). *)
From Verif Require Import Base.Prelude Model.Stack Spec.StackObs.

Definition CL_GRANT : Z := 1.     (* outcome of a subscription request differs from the grant rule *)
Definition CL_EVENT : Z := 2.     (* subscription add/remove event missing, duplicated or wrong *)
Definition CL_DELETE : Z := 3.    (* outcome of a subscription delete differs from the rule *)
Definition CL_FANOUT : Z := 4.    (* notifications are not exactly one per subscribed entry *)
Definition CL_LISTING : Z := 5.   (* listing is not exactly the peer's entries / ids not distinct *)
Definition CL_STRAY : Z := 6.     (* notification or subscription event where none is due *)

Record sentry := { s_srv : eaddr * N; s_ski : N; s_cli : faddr }.

Record mst := { w : st; reg : list sentry }.
Definition minit : mst := {| w := init; reg := [] |}.

Definition eqb_srv (a b : eaddr * N) : bool := eqb_eaddr (fst a) (fst b) && N.eqb (snd a) (snd b).
Definition eqb_sentry (a b : sentry) : bool :=
  eqb_srv (s_srv a) (s_srv b) && N.eqb (s_ski a) (s_ski b) && eqb_faddr (s_cli a) (s_cli b).

Definition srv_addr (x : eaddr * N) : faddr := {| fa_dev := Some LOCAL_DEV; fa_ent := fst x; fa_feat := Some (snd x) |}.

(* the notifications a change of (fn, v) on local feature [sf] must produce *)
Definition fanout (m : mst) (sf : lfeat) (fn v : N) : list obs :=
  map (fun x => ONotify (s_ski x) (lf_addr sf) (s_cli x) fn v)
      (filter (fun x => eqb_srv (s_srv x) (lf_ent sf, lf_id sf)) (reg m)).

Definition complete_entry (p d : N) (x : sentry) : sentry :=
  if N.eqb (s_ski x) p then {| s_srv := s_srv x; s_ski := s_ski x; s_cli := complete_cli d (s_cli x) |} else x.

(* no notification and no subscription event *)
Definition quiet (out : list obs) : verdict :=
  check (negb (existsb is_notify out) && negb (existsb is_sub_event out)) CL_STRAY.

(* is the sender's node-management feature announced? (otherwise the datagram is dropped) *)
Definition sender_known (m : mst) (p : N) : option peer :=
  match find_peer (w m) p with
  | Some pe => match remote_feature pe (nm_addr None) with Some _ => Some pe | None => None end
  | None => None
  end.

(* the grant rule of the property *)
Definition grant (m : mst) (pe : peer) (c : reg_call) : option (lfeat * rent * faddr) :=
  match local_feature (w m) (rc_srv c), rc_type c, remote_feature pe (rc_cli c) with
  | Some sf, Some t, Some (en, rf) =>
      let cli := rf_addr en rf in
      if role_type_ok (lf_role sf) (lf_type sf) RServer t &&
         role_type_ok (rf_role rf) (rf_type rf) RClient t &&
         negb (existsb (fun y => eqb_sentry y {| s_srv := (lf_ent sf, lf_id sf); s_ski := p_ski pe; s_cli := cli |}) (reg m))
      then Some (sf, en, cli) else None
  | _, _, _ => None
  end.

Definition expect_result (p ctr : N) (ack err : bool) : list (N * N * bool) :=
  if err then [(p, ctr, true)] else if ack then [(p, ctr, false)] else [].

(* the world copy follows the model; the registry follows the rules *)
Definition advance (m : mst) (o : op) (r : list sentry) : mst := {| w := fst (step (w m) o); reg := r |}.

Definition entries_seen (p : N) (out : list obs) : list sentry :=
  flat_map (fun x => match x with
                     | OEntry _ srv cli => [ {| s_srv := (fa_ent srv, match fa_feat srv with Some f => f | None => 0%N end);
                                               s_ski := p; s_cli := cli |} ]
                     | _ => []
                     end) out.
Definition ids_seen (out : list obs) : list N := flat_map (fun x => match x with OEntry id _ _ => [id] | _ => [] end) out.

Definition mon (m : mst) (o : op) (out : list obs) : mst * verdict :=
  match o with
  | SubCall p ctr ack c =>
      match sender_known m p with
      | None => (advance m o (reg m), check (eqb_list eqb_res (results out) []) CL_GRANT ++ quiet out)
      | Some pe =>
          match grant m pe c with
          | Some (sf, en, cli) =>
              (advance m o (reg m ++ [ {| s_srv := (lf_ent sf, lf_id sf); s_ski := p; s_cli := cli |} ]),
               check (eqb_list eqb_res (results out) (expect_result p ctr ack false)) CL_GRANT ++
               check (eqb_list eqb_obs_event (filter is_sub_event out) [ev_reg EvSub ChAdd p en cli sf]) CL_EVENT ++
               check (negb (existsb is_notify out)) CL_STRAY)
          | None =>
              (advance m o (reg m),
               check (eqb_list eqb_res (results out) (expect_result p ctr ack true)) CL_GRANT ++ quiet out)
          end
      end
  | SubDelete p ctr ack c =>
      match sender_known m p with
      | None => (advance m o (reg m), check (eqb_list eqb_res (results out) []) CL_DELETE ++ quiet out)
      | Some pe =>
          match remote_feature pe (rc_cli c), local_feature (w m) (rc_srv c) with
          | Some (en, rf), Some sf =>
              (* the addressed pair: the entry of THIS connection with the named client address (device
                 defaulted to the sender's, SPINE 7.4.4) on the named server feature.  Entries of other
                 connections are never touched, whatever address the call names - also when another
                 peer announces the same device address or none. *)
              let ca := default_dev pe (rc_cli c) in
              let hit := fun x : sentry => N.eqb (s_ski x) p && eqb_faddr (s_cli x) ca && eqb_srv (s_srv x) (lf_ent sf, lf_id sf) in
              if existsb hit (reg m) then
                (advance m o (filter (fun x => negb (hit x)) (reg m)),
                 check (eqb_list eqb_res (results out) (expect_result p ctr ack false)) CL_DELETE ++
                 check (eqb_list eqb_obs_event (filter is_sub_event out) [ev_reg EvSub ChRemove p en (rf_addr en rf) sf]) CL_EVENT ++
                 check (negb (existsb is_notify out)) CL_STRAY)
              else
                (advance m o (reg m),
                 check (eqb_list eqb_res (results out) (expect_result p ctr ack true)) CL_DELETE ++ quiet out)
          | _, _ =>
              (advance m o (reg m),
               check (eqb_list eqb_res (results out) (expect_result p ctr ack true)) CL_DELETE ++ quiet out)
          end
      end
  | SetData e f fn v =>
      match find_lfeat (w m) e (Some f) with
      | Some sf =>
          (advance m o (reg m),
           check (same_multiset eqb_obs_notify
                    (if fn_registered (lf_type sf) fn then fanout m sf fn v else [])
                    (filter is_notify out)) CL_FANOUT ++
           check (negb (existsb is_sub_event out)) CL_STRAY)
      | None => (advance m o (reg m), quiet out)
      end
  | Write p ctr ack src dst fn v =>
      (* whether the write is authorised is C03's business: read it off the world copy *)
      let '(w1, mout) := step (w m) o in
      let accepted := existsb is_ev_data mout in
      (advance m o (reg m),
       check (same_multiset eqb_obs_notify
                (match accepted, local_feature (w m) dst with
                 | true, Some sf => fanout m sf fn v
                 | _, _ => []
                 end)
                (filter is_notify out)) CL_FANOUT ++
       check (negb (existsb is_sub_event out)) CL_STRAY)
  | ListSubs p =>
      let mine := filter (fun x => N.eqb (s_ski x) p) (reg m) in
      let seen := entries_seen p out in
      let ids := ids_seen out in
      (advance m o (reg m),
       check (same_multiset eqb_sentry mine seen &&
              Nat.eqb (length out) (length seen) &&
              forallb (fun x => match x with OEntry _ srv _ => eqb_optN (fa_dev srv) (Some LOCAL_DEV) | _ => true end) out &&
              nodupb ids)
             CL_LISTING)
  | Disconnect p | Connect p =>
      (* teardown (a reconnect tears the old connection down first) removes the peer's entries;
         exactness of teardown is C10 *)
      (advance m o (filter (fun x => negb (N.eqb (s_ski x) p)) (reg m)), check (negb (existsb is_notify out)) CL_STRAY)
  | DiscoveryNotify p _ _ dm =>
      (* entities of p announced as removed (entity-removed event) take their entries with them *)
      let gone := flat_map (fun x => match x with OEvent EvEntity ChRemove _ (Some e) _ _ => [e] | _ => [] end) out in
      (advance m o (filter (fun x => negb (N.eqb (s_ski x) p && existsb (eqb_eaddr (fa_ent (s_cli x))) gone)) (reg m)),
       check (negb (existsb is_notify out)) CL_STRAY)
  | DiscoveryReply p dm =>
      (* the reply completes the address of the node-management feature it came in through (entries
         made through it before the reply carry the device address from now on), and the entities
         it no longer lists are removed (entity-removed event) with their entries *)
      let gone := flat_map (fun x => match x with OEvent EvEntity ChRemove _ (Some e) _ _ => [e] | _ => [] end) out in
      let r1 := match nm_completion (w m) p dm out with
                | Some d => map (complete_entry p d) (reg m)
                | None => reg m
                end in
      (advance m o (filter (fun x => negb (N.eqb (s_ski x) p && existsb (eqb_eaddr (fa_ent (s_cli x))) gone)) r1),
       check (negb (existsb is_notify out)) CL_STRAY)
  | _ => (advance m o (reg m), quiet out)
  end.

(* nothing is excused: C08 holds in full on the (repaired) tree *)
Definition sst := unit.
Definition sinit : sst := tt.
Definition scope (s : sst) (o : op) : sst := tt.
Definition excuses (s : sst) : list Z := [].

Fixpoint judge (m : mst) (tr : list (op * list obs)) : list verdict :=
  match tr with
  | [] => []
  | (o, out) :: r => let '(m1, v) := mon m o out in v :: judge m1 r
  end.

Definition accepted (j : list verdict) : bool := forallb (fun v => match v with [] => true | _ => false end) j.
