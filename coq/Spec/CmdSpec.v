(* C18 — the property as a monitor over operations and observations (it never sees
   the model): for a registered function and a shape, what the receiving side must
   see after the wire; for a value, that decoding its encoding gives an equivalent
   value.  The same extracted monitor judges the implementation's observations.

   Clauses
     1 builds-and-decodes      the builder does not panic, the command encodes and decodes,
                               ExtractFilter does not panic, and the shape applies exactly when the
                               function has the selectors / elements type it needs
     2 function-recognised     CmdType.Data() names the function the command was built for
     3 payload-type            ... with the registered payload type
     4 payload-equal           ... and an equivalent payload (read: the empty payload)
     5 partial-selector        the partial filter carries the selector (type, value) under this function
     6 partial-elements        the partial filter carries the elements (type, value) under this function
     7 delete-selector         same for the delete filter
     8 delete-elements
     9 filter-presence         partial / delete filters are present exactly as the shape says, and carry
                               no selector / elements the caller did not give
    10 value-roundtrip         decode (encode v) is equivalent to v (absent = empty list)
   Equivalence of values is equality of [norm].
   For a function in one of the two recorded known-finding classes (end of this
   file) a failing elements clause (6 / 8) is reported under the class's own id
   (11 shared-elements-type, 12 setpoint-description-elements-tag), which the scope
   predicate excuses for exactly those functions. *)
From Coq Require Import String List ZArith NArith Bool.
From Verif Require Import Base.Prelude Model.JsonTy Model.JsonCodec Model.CmdTables Model.CmdWire.
From Verif Require Import Gen.GenJsonTypes Gen.GenFactory.
Import ListNotations.
Local Open Scope Z_scope.
Local Open Scope string_scope.

Definition C_BUILDS : Z := 1.
Definition C_FUNCTION : Z := 2.
Definition C_PTYPE : Z := 3.
Definition C_PAYLOAD : Z := 4.
Definition C_PSEL : Z := 5.
Definition C_PEL : Z := 6.
Definition C_DSEL : Z := 7.
Definition C_DEL : Z := 8.
Definition C_PRESENCE : Z := 9.
Definition C_ROUNDTRIP : Z := 10.
Definition C_SHARED_ELEMENTS : Z := 11.
Definition C_SETPOINT_TAG : Z := 12.

Definition equiv (a b : value) : bool := value_eqb (norm a) (norm b).

Definition name_is (f : fdesc) (fnidx : Z) : bool :=
  if Z.ltb fnidx 0 then false
  else match fn_at (Nz fnidx) with
       | Some g => String.eqb (fn_name g) (fn_name f)
       | None => false
       end.

Definition inN (x : N) (l : list N) : bool := existsb (N.eqb x) l.

(* what the shape puts into the partial / delete filter *)
Definition partial_present (shape : N) : bool := inN shape [1; 2; 5; 6; 9; 10; 11]%N.
Definition partial_sel (shape : N) : bool := inN shape [1; 6; 9; 11]%N.
Definition partial_el (shape : N) : bool := inN shape [2; 9]%N.
Definition delete_present (shape : N) : bool := inN shape [7; 8; 11]%N.
Definition delete_sel (shape : N) : bool := inN shape [7; 11]%N.
Definition delete_el (shape : N) : bool := inN shape [8; 11]%N.

Definition tyZ (o : option N) : Z := match o with Some id => Zn id | None => -1 end.

Definition clause (id : Z) (ok : bool) : list Z := if ok then [] else [id].

(* ---- the recorded known-finding classes ----
   shared-elements-type: the elements type that a non-list function's payload type
   has by the naming convention is at the same time the list-item elements type of
   another registered function.  A FilterType field carries one `fct` tag, so only
   one of the two functions can own it; for the other the elements are dropped.
   setpoint-description-elements-tag: FilterType.SetpointDescriptionDataElements is
   tagged `fct:` (empty); the repair is blocked by an unedited test of /repo that
   passes a value of another type for this function. *)
Definition opt_eqb (a b : option N) : bool :=
  match a, b with Some x, Some y => N.eqb x y | _, _ => false end.

Definition shared_elements (f : fdesc) : bool :=
  negb (fn_el_item f) &&
  existsb (fun g => fn_el_item g && opt_eqb (fn_el g) (fn_el f)) functions.

Definition setpoint_description (f : fdesc) : bool :=
  String.eqb (fn_name f) "setpointDescriptionListData".

Definition el_clause (f : fdesc) (c : Z) : Z :=
  if shared_elements f then C_SHARED_ELEMENTS
  else if setpoint_description f then C_SETPOINT_TAG else c.

(* one filter: [want_sel]/[want_el] say whether the caller gave a selector / elements *)
Definition check_filter (f : fdesc) (c_sel c_el : Z) (want_present want_sel want_el : bool)
           (sel el : value) (o : obs) : list Z :=
  match o with
  | OFilter _ present fn selty elty sv ev =>
      clause C_PRESENCE
             (Bool.eqb present want_present &&
              (want_sel || Z.eqb selty (-1)) && (want_el || Z.eqb elty (-1)) &&
              (want_sel || want_el || Z.eqb fn (-1))) ++
      (if want_sel then clause c_sel (name_is f fn && Z.eqb selty (tyZ (fn_sel f)) && equiv sv sel) else []) ++
      (if want_el then clause c_el (name_is f fn && Z.eqb elty (tyZ (fn_el f)) && equiv ev el) else [])
  | _ => [C_BUILDS]
  end.

Definition well_typed_row (f : fdesc) (data sel el : value) : bool :=
  (is_nil data || has_kind T (KStruct (fn_data f)) data) &&
  match fn_sel f with Some id => is_nil sel || has_kind T (KStruct id) sel | None => is_nil sel end &&
  match fn_el f with Some id => is_nil el || has_kind T (KStruct id) el | None => is_nil el end.

(* a shape that needs a selector / elements needs the caller to give one *)
Definition args_given (shape : N) (sel el : value) : bool :=
  (negb (needs_sel shape) || negb (is_nil sel)) && (negb (needs_el shape) || negb (is_nil el)).

Definition expected_payload (f : fdesc) (shape : N) (data : value) : value :=
  if sends_data shape && negb (is_nil data) then data else new_struct T (fn_data f).

Definition check_row (f : fdesc) (shape : N) (data sel el : value) (out : list obs) : list Z :=
  if negb (applicable f shape) then
    match out with [ONotApplicable] => [] | _ => [C_BUILDS] end
  else
    match out with
    | [OJson _; OData fn _ ty v; p; d] =>
        clause C_FUNCTION (name_is f fn) ++
        clause C_PTYPE (Z.eqb ty (Zn (fn_data f))) ++
        clause C_PAYLOAD (equiv v (expected_payload f shape data)) ++
        (match p with OFilter 0%N _ _ _ _ _ _ =>
           check_filter f C_PSEL (el_clause f C_PEL) (partial_present shape) (partial_sel shape) (partial_el shape) sel el p
         | _ => [C_BUILDS] end) ++
        (match d with OFilter 1%N _ _ _ _ _ _ =>
           check_filter f C_DSEL (el_clause f C_DEL) (delete_present shape) (delete_sel shape) (delete_el shape) sel el d
         | _ => [C_BUILDS] end)
    | [OJson _; ONoData; _; _] => [C_FUNCTION]
    | _ => [C_BUILDS]
    end.

Definition mst := unit.
Definition minit : mst := tt.

(* the property quantifies over registered functions, the shapes, and well-typed
   values; outside of that the monitor demands nothing *)
Definition mon (m : mst) (o : op) (out : list obs) : mst * verdict :=
  match o with
  | Row ft fn shape data sel el =>
      (m, if registered_b ft fn && inN shape all_shapes then
            match fn_at fn with
            | Some f =>
                if well_typed_row f data sel el && args_given shape sel el
                then check_row f shape data sel el out else []
            | None => []
            end
          else [])
  | Codec tid v =>
      (m, if has_kind T (KStruct tid) v then
            match out with
            | [OJson _; OValue v'] => clause C_ROUNDTRIP (equiv v' v)
            | _ => [C_ROUNDTRIP]
            end
          else [])
  | Decode _ _ => (m, [])
  end.

(* ---- scope: the clause ids excused for the current operation ---- *)
Definition sst := list Z.
Definition sinit : sst := [].
Definition scope (s : sst) (o : op) : sst :=
  match o with
  | Row _ fn shape _ _ _ =>
      match fn_at fn with
      | Some f => if shared_elements f then [C_SHARED_ELEMENTS]
                  else if setpoint_description f then [C_SETPOINT_TAG] else []
      | None => []
      end
  | _ => []
  end.
Definition excuses (s : sst) : list Z := s.

Fixpoint judge (m : mst) (s : sst) (tr : list (op * list obs)) : list (verdict * list Z) :=
  match tr with
  | [] => []
  | (o, out) :: r =>
      let '(m1, v) := mon m o out in
      let s1 := scope s o in
      (v, excuses s1) :: judge m1 s1 r
  end.

Definition accepted (j : list (verdict * list Z)) : bool :=
  forallb (fun ve => excused (fst ve) (snd ve)) j.

Definition strictly_accepted (j : list (verdict * list Z)) : bool :=
  forallb (fun ve => match fst ve with [] => true | _ => false end) j.
