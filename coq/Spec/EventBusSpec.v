(* C15 — the property as a trace monitor.  It sees only operations and
   observations (from the model in the theorems, from the real bus in the harness),
   never the model's state.  Its own view of the subscriptions is a *set*: that
   subscribing twice has no additional effect is part of the specification, not
   something it learns from the implementation. *)
From Verif Require Import Base.Prelude Model.EventBus.

(* clause ids *)
Definition CL_UNEXPECTED : Z := 1. (* a handler was called with an event although it was not subscribed (at that
                                      level) when the event's handler list was taken - in particular after its
                                      unsubscription had returned before the Publish call *)
Definition CL_TWICE : Z := 2.      (* a handler received the same event twice *)
Definition CL_CORE_FIRST : Z := 3. (* a core handler of the event had not been called when Publish returned or when an
                                      application handler of the event ran; or a core handler ran after the return /
                                      outside the publisher's thread *)
Definition CL_ASYNC : Z := 4.      (* an application handler did not run on a goroutine of its own *)
Definition CL_MISSING : Z := 5.    (* everything has come to rest and a subscribed handler never got an event, or a
                                      Publish never returned *)
Definition CL_DEADLOCK : Z := 6.   (* unfinished calls and no thread can run / a step never completed *)
Definition CL_SHAPE : Z := 7.      (* observation impossible for the operation (event id reused, wrong caller; a call of
                                      a burst of overlapping calls did not return / returned twice) *)

Record mst := {
  m_set : list item;                 (* who is subscribed now (set) *)
  m_exp : list (N * list item);      (* event -> who was subscribed when its handler list was taken *)
  m_pub : list (N * tid);            (* event -> publishing thread *)
  m_del : list (N * item);           (* deliveries so far *)
  m_ret : list N                     (* events whose Publish has returned *)
}.

Definition minit : mst := {| m_set := []; m_exp := []; m_pub := []; m_del := []; m_ret := [] |}.

Definition mem_item (i : item) (l : list item) : bool := existsb (item_eqb i) l.

Definition mem_del (e : N) (i : item) (l : list (N * item)) : bool :=
  existsb (fun d => N.eqb e (fst d) && item_eqb i (snd d)) l.

Definition set_add (i : item) (l : list item) : list item := if mem_item i l then l else i :: l.
Definition set_remove (i : item) (l : list item) : list item := filter (fun j => negb (item_eqb i j)) l.

Definition pub_is (m : mst) (e : N) (t : tid) : bool :=
  match assoc_N e (m_pub m) with Some t' => tid_eqb t t' | None => false end.

(* every core handler expected for the event has been called *)
Definition cores_called (e : N) (X : list item) (del : list (N * item)) : bool :=
  forallb (fun i => match fst i with Core => mem_del e i del | App => true end) X.

Definition all_called (e : N) (X : list item) (del : list (N * item)) : bool :=
  forallb (fun i => mem_del e i del) X.

Definition mon_obs (m : mst) (o : obs) : mst * verdict :=
  match o with
  | OSub _ l h =>
      ({| m_set := set_add (l, h) (m_set m); m_exp := m_exp m; m_pub := m_pub m; m_del := m_del m; m_ret := m_ret m |}, [])
  | OUnsub _ l h =>
      ({| m_set := set_remove (l, h) (m_set m); m_exp := m_exp m; m_pub := m_pub m; m_del := m_del m; m_ret := m_ret m |}, [])
  | OSnap t e =>
      match assoc_N e (m_exp m) with
      | Some _ => (m, [CL_SHAPE])
      | None =>
          ({| m_set := m_set m; m_exp := (e, m_set m) :: m_exp m; m_pub := (e, t) :: m_pub m;
              m_del := m_del m; m_ret := m_ret m |}, [])
      end
  | OLock _ _ => (m, [])
  | ODeliver t l h e =>
      let m1 := {| m_set := m_set m; m_exp := m_exp m; m_pub := m_pub m;
                   m_del := (e, (l, h)) :: m_del m; m_ret := m_ret m |} in
      match assoc_N e (m_exp m) with
      | None => (m1, [CL_UNEXPECTED])
      | Some X =>
          (m1,
           (if mem_item (l, h) X then [] else [CL_UNEXPECTED]) ++
           (if mem_del e (l, h) (m_del m) then [CL_TWICE] else []) ++
           match l with
           | Core => if pub_is m e t && negb (memN e (m_ret m)) then [] else [CL_CORE_FIRST]
           | App => (if cores_called e X (m_del m) then [] else [CL_CORE_FIRST]) ++
                    (if tid_eqb t (Hdl h e) then [] else [CL_ASYNC])
           end)
      end
  | OSpawn _ _ _ => (m, [])
  | OReturn t e =>
      let m1 := {| m_set := m_set m; m_exp := m_exp m; m_pub := m_pub m; m_del := m_del m; m_ret := e :: m_ret m |} in
      match assoc_N e (m_exp m) with
      | None => (m1, [CL_SHAPE])
      | Some X =>
          (m1, (if cores_called e X (m_del m) then [] else [CL_CORE_FIRST]) ++
               (if pub_is m e t then [] else [CL_SHAPE]))
      end
  | OIdle =>
      (m, if forallb (fun e => match assoc_N e (m_exp m) with
                               | Some X => memN e (m_ret m) && all_called e X (m_del m)
                               | None => true
                               end) (map fst (m_exp m))
          then [] else [CL_MISSING])
  | ODeadlock => (m, [CL_DEADLOCK])
  | OBusy _ => (m, [])
  | OStuck _ => (m, [CL_DEADLOCK])
  end.

Fixpoint mon_list (m : mst) (out : list obs) : mst * verdict :=
  match out with
  | [] => (m, [])
  | o :: r =>
      let '(m1, v1) := mon_obs m o in
      let '(m2, v2) := mon_list m1 r in
      (m2, v1 ++ v2)
  end.

(* a burst of overlapping (un)subscriptions: every call returns, once, reported in the order
   given (the order in which they really finished is not observed).  What the burst does to
   the subscriptions is judged like any other (un)subscription: the monitor's view is a set,
   and from then on every publication must reach each member exactly once - so a pair that
   two overlapping subscriptions both entered is caught by CL_TWICE at the next publication,
   and one that was lost by CL_MISSING. *)
Fixpoint par_shape (acts : list act) (out : list obs) : bool :=
  match acts with
  | [] => match out with [] => true | _ => false end
  | APub :: r => par_shape r out
  | ASub l h :: r =>
      match out with
      | OSub _ l' h' :: o => item_eqb (l, h) (l', h') && par_shape r o
      | _ => false
      end
  | AUnsub l h :: r =>
      match out with
      | OUnsub _ l' h' :: o => item_eqb (l, h) (l', h') && par_shape r o
      | _ => false
      end
  end.

Definition shape_ok (o : op) (out : list obs) : bool :=
  match o, out with
  | Par acts, _ => par_shape acts out
  | Script _ _ _, [] => true
  | Script _ _ _, _ => false
  | Call _ _, [] => true
  | Call t _, [OBusy t'] => N.eqb t t'
  | Call _ _, _ => false
  | _, _ => true
  end.

Definition mon (m : mst) (o : op) (out : list obs) : mst * verdict :=
  let '(m1, v) := mon_list m out in
  (m1, (if shape_ok o out then [] else [CL_SHAPE]) ++ v).

(* nothing is excused: the property is claimed in full *)
Definition sst := unit.
Definition sinit : sst := tt.
Definition scope (s : sst) (o : op) : sst := s.
Definition excuses (s : sst) : list Z := [].

Fixpoint judge (m : mst) (s : sst) (tr : list (op * list obs)) : list (verdict * list Z) :=
  match tr with
  | [] => []
  | (o, out) :: r =>
      let '(m1, v) := mon m o out in
      let s1 := scope s o in
      (v, excuses s1) :: judge m1 s1 r
  end.

Definition accepted (j : list (verdict * list Z)) : bool :=
  forallb (fun ve => excused (fst ve) (snd ve)) j.

(* hypothesis of the theorems: no core handler calls Publish (muHandle is not re-entrant) *)
Fixpoint no_pub (a : list act) : bool :=
  match a with
  | [] => true
  | APub :: _ => false
  | _ :: r => no_pub r
  end.

Definition core_quiet (ops : list op) : bool :=
  forallb (fun o => match o with Script Core _ a => no_pub a | _ => true end) ops.
