(* C05 — the property as a trace monitor.  It sees operations and observations only
   (from the model in the theorems, from the implementation in the harness).

   "Whatever bytes a peer delivers as a SPINE payload, message handling returns without
    panicking and without blocking forever.  Afterwards the stack still answers a valid
    detailed-discovery read from that peer and from every other connected peer."

   The harness delivers every payload as [Inbound] and follows it by a [Probe] on every
   connection; the monitor keeps the set of connected peers from the Connect / Disconnect
   operations it has seen. *)
From Verif Require Import Base.Prelude Model.Robust.

Definition CL_PANIC : Z := 1.      (* handling an inbound payload (or a probe) panicked *)
Definition CL_WEDGE : Z := 2.      (* ... did not return *)
Definition CL_UNSERVED : Z := 3.   (* a valid detailed-discovery read from a connected peer was not answered by
                                      exactly one reply carrying the discovery data and the read's counter *)
Definition CL_SHAPE : Z := 4.      (* malformed observation / the harness' abstraction is not the payload's *)

Definition mst := list N.          (* connected peers *)
Definition minit : mst := [].

Definition is_panic (o : obs) : bool := match o with OPanic _ => true | _ => false end.
Definition is_wedge (o : obs) : bool := match o with OWedge => true | _ => false end.
Definition is_badabs (o : obs) : bool := match o with OBadAbs => true | _ => false end.

Definition crash_verdict (out : list obs) : verdict :=
  (if existsb is_panic out then [CL_PANIC] else []) ++
  (if existsb is_wedge out then [CL_WEDGE] else []) ++
  (if existsb is_badabs out then [CL_SHAPE] else []).

Definition is_discovery_reply (p c : N) (out : list obs) : bool :=
  match out with
  | [Out (OReply p' fn (Some c'))] => N.eqb p' p && N.eqb fn F_DISC && N.eqb c' c
  | _ => false
  end.

Definition mon (m : mst) (o : op) (out : list obs) : mst * verdict :=
  match o with
  | Connect p => (if memN p m then m else p :: m, match out with [] => [] | _ => [CL_SHAPE] end)
  | Disconnect p => (filter (fun q => negb (N.eqb q p)) m, match out with [] => [] | _ => [CL_SHAPE] end)
  | Inbound p _ => (m, crash_verdict out)
  | Opaque p => (m, crash_verdict out)
  | Probe p c =>
      (m, if memN p m
          then crash_verdict out ++
               (if is_discovery_reply p c out || existsb is_panic out || existsb is_wedge out then [] else [CL_UNSERVED])
          else match out with [] => [] | _ => [CL_SHAPE] end)
  end.

(* nothing is excused: the property holds in full on the repaired tree *)
Definition sst := unit.
Definition sinit : sst := tt.
Definition scope (s : sst) (o : op) : sst := s.
Definition excuses (s : sst) : list Z := [].

Fixpoint judge (m : mst) (s : sst) (tr : list (op * list obs)) : list (verdict * list Z) :=
  match tr with
  | [] => []
  | (o, out) :: r =>
      let '(m1, v) := mon m o out in
      let s1 := scope s o in
      (v, excuses s1) :: judge m1 s1 r
  end.

Definition accepted (j : list (verdict * list Z)) : bool :=
  forallb (fun ve => excused (fst ve) (snd ve)) j.

Definition strictly_accepted (j : list (verdict * list Z)) : bool :=
  forallb (fun ve => match fst ve with [] => true | _ => false end) j.
