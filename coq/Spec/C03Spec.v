(* C03 — a remote write takes effect only with binding and write permission, as a trace
   monitor.  The monitor keeps
     - its own registry of granted bindings [auth] (Spec/BindReg.v), which FOLLOWS what is
       observed: a binding-added event grants, a binding-removed event of a delete call
       revokes, a removed connection or an entity announced as removed revokes (whether
       the grants themselves are right is C09's business, teardown exactness C10's);
     - its own data store [store]: (entity, feature, function) -> value, changed only by
       local SetData and by AUTHORISED writes; every ReadData must return it;
     - a copy of the model state [w] used ONLY to resolve addresses in the announced trees
       and to read the announced operations (read/write flags) of local features.
   A write is authorised iff, at the moment it is processed, the written function is
   announced as writable on the addressed feature and the writing remote feature (its
   announced address) holds a binding to that feature in [auth]. *)
From Verif Require Import Base.Prelude Model.Stack Spec.StackObs Spec.BindReg.

Definition CL_DENY : Z := 1.      (* unauthorised write: the announced writer did not get exactly one error result *)
Definition CL_NOTIFY : Z := 2.    (* unauthorised write: a subscriber was notified *)
Definition CL_EVENT : Z := 3.     (* unauthorised write: a data-change event was published *)
Definition CL_DATA : Z := 4.      (* data read back is not what local changes and authorised writes produced *)
Definition CL_ACCEPT : Z := 5.    (* authorised write of a supported function was not accepted (event / result) *)

Definition skey : Type := eaddr * N * N.
Definition eqb_skey (a b : skey) : bool :=
  let '(e, f, fn) := a in let '(e', f', fn') := b in eqb_eaddr e e' && N.eqb f f' && N.eqb fn fn'.

Fixpoint sget (st : list (skey * N)) (k : skey) : option N :=
  match st with
  | [] => None
  | (k', v) :: r => if eqb_skey k k' then Some v else sget r k
  end.
Definition sset (st : list (skey * N)) (k : skey) (v : N) : list (skey * N) := (k, v) :: st.

Record mst := { w : st; auth : list bentry; store : list (skey * N) }.
Definition minit : mst := {| w := init; auth := []; store := [] |}.

Definition advance (m : mst) (o : op) (a : list bentry) (s : list (skey * N)) : mst :=
  {| w := fst (step (w m) o); auth := a; store := s |}.

Definition lf_key (lf : lfeat) (fn : N) : skey := (lf_ent lf, lf_id lf, fn).

(* observed grants / revocations of a node-management call *)
Definition srv_key (a : faddr) : eaddr * N := (fa_ent a, match fa_feat a with Some f => f | None => 0%N end).

Definition granted_seen (out : list obs) : list bentry :=
  flat_map (fun x => match x with
                     | OEvent EvBind ChAdd ski _ (Some cli) (Some lf) => [ {| b_srv := srv_key lf; b_ski := ski; b_cli := cli |} ]
                     | _ => []
                     end) out.

Definition revoked_seen (out : list obs) : list (N * (eaddr * N) * faddr) :=
  flat_map (fun x => match x with
                     | OEvent EvBind ChRemove ski _ (Some cli) (Some lf) => [ (ski, srv_key lf, cli) ]
                     | _ => []
                     end) out.

Definition revoke (rv : list (N * (eaddr * N) * faddr)) (a : list bentry) : list bentry :=
  filter (fun x => negb (existsb (fun r => hit (fst (fst r)) (snd r) (snd (fst r)) x) rv)) a.

(* is the function announced as writable on the feature? *)
Definition writable (lf : lfeat) (fn : N) : bool :=
  match assoc_N fn (lf_ops lf) with Some (_, true) => true | _ => false end.

(* does the writing remote feature (announced address [writer]) hold a binding to [lf]? *)
Definition bound (a : list bentry) (lf : lfeat) (writer : faddr) : bool :=
  existsb (fun x => on_srv (srv_of lf) x && eqb_faddr (b_cli x) writer) a.

Definition no_notify (out : list obs) : verdict := check (negb (existsb is_notify out)) CL_NOTIFY.
Definition no_data_event (out : list obs) : verdict := check (negb (existsb is_ev_data out)) CL_EVENT.

(* the shape of a refused write: exactly one error result to the writer, nobody notified, no event *)
Definition refused (p ctr : N) (out : list obs) : verdict :=
  check (eqb_list eqb_res (results out) [(p, ctr, true)]) CL_DENY ++ no_notify out ++ no_data_event out.

Definition mon (m : mst) (o : op) (out : list obs) : mst * verdict :=
  match o with
  | Write p ctr ack src dst fn v =>
      match find_peer (w m) p with
      | None => (advance m o (auth m) (store m), no_notify out ++ no_data_event out)
      | Some pe =>
          match remote_feature pe src with
          | None =>
              (* the writer is not an announced feature of the peer: nothing may happen *)
              (advance m o (auth m) (store m), no_notify out ++ no_data_event out)
          | Some (en, rf) =>
              let writer := rf_addr en rf in
              match local_feature (w m) dst with
              | None => (advance m o (auth m) (store m), refused p ctr out)
              | Some lf =>
                  if writable lf fn && bound (auth m) lf writer then
                    if fn_registered (lf_type lf) fn then
                      (* authorised and the function exists on the feature: accepted *)
                      (advance m o (auth m) (sset (store m) (lf_key lf fn) v),
                       check (eqb_list eqb_obs_event (filter is_ev_data out)
                                [OEvent EvData ChUpdate p (Some (fa_ent writer)) (Some writer) (Some (lf_addr lf))]) CL_ACCEPT ++
                       check (eqb_list eqb_res (results out) (if ack then [(p, ctr, false)] else [])) CL_ACCEPT)
                    else
                      (* announced writable but not supported by the feature type: outcome not
                         prescribed; follow what is observed *)
                      (advance m o (auth m) (if existsb is_ev_data out then sset (store m) (lf_key lf fn) v else store m), [])
                  else
                    (advance m o (auth m) (store m), refused p ctr out)
              end
          end
      end
  | ReadData e f fn =>
      (advance m o (auth m) (store m),
       check (match sget (store m) (e, f, fn), out with
              | Some v, [ORetN v'] => N.eqb v v'
              | None, [ONone] => true
              | _, _ => false
              end) CL_DATA)
  | SetData e f fn v =>
      (advance m o (auth m)
         (match find_lfeat (w m) e (Some f) with
          | Some lf => if fn_registered (lf_type lf) fn then sset (store m) (e, f, fn) v else store m
          | None => store m
          end), [])
  | BindCall p _ _ _ => (advance m o (auth m ++ granted_seen out) (store m), [])
  | BindDelete p _ _ _ => (advance m o (revoke (revoked_seen out) (auth m)) (store m), [])
  | Disconnect p | Connect p => (advance m o (drop_peer p (auth m)) (store m), [])
  | DiscoveryNotify p _ _ _ => (advance m o (drop_gone p (gone_seen out) (auth m)) (store m), [])
  | DiscoveryReply p dm => (advance m o (after_reply (w m) p dm out (auth m)) (store m), [])
  | _ => (advance m o (auth m) (store m), [])
  end.

(* nothing is excused *)
Definition sst := unit.
Definition sinit : sst := tt.
Definition scope (s : sst) (o : op) : sst := tt.
Definition excuses (s : sst) : list Z := [].

Fixpoint judge (m : mst) (tr : list (op * list obs)) : list verdict :=
  match tr with
  | [] => []
  | (o, out) :: r => let '(m1, v) := mon m o out in v :: judge m1 r
  end.

Definition accepted (j : list verdict) : bool := forallb (fun v => match v with [] => true | _ => false end) j.
