(* Lifting a trace monitor over Model/Stack.v operations to the overlap operations of
   Model/StackX.v: the observations of [During a b] are split into what the teardown [a] produced
   and what the call [b] of the other peer produced (Model/StackX.v of_call), and judged by the
   monitor as the teardown followed by the call. *)
From Verif Require Import Base.Prelude Model.Stack Model.StackX.

Section Lift.
  Context {mst : Type}.
  Variable mon : mst -> op -> list obs -> mst * verdict.

  Definition xmon (m : mst) (o : xop) (out : list obs) : mst * verdict :=
    match o with
    | Base o' => mon m o' out
    | During a b =>
        match xsplit a b with
        | Some P =>
            let '(m1, v1) := mon m a (filter (fun x => negb (P x)) out) in
            let '(m2, v2) := mon m1 b (filter P out) in
            (m2, v1 ++ v2)
        | None => (m, [])
        end
    end.

  Fixpoint xjudge (m : mst) (tr : list (xop * list obs)) : list verdict :=
    match tr with
    | [] => []
    | (o, out) :: r => let '(m1, v) := xmon m o out in v :: xjudge m1 r
    end.
End Lift.

Definition xaccepted (j : list verdict) : bool := forallb (fun v => match v with [] => true | _ => false end) j.

(* scopes are lifted the same way *)
Definition xscope {sst : Type} (scope : sst -> op -> sst) (s : sst) (o : xop) : sst :=
  match o with
  | Base o' => scope s o'
  | During a b => match xsplit a b with Some _ => scope (scope s a) b | None => s end
  end.
