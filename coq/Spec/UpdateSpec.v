(* C02 — the property as a trace monitor: the SPINE restricted-function-exchange
   rules stated over an abstract store (a finite map identifier -> item), folded
   over the updates of a history and compared, after every update, with the data
   the API returns.  The monitor never looks at the model's state: it sees the
   operations and what was observed (from the model in the theorems, from the
   implementation in the harness). *)
From Verif Require Import Base.Prelude Model.Schema Model.Update Model.FunctionStore.

Definition key := list N.

Section Spec.
  Variable sch : schema.

  (* the identifier of an item: the values of all its key fields; None when one is missing *)
  Fixpoint key_from (keys : list nat) (it : item) : option key :=
    match keys with
    | [] => Some []
    | k :: r =>
        match fld it k, key_from r it with
        | Some v, Some kr => Some (v :: kr)
        | _, _ => None
        end
    end.
  Definition key_of (it : item) : option key := key_from (s_keys sch) it.

  (* the abstract store *)
  Definition amap := list (key * item).

  Fixpoint mfind (k : key) (m : amap) : option item :=
    match m with
    | [] => None
    | (k', x) :: r => if eqb_key k k' then Some x else mfind k r
    end.

  (* field-wise "new if present else old" *)
  Fixpoint overlay (new old : item) {struct old} : item :=
    match old with
    | [] => []
    | o :: orest =>
        match new with
        | [] => old
        | n :: nrest => (match n with Some _ => n | None => o end) :: overlay nrest orest
        end
    end.

  (* clear the named fields (the elements struct mirrors the item field by field) *)
  Fixpoint clear (el : list bool) (it : item) {struct it} : item :=
    match it with
    | [] => []
    | x :: r =>
        match el with
        | [] => it
        | e :: er => (if e then None else x) :: clear er r
        end
    end.

  (* an item matches a selector when every selector field that is set and that the
     item type has equals the item's field *)
  Fixpoint smatch_from (ks : list selk) (sel : list (option N)) (it : item) : bool :=
    match ks, sel with
    | k :: kr, s :: sr =>
        (match s, k with
         | Some v, SField i => match fld it i with Some w => N.eqb w v | None => false end
         | _, _ => true
         end) && smatch_from kr sr it
    | _, _ => true
    end.
  Definition smatch (sel : list (option N)) (it : item) : bool :=
    match s_sel sch with Some ks => smatch_from ks sel it | None => true end.

  Definition on_items (f : item -> item) (m : amap) : amap := map (fun kx => (fst kx, f (snd kx))) m.

  (* full update: the list becomes the data *)
  Definition of_list (l : list item) : amap :=
    flat_map (fun x => match key_of x with Some k => [(k, x)] | None => [] end) l.

  (* partial update of one identified item: merge into its identifier, or add it *)
  Fixpoint upsert (k : key) (x : item) (m : amap) : amap :=
    match m with
    | [] => [(k, x)]
    | (k', y) :: r => if eqb_key k k' then (k', overlay x y) :: r else (k', y) :: upsert k x r
    end.

  (* delete filter: remove the matching items, or clear the named fields (of the matching items) *)
  Definition spec_delete (f : flt) (m : amap) : amap :=
    match f_sel f, f_elems f with
    | Some sel, None => filter (fun kx => negb (smatch sel (snd kx))) m
    | Some sel, Some el => on_items (fun y => if smatch sel y then clear el y else y) m
    | None, Some el => on_items (clear el) m
    | None, None => m
    end.

  (* the data part: confined to the matching items by a selector; applied to every
     item when it carries no identifier; else merged by identifier *)
  Definition spec_data (fp : option flt) (new : list item) (m : amap) : amap :=
    match filter_data fp with
    | Some f =>
        match f_sel f, new with
        | Some sel, x :: _ => on_items (fun y => if smatch sel y then overlay x y else y) m
        | _, _ => m
        end
    | None =>
        match new with
        | [x] =>
            match key_of x with
            | None => on_items (overlay x) m
            | Some k => upsert k x m
            end
        | _ => fold_left (fun m x => match key_of x with Some k => upsert k x m | None => m end) new m
        end
    end.

  (* one update; [full] = no filter at all on a persisting FunctionData.UpdateData *)
  Definition spec_apply (full : bool) (u : upd) (m : amap) : amap :=
    if full then of_list (u_new u)
    else spec_data (u_fp u) (u_new u)
           (match filter_data (u_fd u) with Some f => spec_delete f m | None => m end).

  (* ---- the shape clauses ---- *)

  Definition keys_of (l : list item) : list key :=
    flat_map (fun x => match key_of x with Some k => [k] | None => [] end) l.

  Fixpoint nodup_keys (l : list key) : bool :=
    match l with
    | [] => true
    | k :: r => negb (mem_key k r) && nodup_keys r
    end.

  (* at most one item per identifier (and every item has one) *)
  Definition unique_ids (l : list item) : bool :=
    forallb (fun x => is_some (key_of x)) l && nodup_keys (keys_of l).

  (* ordered by numeric identifier: lexicographically by the leading identifier
     fields of kind uint (an identifier field of another kind ends the comparison,
     as it has no numeric order) *)
  Fixpoint nkey_from (keys : list nat) (it : item) : list N :=
    match keys with
    | [] => []
    | k :: r =>
        match kind_of sch k, fld it k with
        | KUint, Some v => v :: nkey_from r it
        | _, _ => []
        end
    end.
  Definition nkey (it : item) : list N := nkey_from (s_keys sch) it.

  Fixpoint lex_le (a b : list N) : bool :=
    match a, b with
    | [], _ => true
    | _ :: _, [] => false
    | x :: a', y :: b' => if N.eqb x y then lex_le a' b' else N.ltb x y
    end.

  Fixpoint ordered (l : list item) : bool :=
    match l with
    | a :: r => match r with b :: _ => lex_le (nkey a) (nkey b) | [] => true end && ordered r
    | [] => true
    end.

  (* ---- comparing the returned list with the abstract store ---- *)

  Fixpoint eqb_item (a b : item) : bool :=
    match a, b with
    | [], [] => true
    | x :: a', y :: b' =>
        (match x, y with Some v, Some w => N.eqb v w | None, None => true | _, _ => false end) && eqb_item a' b'
    | _, _ => false
    end.

  Definition eqb_oitem (a b : option item) : bool :=
    match a, b with
    | Some x, Some y => eqb_item x y
    | None, None => true
    | _, _ => false
    end.

  Fixpoint lfind (k : key) (l : list item) : option item :=
    match l with
    | [] => None
    | x :: r => match key_of x with
                | Some k' => if eqb_key k k' then Some x else lfind k r
                | None => lfind k r
                end
    end.

  (* the list, read as a map, is the abstract store: each of its items is what the
     store holds under the item's identifier, and everything the store holds is in the list *)
  Definition same_map (l : list item) (m : amap) : bool :=
    forallb (fun x => match key_of x with Some k => eqb_oitem (mfind k m) (Some x) | None => false end) l &&
    forallb (fun kx => eqb_oitem (lfind (fst kx) l) (Some (snd kx))) m.

  (* ---- well-formed updates: the hypothesis under which the code implements the rules ---- *)

  Definition item_ok (it : item) : bool := Nat.eqb (length it) (s_nf sch).

  Definition wf_items (l : list item) : bool := forallb item_ok l && unique_ids l.

  Definition no_key_field (x : item) : bool := forallb (fun k => negb (is_some (fld x k))) (s_keys sch).

  Fixpoint sel_fields_ok (ks : list selk) (sel : list (option N)) : bool :=
    match ks, sel with
    | [], [] => true
    | k :: kr, s :: sr => (match k, s with SBad, Some _ => false | _, _ => true end) && sel_fields_ok kr sr
    | _, _ => false
    end.
  Definition sel_ok (sel : list (option N)) : bool :=
    match s_sel sch with Some ks => sel_fields_ok ks sel | None => false end.

  (* the elements struct fits the type and names no identifier field *)
  Definition elems_ok (el : list bool) : bool :=
    match s_elems sch with
    | Some m => Nat.eqb (length el) (length m) && forallb (fun k => negb (nth k el false)) (s_keys sch)
    | None => false
    end.

  Definition wf_flt (f : flt) : bool :=
    match f_sel f with Some sel => sel_ok sel | None => true end &&
    match f_elems f with Some el => elems_ok el | None => true end.

  (* identifier fields carried by the data of a selector update are pinned by the selector *)
  Fixpoint pinned_by (ks : list selk) (sel : list (option N)) (k : nat) (v : N) : bool :=
    match ks, sel with
    | SField i :: kr, Some w :: sr => (Nat.eqb i k && N.eqb w v) || pinned_by kr sr k v
    | _ :: kr, _ :: sr => pinned_by kr sr k v
    | _, _ => false
    end.
  Definition pinned (sel : list (option N)) (x : item) : bool :=
    forallb (fun k => match fld x k with
                      | None => true
                      | Some v => match s_sel sch with Some ks => pinned_by ks sel k v | None => false end
                      end) (s_keys sch).

  Definition wf_update (full : bool) (u : upd) : bool :=
    forallb item_ok (u_new u) &&
    (* a delete filter, when given, carries selectors and/or elements that fit the type *)
    match u_fd u with
    | Some f => is_some (filter_data (Some f)) && wf_flt f
    | None => true
    end &&
    match filter_data (u_fp u) with
    | Some f =>
        (* selector update: selectors only, exactly one data item, whose identifier fields the selector pins *)
        match f_sel f, f_elems f, u_new u with
        | Some sel, None, [x] => sel_ok sel && pinned sel x
        | _, _, _ => false
        end
    | None =>
        if full then wf_items (u_new u) && ordered (u_new u)
        else wf_items (u_new u) || match u_new u with [x] => no_key_field x | _ => false end
    end.

  (* updates for which re-application is required to change nothing: everything but a
     delete filter combined with data (there the rules themselves are not idempotent,
     see Properties/C02.v) *)
  Definition simple (u : upd) : bool :=
    negb (is_some (filter_data (u_fd u))) || match u_new u with [] => true | _ => false end.
End Spec.

(* an update with a selector (or elements) in its partial filter but without any data item: the
   engine answers with an error whatever the data is (after its delete filter, if any, has
   already run on the working copy), so the fold skips it *)
Definition rejected_shape (u : upd) : bool :=
  is_some (filter_data (u_fp u)) && match u_new u with [] => true | _ => false end.

(* ---- equality of operations (for the re-application clause) ---- *)

Fixpoint eqb_items (a b : list item) : bool :=
  match a, b with
  | [], [] => true
  | x :: a', y :: b' => eqb_item x y && eqb_items a' b'
  | _, _ => false
  end.

Fixpoint eqb_bools (a b : list bool) : bool :=
  match a, b with
  | [], [] => true
  | x :: a', y :: b' => Bool.eqb x y && eqb_bools a' b'
  | _, _ => false
  end.

Definition eqb_flt (a b : option flt) : bool :=
  match a, b with
  | None, None => true
  | Some x, Some y =>
      (match f_sel x, f_sel y with Some p, Some q => eqb_item p q | None, None => true | _, _ => false end) &&
      (match f_elems x, f_elems y with Some p, Some q => eqb_bools p q | None, None => true | _, _ => false end)
  | _, _ => false
  end.

Definition eqb_upd (a b : upd) : bool :=
  eqb_items (u_new a) (u_new b) && eqb_flt (u_fp a) (u_fp b) && eqb_flt (u_fd a) (u_fd b).

(* ---- the monitor ---- *)

Definition CL_FOLD : Z := 1.     (* the returned data is not the fold of the rules over the history *)
Definition CL_UNIQUE : Z := 2.   (* two items share an identifier, or an item has none *)
Definition CL_ORDER : Z := 3.    (* not ordered by numeric identifier *)
Definition CL_IDEM : Z := 4.     (* applying the same update a second time changed the data *)
Definition CL_SHAPE : Z := 5.    (* malformed observation list *)

Record mst := {
  m_sch : schema;
  m_direct : bool;
  m_map : amap;                          (* the fold of the rules so far *)
  m_prev : option (upd * list item)      (* the previous operation, if it was an applied update, and the data after it *)
}.

Definition minit : mst := {| m_sch := empty_schema; m_direct := false; m_map := []; m_prev := None |}.

Fixpoint stored (out : list obs) : option (option (list item)) :=
  match out with
  | [] => None
  | Store so :: _ => Some so
  | _ :: r => stored r
  end.

Definition mon (m : mst) (o : op) (out : list obs) : mst * verdict :=
  match o, out with
  | Init ty d, [] => ({| m_sch := schema_of ty; m_direct := d; m_map := []; m_prev := None |}, [])
  | Update remote persist wire u, Res c :: rest =>
      match stored rest with
      | None => (m, [CL_SHAPE])
      | Some so =>
          let s := m_sch m in
          let l := match so with Some l => l | None => [] end in
          (* an update is applied when it persists and reported success; otherwise (no
             persistence, error, panic) the data must be what it was *)
          let applied := persist && N.eqb c 0 in
          let full := negb (m_direct m) && is_full persist u in
          (* an accepted remote write is judged by C04 (Spec/WriteSpec.v): here the data it
             leaves is taken as the new starting point of the fold; a rejected one is skipped *)
          let m' := if applied then (if remote then of_list s l else spec_apply s full u (m_map m)) else m_map m in
          let v :=
            (if same_map s l m' then [] else [CL_FOLD]) ++
            (if unique_ids s l then [] else [CL_UNIQUE]) ++
            (if ordered s l then [] else [CL_ORDER]) ++
            (match m_prev m with
             | Some (u', l') =>
                 if negb remote && applied && eqb_upd u u' && simple u && negb (eqb_items l l') then [CL_IDEM] else []
             | None => []
             end) in
          ({| m_sch := s; m_direct := m_direct m; m_map := m';
              m_prev := if negb remote && applied then Some (u, l) else None |}, v)
      end
  | Snapshot, [Store so] =>
      let l := match so with Some l => l | None => [] end in
      (m, if same_map (m_sch m) l (m_map m) then [] else [CL_FOLD])
  | _, _ => (m, [CL_SHAPE])
  end.

(* Scope of the proved theorem (DESIGN.md 2.4).  The rules are implemented for
   well-formed updates on well-formed schemas.  An update list that is not
   well-formed (repeated, missing, partially given or — in a full update —
   unordered identifiers; data that rewrites identifiers) is stored as it is:
   recorded finding, all four clauses are excused from then on until a well-formed
   full update replaces the data.  The same holds for remote writes (their effect is
   the subject of C04; here a rejected one must leave the data as it was, and an accepted
   one re-starts the fold from the data it leaves). *)
Record sst := { sc_sch : schema; sc_direct : bool; sc_oos : bool }.
Definition sinit : sst := {| sc_sch := empty_schema; sc_direct := false; sc_oos := true |}.

Definition scope (s : sst) (o : op) : sst :=
  match o with
  | Init ty d => {| sc_sch := schema_of ty; sc_direct := d; sc_oos := negb (wf_schema (schema_of ty)) |}
  | Update remote persist wire u =>
      let full := negb (sc_direct s) && is_full persist u in
      if negb persist then s
      else if wf_update (sc_sch s) full u then
        (if full then {| sc_sch := sc_sch s; sc_direct := sc_direct s; sc_oos := negb (wf_schema (sc_sch s)) |} else s)
      else if rejected_shape u then s
      else {| sc_sch := sc_sch s; sc_direct := sc_direct s; sc_oos := true |}
  | Snapshot => s
  end.

Definition excuses (s : sst) : list Z := if sc_oos s then [CL_FOLD; CL_UNIQUE; CL_ORDER; CL_IDEM] else [].

Fixpoint judge (m : mst) (s : sst) (tr : list (op * list obs)) : list (verdict * list Z) :=
  match tr with
  | [] => []
  | (o, out) :: r =>
      let '(m1, v) := mon m o out in
      let s1 := scope s o in
      (v, excuses s1) :: judge m1 s1 r
  end.

Definition accepted (j : list (verdict * list Z)) : bool :=
  forallb (fun ve => excused (fst ve) (snd ve)) j.

Definition strictly_accepted (j : list (verdict * list Z)) : bool :=
  forallb (fun ve => match fst ve with [] => true | _ => false end) j.
