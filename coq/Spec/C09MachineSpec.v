(* C09: the monitor the driver runs — Spec/C09Spec.v on the operations of Model/Stack.v,
   Spec/BindSchedSpec.v on the scheduled operations of Model/BindSched.v. *)
From Verif Require Import Base.Prelude Base.Machine Model.C09Machine.
From Verif Require Model.Stack Spec.C09Spec Spec.BindSchedSpec Spec.StackXSpec.

Definition cmst : Type := C09Spec.mst * BindSchedSpec.mst.
Definition cminit : cmst := (C09Spec.minit, BindSchedSpec.minit).

Definition cmon (m : cmst) (o : cop) (out : list cobs) : cmst * verdict :=
  match o with
  | CStack o' =>
      match stack_obs out with
      | Some l => let '(m1, v) := StackXSpec.xmon C09Spec.mon (fst m) o' l in ((m1, snd m), v)
      | None => (m, [V_BADOBS])
      end
  | CWire p =>
      (* the binding list reported to the peer over the wire is judged like the listing of the
         registry: exactly the peer's bindings, each with a distinct id *)
      match stack_obs out with
      | Some l => let '(m1, v) := C09Spec.mon (fst m) (Stack.ListBinds p) l in ((m1, snd m), v)
      | None => (m, [V_BADOBS])
      end
  | CSched o' =>
      match sched_obs out with
      | Some l => let '(m1, v) := BindSchedSpec.mon (snd m) o' l in ((fst m, m1), v)
      | None => (m, [V_BADOBS])
      end
  end.

(* nothing is excused *)
Definition sst := unit.
Definition sinit : sst := tt.
Definition scope (s : sst) (o : cop) : sst := tt.
Definition excuses (s : sst) : list Z := [].

Fixpoint cjudge (m : cmst) (tr : list (cop * list cobs)) : list verdict :=
  match tr with
  | [] => []
  | (o, out) :: r => let '(m1, v) := cmon m o out in v :: cjudge m1 r
  end.

Definition accepted (j : list verdict) : bool := forallb (fun v => match v with [] => true | _ => false end) j.
