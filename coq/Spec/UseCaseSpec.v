(* C20 — the property as a trace monitor.  It sees operations and observations only.

   The specification is a map  (entity, actor, name) -> support (version, sub-revision,
   availability, scenarios)  updated when an operation *returns* (its End step is observed
   as Done): add = set the key, remove = delete the key, set-availability = update the
   key if present, remove-all / RemoveEntity = delete every key of the entity.
   Clauses:
     HAS        HasUseCaseSupport differs from "the key is in the map"
     REGISTRY   the function data after a completed operation does not denote the map
     READ       the reply to a peer's read does not denote the map
     ISOLATION  a completed operation on entity e changed an entry of another entity
   "Denotes": every listed (entity, actor, name, values) is in the map with these values
   and every key of the map is listed with its values.  Because the map is updated in
   completion order, acceptance of a concurrent history means: after every completed
   operation the registry equals the specification of the sequential order in which the
   operations completed, which contains every completed operation (no lost update). *)
From Verif Require Import Base.Prelude Model.UseCase.

Definition CL_HAS : Z := 1.
Definition CL_REGISTRY : Z := 2.
Definition CL_READ : Z := 3.
Definition CL_ISOLATION : Z := 4.
Definition CL_SHAPE : Z := 5.

(* ---- the specification map ---- *)
Definition key := (N * N * N)%type.
Definition key_eqb (k k' : key) : bool :=
  let '(e, a, n) := k in let '(e', a', n') := k' in N.eqb e e' && N.eqb a a' && N.eqb n n'.
Definition reg := list (key * support).

Fixpoint reg_lookup (k : key) (r : reg) : option support :=
  match r with
  | [] => None
  | (k', v) :: r' => if key_eqb k k' then Some v else reg_lookup k r'
  end.

Definition reg_remove (k : key) (r : reg) : reg := filter (fun kv => negb (key_eqb k (fst kv))) r.
Definition key_ent (k : key) : N := fst (fst k).

Definition spec_apply (r : reg) (u : uop) : reg :=
  match u with
  | UAdd e a s => ((e, a, s_name s), s) :: reg_remove (e, a, s_name s) r
  | URemove e a n => reg_remove (e, a, n) r
  | USetAvail e a n av =>
      match reg_lookup (e, a, n) r with
      | Some s => ((e, a, n), with_avail s av) :: reg_remove (e, a, n) r
      | None => r
      end
  | URemoveAll e | URemoveEntity e => filter (fun kv => negb (N.eqb (key_ent (fst kv)) e)) r
  end.

(* ---- comparing announced data with the map ---- *)
Fixpoint eqb_Ns (a b : list N) : bool :=
  match a, b with
  | [], [] => true
  | x :: a', y :: b' => N.eqb x y && eqb_Ns a' b'
  | _, _ => false
  end.

Definition sup_eqb (s s' : support) : bool :=
  N.eqb (s_name s) (s_name s') && N.eqb (s_ver s) (s_ver s') && N.eqb (s_sub s) (s_sub s') &&
  Bool.eqb (s_avail s) (s_avail s') && eqb_Ns (s_scen s) (s_scen s').

Definition osup_eqb (a b : option support) : bool :=
  match a, b with
  | Some s, Some s' => sup_eqb s s'
  | None, None => true
  | _, _ => false
  end.

Fixpoint sup_find (n : N) (l : list support) : option support :=
  match l with
  | [] => None
  | x :: r => if named n x then Some x else sup_find n r
  end.

(* what the announced list says about (e, a, n): the first entry of (e, a) that holds n *)
Fixpoint listed (l : list info) (k : key) : option support :=
  match l with
  | [] => None
  | i :: r =>
      let '(e, a, n) := k in
      if same_ea e a i
      then match sup_find n (i_sups i) with Some s => Some s | None => listed r k end
      else listed r k
  end.

Definition denotes (l : list info) (r : reg) : bool :=
  forallb (fun i => forallb (fun s => osup_eqb (reg_lookup (i_ent i, i_actor i, s_name s) r) (Some s)) (i_sups i)) l &&
  forallb (fun kv => osup_eqb (listed l (fst kv)) (reg_lookup (fst kv) r)) r.

(* parse RInfo/RSup/REnd back into the announced list: (supports before the first RInfo, entries) *)
Fixpoint parse_dump (out : list obs) : option (list support * list info) :=
  match out with
  | [] => None
  | REnd :: r => match r with [] => Some ([], []) | _ => None end
  | RSup s :: r => match parse_dump r with Some (ss, l) => Some (s :: ss, l) | None => None end
  | RInfo e a :: r =>
      match parse_dump r with
      | Some (ss, l) => Some ([], {| i_ent := e; i_actor := a; i_sups := ss |} :: l)
      | None => None
      end
  | _ => None
  end.

Definition parse_list (out : list obs) : option (list info) :=
  match parse_dump out with Some ([], l) => Some l | _ => None end.

(* entries of entities other than e, for the isolation clause *)
Definition others (e : N) (l : list info) : list info := filter (fun i => negb (N.eqb (i_ent i) e)) l.

Fixpoint eqb_sups (a b : list support) : bool :=
  match a, b with
  | [], [] => true
  | x :: a', y :: b' => sup_eqb x y && eqb_sups a' b'
  | _, _ => false
  end.

Fixpoint eqb_infos (a b : list info) : bool :=
  match a, b with
  | [], [] => true
  | x :: a', y :: b' =>
      N.eqb (i_ent x) (i_ent y) && N.eqb (i_actor x) (i_actor y) && eqb_sups (i_sups x) (i_sups y) && eqb_infos a' b'
  | _, _ => false
  end.

Record mst := {
  m_reg : reg;                     (* the specification map *)
  m_pend : list (N * uop);         (* operations started and not yet returned *)
  m_log : list uop;                (* completed operations, newest first *)
  m_last : list info               (* the function data after the last completed operation *)
}.

Definition minit : mst := {| m_reg := []; m_pend := []; m_log := []; m_last := [] |}.

(* Done may be followed by "waiter t2 acquired the mutex", then the data *)
Definition split_acq (rest : list obs) : option N * list obs :=
  match rest with
  | Acquired t2 :: d => (Some t2, d)
  | d => (None, d)
  end.

Definition mon (m : mst) (o : op) (out : list obs) : mst * verdict :=
  match o with
  | Begin t u =>
      match assoc_N t (m_pend m), out with
      | Some _, [Busy] => (m, [])
      | None, [Parked] | None, [Blocked] =>
          ({| m_reg := m_reg m; m_pend := (t, u) :: m_pend m; m_log := m_log m; m_last := m_last m |}, [])
      | _, _ => (m, [CL_SHAPE])
      end
  | End t =>
      match out with
      | [NotRunnable] => (m, [])
      | Done :: rest =>
          match assoc_N t (m_pend m) with
          | None => (m, [CL_SHAPE])
          | Some u =>
              let r1 := spec_apply (m_reg m) u in
              let pend1 := remove_N t (m_pend m) in
              let '(acq, dump) := split_acq rest in
              let vacq := match acq with
                          | Some t2 => match assoc_N t2 pend1 with Some _ => [] | None => [CL_SHAPE] end
                          | None => []
                          end in
              match parse_list dump with
              | None => ({| m_reg := r1; m_pend := pend1; m_log := u :: m_log m; m_last := m_last m |}, [CL_SHAPE])
              | Some l =>
                  ({| m_reg := r1; m_pend := pend1; m_log := u :: m_log m; m_last := l |},
                   vacq ++
                   (if denotes l r1 then [] else [CL_REGISTRY]) ++
                   (if eqb_infos (others (ent_of u) l) (others (ent_of u) (m_last m)) then [] else [CL_ISOLATION]))
              end
          end
      | _ => (m, [CL_SHAPE])
      end
  | Has e a n =>
      match out with
      | [HasR b] =>
          (m, if Bool.eqb b (match reg_lookup (e, a, n) (m_reg m) with Some _ => true | None => false end)
              then [] else [CL_HAS])
      | _ => (m, [CL_SHAPE])
      end
  | Read =>
      match parse_list out with
      | Some l => (m, if denotes l (m_reg m) then [] else [CL_READ])
      | None => (m, [CL_SHAPE])
      end
  | Par2 u1 u2 =>
      (* both operations have returned: the data denotes the map after both (for the different
         entities the harness uses, either completion order gives the same map), and entries of
         third entities are untouched *)
      match out with
      | [NotRunnable] => (m, [])
      | Done :: dump =>
          let r1 := spec_apply (spec_apply (m_reg m) u1) u2 in
          match parse_list dump with
          | None => ({| m_reg := r1; m_pend := m_pend m; m_log := u2 :: u1 :: m_log m; m_last := m_last m |}, [CL_SHAPE])
          | Some l =>
              ({| m_reg := r1; m_pend := m_pend m; m_log := u2 :: u1 :: m_log m; m_last := l |},
               (if denotes l r1 then [] else [CL_REGISTRY]) ++
               (if eqb_infos (others (ent_of u2) (others (ent_of u1) l))
                             (others (ent_of u2) (others (ent_of u1) (m_last m))) then [] else [CL_ISOLATION]))
          end
      | _ => (m, [CL_SHAPE])
      end
  end.

(* nothing is excused: no recorded finding for C20 *)
Definition sst := unit.
Definition sinit : sst := tt.
Definition scope (s : sst) (o : op) : sst := tt.
Definition excuses (s : sst) : list Z := [].

Fixpoint judge (m : mst) (s : sst) (tr : list (op * list obs)) : list (verdict * list Z) :=
  match tr with
  | [] => []
  | (o, out) :: r =>
      let '(m1, v) := mon m o out in
      let s1 := scope s o in
      (v, excuses s1) :: judge m1 s1 r
  end.

(* the monitor's state after a trace *)
Fixpoint mrun (m : mst) (tr : list (op * list obs)) : mst :=
  match tr with
  | [] => m
  | (o, out) :: r => mrun (fst (mon m o out)) r
  end.

Definition accepted (j : list (verdict * list Z)) : bool :=
  forallb (fun ve => excused (fst ve) (snd ve)) j.

Definition strictly_accepted (j : list (verdict * list Z)) : bool :=
  forallb (fun ve => match fst ve with [] => true | _ => false end) j.
