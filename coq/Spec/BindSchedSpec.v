(* C09, interleaving clause — the property as a trace monitor over the operations of
   Model/BindSched.v.  A binding request is judged at the moment it completes (at Begin
   when part (1) already refuses, otherwise at End): it is granted exactly when server and
   client feature exist with the right roles and type and the server feature has no binding
   at that moment.  The monitor keeps its own registry of (server feature, peer, client
   feature) triples and the set of requests in flight; it never sees the model's state. *)
From Verif Require Import Base.Prelude Model.Stack Model.BindSched.

Definition CS_GRANT : Z := 11.    (* a completed request is not answered by the grant rule (e.g. second binding granted) *)
Definition CS_SINGLE : Z := 12.   (* a server feature has more than one binding *)
Definition CS_EXACT : Z := 13.    (* BindingsOnFeature / listing differ from the registry of granted bindings, ids not distinct *)
Definition CS_DELETE : Z := 14.   (* outcome of a delete differs from the rule *)
Definition CS_SCHED : Z := 15.    (* the step is not what the schedule asked for (thread bookkeeping) *)

Record mst := { sreg : list (N * N * N); pend : list (N * req) }.   (* (server, peer, client) *)
Definition minit : mst := {| sreg := []; pend := [] |}.

Definition eqb3 (a b : N * N * N) : bool :=
  let '(x, y, z) := a in let '(x', y', z') := b in N.eqb x x' && N.eqb y y' && N.eqb z z'.
Definition on3 (f : N) (a : N * N * N) : bool := N.eqb (fst (fst a)) f.

Definition eqb_sobs (a b : obs) : bool :=
  match a, b with
  | Parked, Parked | Busy, Busy | NotRunnable, NotRunnable | Dropped, Dropped => true
  | Res p e, Res p' e' => N.eqb p p' && Bool.eqb e e'
  | EvAdd p s c, EvAdd p' s' c' | EvRem p s c, EvRem p' s' c' | Ent p s c, Ent p' s' c' => N.eqb p p' && N.eqb s s' && N.eqb c c'
  | Cnt n, Cnt n' | Other n, Other n' => N.eqb n n'
  | RaceOut a b c d, RaceOut a' b' c' d' => N.eqb a a' && N.eqb b b' && N.eqb c c' && N.eqb d d'
  | _, _ => false
  end.

Fixpoint eqb_sobs_list (a b : list obs) : bool :=
  match a, b with
  | [], [] => true
  | x :: a', y :: b' => eqb_sobs x y && eqb_sobs_list a' b'
  | _, _ => false
  end.

Definition chk (b : bool) (c : Z) : verdict := if b then [] else [c].

Definition srv_ok (q : req) : bool :=
  match srv_feat (q_srv q) with Some (r, ty) => role_type_ok r ty RServer (q_typ q) | None => false end.
Definition cli_ok (q : req) : bool :=
  match cli_feat (q_cli q) with Some (r, ty) => role_type_ok r ty RClient (q_typ q) | None => false end.

(* the grant rule at this moment *)
Definition grantable (m : mst) (q : req) : bool :=
  srv_ok q && cli_ok q && negb (existsb (on3 (q_srv q)) (sreg m)).

(* a request completes with observations [out] *)
Definition complete (m : mst) (pd : list (N * req)) (q : req) (out : list obs) : mst * verdict :=
  if grantable m q
  then ({| sreg := sreg m ++ [(q_srv q, q_peer q, q_cli q)]; pend := pd |},
        chk (eqb_sobs_list out [EvAdd (q_peer q) (q_srv q) (q_cli q); Res (q_peer q) false]) CS_GRANT)
  else ({| sreg := sreg m; pend := pd |}, chk (eqb_sobs_list out [Res (q_peer q) true]) CS_GRANT).

Fixpoint nodupN (l : list N) : bool := match l with [] => true | x :: r => negb (memN x r) && nodupN r end.

Definition mon (m : mst) (o : op) (out : list obs) : mst * verdict :=
  match o with
  | Begin t q =>
      if existsb (fun x => N.eqb (fst x) t) (pend m) then (m, chk (eqb_sobs_list out [Busy]) CS_SCHED) else
      if negb (known_peer (q_peer q)) then (m, chk (eqb_sobs_list out [Dropped]) CS_SCHED) else
      if eqb_sobs_list out [Parked]
      then ({| sreg := sreg m; pend := pend m ++ [(t, q)] |}, [])
      else complete m (pend m) q out
  | End t =>
      match find (fun x => N.eqb (fst x) t) (pend m) with
      | None => (m, chk (eqb_sobs_list out [NotRunnable]) CS_SCHED)
      | Some (_, q) => complete m (filter (fun x => negb (N.eqb (fst x) t)) (pend m)) q out
      end
  | Unbind p srv cli =>
      if negb (known_peer p) then (m, chk (eqb_sobs_list out [Dropped]) CS_SCHED) else
      let role_ok := match cli_feat cli, srv_feat srv with
                     | Some _, Some (r, ty) => role_type_ok r ty RServer ty
                     | _, _ => false
                     end in
      if role_ok && existsb (eqb3 (srv, p, cli)) (sreg m)
      then ({| sreg := filter (fun x => negb (eqb3 (srv, p, cli) x)) (sreg m); pend := pend m |},
            chk (eqb_sobs_list out [EvRem p srv cli; Res p false]) CS_DELETE)
      else (m, chk (eqb_sobs_list out [Res p true]) CS_DELETE)
  | ListB p =>
      let mine := filter (fun x => N.eqb (snd (fst x)) p) (sreg m) in
      let seen := flat_map (fun x => match x with Ent _ s c => [(s, p, c)] | _ => [] end) out in
      let ids := flat_map (fun x => match x with Ent i _ _ => [i] | _ => [] end) out in
      (m, chk (Nat.eqb (length out) (length seen) &&
               Nat.eqb (length seen) (length mine) &&
               forallb (fun x => existsb (eqb3 x) seen) mine &&
               nodupN ids) CS_EXACT)
  | Race n q1 q2 =>
      (* n rounds of two free-running requests of different peers for one server feature; after
         every round the bindings granted in it are deleted again.  Per round exactly one request
         is granted iff the feature is unbound and at least one request is valid by the grant rule,
         the other one is refused, and at no time the feature has more than one binding *)
      if negb (race_ok q1 q2) then (m, chk (eqb_sobs_list out [NotRunnable]) CS_SCHED) else
      let g := if negb (existsb (on3 (q_srv q1)) (sreg m)) && ((srv_ok q1 && cli_ok q1) || (srv_ok q2 && cli_ok q2))
               then 1%N else 0%N in
      (m, match out with
          | [RaceOut n' gr rf ov] =>
              chk (N.eqb n' n) CS_SCHED ++
              chk (N.eqb gr (n * g) && N.eqb rf (n * (2 - g))) CS_GRANT ++
              chk (N.eqb ov 0) CS_SINGLE
          | _ => [CS_SCHED]
          end)
  | OnFeat f =>
      let n := N.of_nat (length (filter (on3 f) (sreg m))) in
      (m, match out with
          | [Cnt k] => chk (N.leb k 1) CS_SINGLE ++ chk (N.eqb k n) CS_EXACT
          | _ => [CS_EXACT]
          end)
  end.

Fixpoint judge (m : mst) (tr : list (op * list obs)) : list verdict :=
  match tr with
  | [] => []
  | (o, out) :: r => let '(m1, v) := mon m o out in v :: judge m1 r
  end.

Definition accepted (j : list verdict) : bool := forallb (fun v => match v with [] => true | _ => false end) j.
