(* The specification-side binding registry shared by the monitors of C09 (exact binding
   registry) and C03 (remote write gate): a list of (server feature, peer, client address)
   triples and the operations the monitors apply to it.  Nothing here looks at the model's
   registries. *)
From Verif Require Import Base.Prelude Model.Stack Spec.StackObs.

Record bentry := { b_srv : eaddr * N; b_ski : N; b_cli : faddr }.

Definition eqb_srv (a b : eaddr * N) : bool := eqb_eaddr (fst a) (fst b) && N.eqb (snd a) (snd b).
Definition eqb_bentry (a b : bentry) : bool :=
  eqb_srv (b_srv a) (b_srv b) && N.eqb (b_ski a) (b_ski b) && eqb_faddr (b_cli a) (b_cli b).

(* the key of a local feature, and "entry x is a binding on that feature" *)
Definition srv_of (sf : lfeat) : eaddr * N := (lf_ent sf, lf_id sf).
Definition on_srv (k : eaddr * N) (x : bentry) : bool := eqb_srv (b_srv x) k.

(* the addressed binding of a delete call of connection [p]: ITS entry with client address [ca] on
   server feature [k]; entries of other connections are never addressed, whatever their address *)
Definition hit (p : N) (ca : faddr) (k : eaddr * N) (x : bentry) : bool :=
  N.eqb (b_ski x) p && eqb_faddr (b_cli x) ca && on_srv k x.

(* is the sender's node-management feature announced? (otherwise the datagram is dropped) *)
Definition sender_known (wd : st) (p : N) : option peer :=
  match find_peer wd p with
  | Some pe => match remote_feature pe (nm_addr None) with Some _ => Some pe | None => None end
  | None => None
  end.

(* the result datagrams a node-management call must produce *)
Definition expect_result (p ctr : N) (ack err : bool) : list (N * N * bool) :=
  if err then [(p, ctr, true)] else if ack then [(p, ctr, false)] else [].

(* teardown: a removed connection takes all its entries with it, a removed entity (as
   announced by an entity-removed event) the entries of its features *)
Definition drop_peer (p : N) (r : list bentry) : list bentry := filter (fun x => negb (N.eqb (b_ski x) p)) r.

Definition gone_seen (out : list obs) : list eaddr :=
  flat_map (fun x => match x with OEvent EvEntity ChRemove _ (Some e) _ _ => [e] | _ => [] end) out.

Definition drop_gone (p : N) (g : list eaddr) (r : list bentry) : list bentry :=
  filter (fun x => negb (N.eqb (b_ski x) p && existsb (eqb_eaddr (fa_ent (b_cli x))) g)) r.

(* a discovery reply of p: it completes the address of the node-management feature it came in
   through (entries of p made through that feature before carry the device address from now on,
   Spec/StackObs.v nm_completion) and removes the entities it no longer lists *)
Definition complete_bentry (p d : N) (x : bentry) : bentry :=
  if N.eqb (b_ski x) p then {| b_srv := b_srv x; b_ski := b_ski x; b_cli := complete_cli d (b_cli x) |} else x.

Definition after_reply (wd : st) (p : N) (dm : disc_msg) (out : list obs) (r : list bentry) : list bentry :=
  drop_gone p (gone_seen out)
    (match nm_completion wd p dm out with Some d => map (complete_bentry p d) r | None => r end).

(* at most one binding per server feature *)
Fixpoint singleb (r : list bentry) : bool :=
  match r with
  | [] => true
  | x :: t => negb (existsb (on_srv (b_srv x)) t) && singleb t
  end.

(* listings *)
Definition entries_seen (p : N) (out : list obs) : list bentry :=
  flat_map (fun x => match x with
                     | OEntry _ srv cli => [ {| b_srv := (fa_ent srv, match fa_feat srv with Some f => f | None => 0%N end);
                                               b_ski := p; b_cli := cli |} ]
                     | _ => []
                     end) out.
Definition ids_seen (out : list obs) : list N := flat_map (fun x => match x with OEntry id _ _ => [id] | _ => [] end) out.

Definition listing_ok (mine : list bentry) (p : N) (out : list obs) : bool :=
  let seen := entries_seen p out in
  same_multiset eqb_bentry mine seen &&
  Nat.eqb (length out) (length seen) &&
  forallb (fun x => match x with OEntry _ srv _ => eqb_optN (fa_dev srv) (Some LOCAL_DEV) | _ => true end) out &&
  nodupb (ids_seen out).
