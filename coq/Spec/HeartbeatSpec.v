(* C16 — the property as a trace monitor.  It sees operations and observations only (from the
   model in the theorems, from the real HeartbeatManager in the harness).

   What it keeps: which calls are in progress and at which hook they are parked, the stream that
   is the running heartbeat ([m_cur]: set when a StartHeartbeat passes `go`, cleared when a
   goroutine passes the `close` of a stop), whether one refresh may still be in flight
   ([m_allow]: set by every close), the last counter, the expected data, whether the peer is
   subscribed, the announced timeout.

   Clauses
     PANIC    a call or a stream panicked (close of closed channel, nil feature)
     COUNTER  a refresh does not carry a counter greater than every earlier one
     NOTIFY   a refresh was not notified exactly once to the subscribed peer (or was notified to
              a peer that is not subscribed)
     STREAMS  two concurrent streams: a stream was started while another one was running and
              not stopped, or a stream other than the running one keeps refreshing
     SILENCE  after the heartbeat was stopped (StopHeartbeat / RemoveEntity / the stop inside
              StartHeartbeat passed its close) more than one refresh of a stopped stream arrived, or
              StopHeartbeat / RemoveEntity returned while the started stream was never stopped
     PERIOD   the running stream does not refresh when its ticker is due, or the measured
              period is not in (0, announced timeout], or a gap exceeded the timeout
     FRESH    the timestamp is not current or the data does not announce the entity's timeout
     RUNNING  IsHeartbeatRunning, with no other call in progress, differs from "a stream is running"
     DATA     the stored data is not the last refresh (changed without a refresh, or lost)
     SHAPE    malformed observation list
     STUCK    a call never returned although no goroutine holds stopMux, or a resumed stream neither
              refreshed nor exited (something keeps a lock for ever) *)
From Verif Require Import Base.Prelude Model.Heartbeat.

Definition CL_PANIC : Z := 1.
Definition CL_COUNTER : Z := 2.
Definition CL_NOTIFY : Z := 3.
Definition CL_STREAMS : Z := 4.
Definition CL_SILENCE : Z := 5.
Definition CL_PERIOD : Z := 6.
Definition CL_FRESH : Z := 7.
Definition CL_RUNNING : Z := 8.
Definition CL_DATA : Z := 9.
Definition CL_SHAPE : Z := 10.
Definition CL_STUCK : Z := 11.

Record mst := {
  m_conf : bool;
  m_tmo : Z;
  m_pend : list (N * (call * N));   (* calls in progress: 0 waits for the mutex, 1 / 2 parked at that hook *)
  m_cur : option N;
  m_allow : bool;
  m_last : N;
  m_data : option N;
  m_subs : bool;
  m_feat : bool
}.

Definition minit : mst :=
  {| m_conf := false; m_tmo := default_tmo; m_pend := []; m_cur := None; m_allow := false; m_last := 0;
     m_data := None; m_subs := false; m_feat := false |}.

Definition with_pend (m : mst) (p : list (N * (call * N))) : mst :=
  {| m_conf := m_conf m; m_tmo := m_tmo m; m_pend := p; m_cur := m_cur m; m_allow := m_allow m; m_last := m_last m;
     m_data := m_data m; m_subs := m_subs m; m_feat := m_feat m |}.

Definition with_cur (m : mst) (c : option N) (a : bool) : mst :=
  {| m_conf := m_conf m; m_tmo := m_tmo m; m_pend := m_pend m; m_cur := c; m_allow := a; m_last := m_last m;
     m_data := m_data m; m_subs := m_subs m; m_feat := m_feat m |}.

Definition with_subs (m : mst) (b : bool) : mst :=
  {| m_conf := m_conf m; m_tmo := m_tmo m; m_pend := m_pend m; m_cur := m_cur m; m_allow := m_allow m; m_last := m_last m;
     m_data := m_data m; m_subs := b; m_feat := m_feat m |}.

Definition with_feat (m : mst) : mst :=
  {| m_conf := m_conf m; m_tmo := m_tmo m; m_pend := m_pend m; m_cur := m_cur m; m_allow := m_allow m; m_last := m_last m;
     m_data := m_data m; m_subs := m_subs m; m_feat := true |}.

Definition with_conf (m : mst) (t : Z) : mst :=
  {| m_conf := true; m_tmo := t; m_pend := m_pend m; m_cur := m_cur m; m_allow := m_allow m; m_last := m_last m;
     m_data := m_data m; m_subs := m_subs m; m_feat := m_feat m |}.

Definition eqb_oN (a b : option N) : bool :=
  match a, b with
  | Some x, Some y => N.eqb x y
  | None, None => true
  | _, _ => false
  end.

Definition is_some {A} (o : option A) : bool := match o with Some _ => true | None => false end.

(* one refresh, by stream [src] or (None) by AddFunctionType itself *)
Definition judge_refresh (m : mst) (src : option N) (c n : N) (fresh : bool) (t : Z) : mst * verdict :=
  let '(v, a) :=
    match src with
    | None => ([], m_allow m)
    | Some g =>
        if eqb_oN (Some g) (m_cur m) then ([], m_allow m)
        else if m_allow m then ([], false)
        else ((if is_some (m_cur m) then [CL_STREAMS] else [CL_SILENCE]), false)
    end in
  ({| m_conf := m_conf m; m_tmo := m_tmo m; m_pend := m_pend m; m_cur := m_cur m; m_allow := a; m_last := c;
      m_data := Some c; m_subs := m_subs m; m_feat := m_feat m |},
   v ++ (if N.ltb (m_last m) c then [] else [CL_COUNTER])
     ++ (if N.eqb n (if m_subs m then 1 else 0) then [] else [CL_NOTIFY])
     ++ (if fresh && Z.eqb t (m_tmo m) then [] else [CL_FRESH])).

(* record thread t at hook h (in place when it is already listed) *)
Fixpoint upd_pend (t : N) (v : call * N) (l : list (N * (call * N))) : list (N * (call * N)) :=
  match l with
  | [] => [(t, v)]
  | (t', v') :: r => if N.eqb t t' then (t, v) :: r else (t', v') :: upd_pend t v r
  end.

Definition is_start (c : call) : bool := match c with CStart | CAddFn => true | _ => false end.
Definition is_query (c : call) : bool := match c with CIsRunning => true | _ => false end.
Definition shape (b : bool) : verdict := if b then [] else [CL_SHAPE].

(* thread t runs call c inside its critical section: what it did, and the observations that follow its return *)
Definition advance (m : mst) (t : N) (c : call) (outs : list obs) : mst * verdict * list obs :=
  match outs with
  | Parked h :: rest =>
      (with_pend m (upd_pend t (c, h) (m_pend m)),
       shape ((N.eqb h 1 && negb (is_query c)) || (N.eqb h 2 && is_start c)) ++ shape (match rest with [] => true | _ => false end), [])
  | RetB b :: rest =>
      let p := remove_N t (m_pend m) in
      (with_pend m p,
       shape (is_query c) ++
       (match p with [] => if Bool.eqb b (is_some (m_cur m)) then [] else [CL_RUNNING] | _ => [] end), rest)
  | Started g :: Done :: rest =>
      (with_cur (with_pend m (remove_N t (m_pend m))) (Some g) (m_allow m),
       shape (is_start c) ++ (if is_some (m_cur m) then [CL_STREAMS] else []), rest)
  | Done :: rest =>
      (* StopHeartbeat / RemoveEntity returned: whichever way it took, no stream may be the running one now *)
      (with_pend m (remove_N t (m_pend m)),
       shape (negb (is_query c) && negb (is_start c)) ++ (if is_some (m_cur m) then [CL_SILENCE] else []), rest)
  | Panic _ :: rest =>
      (with_pend m (remove_N t (m_pend m)), [CL_PANIC], rest)
  | _ => (m, [CL_SHAPE], [])
  end.

(* after a return stopMux is free: the waiter may have acquired it *)
Definition after_return (m : mst) (rest : list obs) : mst * verdict :=
  match rest with
  | [] => (m, [])
  | Acquired t2 :: rest2 =>
      match assoc_N t2 (m_pend m) with
      | Some (c2, 0%N) =>
          let '(m1, v, rest3) := advance m t2 c2 rest2 in
          (m1, v ++ shape (match rest3 with [] => true | _ => false end))
      | _ => (m, [CL_SHAPE])
      end
  | _ => (m, [CL_SHAPE])
  end.

Definition progress (m : mst) (t : N) (c : call) (outs : list obs) : mst * verdict :=
  let '(m1, v, rest) := advance m t c outs in
  let '(m2, v2) := after_return m1 rest in
  (m2, v ++ v2).

(* the part of a call that takes stopMux *)
Definition lock_part (m : mst) (t : N) (c : call) (outs : list obs) : mst * verdict :=
  match outs with
  | [Blocked] => (with_pend m (m_pend m ++ [(t, (c, 0%N))]), shape (match m_pend m with [] => false | _ => true end))
  | _ => progress m t c outs
  end.

Definition mon_call (m : mst) (t : N) (c : call) (outs : list obs) : mst * verdict :=
  match assoc_N t (m_pend m) with
  | Some _ => (m, shape (match outs with [Busy] => true | _ => false end))
  | None =>
      match outs with
      | [NotRunnable] => (m, shape (Nat.leb 2 (length (m_pend m))))
      | _ =>
          match c with
          | CStart =>
              match outs with
              | [ErrNoFeature] => (m, shape (negb (m_feat m)))
              | _ => lock_part m t c outs
              end
          | CAddFn =>
              if m_feat m then (m, shape (match outs with [Done] => true | _ => false end))
              else match outs with
                   | Refreshed k n f tm :: rest =>
                       let '(m1, v) := judge_refresh (with_feat m) None k n f tm in
                       let '(m2, v2) := lock_part m1 t c rest in
                       (m2, v ++ v2)
                   | _ => (m, [CL_SHAPE])
                   end
          | _ => lock_part m t c outs
          end
      end
  end.

Definition mon_resume (m : mst) (t : N) (outs : list obs) : mst * verdict :=
  match assoc_N t (m_pend m) with
  | Some (c, 1%N) =>
      match outs with
      | Panic _ :: _ => progress m t c outs
      | [NotRunnable] => (m, [CL_SHAPE])
      | _ => progress (with_cur m None true) t c outs    (* it passed close(stopHeartbeatC) *)
      end
  | Some (c, 2%N) =>
      match outs with
      | [NotRunnable] => (m, [CL_SHAPE])
      | _ => progress m t c outs
      end
  | _ => (m, shape (match outs with [NotRunnable] => true | _ => false end))
  end.

Definition mon_tick (m : mst) (g : N) (outs : list obs) : mst * verdict :=
  match outs with
  | [Refreshed c n f t] => judge_refresh m (Some g) c n f t
  | [Exited] | [NotRunnable] => (m, if eqb_oN (Some g) (m_cur m) then [CL_PERIOD] else [])
  | [Panic _] => (m, [CL_PANIC])
  | _ => (m, [CL_SHAPE])
  end.

(* the refreshes of a real-time run, then its timing *)
Fixpoint mon_run (m : mst) (g : N) (k : nat) (outs : list obs) : mst * verdict :=
  match outs with
  | Refreshed c n f t :: rest =>
      match k with
      | O => (m, [CL_SHAPE])
      | S k' =>
          let '(m1, v) := judge_refresh m (Some g) c n f t in
          let '(m2, v2) := mon_run m1 g k' rest in
          (m2, v ++ v2)
      end
  | [Timing p late] =>
      (m, shape (Nat.eqb k 0) ++
          (if Z.ltb 0 p && Z.leb p (m_tmo m) && N.eqb late 0 then [] else [CL_PERIOD]))
  | _ => (m, [CL_SHAPE])
  end.

Definition mon0 (m0 : mst) (o : op) (outs : list obs) : mst * verdict :=
  let m := with_conf m0 (m_tmo m0) in
  match o with
  | Setup t =>
      if m_conf m0 || bad_tmo t then (m, shape (match outs with [NotRunnable] => true | _ => false end))
      else (with_conf m0 (announced t), shape (match outs with [Ready] => true | _ => false end))
  | Call t c => mon_call m t c outs
  | Resume t => mon_resume m t outs
  | Tick g => mon_tick m g outs
  | Run g k =>
      if Nat.leb 2 k && Nat.leb k max_run then
        match outs with
        | Refreshed _ _ _ _ :: _ => mon_run m g k outs
        | _ => mon_tick m g outs
        end
      else (m, shape (match outs with [NotRunnable] => true | _ => false end))
  | First _ _ =>
      (* overlapped first use of fresh entities: every one runs afterwards, and stays stopped once stopped *)
      match outs with
      | [Firsted a b] =>
          (m, (if N.eqb a 0 then [] else [CL_RUNNING]) ++ (if N.eqb b 0 then [] else [CL_SILENCE]))
      | _ => (m, [CL_SHAPE])
      end
  | Burst _ k n =>
      (* k starts in a row leave exactly one stream: one stream refreshes during the free run, at the rate of
         one stream, with strictly increasing counters, each refresh notified once to the subscribed peer *)
      if burst_ok k n then
        match m_pend m with
        | _ :: _ => (m, shape (match outs with [NotRunnable] => true | _ => false end))
        | [] =>
            match outs with
            | [ErrNoFeature] => (m, shape (negb (m_feat m)))
            | [Bursted g live fast c nn mono] =>
                ({| m_conf := m_conf m; m_tmo := m_tmo m; m_pend := m_pend m; m_cur := Some g; m_allow := true;
                    m_last := c; m_data := Some c; m_subs := m_subs m; m_feat := m_feat m |},
                 (if N.eqb live 1 && negb fast then [] else [CL_STREAMS]) ++
                 (if N.leb (m_last m + N.of_nat n) c && mono then [] else [CL_COUNTER]) ++
                 (if N.eqb nn (N.of_nat n * (if m_subs m then 1 else 0)) then [] else [CL_NOTIFY]))
            | _ => (m, [CL_SHAPE])
            end
        end
      else (m, shape (match outs with [NotRunnable] => true | _ => false end))
  | Sub | Unsub =>
      match outs with
      | [SubR b] => (with_subs m b, [])
      | _ => (m, [CL_SHAPE])
      end
  | Read =>
      match outs with
      | [Data d] => (m, if eqb_oN d (m_data m) then [] else [CL_DATA])
      | _ => (m, [CL_SHAPE])
      end
  end.

Definition is_stuck (o : obs) : bool := match o with Stuck => true | _ => false end.

(* whatever the operation: an implementation that got stuck violates "may be called in any order" *)
Definition mon (m0 : mst) (o : op) (outs : list obs) : mst * verdict :=
  if existsb is_stuck outs then (with_conf m0 (m_tmo m0), [CL_STUCK]) else mon0 m0 o outs.

(* nothing is excused: no recorded finding for C16 *)
Definition sst := unit.
Definition sinit : sst := tt.
Definition scope (s : sst) (o : op) : sst := tt.
Definition excuses (s : sst) : list Z := [].

Fixpoint judge (m : mst) (s : sst) (tr : list (op * list obs)) : list (verdict * list Z) :=
  match tr with
  | [] => []
  | (o, out) :: r =>
      let '(m1, v) := mon m o out in
      let s1 := scope s o in
      (v, excuses s1) :: judge m1 s1 r
  end.

Fixpoint mrun (m : mst) (tr : list (op * list obs)) : mst :=
  match tr with
  | [] => m
  | (o, out) :: r => mrun (fst (mon m o out)) r
  end.

Definition accepted (j : list (verdict * list Z)) : bool :=
  forallb (fun ve => excused (fst ve) (snd ve)) j.

Definition strictly_accepted (j : list (verdict * list Z)) : bool :=
  forallb (fun ve => match fst ve with [] => true | _ => false end) j.

(* all violated clauses of a trace, for the refutation witnesses *)
Definition violated (j : list (verdict * list Z)) : list Z := flat_map fst j.
