(* C01 — every inbound request gets exactly the one correctly addressed response.

   The property as a table ([prescribed]) and as a trace monitor ([mon]).  The table is
   written from the property text: per classifier, which replies and results are due.  It
   reads the state only through lookups (does the destination exist, its role, which functions
   its type carries, the current data token, is the sender bound) and through the acceptance
   rules of the neighbouring properties (C02 update acceptance, C06 discovery notifications,
   C08 / C09 grant and delete rules), stated here as predicates over the registries — never
   through the dispatcher (process_cmd, fl_handle, nm_handle are not mentioned).

   The monitor carries a copy [w] of the model state that is advanced by the model's [step]
   on the operations only (never on the observations); how the state evolves is the business
   of C02 / C06 / C08 / C09 and of the correspondence check. *)
From Verif Require Import Base.Prelude Model.Dispatch.

Definition CL_EXACT : Z := 1.      (* the replies / results are not exactly the prescribed ones (kind, number, order, data) *)
Definition CL_PEER : Z := 2.       (* a reply / result was written to another peer *)
Definition CL_REF : Z := 3.        (* a response does not reference the request's message counter *)
Definition CL_DST : Z := 4.        (* a response is not addressed to the request's source feature *)
Definition CL_SRC : Z := 5.        (* a response does not name the addressed feature with the local device address as source *)
Definition CL_RESULT_FOR_RESULT : Z := 6.  (* a result was sent in answer to a result *)
Definition CL_STRAY : Z := 7.      (* a reply / result although no datagram came in *)

Inductive resp := RReply (fn v : N) | ROk | RErr.

Definition eqb_resp (a b : resp) : bool :=
  match a, b with
  | RReply f v, RReply f' v' => N.eqb f f' && N.eqb v v'
  | ROk, ROk | RErr, RErr => true
  | _, _ => false
  end.

Fixpoint eqb_resps (a b : list resp) : bool :=
  match a, b with
  | [], [] => true
  | x :: a', y :: b' => eqb_resp x y && eqb_resps a' b'
  | _, _ => false
  end.

(* ------------------------------------------------------------------ well-formedness *)
(* beyond what the datagram type enforces: a function data field names a data function (the node
   management fields and resultData have their own payload constructors) *)
Definition wf_dgram (d : dgram) : bool :=
  match d_body d with
  | BCmd _ (PData fn _) => N.leb 11 fn
  | BCmd _ (PResult _) => false       (* a resultData element belongs to the classifier result: no verdict *)
  | _ => true
  end.

(* ------------------------------------------------------------------ acceptance rules *)
Definition same_entry (sf : lfeat) (p : N) (cli : faddr) (x : entry) : bool :=
  same_srv x sf && N.eqb (e_ski x) p && eqb_faddr (e_cli x) cli.

(* C08: a subscription request is granted iff the server feature exists with server / special role and
   the requested type (or Generic), the client feature is announced by that peer with client / special
   role and that type (or Generic), and the pair is not subscribed yet *)
Definition sub_granted (s : st) (pe : peer) (c : reg_call) : bool :=
  match local_feature s (rc_srv c), remote_feature pe (rc_cli c) with
  | Some sf, Some (en, rf) =>
      role_type_ok (lf_role sf) (lf_type sf) RServer (rc_type c) &&
      role_type_ok (rf_role rf) (rf_type rf) RClient (rc_type c) &&
      negb (existsb (same_entry sf (p_ski pe) (rf_addr en rf)) (subs s))
  | _, _ => false
  end.

(* an entry named by a delete call: an entry of the calling connection (fix c14f34e) with that client
   address (device defaulted to the sender's) and server feature *)
Definition named_by (pe : peer) (c : reg_call) (sf : lfeat) (x : entry) : bool :=
  N.eqb (e_ski x) (p_ski pe) && eqb_faddr (e_cli x) (default_dev pe (rc_cli c)) && same_srv x sf.

(* C08: a delete succeeds iff both features exist and the named subscription exists *)
Definition sub_deletable (s : st) (pe : peer) (c : reg_call) : bool :=
  match local_feature s (rc_srv c), remote_feature pe (rc_cli c) with
  | Some sf, Some _ => existsb (named_by pe c sf) (subs s)
  | _, _ => false
  end.

Definition bound (s : st) (sf : lfeat) (cli : faddr) : bool :=
  existsb (fun x => same_srv x sf && eqb_faddr (e_cli x) cli) (binds s).

(* C09: as a subscription, and the server feature has no binding yet *)
Definition bind_granted (s : st) (pe : peer) (c : reg_call) : bool :=
  match local_feature s (rc_srv c), remote_feature pe (rc_cli c) with
  | Some sf, Some (en, rf) =>
      role_type_ok (lf_role sf) (lf_type sf) RServer (rc_type c) &&
      role_type_ok (rf_role rf) (rf_type rf) RClient (rc_type c) &&
      negb (existsb (fun x => same_srv x sf) (binds s))
  | _, _ => false
  end.

(* C09: the server feature is a server, the announced client feature is bound to it, and the call names that binding *)
Definition bind_deletable (s : st) (pe : peer) (c : reg_call) : bool :=
  match local_feature s (rc_srv c), remote_feature pe (rc_cli c) with
  | Some sf, Some (en, rf) =>
      (eqb_role (lf_role sf) RSpecial || eqb_role (lf_role sf) RServer) &&
      bound s sf (rf_addr en rf) &&
      existsb (named_by pe c sf) (binds s)
  | _, _ => false
  end.

(* C06: a (partial) detailed discovery notification is accepted iff it lists at least one entity and
   every entry carries its state change and a non-empty entity address, does not remove the device
   information entity, and names no other device than the sender's *)
Definition disc_notify_ok (pe : peer) (m : disc_msg) : bool :=
  match dm_ents m with
  | [] => false
  | l => forallb (fun de => match de_state de with Some _ => true | None => false end && check_entity false pe de) l
  end.

(* C06: a detailed discovery reply is accepted iff every entry carries a non-empty entity address *)
Definition disc_reply_ok (m : disc_msg) : bool :=
  forallb (fun de => match de_addr de with [] => false | _ => true end) (dm_ents m).

Definition writable (lf : lfeat) (fn : N) : bool :=
  match assoc_N fn (lf_ops lf) with
  | Some (_, wr) => wr
  | None => false
  end.

(* was the call / reply / notify / write accepted? *)
Definition accepted (s : st) (pe : peer) (en : rent) (rf : rfeat) (lf : lfeat) (c : cls) (pl : payload) : bool :=
  if is_nm lf then
    (* node management: the calls and data it implements *)
    match c, pl with
    | CCall, PSubReq rc => sub_granted s pe rc
    | CCall, PSubDel rc => sub_deletable s pe rc
    | CCall, PBindReq rc => bind_granted s pe rc
    | CCall, PBindDel rc => bind_deletable s pe rc
    | CCall, PSubData | CCall, PBindData => true
    | CReply, PDiscovery m => disc_reply_ok m
    | CNotify, PDiscovery m => disc_notify_ok pe m
    | CReply, PUseCase _ | CNotify, PUseCase _ => true
    | _, _ => false
    end
  else
    match c with
    | CReply =>
        (* C02: the replica of the sending feature carries that function *)
        fn_registered (rf_type rf) (pl_fn pl)
    | CNotify =>
        (* and, for a notification carrying the partial filter, its type supports partial updates
           (detailed discovery data, the only such payload here, does not) *)
        fn_registered (rf_type rf) (pl_fn pl) && negb (partial_payload pl)
    | CWrite =>
        (* C03: function writable on this feature, sender bound, function data present *)
        writable lf (pl_fn pl) && bound s lf (rf_addr en rf) && fn_registered (lf_type lf) (pl_fn pl)
    | _ => false
    end.

(* the data a request is to be answered with: a read of a function the feature type carries, on
   a server / special feature; and the two entry lists node management serves on `call` *)
Definition current (s : st) (p : N) (lf : lfeat) (fn : N) : N :=
  if is_nm lf && (N.eqb fn FN_DISC || N.eqb fn FN_DEST) then 0    (* content: C07 *)
  else data_of lf fn.

Definition answer (s : st) (p : N) (lf : lfeat) (c : cls) (pl : payload) : option (N * N) :=
  match c with
  | CRead =>
      if negb (eqb_role (lf_role lf) RClient) && fn_registered (lf_type lf) (pl_fn pl)
      then Some (pl_fn pl, current s p lf (pl_fn pl)) else None
  | CCall =>
      if is_nm lf then
        match pl with
        | PSubData => Some (FN_SUBDATA, count_of p (subs s))
        | PBindData => Some (FN_BINDDATA, count_of p (binds s))
        | _ => None
        end
      else None
  | _ => None
  end.

(* C02 / C04: an admitted write is still rejected by the data model when it asks for a partial update of a
   function whose type has no partial updates *)
Definition data_model_takes (d : dgram) (c : cls) (pl : payload) : bool :=
  match c with
  | CWrite => N.eqb (d_sel d) 0 || fn_partial (pl_fn pl)
  | _ => true
  end.

(* ------------------------------------------------------------------ the table *)
Definition prescribed (s : st) (pe : peer) (en : rent) (rf : rfeat) (d : dgram) : list resp :=
  match d_body d with
  | BResult _ | BResultWith _ => []                       (* never any result in answer to a result, whatever its cmd carries *)
  | BCmd c pl =>
      match local_feature s (d_dst d) with
      | None => [RErr]                                    (* the destination feature does not exist *)
      | Some lf =>
          let ans := answer s (p_ski pe) lf c pl in
          match c with
          | CRead => match ans with Some (fn, v) => [RReply fn v] | None => [RErr] end
          | _ => match ans with Some (fn, v) => [RReply fn v] | None => [] end ++
                 (if accepted s pe en rf lf c pl && data_model_takes d c pl
                  then (if d_ack d then [ROk] else [])
                  else [RErr])
          end
      end
  end.

(* ------------------------------------------------------------------ the monitor *)
Definition is_response (o : obs) : bool :=
  match o with OReply _ _ _ _ _ _ | OResult _ _ _ _ _ => true | _ => false end.
Definition is_result (o : obs) : bool := match o with OResult _ _ _ _ _ => true | _ => false end.

Definition resp_of (o : obs) : resp :=
  match o with
  | OReply _ _ _ _ fn v => RReply fn v
  | OResult _ _ e _ _ => if N.eqb e 0 then ROk else RErr
  | _ => RErr
  end.

Definition o_peer (o : obs) : N := match o with OReply p _ _ _ _ _ | OResult p _ _ _ _ => p | _ => 0 end.
Definition o_ref (o : obs) : N := match o with OReply _ r _ _ _ _ | OResult _ r _ _ _ => r | _ => 0 end.
Definition o_src (o : obs) : faddr :=
  match o with OReply _ _ s _ _ _ | OResult _ _ _ s _ => s | _ => {| fa_dev := None; fa_ent := []; fa_feat := None |} end.
Definition o_dst (o : obs) : faddr :=
  match o with OReply _ _ _ t _ _ | OResult _ _ _ _ t => t | _ => {| fa_dev := None; fa_ent := []; fa_feat := None |} end.

(* the addressed local feature with the local device address *)
Definition expected_src (d : dgram) : faddr :=
  {| fa_dev := Some LOCAL_DEV; fa_ent := fa_ent (d_dst d); fa_feat := fa_feat (d_dst d) |}.

Definition check (b : bool) (c : Z) : verdict := if b then [] else [c].

Definition judge_responses (s : st) (p : N) (pe : peer) (en : rent) (rf : rfeat) (d : dgram) (out : list obs) : verdict :=
  let rs := filter is_response out in
  check (eqb_resps (map resp_of rs) (prescribed s pe en rf d)) CL_EXACT ++
  check (forallb (fun o => N.eqb (o_peer o) p) rs) CL_PEER ++
  check (forallb (fun o => N.eqb (o_ref o) (d_ctr d)) rs) CL_REF ++
  check (forallb (fun o => eqb_faddr (o_dst o) (d_src d)) rs) CL_DST ++
  check (forallb (fun o => eqb_faddr (o_src o) (expected_src d)) rs) CL_SRC ++
  check (negb (is_result_body (d_body d) && existsb is_result out)) CL_RESULT_FOR_RESULT.

Record mst := { w : st }.
Definition minit : mst := {| w := init |}.

Definition mon (m : mst) (o : op) (out : list obs) : mst * verdict :=
  let m' := {| w := fst (step (w m) o) |} in
  match o with
  | Inbound p d =>
      match find_peer (w m) p with
      | None => (m', [])                                  (* not a connected peer *)
      | Some pe =>
          match remote_feature pe (d_src d) with
          | None => (m', [])                              (* the source is not an announced feature *)
          | Some (en, rf) =>
              if wf_dgram d then (m', judge_responses (w m) p pe en rf d out) else (m', [])
          end
      end
  | _ => (m', check (negb (existsb is_response out)) CL_STRAY)
  end.

(* nothing is excused: C01 holds in full on the repaired tree *)
Definition sst := unit.
Definition sinit : sst := tt.
Definition scope (s : sst) (o : op) : sst := tt.
Definition excuses (s : sst) : list Z := [].

Fixpoint judge (m : mst) (tr : list (op * list obs)) : list verdict :=
  match tr with
  | [] => []
  | (o, out) :: r => let '(m1, v) := mon m o out in v :: judge m1 r
  end.

Definition accepted_trace (j : list verdict) : bool := forallb (fun v => match v with [] => true | _ => false end) j.
