(* C19 — the property as a monitor on (conversion input, result).  It never looks at the
   model; all comparisons are exact integer arithmetic on the value m*2^e of a float64.

   Property text: "Converting a decimal number with at most four fractional digits to the
   scaled-number representation and back returns the same number, and any number of
   magnitude below 10^14 converts to within 0.0001 of itself.  Durations that are whole
   multiples of 100 ms and instants with whole seconds survive conversion to their SPINE
   textual form and back exactly, and a relative end time of a time period is read back
   as the remaining duration to the second."

   Reading of "the same number" for a decimal k*10^-d (d <= 4, |k| < 10^15, the range
   in which a float64 identifies a decimal): the (number, scale) pair denotes exactly
   k*10^-d, and the float64 returned by GetValue is closer to k*10^-d than half a unit of
   the d-th decimal place (it prints as the same d-digit decimal). *)
From Coq Require Import ZArith List Bool Lia.
From Flocq Require Import Core BinarySingleNaN.
From Verif Require Import Base.Prelude Model.Scaled Model.Period Model.TimeFmt Model.Conv.

(* clause ids *)
Definition CL_DEC_REPR : Z := 1.   (* number*10^scale is not exactly the decimal *)
Definition CL_DEC_BACK : Z := 2.   (* GetValue is half a unit of the last decimal place (or more) away *)
Definition CL_NEAR : Z := 3.       (* |GetValue - v| > 0.0001 for a finite |v| < 10^14 *)
Definition CL_DURATION : Z := 4.   (* a multiple of 100 ms is not read back exactly *)
Definition CL_INSTANT : Z := 5.    (* a whole-second instant of the years 0..9999 is not read back exactly *)
Definition CL_RELEND : Z := 6.     (* a relative end is not read back as the remaining duration to the second *)
Definition CL_SHAPE : Z := 7.      (* observation of the wrong kind for the operation *)

(* the value of a finite float64 as the fraction fnum/fden, fden a positive power of two *)
Definition fnum (x : b64) : Z :=
  match x with
  | B754_finite s m e _ => cond_Zopp s (Zpos m) * 2 ^ (Z.max e 0)
  | _ => 0
  end.
Definition fden (x : b64) : Z :=
  match x with
  | B754_finite _ _ e _ => 2 ^ (Z.max (- e) 0)
  | _ => 1
  end.

(* |x| < 10^p *)
Definition mag_below (x : b64) (p : Z) : bool := Z.abs (fnum x) <? 10 ^ p * fden x.
(* |x| <= 10^p *)
Definition mag_le (x : b64) (p : Z) : bool := Z.abs (fnum x) <=? 10 ^ p * fden x.

(* |r - v| <= 10^-4 *)
Definition near4 (r v : b64) : bool :=
  is_finite r && (10 ^ 4 * Z.abs (fnum r * fden v - fnum v * fden r) <=? fden r * fden v).

(* number * 10^scale = k * 10^-d, for scale <= 0 *)
Definition repr_exact (n s k d : Z) : bool := (s <=? 0) && (n * 10 ^ d =? k * 10 ^ (- s)).

(* |r - k*10^-d| < 1/2 * 10^-d *)
Definition back_close (r : b64) (k d : Z) : bool :=
  is_finite r && (2 * Z.abs (fnum r * 10 ^ d - k * fden r) <? fden r).

Definition dec_domain (k d : Z) : bool := (0 <=? d) && (d <=? 4) && (Z.abs k <? 10 ^ 15).

Definition NS_DAY : Z := 24 * NS_HOUR.
Definition DUR_LIMIT : Z := 3277 * NS_DAY.   (* period.NewOf is exact below 3277 days *)

Definition check_near (v r : b64) : verdict :=
  if is_finite v && mag_below v 14 then (if near4 r v then [] else [CL_NEAR]) else [].

Definition remaining_ok (dur t0 t1 r : Z) : bool :=
  (Z.rem r NS_SECOND =? 0) && (Z.abs (r - (dur - (t1 - t0))) <=? NS_SECOND).

(* the stored absolute end must be expressible: years 0..9999 *)
Definition end_in_range (t : Z) : bool :=
  (UNIX_YEAR_0 * NS_SECOND <=? t) && (t <? (UNIX_YEAR_10000 - 1) * NS_SECOND).

Definition mst := unit.
Definition minit : mst := tt.

Definition mon (m : mst) (o : op) (out : list obs) : mst * verdict :=
  (m,
   match o, out with
   | OScaled v, [Scaled n s r] => check_near v r
   | ODecimal k d, [DecScaled v n s r] =>
       (if dec_domain k d then
          (if repr_exact n s k d then [] else [CL_DEC_REPR]) ++
          (if back_close r k d then [] else [CL_DEC_BACK])
        else []) ++ check_near v r
   | ODuration ns, [DurText t back] =>
       if Z.rem ns NS_100MS =? 0 then
         match back with
         | Some b => if b =? ns then [] else [CL_DURATION]
         | None => [CL_DURATION]
         end
       else []
   | OInstant sec nsec, [Instant t back] =>
       if (nsec =? 0) && (UNIX_YEAR_0 <=? sec) && (sec <? UNIX_YEAR_10000) then
         match back with
         | Some b => if b =? sec then [] else [CL_INSTANT]
         | None => [CL_INSTANT]
         end
       else []
   | ORelEnd variant dur t0 t1, [RelEnd e t back] =>
       if (variant =? 0) && (Z.rem dur NS_100MS =? 0) && end_in_range (t0 + dur) then
         match back with
         | Some b => if remaining_ok dur t0 t1 b then [] else [CL_RELEND]
         | None => [CL_RELEND]
         end
       else if variant =? 0 then [] else [CL_SHAPE]
   | ORelEnd variant dur t0 t1, [RelDirect e r] =>
       if variant =? 0 then [CL_SHAPE]
       else if end_in_range (t0 + dur) then (if remaining_ok dur t0 t1 r then [] else [CL_RELEND]) else []
   | ORelEnd variant dur t0 t1, [RelFailed] =>
       if ((variant =? 0) && negb (Z.rem dur NS_100MS =? 0)) || negb (end_in_range (t0 + dur)) then [] else [CL_RELEND]
   | _, _ => [CL_SHAPE]
   end).

(* Scope of the proved theorem: classes of inputs recorded as known findings.
     - CL_NEAR beyond 10^11: the float spacing times the three roundings exceeds 10^-4
     - CL_DURATION / CL_RELEND from 3277 days: period.NewOf switches to approximate
       year/month arithmetic (and NewDurationType ignores its "precise" flag) *)
Definition sst := list Z.
Definition sinit : sst := [].

Definition scope (s : sst) (o : op) : sst :=
  match o with
  | OScaled v => if mag_le v 11 then [] else [CL_NEAR]
  | ODecimal k d => if (0 <=? d) && (Z.abs k <=? 10 ^ (11 + d)) then [] else [CL_NEAR]
  | ODuration ns => if Z.abs ns <? DUR_LIMIT then [] else [CL_DURATION]
  | OInstant _ _ => []
  | ORelEnd variant dur t0 t1 =>
      if (variant =? 0) && negb (Z.abs dur + Z.abs (t1 - t0) + NS_SECOND <? DUR_LIMIT) then [CL_RELEND] else []
  end.

Definition excuses (s : sst) : list Z := s.

Fixpoint judge (m : mst) (s : sst) (tr : list (op * list obs)) : list (verdict * list Z) :=
  match tr with
  | [] => []
  | (o, out) :: r =>
      let '(m1, v) := mon m o out in
      let s1 := scope s o in
      (v, excuses s1) :: judge m1 s1 r
  end.

Definition accepted (j : list (verdict * list Z)) : bool :=
  forallb (fun ve => excused (fst ve) (snd ve)) j.

Definition strictly_accepted (j : list (verdict * list Z)) : bool :=
  forallb (fun ve => match fst ve with [] => true | _ => false end) j.
