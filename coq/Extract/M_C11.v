(* C11: the [full_step] instance the OCaml driver and the in-Coq cross-check run
   (growth policy of append: go_grow; no observation depends on it). *)
From Verif Require Import Base.Prelude Base.Machine.
From Verif Require Import Model.Slices Model.SnapStore Spec.SnapSpec.

Definition init := Build_full init minit minit sinit.
Definition fstep := full_step (step go_grow) mon scope excuses parse_op print_obs parse_obs.
Definition frun := full_run (step go_grow) mon scope excuses parse_op print_obs parse_obs init.
