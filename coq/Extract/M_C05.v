(* C05: the [full_step] instance the OCaml driver and the in-Coq cross-check run
   (the model of the repaired tree). *)
From Verif Require Import Base.Prelude Base.Machine.
From Verif Require Import Model.Robust Model.RobustWire Spec.RobustSpec.

Definition init := Build_full Robust.init minit minit sinit.
Definition fstep := full_step step mon scope excuses parse_op print_obs parse_obs.
Definition frun := full_run step mon scope excuses parse_op print_obs parse_obs init.
