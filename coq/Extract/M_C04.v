(* C04: the [full_step] instance the OCaml driver and the in-Coq cross-check run. *)
From Verif Require Import Base.Prelude Base.Machine.
From Verif Require Import Model.FunctionStore Model.WriteStore Spec.WriteSpec.

Definition init := Build_full init wminit wminit wsinit.
Definition fstep := full_step wstep womon woscope wexcuses parse_wop print_obs parse_obs.
Definition frun := full_run wstep womon woscope wexcuses parse_wop print_obs parse_obs init.
