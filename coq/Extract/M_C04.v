(* C04: the [full_step] instance the OCaml driver and the in-Coq cross-check run. *)
From Verif Require Import Base.Prelude Base.Machine.
From Verif Require Import Model.FunctionStore Spec.WriteSpec.

Definition init := Build_full init wminit wminit wsinit.
Definition fstep := full_step step wmon wscope wexcuses parse_op print_obs parse_obs.
Definition frun := full_run step wmon wscope wexcuses parse_op print_obs parse_obs init.
