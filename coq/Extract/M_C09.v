(* C09: machine instance (Model/C09Machine.v = Model/Stack.v x Model/BindSched.v, judged by
   Spec/C09MachineSpec.v = Spec/C09Spec.v + Spec/BindSchedSpec.v). *)
From Verif Require Import Base.Prelude Base.Machine.
From Verif Require Import Model.C09Machine Spec.C09MachineSpec.

Definition init := Build_full cinit cminit cminit sinit.
Definition fstep := full_step cstep cmon scope excuses parse_op print_obs parse_obs.
Definition frun := full_run cstep cmon scope excuses parse_op print_obs parse_obs init.
