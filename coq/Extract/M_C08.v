(* C08: machine instance (Model/Stack.v + overlap layer Model/StackX.v, Spec/C08Spec.v lifted by Spec/StackXSpec.v). *)
From Verif Require Import Base.Prelude Base.Machine.
From Verif Require Import Model.Stack Model.StackWire Model.StackX Spec.StackXSpec Spec.C08Spec.

Definition init := Build_full Stack.init minit minit sinit.
Definition fstep := full_step xstep (xmon mon) (xscope scope) excuses parse_xop print_obs parse_obs.
Definition frun := full_run xstep (xmon mon) (xscope scope) excuses parse_xop print_obs parse_obs init.
