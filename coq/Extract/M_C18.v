(* C18: the [full_step] instance the OCaml driver and the in-Coq cross-check run. *)
From Coq Require Import Extraction.
From Verif Require Import Base.Prelude Base.Machine.
From Verif Require Import Model.CmdWire Spec.CmdSpec.

(* The model uses Coq's [string]; its extracted module would be called String and
   shadow OCaml's in ocaml/drvlib.ml ([s.[i]] is String.get).  Only file names are
   affected by this directive (String0.ml), no constant is realised by hand. *)
Extraction Blacklist String List.

Definition init := Build_full init minit minit sinit.
Definition fstep := full_step step mon scope excuses parse_op print_obs parse_obs.
Definition frun := full_run step mon scope excuses parse_op print_obs parse_obs init.
