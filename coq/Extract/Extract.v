(* Extraction of the executable models (ExtrOcamlBasic only; N/Z/positive/nat stay
   Coq datatypes).  Run by coqc from the directory ocaml/extracted. *)
From Coq Require Import Extraction ExtrOcamlBasic.
From Verif Require Import Base.Prelude Base.Machine Extract.Machines.
Extraction Language OCaml.
Separate Extraction
  BinInt.Z.add BinInt.Z.mul BinInt.Z.opp BinInt.Z.div_eucl BinInt.Z.eqb BinInt.Z.ltb
  Machine.r_model Machine.r_vimpl Machine.r_vmodel Machine.r_excused
  Machines.C13.init Machines.C13.fstep.
