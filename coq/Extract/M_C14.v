(* C14: machine instance (Model/Dispatch.v + Spec/CallbackSpec.v). *)
From Verif Require Import Base.Prelude Base.Machine.
From Verif Require Import Model.Dispatch Model.DispatchWire Spec.CallbackSpec.

Definition init := Build_full Dispatch.init minit minit sinit.
Definition fstep := full_step step mon scope excuses parse_op print_obs parse_obs.
Definition frun := full_run step mon scope excuses parse_op print_obs parse_obs init.
