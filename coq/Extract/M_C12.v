(* C12: the [full_step] instance the OCaml driver and the in-Coq cross-check run. *)
From Verif Require Import Base.Prelude Base.Machine.
From Verif Require Import Model.Approval Spec.ApprovalSpec.

Definition init := Build_full init minit minit sinit.
Definition fstep := full_step step mon scope excuses parse_op print_obs parse_obs.
Definition frun := full_run step mon scope excuses parse_op print_obs parse_obs init.
