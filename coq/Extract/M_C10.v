(* C10: machine instance (Model/Stack.v + Spec/C10Spec.v). *)
From Verif Require Import Base.Prelude Base.Machine.
From Verif Require Import Model.Stack Model.StackWire Spec.C10Spec.

Definition init := Build_full Stack.init minit minit sinit.
Definition fstep := full_step step mon scope excuses parse_op print_obs parse_obs.
Definition frun := full_run step mon scope excuses parse_op print_obs parse_obs init.
