(* Generic glue between a typed model/monitor pair and the integer wire format used
   by the correspondence harness (ocaml/driver.ml and the in-Coq cross-check). *)
From Verif Require Import Base.Prelude.

Fixpoint eqb_zs (a b : zs) : bool :=
  match a, b with
  | [], [] => true
  | x :: a', y :: b' => Z.eqb x y && eqb_zs a' b'
  | _, _ => false
  end.

Fixpoint eqb_zss (a b : list zs) : bool :=
  match a, b with
  | [], [] => true
  | x :: a', y :: b' => eqb_zs x y && eqb_zss a' b'
  | _, _ => false
  end.

Fixpoint option_all {A} (l : list (option A)) : option (list A) :=
  match l with
  | [] => Some []
  | None :: _ => None
  | Some x :: r => match option_all r with Some r' => Some (x :: r') | None => None end
  end.

(* result of one driver step *)
Record reply := {
  r_model : list zs;      (* what the model observes for this operation *)
  r_vimpl : verdict;      (* monitor verdict on the implementation's observations *)
  r_vmodel : verdict;     (* monitor verdict on the model's observations *)
  r_excused : list Z      (* clauses excused by the scope predicate at this point *)
}.

Definition V_BADOP : Z := 99.    (* the harness sent an operation the model cannot parse *)
Definition V_BADOBS : Z := 98.   (* the implementation produced an observation outside the model's vocabulary *)

Section Machine.
  Variables (st mst sst op obs : Type).
  Variable step : st -> op -> st * list obs.
  Variable mon : mst -> op -> list obs -> mst * verdict.
  Variable scope : sst -> op -> sst.
  Variable excuses : sst -> list Z.
  Variable parse_op : zs -> option op.
  Variable print_obs : obs -> zs.
  Variable parse_obs : zs -> option obs.

  Record full := { f_st : st; f_mi : mst; f_mm : mst; f_sc : sst }.

  Definition full_step (f : full) (opz : zs) (implz : list zs) : full * reply :=
    match parse_op opz with
    | None => (f, {| r_model := []; r_vimpl := [V_BADOP]; r_vmodel := [V_BADOP]; r_excused := [] |})
    | Some o =>
        let '(s1, out) := step (f_st f) o in
        let '(mm1, vm) := mon (f_mm f) o out in
        let sc1 := scope (f_sc f) o in
        let '(mi1, vi) :=
          match option_all (map parse_obs implz) with
          | Some io => mon (f_mi f) o io
          | None => (f_mi f, [V_BADOBS])
          end in
        ({| f_st := s1; f_mi := mi1; f_mm := mm1; f_sc := sc1 |},
         {| r_model := map print_obs out; r_vimpl := vi; r_vmodel := vm; r_excused := excuses sc1 |})
    end.

  Fixpoint full_run (f : full) (l : list (zs * list zs)) : list reply :=
    match l with
    | [] => []
    | (o, i) :: r => let '(f1, rp) := full_step f o i in rp :: full_run f1 r
    end.
End Machine.

Arguments full_step {st mst sst op obs}.
Arguments full_run {st mst sst op obs}.
Arguments Build_full {st mst sst}.

Definition eqb_reply (a b : reply) : bool :=
  eqb_zss (r_model a) (r_model b) && eqb_zs (r_vimpl a) (r_vimpl b) &&
  eqb_zs (r_vmodel a) (r_vmodel b) && eqb_zs (r_excused a) (r_excused b).

Fixpoint eqb_replies (a b : list reply) : bool :=
  match a, b with
  | [], [] => true
  | x :: a', y :: b' => eqb_reply x y && eqb_replies a' b'
  | _, _ => false
  end.
