(* Shared prelude: imports, small list helpers, the wire convention between the
   executable models and the correspondence harness.

   Wire convention (see DESIGN.md 2.2b): an operation is a [list Z]; the
   observations an operation produces are a [list (list Z)] (one [list Z] per
   observation).  Every model exports typed [op]/[obs] together with
   [parse_op : list Z -> option op] and [print_obs : obs -> list Z]; theorems are
   stated over the typed versions. *)
From Coq Require Export List Bool Arith ZArith NArith Lia.
Export ListNotations.
Open Scope Z_scope.

Definition zs := list Z.

(* verdict of a property monitor on one step: [] = every clause held,
   otherwise the ids of the clauses that the observed step violates *)
Definition verdict := list Z.

Fixpoint assoc_N {A} (k : N) (l : list (N * A)) : option A :=
  match l with
  | [] => None
  | (k', v) :: r => if N.eqb k k' then Some v else assoc_N k r
  end.

Fixpoint remove_N {A} (k : N) (l : list (N * A)) : list (N * A) :=
  match l with
  | [] => []
  | (k', v) :: r => if N.eqb k k' then remove_N k r else (k', v) :: remove_N k r
  end.

Definition memZ (x : Z) (l : list Z) : bool := existsb (Z.eqb x) l.
Definition memN (x : N) (l : list N) : bool := existsb (N.eqb x) l.

Lemma memZ_In x l : memZ x l = true <-> In x l.
Proof.
  unfold memZ. rewrite existsb_exists. split.
  - intros [y [Hy He]]. apply Z.eqb_eq in He. subst. exact Hy.
  - intros H. exists x. split; [exact H | apply Z.eqb_refl].
Qed.

Lemma memN_In x l : memN x l = true <-> In x l.
Proof.
  unfold memN. rewrite existsb_exists. split.
  - intros [y [Hy He]]. apply N.eqb_eq in He. subst. exact Hy.
  - intros H. exists x. split; [exact H | apply N.eqb_refl].
Qed.

(* every violated clause is excused: the shape of all "_partial" theorems *)
Definition excused (v ex : list Z) : bool := forallb (fun c => memZ c ex) v.

Definition Zn (n : N) : Z := Z.of_N n.
Definition Nz (z : Z) : N := Z.to_N z.
Definition Zb (b : bool) : Z := if b then 1 else 0.
Definition bZ (z : Z) : bool := negb (Z.eqb z 0).

Lemma Nz_Zn n : Nz (Zn n) = n.
Proof. unfold Nz, Zn. apply N2Z.id. Qed.

Lemma bZ_Zb b : bZ (Zb b) = b.
Proof. destruct b; reflexivity. Qed.
