(* C18 — executable model of encoding/json's tree-level behaviour on the spine-go
   data model: a generic [enc : ty -> value -> json] and [dec : ty -> json -> option value]
   over the type-descriptor table the translator emits (Gen/GenJsonTypes.v).
   No proofs here (Proofs/CodecProofs.v).

   Rules transcribed from encoding/json (Go 1.23):
   * struct members are emitted in struct order under their JSON name; a member
     with omitempty is left out when it is false, 0, "", a nil pointer, or an
     empty (nil or zero-length) slice; struct values are never left out;
   * a nil pointer / nil slice that is not omitted is emitted as null;
   * decoding starts from the zero value; null leaves the zero value (nil for
     pointers and slices); unknown keys are ignored; a key selects the field with
     exactly that JSON name, otherwise the first field equal to it under ASCII
     case folding; a later duplicate of a key overrides an earlier one;
   * a JSON value of the wrong kind, or an integer outside the Go type's range,
     makes Unmarshal return an error ([None]).
   Not modelled (trusted text layer, DESIGN.md section 7): tokeniser, escaping,
   invalid UTF-8 replacement, Unicode (non-ASCII) case folding of keys, merging of
   duplicate keys into an already decoded struct.  The translator maps every
   construct outside this fragment to [KBad]; C18_types_wf checks none occurs. *)
From Coq Require Import String Ascii List ZArith NArith Bool.
From Verif Require Import Model.JsonTy.
Import ListNotations.
Local Open Scope string_scope.

Definition kind_of (t : ty) : kind := match t with TVal k | TPtr k | TSlice k => k end.

Fixpoint opt_all {A} (l : list (option A)) : option (list A) :=
  match l with
  | [] => Some []
  | None :: _ => None
  | Some x :: r => match opt_all r with Some r' => Some (x :: r') | None => None end
  end.

(* the binding that a Go map built by successive assignments would hold *)
Fixpoint assoc_last {A} (k : string) (l : list (string * A)) : option A :=
  match l with
  | [] => None
  | (k', x) :: r =>
      match assoc_last k r with
      | Some y => Some y
      | None => if String.eqb k k' then Some x else None
      end
  end.

(* ASCII upper-casing: encoding/json's foldName restricted to ASCII *)
Definition up (c : ascii) : ascii :=
  let n := N_of_ascii c in
  if (N.leb 97 n && N.leb n 122)%bool then ascii_of_N (n - 32) else c.

Fixpoint fold_eqb (a b : string) : bool :=
  match a, b with
  | EmptyString, EmptyString => true
  | String x a', String y b' => Ascii.eqb (up x) (up y) && fold_eqb a' b'
  | _, _ => false
  end.

Definition find_field (fs : list field) (k : string) : option field :=
  match find (fun f => String.eqb (f_json f) k) fs with
  | Some f => Some f
  | None => find (fun f => fold_eqb (f_json f) k) fs
  end.

Definition is_nil (v : value) : bool := match v with VNil => true | _ => false end.

(* omitempty's notion of "empty", by the static type of the field *)
Definition is_empty (t : ty) (v : value) : bool :=
  match t, v with
  | TPtr _, VNil => true
  | TSlice _, VNil => true
  | TSlice _, VList [] => true
  | TVal _, VBool false => true
  | TVal _, VInt 0 => true
  | TVal _, VStr EmptyString => true
  | _, _ => false
  end.

Section Codec.
  Variable tbl : list sdesc.

  Definition sdesc_of (id : N) : option sdesc := nth_error tbl (N.to_nat id).
  Definition fields_of (id : N) : list field :=
    match sdesc_of id with Some s => s_fields s | None => [] end.
  Definition rank_of (id : N) : N :=
    match sdesc_of id with Some s => s_rank s | None => 0%N end.

  (* Go zero values; the fuel is the struct's rank (only value-typed struct fields nest) *)
  Fixpoint zero_k (fuel : nat) (k : kind) : value :=
    match k with
    | KBool => VBool false
    | KInt _ _ => VInt 0
    | KStr => VStr ""
    | KBad => VNil
    | KStruct id =>
        match fuel with
        | O => VStruct []
        | S n => VStruct (map (fun f => match f_ty f with TVal k' => zero_k n k' | _ => VNil end) (fields_of id))
        end
    end.

  Definition fuel_of (k : kind) : nat :=
    match k with KStruct id => S (N.to_nat (rank_of id)) | _ => O end.

  Definition zero (t : ty) : value :=
    match t with TVal k => zero_k (fuel_of k) k | _ => VNil end.

  (* new(T) for a struct type *)
  Definition new_struct (id : N) : value := zero (TVal (KStruct id)).

  (* ---- json.Marshal ---- *)
  Fixpoint enc (t : ty) (v : value) {struct v} : json :=
    match v with
    | VNil => JNull
    | VBool b => JBool b
    | VInt z => JNum z
    | VStr s => JStr s
    | VList l => JArr (map (enc (TVal (kind_of t))) l)
    | VStruct vs =>
        match kind_of t with
        | KStruct id =>
            JObj ((fix ef (fs : list field) (vs : list value) {struct vs} : list (string * json) :=
                     match vs, fs with
                     | v' :: vs', f :: fs' =>
                         if (f_omit f && is_empty (f_ty f) v')%bool then ef fs' vs'
                         else (f_json f, enc (f_ty f) v') :: ef fs' vs'
                     | _, _ => []
                     end) (fields_of id) vs)
        | _ => JNull
        end
    end.

  (* ---- json.Unmarshal ---- *)
  Definition any_failed (dl : list (string * option value)) : bool :=
    existsb (fun p => match snd p with None => true | Some _ => false end) dl.

  Definition assemble (fs : list field) (dl : list (string * option value)) : option value :=
    if any_failed dl then None
    else Some (VStruct (map (fun f => match assoc_last (f_json f) dl with
                                      | Some (Some v) => v
                                      | _ => zero (f_ty f)
                                      end) fs)).

  Fixpoint dec (t : ty) (j : json) {struct j} : option value :=
    match j with
    | JNull => Some (zero t)
    | JBool b =>
        match t with
        | TSlice _ => None
        | _ => match kind_of t with KBool => Some (VBool b) | _ => None end
        end
    | JNum z =>
        match t with
        | TSlice _ => None
        | _ => match kind_of t with
               | KInt lo hi => if (Z.leb lo z && Z.leb z hi)%bool then Some (VInt z) else None
               | _ => None
               end
        end
    | JStr s =>
        match t with
        | TSlice _ => None
        | _ => match kind_of t with KStr => Some (VStr s) | _ => None end
        end
    | JArr l =>
        match t with
        | TSlice k => option_map VList (opt_all (map (dec (TVal k)) l))
        | _ => None
        end
    | JObj ms =>
        match t with
        | TSlice _ => None
        | _ =>
            match kind_of t with
            | KStruct id =>
                let fs := fields_of id in
                assemble fs
                  ((fix go (ms : list (string * json)) : list (string * option value) :=
                      match ms with
                      | [] => []
                      | (k, j') :: r =>
                          match find_field fs k with
                          | Some f => (f_json f, dec (f_ty f) j') :: go r
                          | None => go r
                          end
                      end) ms)
            | _ => None
            end
        end
    end.

  (* ---- typing and the normal form reached by decode after encode ---- *)
  Fixpoint has_kind (k : kind) (v : value) {struct v} : bool :=
    match v with
    | VNil => false
    | VBool _ => match k with KBool => true | _ => false end
    | VInt z => match k with KInt lo hi => (Z.leb lo z && Z.leb z hi)%bool | _ => false end
    | VStr _ => match k with KStr => true | _ => false end
    | VList _ => false
    | VStruct vs =>
        match k with
        | KStruct id =>
            (fix hf (fs : list field) (vs : list value) {struct vs} : bool :=
               match vs, fs with
               | [], [] => true
               | v' :: vs', f :: fs' =>
                   (match f_ty f with
                    | TVal k' => has_kind k' v'
                    | TPtr k' => is_nil v' || has_kind k' v'
                    | TSlice k' =>
                        match v' with
                        | VNil => true
                        | VList l => forallb (has_kind k') l
                        | _ => false
                        end
                    end && hf fs' vs')%bool
               | _, _ => false
               end) (fields_of id) vs
        | _ => false
        end
    end.

  Definition has_type (t : ty) (v : value) : bool :=
    match t with
    | TVal k => has_kind k v
    | TPtr k => is_nil v || has_kind k v
    | TSlice k => match v with VNil => true | VList l => forallb (has_kind k) l | _ => false end
    end.

  (* what decode (encode v) is: an omitted member comes back as the zero value
     (nil for pointers and slices, so an empty list under omitempty becomes absent) *)
  Fixpoint normt (t : ty) (v : value) {struct v} : value :=
    match v with
    | VList l => VList (map (normt (TVal (kind_of t))) l)
    | VStruct vs =>
        match kind_of t with
        | KStruct id =>
            VStruct ((fix nf (fs : list field) (vs : list value) {struct vs} : list value :=
                        match vs, fs with
                        | v' :: vs', f :: fs' =>
                            (if (f_omit f && is_empty (f_ty f) v')%bool then zero (f_ty f)
                             else normt (f_ty f) v') :: nf fs' vs'
                        | _, _ => []
                        end) (fields_of id) vs)
        | _ => v
        end
    | _ => v
    end.

  (* ---- well-formedness of the table (computed in C18_types_wf) ---- *)
  Definition kind_ok (k : kind) : bool :=
    match k with
    | KBad => false
    | KStruct id => match sdesc_of id with Some _ => true | None => false end
    | KInt lo hi => (Z.leb lo 0 && Z.leb 0 hi)%bool
    | _ => true
    end.

  Fixpoint nodup_str (l : list string) : bool :=
    match l with
    | [] => true
    | x :: r => negb (existsb (String.eqb x) r) && nodup_str r
    end.

  (* unique non-empty JSON names (an exact match then always selects the field
     itself), supported kinds, ranks strictly decreasing along struct-typed fields *)
  Definition wf_struct (s : sdesc) : bool :=
    (nodup_str (map f_json (s_fields s)) &&
     forallb (fun f => negb (String.eqb (f_json f) "")) (s_fields s) &&
     forallb (fun f => kind_ok (kind_of (f_ty f))) (s_fields s) &&
     forallb (fun f => match kind_of (f_ty f) with
                       | KStruct id => N.ltb (rank_of id) (s_rank s)
                       | _ => true
                       end) (s_fields s))%bool.

  Definition wf_tbl : bool := forallb wf_struct tbl.
End Codec.

(* equivalence up to "absent and empty lists are not distinguished" *)
Fixpoint norm (v : value) : value :=
  match v with
  | VList [] => VNil
  | VList l => VList (map norm l)
  | VStruct l => VStruct (map norm l)
  | _ => v
  end.

Fixpoint value_eqb (a b : value) {struct a} : bool :=
  match a, b with
  | VNil, VNil => true
  | VBool x, VBool y => Bool.eqb x y
  | VInt x, VInt y => Z.eqb x y
  | VStr x, VStr y => String.eqb x y
  | VList l, VList m | VStruct l, VStruct m =>
      (fix go (l m : list value) {struct l} : bool :=
         match l, m with
         | [], [] => true
         | x :: l', y :: m' => value_eqb x y && go l' m'
         | _, _ => false
         end) l m
  | _, _ => false
  end.

Fixpoint json_eqb (a b : json) {struct a} : bool :=
  match a, b with
  | JNull, JNull => true
  | JBool x, JBool y => Bool.eqb x y
  | JNum x, JNum y => Z.eqb x y
  | JStr x, JStr y => String.eqb x y
  | JArr l, JArr m =>
      (fix go (l m : list json) {struct l} : bool :=
         match l, m with
         | [], [] => true
         | x :: l', y :: m' => json_eqb x y && go l' m'
         | _, _ => false
         end) l m
  | JObj l, JObj m =>
      (fix go (l m : list (string * json)) {struct l} : bool :=
         match l, m with
         | [], [] => true
         | (k, x) :: l', (k', y) :: m' => String.eqb k k' && json_eqb x y && go l' m'
         | _, _ => false
         end) l m
  | _, _ => false
  end.

(* ---- the custom (un)marshaller of model.TimePeriodType over an abstract clock ----
   Times and durations are integers in nanoseconds.  The end of a period is absent,
   an absolute time, a relative duration, or a string that is neither.
   MarshalJSON: with no start time, an absolute end becomes the duration from now
   rounded to the second, a relative end stays the duration.  UnmarshalJSON: with no
   start time, a relative end becomes the absolute time now + duration (formatted to
   the second by NewDateTimeTypeFromTime). *)
Inductive endtime := EAbs (t : Z) | ERel (d : Z) | ERaw (s : string).
Record period := { p_start : option string; p_end : option endtime }.

Definition second : Z := 1000000000.

(* time.Duration.Round(time.Second): halfway values away from zero *)
Definition round_dur (d : Z) : Z :=
  (if Z.leb 0 d then ((d + second / 2) / second) * second
   else - (((- d + second / 2) / second) * second))%Z.

(* time.Time.Round(time.Second): halfway values up (times are after the epoch) *)
Definition round_time (t : Z) : Z := (((t + second / 2) / second) * second)%Z.

Definition tp_marshal (now : Z) (p : period) : period :=
  match p_start p, p_end p with
  | None, Some (EAbs t) => {| p_start := None; p_end := Some (ERel (round_dur (t - now))) |}
  | _, _ => p
  end.

Definition tp_unmarshal (now : Z) (p : period) : period :=
  match p_start p, p_end p with
  | None, Some (ERel d) => {| p_start := None; p_end := Some (EAbs (round_time (now + d))) |}
  | _, _ => p
  end.
