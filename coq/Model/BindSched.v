(* C09, interleaving clause — BindingManager.AddBinding as two atomic steps.

   spine/binding_manager.go AddBinding performs
     (1) server feature lookup, role/type check, BindingsOnFeature (own critical section),
         -- yield point "AddBinding.checked" --
     (2) client feature lookup, role/type check, then under BindingManager.mux:
         REPAIRED: the single-binding check again, then append + event
         PINNED:   append + event without looking at the registry again.
   Requests arrive on different connections, each handled by its own goroutine, so the
   two parts of different requests interleave freely; the schedule is part of the
   operation list:  Begin t q = goroutine t handles request q up to the yield point (or to
   its end when part (1) refuses), End t = goroutine t runs part (2).  RemoveBinding,
   Bindings and BindingsOnFeature are single critical sections (atomic operations).

   The world is fixed (the harness cmd/c09 builds exactly this one): local entity [1] with
   the features of [srv_feat], peers 1..3, each announcing entity [1] with the features of
   [cli_feat]; device addresses are distinct and always given, so a client address is the
   pair (peer, feature number).  No proofs here. *)
From Verif Require Import Base.Prelude Model.Stack.

(* local features of entity [1]: number -> (role, type) *)
Definition srv_feat (f : N) : option (role * N) :=
  match f with
  | 1%N => Some (RServer, 1%N)          (* LoadControl server *)
  | 2%N => Some (RServer, 2%N)          (* Measurement server *)
  | 3%N => Some (RClient, 1%N)          (* LoadControl client: wrong role *)
  | 4%N => Some (RServer, T_GENERIC)    (* Generic server: any requested type *)
  | _ => None
  end.

(* remote features of entity [1] of every peer *)
Definition cli_feat (g : N) : option (role * N) :=
  match g with
  | 1%N => Some (RClient, 1%N)
  | 2%N => Some (RClient, 2%N)
  | 3%N => Some (RServer, 1%N)          (* wrong role *)
  | 4%N => Some (RClient, T_GENERIC)
  | _ => None
  end.

Definition known_peer (p : N) : bool := N.leb 1 p && N.leb p 3.

Record bind := { sb_id : N; sb_srv : N; sb_peer : N; sb_cli : N }.
Record req := { q_peer : N; q_srv : N; q_cli : N; q_typ : N }.

Record st := {
  binds : list bind;                (* BindingManager.bindingEntries *)
  next : N;                         (* BindingManager.bindingNum *)
  parked : list (N * req)           (* goroutines waiting at AddBinding.checked *)
}.

Definition init : st := {| binds := []; next := 0; parked := [] |}.

Inductive op :=
| Begin (t : N) (q : req)
| End (t : N)
| Unbind (p srv cli : N)            (* binding delete call of peer p, atomic *)
| ListB (p : N)                     (* BindingManager.Bindings(peer) *)
| OnFeat (srv : N)                  (* len(BindingManager.BindingsOnFeature(server feature)) *)
| Race (n : N) (q1 q2 : req).       (* n rounds of two free-running requests for one server feature, see below *)

Inductive obs :=
| Parked                            (* the goroutine reached AddBinding.checked *)
| Busy                              (* thread id in use: nothing started *)
| NotRunnable                       (* the thread is not parked: step not realisable *)
| Dropped                           (* unknown connection: nothing happens *)
| Res (p : N) (err : bool)          (* result datagram written to peer p *)
| EvAdd (p srv cli : N)             (* binding-added event *)
| EvRem (p srv cli : N)             (* binding-removed event *)
| Ent (id srv cli : N)              (* one entry of a listing *)
| Cnt (n : N)
| RaceOut (n granted refused over : N)   (* rounds, requests granted / refused in total, rounds that saw > 1 binding on the feature *)
| Other (c : N).                    (* anything else the implementation emits *)

Definition on_feat (s : st) (f : N) : list bind := filter (fun b => N.eqb (sb_srv b) f) (binds s).
Definition bound (s : st) (f : N) : bool := existsb (fun b => N.eqb (sb_srv b) f) (binds s).

Definition is_parked (s : st) (t : N) : bool := existsb (fun x => N.eqb (fst x) t) (parked s).
Definition unpark (s : st) (t : N) : list (N * req) := filter (fun x => negb (N.eqb (fst x) t)) (parked s).

(* part (1) *)
Definition begin_step (s : st) (t : N) (q : req) : st * list obs :=
  if is_parked s t then (s, [Busy]) else
  if negb (known_peer (q_peer q)) then (s, [Dropped]) else
  match srv_feat (q_srv q) with
  | None => (s, [Res (q_peer q) true])
  | Some (r, ty) =>
      if negb (role_type_ok r ty RServer (q_typ q)) then (s, [Res (q_peer q) true]) else
      if bound s (q_srv q) then (s, [Res (q_peer q) true]) else
      ({| binds := binds s; next := next s; parked := parked s ++ [(t, q)] |}, [Parked])
  end.

(* part (2); [fixd] = the single-binding check is repeated inside the inserting critical section *)
Definition end_step (fixd : bool) (s : st) (t : N) : st * list obs :=
  match find (fun x => N.eqb (fst x) t) (parked s) with
  | None => (s, [NotRunnable])
  | Some (_, q) =>
      let s0 := {| binds := binds s; next := next s; parked := unpark s t |} in
      match cli_feat (q_cli q) with
      | None => (s0, [Res (q_peer q) true])
      | Some (r, ty) =>
          if negb (role_type_ok r ty RClient (q_typ q)) then (s0, [Res (q_peer q) true]) else
          if fixd && bound s (q_srv q) then (s0, [Res (q_peer q) true]) else
          let id := N.succ (next s) in
          ({| binds := binds s ++ [ {| sb_id := id; sb_srv := q_srv q; sb_peer := q_peer q; sb_cli := q_cli q |} ];
              next := id; parked := unpark s t |},
           [EvAdd (q_peer q) (q_srv q) (q_cli q); Res (q_peer q) false])
      end
  end.

Definition is_pair (p srv cli : N) (b : bind) : bool :=
  N.eqb (sb_peer b) p && N.eqb (sb_cli b) cli && N.eqb (sb_srv b) srv.

(* RemoveBinding (repaired filter: client address AND server feature) *)
Definition unbind_step (s : st) (p srv cli : N) : st * list obs :=
  if negb (known_peer p) then (s, [Dropped]) else
  match cli_feat cli, srv_feat srv with
  | Some _, Some (r, ty) =>
      if negb (role_type_ok r ty RServer ty) then (s, [Res p true]) else
      if negb (existsb (is_pair p srv cli) (binds s)) then (s, [Res p true]) else
      ({| binds := filter (fun b => negb (is_pair p srv cli b)) (binds s); next := next s; parked := parked s |},
       [EvRem p srv cli; Res p false])
  | _, _ => (s, [Res p true])
  end.

(* ---- free-running overlap ----
   [Race n q1 q2]: n rounds; in every round the requests q1 and q2 (different known peers, same
   server feature) are handled by two goroutines released together from a spinning start and
   run through the WHOLE of AddBinding without being parked (the runtime picks the
   interleaving of the critical sections); when both have returned the runner counts the
   bindings on the server feature and deletes the binding(s) granted in this round, so that the
   next round starts from the same registry.  The observation is peer-blanked and summed over
   the rounds.  The model is the sequential composition request 1; request 2; delete the winner
   (Proofs/BindSchedProofs.v: [race_round_sequential], either order gives the same state and the
   same peer-blanked outcome): per round one request is granted iff the feature is unbound and
   at least one request is valid, the other is refused, the registry is unchanged afterwards and
   one binding id is used up. *)
Definition valid_req (q : req) : bool :=
  match srv_feat (q_srv q), cli_feat (q_cli q) with
  | Some (r, ty), Some (r', ty') => role_type_ok r ty RServer (q_typ q) && role_type_ok r' ty' RClient (q_typ q)
  | _, _ => false
  end.

Definition race_ok (q1 q2 : req) : bool :=
  known_peer (q_peer q1) && known_peer (q_peer q2) && negb (N.eqb (q_peer q1) (q_peer q2)) && N.eqb (q_srv q1) (q_srv q2).

(* requests granted per round *)
Definition race_grants (s : st) (q1 q2 : req) : N :=
  if negb (bound s (q_srv q1)) && (valid_req q1 || valid_req q2) then 1%N else 0%N.

Definition race_step (s : st) (n : N) (q1 q2 : req) : st * list obs :=
  if negb (race_ok q1 q2) then (s, [NotRunnable]) else
  let g := race_grants s q1 q2 in
  ({| binds := binds s; next := (next s + n * g)%N; parked := parked s |},
   [RaceOut n (n * g)%N (n * (2 - g))%N 0%N]).

Definition step_gen (fixd : bool) (s : st) (o : op) : st * list obs :=
  match o with
  | Begin t q => begin_step s t q
  | End t => end_step fixd s t
  | Unbind p srv cli => unbind_step s p srv cli
  | ListB p => (s, map (fun b => Ent (sb_id b) (sb_srv b) (sb_cli b)) (filter (fun b => N.eqb (sb_peer b) p) (binds s)))
  | OnFeat f => (s, [Cnt (N.of_nat (length (on_feat s f)))])
  | Race n q1 q2 => race_step s n q1 q2
  end.

Definition step := step_gen true.           (* the repaired code *)
Definition step_pinned := step_gen false.   (* the code as pinned: kept for the refutation witness *)

Fixpoint run_gen (fixd : bool) (s : st) (ops : list op) : st * list (op * list obs) :=
  match ops with
  | [] => (s, [])
  | o :: r =>
      let '(s1, out) := step_gen fixd s o in
      let '(s2, tr) := run_gen fixd s1 r in
      (s2, (o, out) :: tr)
  end.

Definition run := run_gen true.
Definition run_pinned := run_gen false.

(* ---- wire encoding (codes disjoint from Model/StackWire.v) ---- *)
Definition parse_op (l : list Z) : option op :=
  match l with
  | [51; t; p; srv; cli; typ] => Some (Begin (Nz t) {| q_peer := Nz p; q_srv := Nz srv; q_cli := Nz cli; q_typ := Nz typ |})
  | [52; t] => Some (End (Nz t))
  | [53; p; srv; cli] => Some (Unbind (Nz p) (Nz srv) (Nz cli))
  | [54; p] => Some (ListB (Nz p))
  | [55; f] => Some (OnFeat (Nz f))
  | [57; n; p1; c1; t1; p2; c2; t2; srv] =>
      Some (Race (Nz n) {| q_peer := Nz p1; q_srv := Nz srv; q_cli := Nz c1; q_typ := Nz t1 |}
                        {| q_peer := Nz p2; q_srv := Nz srv; q_cli := Nz c2; q_typ := Nz t2 |})
  | _ => None
  end.

Definition print_obs (o : obs) : list Z :=
  match o with
  | Parked => [31]
  | Busy => [32]
  | NotRunnable => [33]
  | Dropped => [34]
  | Res p e => [35; Zn p; Zb e]
  | EvAdd p s c => [36; Zn p; Zn s; Zn c]
  | EvRem p s c => [37; Zn p; Zn s; Zn c]
  | Ent i s c => [38; Zn i; Zn s; Zn c]
  | Cnt n => [39; Zn n]
  | RaceOut n g r o => [41; Zn n; Zn g; Zn r; Zn o]
  | Other c => [40; Zn c]
  end.

Definition parse_obs (l : list Z) : option obs :=
  match l with
  | [31] => Some Parked
  | [32] => Some Busy
  | [33] => Some NotRunnable
  | [34] => Some Dropped
  | [35; p; e] => Some (Res (Nz p) (bZ e))
  | [36; p; s; c] => Some (EvAdd (Nz p) (Nz s) (Nz c))
  | [37; p; s; c] => Some (EvRem (Nz p) (Nz s) (Nz c))
  | [38; i; s; c] => Some (Ent (Nz i) (Nz s) (Nz c))
  | [39; n] => Some (Cnt (Nz n))
  | [41; n; g; r; o] => Some (RaceOut (Nz n) (Nz g) (Nz r) (Nz o))
  | [40; c] => Some (Other (Nz c))
  | _ => None
  end.
