(* C01 / C14 — self-contained executable model of the inbound dispatcher of spine-go:

     spine/device_local.go      DeviceLocal.ProcessCmd
     spine/feature_local.go     FeatureLocal.HandleMessage, processRead / processReply /
                                processNotify / processWrite / processResult, the response and
                                result callback registries
     spine/nodemanagement*.go   NodeManagement.HandleMessage and the handlers it dispatches to
     spine/send.go              Sender.Reply / Sender.result (addressing of responses)
     spine/subscription_manager.go, binding_manager.go   (grant / delete rules, the write gate)
     spine/device_remote.go     FeatureByAddress, AddEntityAndFeatures, CheckEntityInformation, UpdateDevice
     spine/nodemanagement_detaileddiscovery.go   reply / partial notify processing (as repaired on main:
                                entries handled one by one, a reply removes the entities it does not list,
                                the device information entity cannot be removed, node management always exists)

   Executable definitions only (no proofs).  Identifiers are numbers kept in bijection by the
   harness (harness/dispatch).  The model describes the REPAIRED code:
     fix-C01-no-result-for-result      no result in answer to a result for an unknown destination
     fix-C01-unknown-destination-source  error results for an unknown destination carry the local
                                       device address
     fix-C14-nodemanagement-reply-callbacks  NodeManagement.HandleMessage invokes the response
                                       callbacks for an accepted reply
   The pinned behaviour is kept as [step_pinned] for the refutation witnesses.

   A datagram is well-formed by construction: source, destination (entity list + optional
   feature / device), message counter, one cmd whose payload is a result (classifier result) or
   one data field (the other five classifiers).  Function data are opaque tokens (0 = no data).
   Not modelled: filters (every update is a full replace), write approval callbacks (C12),
   events, the outbound requests / notifications the stack sends on its own (subscription fan
   out: C08; the read request after a rejected notify; discovery follow-ups) — the harness
   projects them away. *)
From Verif Require Import Base.Prelude.

(* ------------------------------------------------------------------ addresses *)
Definition eaddr := list N.
Record faddr := { fa_dev : option N; fa_ent : eaddr; fa_feat : option N }.

Fixpoint eqb_eaddr (a b : eaddr) : bool :=
  match a, b with
  | [], [] => true
  | x :: a', y :: b' => N.eqb x y && eqb_eaddr a' b'
  | _, _ => false
  end.

Definition eqb_optN (a b : option N) : bool :=
  match a, b with
  | None, None => true
  | Some x, Some y => N.eqb x y
  | _, _ => false
  end.

Definition eqb_faddr (a b : faddr) : bool :=
  eqb_optN (fa_dev a) (fa_dev b) && eqb_eaddr (fa_ent a) (fa_ent b) && eqb_optN (fa_feat a) (fa_feat b).

Inductive role := RClient | RServer | RSpecial.
Definition eqb_role (a b : role) : bool :=
  match a, b with
  | RClient, RClient | RServer, RServer | RSpecial, RSpecial => true
  | _, _ => false
  end.

(* ------------------------------------------------------------------ tables *)
(* feature types (numbering of the harness) *)
Definition T_LOADCONTROL : N := 1.
Definition T_MEASUREMENT : N := 2.
Definition T_DEVCONF : N := 3.
Definition T_GENERIC : N := 4.
Definition T_NODEMGMT : N := 5.
Definition T_DEVCLASS : N := 6.
Definition T_ALARM : N := 7.
Definition LOCAL_DEV : N := 0.

(* functions: 1..10 the node management payload fields and resultData, 11.. data functions *)
Definition FN_DISC : N := 1.       (* nodeManagementDetailedDiscoveryData *)
Definition FN_UC : N := 2.         (* nodeManagementUseCaseData *)
Definition FN_DEST : N := 3.       (* nodeManagementDestinationListData *)
Definition FN_SUBDATA : N := 4.    (* nodeManagementSubscriptionData *)
Definition FN_SUBREQ : N := 5.     (* nodeManagementSubscriptionRequestCall *)
Definition FN_SUBDEL : N := 6.     (* nodeManagementSubscriptionDeleteCall *)
Definition FN_BINDDATA : N := 7.   (* nodeManagementBindingData *)
Definition FN_BINDREQ : N := 8.    (* nodeManagementBindingRequestCall *)
Definition FN_BINDDEL : N := 9.    (* nodeManagementBindingDeleteCall *)
Definition FN_RESULT : N := 10.    (* resultData *)
(* 11 loadControlEventListData 12 loadControlLimitConstraintsListData 13 loadControlLimitDescriptionListData
   14 loadControlLimitListData 15 loadControlNodeData 16 loadControlStateListData
   17 measurementListData 18 measurementDescriptionListData 19 measurementConstraintsListData
   20 measurementThresholdRelationListData 21 measurementSeriesListData
   22 deviceConfigurationKeyValueConstraintsListData 23 deviceConfigurationKeyValueDescriptionListData
   24 deviceConfigurationKeyValueListData
   25 deviceClassificationManufacturerData 26 deviceClassificationUserData
   27 alarmListData *)
Definition FN_MANUFACTURER : N := 25.
Definition FN_LAST : N := 27.

(* the feature type whose branch of spine.CreateFunctionData registers the function
   (function_data_factory.go restricted to the functions of the harness) *)
Definition fn_home (fn : N) : option N :=
  if N.eqb fn FN_DISC || N.eqb fn FN_UC || N.eqb fn FN_DEST then Some T_NODEMGMT
  else if N.leb 11 fn && N.leb fn 16 then Some T_LOADCONTROL
  else if N.leb 17 fn && N.leb fn 21 then Some T_MEASUREMENT
  else if N.leb 22 fn && N.leb fn 24 then Some T_DEVCONF
  else if N.leb 25 fn && N.leb fn 26 then Some T_DEVCLASS
  else if N.eqb fn 27 then Some T_ALARM
  else None.

(* CreateFunctionData(t) contains a function data object for fn: the NodeManagement branch returns
   early; every other branch also fires for Generic *)
Definition fn_registered (t fn : N) : bool :=
  match fn_home fn with
  | Some h => N.eqb t h || (N.eqb t T_GENERIC && negb (N.eqb h T_NODEMGMT))
  | None => false
  end.

(* does the function's data type support partial updates (implements model.Updater: the list types)?
   checked against FunctionData.SupportsPartialWrite by the harness at start-up *)
Definition fn_partial (fn : N) : bool := negb (N.eqb fn 15 || N.eqb fn 25 || N.eqb fn 26).

Definition all_fns : list N := map N.of_nat (seq 1 27).

(* model.ErrorNumberType *)
Definition E_GENERAL : N := 1.
Definition E_DESTUNKNOWN : N := 4.
Definition E_NOTSUPPORTED : N := 6.
Definition E_REJECTED : N := 7.

(* ------------------------------------------------------------------ wire values *)
Inductive cls := CRead | CReply | CNotify | CWrite | CCall.

Record reg_call := { rc_cli : faddr; rc_srv : faddr; rc_type : N }.

Inductive estate := SAdded | SRemoved.
Record disc_ent := { de_addr : eaddr; de_dev : option N; de_state : option estate }.
Record disc_feat := { df_ent : eaddr; df_id : N; df_type : N; df_role : role }.
Record disc_msg := { dm_dev : option N; dm_ents : list disc_ent; dm_feats : list disc_feat }.

(* the one data field of the cmd *)
Inductive payload :=
| PData (fn v : N)                 (* a function data field carrying token v *)
| PDiscovery (m : disc_msg)        (* nodeManagementDetailedDiscoveryData *)
| PUseCase (v : N)                 (* nodeManagementUseCaseData *)
| PSubReq (c : reg_call) | PSubDel (c : reg_call)
| PBindReq (c : reg_call) | PBindDel (c : reg_call)
| PSubData | PBindData             (* nodeManagementSubscriptionData / BindingData (empty: a request) *)
| PDestList                        (* nodeManagementDestinationListData *)
| PResult (err : N).               (* a resultData element under another classifier than result *)

Inductive body :=
| BResult (err : N)                (* cmdClassifier result, resultData.errorNumber *)
| BResultWith (pl : payload)       (* cmdClassifier result whose cmd is NOT a resultData element but pl *)
| BCmd (c : cls) (pl : payload).

Record dgram := {
  d_src : faddr; d_dst : faddr;
  d_ctr : N; d_ref : option N;     (* msgCounter, msgCounterReference *)
  d_ack : bool;                    (* ackRequest present and true *)
  d_body : body;
  d_fct : N;                       (* the cmd's `function` element: 0 absent, 1 the function of the data element,
                                      2 present but empty (what FunctionDataCmd.ReadCmdType emits for a filtered
                                      read), 3 another function.  ProcessCmd dispatches on the data element and
                                      never looks at it ("TODO check if cmd.Function is the same ...") *)
  d_sel : N                        (* a read restricted by a partial filter: 0 none, 1 the function's selectors,
                                      2 its elements (built by ReadCmdType); put on the wire for reads of data
                                      functions.  processRead ignores the filter: the reply carries the
                                      full current data.  On a WRITE of a data function whose type does not
                                      support partial updates a non-zero value puts an (empty) partial filter on
                                      the wire: FunctionData.UpdateData rejects it; on other writes nothing is
                                      put on the wire (partial list updates are outside the token model) *)
}.

(* cmd.Data(): the function named by the eebus tag of the data field, and the token of its value *)
Definition pl_fn (pl : payload) : N :=
  match pl with
  | PData fn _ => fn
  | PDiscovery _ => FN_DISC
  | PUseCase _ => FN_UC
  | PSubReq _ => FN_SUBREQ | PSubDel _ => FN_SUBDEL
  | PBindReq _ => FN_BINDREQ | PBindDel _ => FN_BINDDEL
  | PSubData => FN_SUBDATA | PBindData => FN_BINDDATA
  | PDestList => FN_DEST
  | PResult _ => FN_RESULT
  end.

(* the notify form of detailed discovery data carries the partial filter (cmdControl.partial) *)
Definition partial_payload (pl : payload) : bool := match pl with PDiscovery _ => true | _ => false end.

Definition pl_val (pl : payload) : N :=
  match pl with
  | PData _ v => v
  | PUseCase v => v
  | PResult e => e
  | _ => 0
  end.

(* ------------------------------------------------------------------ state *)
Record lfeat := {
  lf_ent : eaddr; lf_id : N; lf_type : N; lf_role : role;
  lf_ops : list (N * (bool * bool));      (* Feature.operations: function -> (read, write) *)
  lf_data : list (N * N);                 (* function -> token of the stored data *)
  lf_rcb : list (N * list N);             (* responseMsgCallback: counter -> callbacks, registration order *)
  lf_resultcb : list N                    (* resultCallbacks *)
}.

(* an entity object the application created: its address, its feature id generator, and whether it
   has been taken out of the device again (DeviceLocal.RemoveEntity; the object and its features live on,
   but no address resolves to them any more) *)
Record lent := { le_addr : eaddr; le_next : N; le_gone : bool }.

Record rfeat := { rf_dev : option N; rf_id : N; rf_type : N; rf_role : role }.
Record rent := { re_dev : option N; re_addr : eaddr; re_feats : list rfeat }.
Record peer := { p_ski : N; p_addr : option N; p_ents : list rent }.

(* one subscription / binding: local server feature, owning connection, client feature address *)
Record entry := { e_srv : eaddr * N; e_ski : N; e_cli : faddr }.

Record st := {
  lents : list lent;
  lfeats : list lfeat;
  peers : list peer;                      (* DeviceLocal.remoteDevices *)
  subs : list entry;
  binds : list entry
}.

Definition nm_ops : list (N * (bool * bool)) :=
  [ (FN_DISC, (true, false)); (FN_UC, (true, false)); (FN_SUBDATA, (true, false));
    (FN_SUBREQ, (false, false)); (FN_SUBDEL, (false, false)); (FN_BINDDATA, (true, false));
    (FN_BINDREQ, (false, false)); (FN_BINDDEL, (false, false)); (FN_DEST, (true, false)) ].

Definition nodemgmt_feat : lfeat :=
  {| lf_ent := [0%N]; lf_id := 0; lf_type := T_NODEMGMT; lf_role := RSpecial;
     lf_ops := nm_ops; lf_data := []; lf_rcb := []; lf_resultcb := [] |}.
(* the harness names its device model "77": the manufacturer data decode to token 77 *)
Definition devclass_feat : lfeat :=
  {| lf_ent := [0%N]; lf_id := 1; lf_type := T_DEVCLASS; lf_role := RServer;
     lf_ops := [(FN_MANUFACTURER, (true, false))]; lf_data := [(FN_MANUFACTURER, 77%N)];
     lf_rcb := []; lf_resultcb := [] |}.

Definition init : st :=
  {| lents := [ {| le_addr := [0%N]; le_next := 2; le_gone := false |} ];
     lfeats := [nodemgmt_feat; devclass_feat];
     peers := []; subs := []; binds := [] |}.

(* ------------------------------------------------------------------ observations *)
Inductive obs :=
| OReply (p ref : N) (src dst : faddr) (fn v : N)   (* reply written to peer p: reference, addresses, function, data token *)
| OResult (p ref err : N) (src dst : faddr)         (* result written to peer p; err 0 = success *)
| OInvoke (cb : N) (e : eaddr) (f : N) (ref : N) (p : N) (re : eaddr) (rf : N) (data : N)
                                                    (* callback cb of local feature (e,f): reference, remote feature, data token *)
| ORetB (b : bool)
| ORetN (n : N)
| ONone.

(* ------------------------------------------------------------------ operations *)
Inductive op :=
| AddLocalEntity (e : eaddr)
| RemoveLocalEntity (e : eaddr)                      (* DeviceLocal.RemoveEntity; an address is not reused afterwards *)
| AddLocalFeature (e : eaddr) (t : N) (r : role)
| AddFunction (e : eaddr) (f fn : N) (rd wr : bool)
| SetData (e : eaddr) (f fn v : N)
| GetData (e : eaddr) (f fn : N)
| Connect (p : N)
| Disconnect (p : N)
| Inbound (p : N) (d : dgram)                        (* DeviceRemote.HandleSpineMesssage on connection p *)
| AddRespCb (e : eaddr) (f ctr cb : N)               (* FeatureLocal.AddResponseCallback *)
| AddResultCb (e : eaddr) (f cb : N)                 (* FeatureLocal.AddResultCallback *)
| QFactory (t : N)                                   (* which of the harness' functions CreateFunctionData(t) registers *)
| ParRegister (e : eaddr) (f ctr cb k : N)
     (* the same callback registered for the same counter on the same feature from k goroutines released
        together.  AddResponseCallback (duplicate scan + append) is one critical section under
        FeatureLocal.muxResponseCB, so the k calls happen in some order, and since they are identical every
        order is the same sequence: the first is accepted unless the callback is already pending, all others
        are refused.  Observed: the multiset of the k outcomes. *)
| SeqArrive (l : list (N * dgram))
     (* arrivals back to back: the datagrams are delivered one after the other WITHOUT waiting for the
        callbacks they start (the callbacks run in goroutines; the harness lets a slow callback block until
        the end of the operation).  Observed: the invocations of the whole operation. *)
| ParArrive (ps : list N) (d : dgram) (late : option N) (pf : N).
     (* overlapping arrivals: the same datagram d (a reply or result referencing a counter) arrives on the
        connections ps at once, from as many goroutines, optionally racing with one AddResponseCallback of
        callback `late` for d's reference on d's destination feature; after all of them returned, d arrives
        once more on connection pf.  Lookup + spawn + delete of the callbacks of a counter is one critical
        section (FeatureLocal.muxResponseCB), so every interleaving is a sequential order; the model runs
        the order "ps, registration, pf".  Observed: the multiset of invocations of the whole operation
        (peer field blanked: which arrival won is the schedule's business) and the registration outcome. *)

(* ------------------------------------------------------------------ lookups *)
Definition is_feat (e : eaddr) (f : N) (x : lfeat) : bool := eqb_eaddr (lf_ent x) e && N.eqb (lf_id x) f.

Definition find_lfeat (s : st) (e : eaddr) (f : option N) : option lfeat :=
  match f with
  | None => None
  | Some f => find (is_feat e f) (lfeats s)
  end.

(* DeviceLocal.FeatureByAddress: the entity of the device with EXACTLY that address (DeviceLocal.Entity:
   reflect.DeepEqual on the address — a prefix of a sub entity's address, or the address of a removed
   entity, resolves to nothing), then the feature; the device part is ignored *)
Definition local_feature (s : st) (a : faddr) : option lfeat :=
  if existsb (fun le => eqb_eaddr (le_addr le) (fa_ent a) && negb (le_gone le)) (lents s)
  then find_lfeat s (fa_ent a) (fa_feat a) else None.

Definition lf_addr (f : lfeat) : faddr :=
  {| fa_dev := Some LOCAL_DEV; fa_ent := lf_ent f; fa_feat := Some (lf_id f) |}.

Definition find_peer (s : st) (p : N) : option peer := find (fun x => N.eqb (p_ski x) p) (peers s).

Definition find_rent (pe : peer) (e : eaddr) : option rent :=
  find (fun x => eqb_eaddr (re_addr x) e) (p_ents pe).

(* DeviceRemote.FeatureByAddress (the device part is ignored) *)
Definition remote_feature (pe : peer) (a : faddr) : option (rent * rfeat) :=
  match find_rent pe (fa_ent a) with
  | None => None
  | Some en =>
      match fa_feat a with
      | None => None
      | Some f => match find (fun x => N.eqb (rf_id x) f) (re_feats en) with
                  | Some rf => Some (en, rf)
                  | None => None
                  end
      end
  end.

Definition rf_addr (en : rent) (rf : rfeat) : faddr :=
  {| fa_dev := rf_dev rf; fa_ent := re_addr en; fa_feat := Some (rf_id rf) |}.

(* checkRoleAndType *)
Definition role_type_ok (fr : role) (ft : N) (want : role) (t : N) : bool :=
  (eqb_role fr RSpecial || eqb_role fr want) && (N.eqb ft t || N.eqb ft T_GENERIC).

(* the node management feature object of the device: entity [0], feature 0 *)
Definition is_nm (lf : lfeat) : bool := is_feat [0%N] 0 lf.

(* ------------------------------------------------------------------ state updates *)
Definition set_peers (s : st) (l : list peer) : st :=
  {| lents := lents s; lfeats := lfeats s; peers := l; subs := subs s; binds := binds s |}.

Definition set_peer (s : st) (pe : peer) : st :=
  set_peers s (map (fun x => if N.eqb (p_ski x) (p_ski pe) then pe else x) (peers s)).

Definition set_lfeats (s : st) (l : list lfeat) : st :=
  {| lents := lents s; lfeats := l; peers := peers s; subs := subs s; binds := binds s |}.

Definition set_subs (s : st) (l : list entry) : st :=
  {| lents := lents s; lfeats := lfeats s; peers := peers s; subs := l; binds := binds s |}.

Definition set_binds (s : st) (l : list entry) : st :=
  {| lents := lents s; lfeats := lfeats s; peers := peers s; subs := subs s; binds := l |}.

(* mutate the feature object a lookup returned: the first feature with that address *)
Fixpoint upd_first (P : lfeat -> bool) (g : lfeat -> lfeat) (l : list lfeat) : list lfeat :=
  match l with
  | [] => []
  | x :: r => if P x then g x :: r else x :: upd_first P g r
  end.

Definition upd_lfeat (s : st) (e : eaddr) (f : N) (g : lfeat -> lfeat) : st :=
  set_lfeats s (upd_first (is_feat e f) g (lfeats s)).

Definition set_data (fn v : N) (f : lfeat) : lfeat :=
  {| lf_ent := lf_ent f; lf_id := lf_id f; lf_type := lf_type f; lf_role := lf_role f; lf_ops := lf_ops f;
     lf_data := (fn, v) :: remove_N fn (lf_data f); lf_rcb := lf_rcb f; lf_resultcb := lf_resultcb f |}.

Definition set_rcb (l : list (N * list N)) (f : lfeat) : lfeat :=
  {| lf_ent := lf_ent f; lf_id := lf_id f; lf_type := lf_type f; lf_role := lf_role f; lf_ops := lf_ops f;
     lf_data := lf_data f; lf_rcb := l; lf_resultcb := lf_resultcb f |}.

Definition set_resultcb (l : list N) (f : lfeat) : lfeat :=
  {| lf_ent := lf_ent f; lf_id := lf_id f; lf_type := lf_type f; lf_role := lf_role f; lf_ops := lf_ops f;
     lf_data := lf_data f; lf_rcb := lf_rcb f; lf_resultcb := l |}.

Definition data_of (lf : lfeat) (fn : N) : N :=
  match assoc_N fn (lf_data lf) with Some v => v | None => 0 end.

(* ------------------------------------------------------------------ registries *)
Definition same_srv (x : entry) (sf : lfeat) : bool :=
  eqb_eaddr (fst (e_srv x)) (lf_ent sf) && N.eqb (snd (e_srv x)) (lf_id sf).

Definition mk_entry (sf : lfeat) (pe : peer) (cli : faddr) : entry :=
  {| e_srv := (lf_ent sf, lf_id sf); e_ski := p_ski pe; e_cli := cli |}.

(* SubscriptionManager.AddSubscription; true = error *)
Definition add_subscription (s : st) (pe : peer) (c : reg_call) : st * bool :=
  match local_feature s (rc_srv c) with
  | None => (s, true)
  | Some sf =>
      if negb (role_type_ok (lf_role sf) (lf_type sf) RServer (rc_type c)) then (s, true) else
      match remote_feature pe (rc_cli c) with
      | None => (s, true)
      | Some (en, rf) =>
          if negb (role_type_ok (rf_role rf) (rf_type rf) RClient (rc_type c)) then (s, true) else
          let cli := rf_addr en rf in
          if existsb (fun x => same_srv x sf && N.eqb (e_ski x) (p_ski pe) && eqb_faddr (e_cli x) cli) (subs s)
          then (s, true)
          else (set_subs s (subs s ++ [mk_entry sf pe cli]), false)
      end
  end.

(* the client address of a delete call with the device defaulted to the sender's (SPINE 7.4.4) *)
Definition default_dev (pe : peer) (a : faddr) : faddr :=
  {| fa_dev := match fa_dev a with Some d => Some d | None => p_addr pe end;
     fa_ent := fa_ent a; fa_feat := fa_feat a |}.

(* SubscriptionManager.RemoveSubscription (entries of the calling connection only: fix c14f34e) *)
Definition remove_subscription (s : st) (pe : peer) (c : reg_call) : st * bool :=
  let ca := default_dev pe (rc_cli c) in
  match remote_feature pe (rc_cli c) with
  | None => (s, true)
  | Some _ =>
      match local_feature s (rc_srv c) with
      | None => (s, true)
      | Some sf =>
          let keep := filter (fun x => negb (N.eqb (e_ski x) (p_ski pe) && eqb_faddr (e_cli x) ca && same_srv x sf)) (subs s) in
          if Nat.eqb (length keep) (length (subs s)) then (s, true)
          else (set_subs s keep, false)
      end
  end.

Definition bindings_on (s : st) (sf : lfeat) : list entry := filter (fun x => same_srv x sf) (binds s).

(* BindingManager.HasLocalFeatureRemoteBinding: by addresses only *)
Definition has_binding (s : st) (sf : lfeat) (cli : faddr) : bool :=
  existsb (fun x => eqb_faddr (e_cli x) cli) (bindings_on s sf).

(* BindingManager.AddBinding *)
Definition add_binding (s : st) (pe : peer) (c : reg_call) : st * bool :=
  match local_feature s (rc_srv c) with
  | None => (s, true)
  | Some sf =>
      if negb (role_type_ok (lf_role sf) (lf_type sf) RServer (rc_type c)) then (s, true) else
      match bindings_on s sf with
      | _ :: _ => (s, true)
      | [] =>
          match remote_feature pe (rc_cli c) with
          | None => (s, true)
          | Some (en, rf) =>
              if negb (role_type_ok (rf_role rf) (rf_type rf) RClient (rc_type c)) then (s, true) else
              (set_binds s (binds s ++ [mk_entry sf pe (rf_addr en rf)]), false)
          end
      end
  end.

(* BindingManager.RemoveBinding (as repaired by dfbb605 and c14f34e: entries of the calling connection only) *)
Definition remove_binding (s : st) (pe : peer) (c : reg_call) : st * bool :=
  let ca := default_dev pe (rc_cli c) in
  match remote_feature pe (rc_cli c) with
  | None => (s, true)
  | Some (en, rf) =>
      match local_feature s (rc_srv c) with
      | None => (s, true)
      | Some sf =>
          if negb (role_type_ok (lf_role sf) (lf_type sf) RServer (lf_type sf)) then (s, true) else
          if negb (has_binding s sf (rf_addr en rf)) then (s, true) else
          let keep := filter (fun x => negb (N.eqb (e_ski x) (p_ski pe) && eqb_faddr (e_cli x) ca && same_srv x sf)) (binds s) in
          if Nat.eqb (length keep) (length (binds s)) then (s, true)
          else (set_binds s keep, false)
      end
  end.

(* Remove{Subscriptions,Bindings}ForEntity (as repaired by cfdba54 / 32057d9) *)
Definition entity_match (pe : peer) (en : rent) (x : entry) : bool :=
  N.eqb (e_ski x) (p_ski pe) && eqb_eaddr (fa_ent (e_cli x)) (re_addr en).

Definition remove_for_entity (s : st) (pe : peer) (en : rent) : st :=
  let s1 := set_subs s (filter (fun x => negb (entity_match pe en x)) (subs s)) in
  set_binds s1 (filter (fun x => negb (entity_match pe en x)) (binds s1)).

(* ------------------------------------------------------------------ discovery *)
Definition mk_rfeat (en : rent) (d : disc_feat) : rfeat :=
  {| rf_dev := re_dev en; rf_id := df_id d; rf_type := df_type d; rf_role := df_role d |}.

(* DeviceRemote.CheckEntityInformation(initialData, ei): the entity address is given; and unless this
   is the initial discovery reply: the device information entity is not being removed, and a device
   address, if given, is the sender's *)
Definition check_entity (initial : bool) (pe : peer) (de : disc_ent) : bool :=
  match de_addr de with
  | [] => false
  | _ =>
      initial ||
      (negb (match de_state de with Some SRemoved => eqb_eaddr (de_addr de) [0%N] | _ => false end) &&
       match de_dev de, p_addr pe with
       | Some d, Some a => N.eqb d a
       | _, _ => true
       end)
  end.

(* one round of the loop of DeviceRemote.AddEntityAndFeatures (after the check): find or create the
   entity, complete its device address, replace its features by those the message lists for it;
   node management always exists on the device information entity *)
Definition add_entity (pe : peer) (m : disc_msg) (de : disc_ent) : peer :=
  let '(en, created) :=
    match find_rent pe (de_addr de) with
    | Some en => (en, false)
    | None => ({| re_dev := p_addr pe; re_addr := de_addr de; re_feats := [] |}, true)
    end in
  let dev := match re_dev en with
             | Some d => Some d
             | None => dm_dev m
             end in
  let en1 := {| re_dev := dev; re_addr := re_addr en; re_feats := [] |} in
  let feats := map (mk_rfeat en1) (filter (fun d => eqb_eaddr (df_ent d) (de_addr de)) (dm_feats m)) in
  let feats1 :=
    if eqb_eaddr (de_addr de) [0%N] && negb (existsb (fun x => N.eqb (rf_id x) 0) feats)
    then feats ++ [ {| rf_dev := dev; rf_id := 0; rf_type := T_NODEMGMT; rf_role := RSpecial |} ]
    else feats in
  let en2 := {| re_dev := dev; re_addr := re_addr en; re_feats := feats1 |} in
  let ents := if created then p_ents pe ++ [en2]
              else map (fun x => if eqb_eaddr (re_addr x) (de_addr de) then en2 else x) (p_ents pe) in
  {| p_ski := p_ski pe; p_addr := p_addr pe; p_ents := ents |}.

(* DeviceRemote.AddEntityAndFeatures: an entry that fails the check aborts, the entries before it
   have been applied; true = error *)
Fixpoint add_entities (initial : bool) (pe : peer) (m : disc_msg) (l : list disc_ent) : peer * bool :=
  match l with
  | [] => (pe, false)
  | de :: r =>
      if negb (check_entity initial pe de) then (pe, true)
      else add_entities initial (add_entity pe m de) m r
  end.

(* NodeManagement.removeRemoteEntity: the entity, if it exists, with its subscriptions and bindings *)
Definition remove_remote_entity (s : st) (p : N) (e : eaddr) : st :=
  match find_peer s p with
  | None => s
  | Some pe =>
      match find_rent pe e with
      | None => s
      | Some en =>
          let pe1 := {| p_ski := p_ski pe; p_addr := p_addr pe;
                        p_ents := filter (fun x => negb (eqb_eaddr (re_addr x) e)) (p_ents pe) |} in
          remove_for_entity (set_peer s pe1) pe1 en
      end
  end.

(* processNotifyDetailedDiscoveryData (with the partial filter): every entry on its own, in order;
   the first defective entry aborts with an error, the entries before it have been applied *)
Fixpoint notify_entries (s : st) (p : N) (m : disc_msg) (l : list disc_ent) : st * bool :=
  match l with
  | [] => (s, false)
  | de :: r =>
      match de_state de, find_peer s p with
      | None, _ | _, None => (s, true)
      | Some SAdded, Some pe =>
          if negb (check_entity false pe de) then (s, true)
          else notify_entries (set_peer s (add_entity pe m de)) p m r
      | Some SRemoved, Some pe =>
          if negb (check_entity false pe de) then (s, true)
          else notify_entries (remove_remote_entity s p (de_addr de)) p m r
      end
  end.

Definition listed (m : disc_msg) (e : eaddr) : bool := existsb (fun de => eqb_eaddr (de_addr de) e) (dm_ents m).

(* processReplyDetailedDiscoveryData: UpdateDevice, AddEntityAndFeatures(true, data), then the entities
   the reply does not list (other than the device information entity) are removed *)
Definition discovery_reply (s : st) (pe : peer) (m : disc_msg) : st * bool :=
  let pe0 := {| p_ski := p_ski pe; p_addr := match dm_dev m with Some d => Some d | None => p_addr pe end;
                p_ents := p_ents pe |} in
  let '(pe1, err) := add_entities true pe0 m (dm_ents m) in
  let s1 := set_peer s pe1 in
  if err then (s1, true) else
  (fold_left (fun sa en => if listed m (re_addr en) || eqb_eaddr (re_addr en) [0%N] then sa
                           else remove_remote_entity sa (p_ski pe) (re_addr en))
             (p_ents pe1) s1, false).

Definition discovery_notify (s : st) (p : N) (m : disc_msg) : st * bool :=
  match dm_ents m with
  | [] => (s, true)
  | _ => notify_entries s p m (dm_ents m)
  end.

(* ------------------------------------------------------------------ sending *)
(* Sender.Reply / Sender.result: source = the request's destination with the device of the sender
   address handed in, destination = the request's source, reference = the request's counter *)
Definition resp_src (d : dgram) (dev : option N) : faddr :=
  {| fa_dev := dev; fa_ent := fa_ent (d_dst d); fa_feat := fa_feat (d_dst d) |}.

Definition send_result (p : N) (d : dgram) (dev : option N) (err : N) : obs :=
  OResult p (d_ctr d) err (resp_src d dev) (d_src d).

Definition send_reply (p : N) (d : dgram) (dev : option N) (fn v : N) : obs :=
  OReply p (d_ctr d) (resp_src d dev) (d_src d) fn v.

Definition local_dev : option N := Some LOCAL_DEV.

(* ------------------------------------------------------------------ callbacks *)
Definition mk_invoke (lf : lfeat) (r p : N) (en : rent) (rf : rfeat) (data : N) (cb : N) : obs :=
  OInvoke cb (lf_ent lf) (lf_id lf) r p (re_addr en) (rf_id rf) data.

(* FeatureLocal.processResponseMsgCallbacks: spawn each, delete the key *)
Definition process_response_cbs (s : st) (lf : lfeat) (r : N) (mk : N -> obs) : st * list obs :=
  match assoc_N r (lf_rcb lf) with
  | None => (s, [])
  | Some cbs => (upd_lfeat s (lf_ent lf) (lf_id lf) (fun x => set_rcb (remove_N r (lf_rcb x)) x), map mk cbs)
  end.

(* result of a handler: new state, datagrams / invocations, error number *)
Definition hres := (st * list obs * option N)%type.

(* FeatureLocal.processResult *)
Definition process_result (s : st) (p : N) (en : rent) (rf : rfeat) (lf : lfeat) (d : dgram) (err : N) : hres :=
  match d_ref d with
  | None => (s, [], None)
  | Some r =>
      let mk := mk_invoke lf r p en rf err in
      let '(s1, o1) := process_response_cbs s lf r mk in
      (s1, o1 ++ map mk (lf_resultcb lf), None)
  end.

(* ------------------------------------------------------------------ FeatureLocal.HandleMessage *)
(* processWrite / executeWrite (no write approval callbacks registered): sends its own results *)
Definition write_refused (lf : lfeat) (d : dgram) (fn : N) : bool :=
  negb (fn_registered (lf_type lf) fn)                      (* updateData: "data not found" *)
  || (negb (N.eqb (d_sel d) 0) && negb (fn_partial fn)).    (* FunctionData.UpdateData: "partial updates are not supported" *)

Definition process_write (s : st) (p : N) (lf : lfeat) (d : dgram) (fn v : N) : hres :=
  if write_refused lf d fn then (s, [send_result p d local_dev E_GENERAL], None)
  else (upd_lfeat s (lf_ent lf) (lf_id lf) (set_data fn v),
        if d_ack d then [send_result p d local_dev 0] else [], None).

Definition fl_handle (s : st) (p : N) (en : rent) (rf : rfeat) (lf : lfeat) (d : dgram) : hres :=
  match d_body d with
  | BResult e => process_result s p en rf lf d e
  | BResultWith _ => (s, [], Some E_GENERAL)      (* processResult: the cmd carries no resultData *)
  | BCmd c pl =>
      let fn := pl_fn pl in
      match c with
      | CRead =>
          (* processRead *)
          if eqb_role (lf_role lf) RClient then (s, [], Some E_REJECTED)
          else if negb (fn_registered (lf_type lf) fn) then (s, [], Some E_GENERAL)
          else (s, [send_reply p d local_dev fn (data_of lf fn)], None)
      | CReply =>
          (* processReply: FeatureRemote.UpdateData, then the response callbacks *)
          if negb (fn_registered (rf_type rf) fn) then (s, [], Some E_GENERAL)
          else match d_ref d with
               | None => (s, [], None)
               | Some r =>
                   let '(s1, o1) := process_response_cbs s lf r (mk_invoke lf r p en rf (pl_val pl)) in
                   (s1, o1, None)
               end
      | CNotify =>
          (* processNotify: FeatureRemote.UpdateData; with a partial filter FunctionData.UpdateData needs a
             type that supports partial updates, which detailed discovery data is not *)
          if negb (fn_registered (rf_type rf) fn) || partial_payload pl then (s, [], Some E_GENERAL) else (s, [], None)
      | CWrite => process_write s p lf d fn (pl_val pl)
      | CCall => (s, [], Some E_GENERAL)          (* "CmdClassifier not implemented" *)
      end
  end.

(* ------------------------------------------------------------------ NodeManagement.HandleMessage *)
Definition count_of (p : N) (l : list entry) : N := N.of_nat (length (filter (fun x => N.eqb (e_ski x) p) l)).

Definition err_general (s : st) : hres := (s, [], Some E_GENERAL).

Definition reg_result (r : st * bool) : hres :=
  let '(s1, e) := r in (s1, [], if e then Some E_GENERAL else None).

(* the switch over the payload field *)
Definition nm_dispatch (s : st) (pe : peer) (lf : lfeat) (d : dgram) (c : cls) (pl : payload) : hres :=
  let p := p_ski pe in
  match pl with
  | PDiscovery m =>
      match c with
      | CRead => (s, [send_reply p d local_dev FN_DISC 0], None)
      | CReply => reg_result (discovery_reply s pe m)
      | CNotify => reg_result (discovery_notify s p m)
      | _ => err_general s
      end
  | PSubReq rc => match c with CCall => reg_result (add_subscription s pe rc) | _ => err_general s end
  | PSubDel rc => match c with CCall => reg_result (remove_subscription s pe rc) | _ => err_general s end
  | PSubData =>
      match c with
      | CCall => (s, [send_reply p d local_dev FN_SUBDATA (count_of p (subs s))], None)
      | _ => err_general s
      end
  | PBindReq rc => match c with CCall => reg_result (add_binding s pe rc) | _ => err_general s end
  | PBindDel rc => match c with CCall => reg_result (remove_binding s pe rc) | _ => err_general s end
  | PBindData =>
      match c with
      | CCall => (s, [send_reply p d local_dev FN_BINDDATA (count_of p (binds s))], None)
      | _ => err_general s
      end
  | PUseCase _ =>
      match c with
      | CRead => (s, [send_reply p d local_dev FN_UC (data_of lf FN_UC)], None)
      | CReply | CNotify => (s, [], None)      (* processReplyUseCaseData ignores the update error *)
      | _ => err_general s
      end
  | PDestList =>
      match c with
      | CRead => (s, [send_reply p d local_dev FN_DEST 0], None)
      | _ => err_general s                     (* reply / notify: "Not implemented" *)
      end
  | PData _ _ => (s, [], Some E_NOTSUPPORTED)   (* default: Cmd data not implemented *)
  | PResult _ => err_general s                  (* not reached: nm_handle takes the ResultData branch first *)
  end.

(* [b]: does HandleMessage reach the response callbacks for an accepted reply?  (false on the
   pinned tree: only its ResultData branch does; true with fix-C14-nodemanagement-reply-callbacks) *)
Definition nm_reply_callbacks (b : bool) (p : N) (en : rent) (rf : rfeat) (lf : lfeat) (d : dgram)
  (c : cls) (pl : payload) (h : hres) : hres :=
  let '(s1, out, err) := h in
  match err, c, d_ref d with
  | None, CReply, Some r =>
      if b then
        let '(s2, o2) := process_response_cbs s1 lf r (mk_invoke lf r p en rf (pl_val pl)) in
        (s2, out ++ o2, None)
      else (s1, out, err)
  | _, _, _ => (s1, out, err)
  end.

Definition nm_handle (nm_reply_cbs : bool) (s : st) (pe : peer) (en : rent) (rf : rfeat) (lf : lfeat) (d : dgram) : hres :=
  match d_body d with
  | BResult e => process_result s (p_ski pe) en rf lf d e
  | BResultWith _ => (s, [], Some E_GENERAL)    (* every handler rejects the classifier result for its payload *)
  | BCmd c (PResult e) =>
      (* the first case of the switch is `message.Cmd.ResultData != nil`: whatever the classifier,
         a resultData element is processed as a result *)
      process_result s (p_ski pe) en rf lf d e
  | BCmd c pl => nm_reply_callbacks nm_reply_cbs (p_ski pe) en rf lf d c pl (nm_dispatch s pe lf d c pl)
  end.

(* ------------------------------------------------------------------ DeviceLocal.ProcessCmd *)
Definition is_result_body (b : body) : bool := match b with BResult _ | BResultWith _ => true | _ => false end.

(* the classifiers acknowledged by ProcessCmd itself (write handles its own) *)
Definition ack_body (b : body) : bool :=
  match b with
  | BCmd CCall _ | BCmd CReply _ | BCmd CNotify _ => true
  | _ => false
  end.

(* the write gate: function writable on this feature, binding present *)
Definition write_gate (s : st) (lf : lfeat) (cli : faddr) (fn : N) : bool :=
  match assoc_N fn (lf_ops lf) with
  | Some (_, true) => has_binding s lf cli
  | _ => false
  end.

Record variant := { v_result_guard : bool;      (* fix-C01-no-result-for-result *)
                    v_local_source : bool;      (* fix-C01-unknown-destination-source *)
                    v_nm_reply_cbs : bool }.    (* fix-C14-nodemanagement-reply-callbacks *)
Definition repaired : variant := {| v_result_guard := true; v_local_source := true; v_nm_reply_cbs := true |}.
Definition pinned : variant := {| v_result_guard := false; v_local_source := false; v_nm_reply_cbs := false |}.

Definition process_cmd (v : variant) (s : st) (pe : peer) (d : dgram) : st * list obs :=
  let p := p_ski pe in
  match remote_feature pe (d_src d) with
  | None => (s, [])                              (* "invalid remote feature address": dropped *)
  | Some (en, rf) =>
      match local_feature s (d_dst d) with
      | None =>
          if v_result_guard v && is_result_body (d_body d) then (s, [])
          else (s, [send_result p d (if v_local_source v then local_dev else fa_dev (d_dst d)) E_DESTUNKNOWN])
      | Some lf =>
          let gate_ok :=
            match d_body d with
            | BCmd CWrite pl => write_gate s lf (rf_addr en rf) (pl_fn pl)
            | _ => true
            end in
          if negb gate_ok then (s, [send_result p d local_dev E_GENERAL]) else
          let '(s1, out, err) :=
            if is_nm lf then nm_handle (v_nm_reply_cbs v) s pe en rf lf d else fl_handle s p en rf lf d in
          match err with
          | Some e => (s1, out ++ (if is_result_body (d_body d) then [] else [send_result p d local_dev e]))
          | None => (s1, out ++ (if d_ack d && ack_body (d_body d) then [send_result p d local_dev 0] else []))
          end
      end
  end.

(* ------------------------------------------------------------------ connections *)
(* RemoveRemoteDeviceConnection: the device's subscriptions and bindings (per entity of its
   current tree), then the device *)
Definition owned_by (pe : peer) (x : entry) : bool := existsb (fun en => entity_match pe en x) (p_ents pe).

Definition disconnect (s : st) (p : N) : st :=
  match find_peer s p with
  | None => s
  | Some pe =>
      {| lents := lents s; lfeats := lfeats s;
         peers := filter (fun x => negb (N.eqb (p_ski x) p)) (peers s);
         subs := filter (fun x => negb (owned_by pe x)) (subs s);
         binds := filter (fun x => negb (owned_by pe x)) (binds s) |}
  end.

Definition fresh_peer (p : N) : peer :=
  {| p_ski := p; p_addr := None;
     p_ents := [ {| re_dev := None; re_addr := [0%N];
                    re_feats := [ {| rf_dev := None; rf_id := 0; rf_type := T_NODEMGMT; rf_role := RSpecial |} ] |} ] |}.

(* ------------------------------------------------------------------ the two operations ParArrive is made of *)
Definition inbound_v (v : variant) (s : st) (p : N) (d : dgram) : st * list obs :=
  match find_peer s p with
  | None => (s, [])                           (* no connection: nothing is delivered *)
  | Some pe => process_cmd v s pe d
  end.

Definition add_resp_cb (s : st) (e : eaddr) (f ctr cb : N) : st * list obs :=
  match find_lfeat s e (Some f) with
  | None => (s, [ONone])
  | Some lf =>
      let cbs := match assoc_N ctr (lf_rcb lf) with Some l => l | None => [] end in
      if memN cb cbs then (s, [ORetB false])      (* "callback already set" *)
      else (upd_lfeat s e f (fun x => set_rcb ((ctr, cbs ++ [cb]) :: remove_N ctr (lf_rcb x)) x), [ORetB true])
  end.

(* one event of an overlapping operation *)
Inductive ev := EArr (p : N) | EReg (cb : N).

(* the registration racing with the arrivals: for d's reference on d's destination feature *)
Definition late_reg (s : st) (d : dgram) (cb : N) : st * list obs :=
  match d_ref d, fa_feat (d_dst d) with
  | Some r, Some f => add_resp_cb s (fa_ent (d_dst d)) f r cb
  | _, _ => (s, [])
  end.

Definition run_ev (v : variant) (s : st) (d : dgram) (e : ev) : st * list obs :=
  match e with
  | EArr p => inbound_v v s p d
  | EReg cb => late_reg s d cb
  end.

(* a schedule: the events one after the other *)
Fixpoint run_evs (v : variant) (s : st) (d : dgram) (l : list ev) : st * list obs :=
  match l with
  | [] => (s, [])
  | e :: r =>
      let '(s1, o1) := run_ev v s d e in
      let '(s2, o2) := run_evs v s1 d r in
      (s2, o1 ++ o2)
  end.

Definition par_events (ps : list N) (late : option N) (pf : N) : list ev :=
  map EArr ps ++ match late with Some cb => [EReg cb] | None => [] end ++ [EArr pf].

Fixpoint run_regs (s : st) (e : eaddr) (f ctr cb : N) (n : nat) : st * list obs :=
  match n with
  | O => (s, [])
  | S n' =>
      let '(s1, o1) := add_resp_cb s e f ctr cb in
      let '(s2, o2) := run_regs s1 e f ctr cb n' in
      (s2, o1 ++ o2)
  end.

Fixpoint run_seq (v : variant) (s : st) (l : list (N * dgram)) : st * list obs :=
  match l with
  | [] => (s, [])
  | (p, d) :: r =>
      let '(s1, o1) := inbound_v v s p d in
      let '(s2, o2) := run_seq v s1 r in
      (s2, o1 ++ o2)
  end.

Definition seq_obs (out : list obs) : list obs :=
  flat_map (fun o => match o with OInvoke _ _ _ _ _ _ _ _ => [o] | _ => [] end) out.

(* what an overlapping operation reports: invocations with the peer blanked, registration outcomes *)
Definition par_obs (out : list obs) : list obs :=
  flat_map (fun o => match o with
                     | OInvoke cb e f r _ re rf data => [OInvoke cb e f r 0 re rf data]
                     | ORetB _ | ONone => [o]
                     | _ => []
                     end) out.

(* ------------------------------------------------------------------ step *)
Definition step_v (v : variant) (s : st) (o : op) : st * list obs :=
  match o with
  | AddLocalEntity e =>
      if existsb (fun le => eqb_eaddr (le_addr le) e) (lents s) then (s, [])
      else ({| lents := lents s ++ [ {| le_addr := e; le_next := match e with 0%N :: _ => 0 | _ => 1 end; le_gone := false |} ];
               lfeats := lfeats s; peers := peers s; subs := subs s; binds := binds s |}, [])
  | RemoveLocalEntity e =>
      (* the entity leaves DeviceLocal.entities; its features, their data, callbacks and the registry entries on
         them stay what they are (the entries are dead: nothing resolves to their server feature any more);
         the device information entity is never removed *)
      if eqb_eaddr e [0%N] then (s, []) else
      ({| lents := map (fun x => if eqb_eaddr (le_addr x) e
                                 then {| le_addr := le_addr x; le_next := le_next x; le_gone := true |} else x) (lents s);
          lfeats := lfeats s; peers := peers s; subs := subs s; binds := binds s |}, [])
  | AddLocalFeature e t r =>
      match find (fun le => eqb_eaddr (le_addr le) e) (lents s) with
      | None => (s, [ONone])
      | Some le =>
          let id := le_next le in
          let f := {| lf_ent := e; lf_id := id; lf_type := t; lf_role := r; lf_ops := []; lf_data := [];
                      lf_rcb := []; lf_resultcb := [] |} in
          (* EntityLocal.AddFeature ignores a second feature of the same type and role (the id is consumed) *)
          let dup := existsb (fun x => eqb_eaddr (lf_ent x) e && N.eqb (lf_type x) t && eqb_role (lf_role x) r) (lfeats s) in
          ({| lents := map (fun x => if eqb_eaddr (le_addr x) e
                                     then {| le_addr := e; le_next := N.succ id; le_gone := le_gone x |} else x) (lents s);
              lfeats := if dup then lfeats s else lfeats s ++ [f]; peers := peers s; subs := subs s; binds := binds s |},
           [ORetN id])
      end
  | AddFunction e f fn rd wr =>
      (upd_lfeat s e f (fun x =>
         if eqb_role (lf_role x) RClient then x else
         match assoc_N fn (lf_ops x) with
         | Some _ => x
         | None => {| lf_ent := lf_ent x; lf_id := lf_id x; lf_type := lf_type x; lf_role := lf_role x;
                      lf_ops := lf_ops x ++ [(fn, (rd, wr))]; lf_data := lf_data x;
                      lf_rcb := lf_rcb x; lf_resultcb := lf_resultcb x |}
         end), [])
  | SetData e f fn v =>
      match find_lfeat s e (Some f) with
      | None => (s, [ONone])
      | Some lf =>
          if fn_registered (lf_type lf) fn then (upd_lfeat s e f (set_data fn v), []) else (s, [])
      end
  | GetData e f fn =>
      match find_lfeat s e (Some f) with
      | None => (s, [ONone])
      | Some lf => (s, [ORetN (data_of lf fn)])
      end
  | Connect p =>
      (* the transport (re)connects SKI p: an existing connection is removed first, then
         SetupRemoteDevice creates a DeviceRemote with entity [0] / node management feature 0 *)
      let s0 := disconnect s p in
      (set_peers s0 (peers s0 ++ [fresh_peer p]), [])
  | Disconnect p => (disconnect s p, [])
  | Inbound p d =>
      match find_peer s p with
      | None => (s, [])                           (* no connection: nothing is delivered *)
      | Some pe => process_cmd v s pe d
      end
  | AddRespCb e f ctr cb =>
      match find_lfeat s e (Some f) with
      | None => (s, [ONone])
      | Some lf =>
          let cbs := match assoc_N ctr (lf_rcb lf) with Some l => l | None => [] end in
          if memN cb cbs then (s, [ORetB false])      (* "callback already set" *)
          else (upd_lfeat s e f (fun x => set_rcb ((ctr, cbs ++ [cb]) :: remove_N ctr (lf_rcb x)) x), [ORetB true])
      end
  | AddResultCb e f cb =>
      match find_lfeat s e (Some f) with
      | None => (s, [ONone])
      | Some lf => (upd_lfeat s e f (fun x => set_resultcb (lf_resultcb x ++ [cb]) x), [])
      end
  | QFactory t =>
      (s, map ORetN (filter (fn_registered t) all_fns) ++ (if N.eqb t T_GENERIC then [] else [ORetN 1000]))
  | ParRegister e f ctr cb k => run_regs s e f ctr cb (N.to_nat k)
  | SeqArrive l =>
      let '(s1, out) := run_seq v s l in (s1, seq_obs out)
  | ParArrive ps d late pf =>
      let '(s1, out) := run_evs v s d (par_events ps late pf) in (s1, par_obs out)
  end.

Definition step : st -> op -> st * list obs := step_v repaired.
Definition step_pinned : st -> op -> st * list obs := step_v pinned.

Fixpoint run_with (stp : st -> op -> st * list obs) (s : st) (ops : list op) : st * list (op * list obs) :=
  match ops with
  | [] => (s, [])
  | o :: r =>
      let '(s1, out) := stp s o in
      let '(s2, tr) := run_with stp s1 r in
      (s2, (o, out) :: tr)
  end.

Definition run : st -> list op -> st * list (op * list obs) := run_with step.
Definition run_pinned : st -> list op -> st * list (op * list obs) := run_with step_pinned.
