(* C19 — the conversions of model/commondatatypes_additions.go as one stateless machine:
   an operation is one conversion input, its observation the result (and the
   intermediate text).  Built from Model/Scaled.v, Model/Period.v, Model/TimeFmt.v.
   No proofs here. *)
From Coq Require Import ZArith List Bool Lia.
From Flocq Require Import Core BinarySingleNaN.
From Verif Require Import Base.Prelude Model.Scaled Model.Period Model.TimeFmt.

Definition st := unit.
Definition init : st := tt.

Inductive op :=
| OScaled (v : b64)                 (* NewScaledNumberType(v).GetValue() *)
| ODecimal (k d : Z)                (* the same for v = the float64 nearest to k*10^-d (strconv.ParseFloat) *)
| ODuration (ns : Z)                (* NewDurationType(ns).GetTimeDuration() *)
| OInstant (sec nsec : Z)           (* NewAbsoluteOrRelativeTimeTypeFromTime(time.Unix(sec,nsec)).GetTime() *)
| ORelEnd (variant dur t0 t1 : Z).  (* TimePeriodType with relative end [dur], created when the clock
                                       reads t0 and read back when it reads t1 (Unix nanoseconds);
                                       variant 0: json.Unmarshal {"endTime":<text of dur>} ... json.Marshal,
                                       variant 1: NewTimePeriodTypeWithRelativeEndTime(dur) ... GetDuration() *)

Inductive obs :=
| Scaled (n s : Z) (r : b64)                        (* Number, Scale, GetValue() *)
| DecScaled (v : b64) (n s : Z) (r : b64)           (* the parsed input as well *)
| DurText (t : ptext) (back : option Z)             (* the DurationType text, the duration read back *)
| Instant (t : dtext) (back : option Z)             (* the text, the Unix second read back *)
| RelEnd (e : dtext) (t : ptext) (back : option Z)  (* absolute end stored, relative end text written, its duration *)
| RelDirect (e : dtext) (r : Z)                     (* absolute end stored, GetDuration() *)
| RelFailed.                                        (* the end time could not be translated *)

(* Duration.Round(m): to a multiple of m, halves away from zero *)
Definition round_half_away (x m : Z) : Z :=
  let a := Z.abs x in
  let r := Z.rem a m in
  let q := if r + r <? m then a - r else a + m - r in
  if x <? 0 then - q else q.

(* the absolute end time stored for "now + dur" *)
Definition abs_end (now dur : Z) : dtext :=
  let t := now + dur in new_datetime (t / NS_SECOND) (t mod NS_SECOND).

Definition step (s : st) (o : op) : st * list obs :=
  (s,
   match o with
   | OScaled v => let '(n, sc) := new_scaled v in [Scaled n sc (get_value n sc)]
   | ODecimal k d =>
       let v := dec k d in
       let '(n, sc) := new_scaled v in [DecScaled v n sc (get_value n sc)]
   | ODuration ns => let t := new_duration ns in [DurText t (get_duration t)]
   | OInstant sec nsec => let t := new_datetime sec nsec in [Instant t (get_time t)]
   | ORelEnd variant dur t0 t1 =>
       if variant =? 0 then
         (* UnmarshalJSON: setTimePeriodTypeEndTime; MarshalJSON: getTimePeriodTypeDuration *)
         match get_duration (new_duration dur) with
         | None => [RelFailed]
         | Some d' =>
             let e := abs_end t0 d' in
             match get_time e with
             | None => [RelFailed]
             | Some es =>
                 let r := round_half_away (es * NS_SECOND - t1) NS_SECOND in
                 let t := new_duration r in
                 [RelEnd e t (get_duration t)]
             end
         end
       else
         let e := abs_end t0 dur in
         match get_time e with
         | None => [RelFailed]
         | Some es => [RelDirect e (round_half_away (es * NS_SECOND - t1) NS_SECOND)]
         end
   end).

Fixpoint run (s : st) (ops : list op) : st * list (op * list obs) :=
  match ops with
  | [] => (s, [])
  | o :: r =>
      let '(s1, out) := step s o in
      let '(s2, tr) := run s1 r in
      (s2, (o, out) :: tr)
  end.

(* ---- wire encoding (floats as [sign; mantissa; exponent], see Scaled.v) ---- *)
Definition parse_op (l : list Z) : option op :=
  match l with
  | [0; s; m; e] =>
      if (-2 <=? m) && (m <? 2 ^ 53) && (-1074 <=? e) && (e <=? 971) then Some (OScaled (b64_of_wire s m e)) else None
  | [1; k; d] => if (0 <=? d) && (d <=? 22) then Some (ODecimal k d) else None
  | [2; ns] => Some (ODuration ns)
  | [3; sec; nsec] => if (0 <=? nsec) && (nsec <? NS_SECOND) then Some (OInstant sec nsec) else None
  | [4; variant; dur; t0; t1] => Some (ORelEnd variant dur t0 t1)
  | _ => None
  end.

Definition zopt (o : option Z) : list Z :=
  match o with Some z => [1; z] | None => [0; 0] end.

Definition optz (ok z : Z) : option Z := if ok =? 0 then None else Some z.

Definition ptext_wire (t : ptext) : list Z :=
  [Zb (t_neg t); t_y t; t_mo t; t_w t; t_d t; t_h t; t_mi t; t_s t].

Definition dtext_wire (t : dtext) : list Z := [d_y t; d_mo t; d_d t; d_h t; d_mi t; d_s t].

Definition print_obs (o : obs) : list Z :=
  match o with
  | Scaled n s r => [0; n; s] ++ wire_of_b64 r
  | DecScaled v n s r => [1] ++ wire_of_b64 v ++ [n; s] ++ wire_of_b64 r
  | DurText t b => [2] ++ ptext_wire t ++ zopt b
  | Instant t b => [3] ++ dtext_wire t ++ zopt b
  | RelEnd e t b => [4] ++ dtext_wire e ++ ptext_wire t ++ zopt b
  | RelDirect e r => [5] ++ dtext_wire e ++ [r]
  | RelFailed => [6]
  end.

Definition wire_ok (m e : Z) : bool :=
  (-2 <=? m) && (m <? 2 ^ 53) && (-1074 <=? e) && (e <=? 971).

Definition parse_obs (l : list Z) : option obs :=
  match l with
  | [0; n; s; rs; rm; re] => if wire_ok rm re then Some (Scaled n s (b64_of_wire rs rm re)) else None
  | [1; vs; vm; ve; n; s; rs; rm; re] =>
      if wire_ok vm ve && wire_ok rm re
      then Some (DecScaled (b64_of_wire vs vm ve) n s (b64_of_wire rs rm re)) else None
  | [2; neg; y; mo; w; d; h; mi; s; ok; b] =>
      Some (DurText {| t_neg := bZ neg; t_y := y; t_mo := mo; t_w := w; t_d := d; t_h := h; t_mi := mi; t_s := s |} (optz ok b))
  | [3; y; mo; d; h; mi; s; ok; b] =>
      Some (Instant {| d_y := y; d_mo := mo; d_d := d; d_h := h; d_mi := mi; d_s := s |} (optz ok b))
  | [4; y; mo; d; h; mi; s; neg; py; pmo; pw; pd; ph; pmi; ps; ok; b] =>
      Some (RelEnd {| d_y := y; d_mo := mo; d_d := d; d_h := h; d_mi := mi; d_s := s |}
                   {| t_neg := bZ neg; t_y := py; t_mo := pmo; t_w := pw; t_d := pd; t_h := ph; t_mi := pmi; t_s := ps |}
                   (optz ok b))
  | [5; y; mo; d; h; mi; s; r] =>
      Some (RelDirect {| d_y := y; d_mo := mo; d_d := d; d_h := h; d_mi := mi; d_s := s |} r)
  | [6] => Some RelFailed
  | _ => None
  end.
