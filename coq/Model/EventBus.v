(* C15 — executable model of spine/events.go (the process-wide event bus).
   No proofs here.

   The bus is the list of (level, handler) pairs.  Every API call is given as its
   atomic steps (one per critical section); which thread takes the next step is
   part of the operation stream ([Step k], [Drain n]), so a theorem over all
   operation lists is a theorem over all interleavings.

     subscribe / unsubscribe   one step (under events.mu)
     Publish                   [snapshot under mu] [muHandle.Lock]
                               [core handler 1] its script ... [core handler n] its script
                               [go application handlers] [muHandle.Unlock; return]
     application handler       its own thread (goroutine): [enter] its script

   [Par acts] is a burst of overlapping subscribe / unsubscribe calls: k calls
   released together on k goroutines of their own (callers [par_base], [par_base]+1,
   ...), none of them a thread of the table.  Each call is one critical section
   under events.mu, so whatever the real schedule the burst is one of the
   serialisations of its calls; the model runs them in the order given.  Bursts
   whose calls commute ([par_ok]) give the same bus under every serialisation
   (Proofs: [burst_any_interleaving]); the harness overlaps exactly those and
   executes the others one call after the other.  A burst may come at any moment:
   no thread of the table holds events.mu between two of its atomic steps.

   A handler's behaviour is a script of bus calls ([act]); scripts are installed by
   the [Script] operation (in the harness: scripted handler objects whose bodies
   park on scheduler-controlled channels).  muHandle is not re-entrant: a core
   handler that calls Publish blocks for ever (never runnable again). *)
From Verif Require Import Base.Prelude.

Inductive level := Core | App.

Definition level_eqb (a b : level) : bool :=
  match a, b with Core, Core => true | App, App => true | _, _ => false end.

Definition item := (level * N)%type.

Definition item_eqb (a b : item) : bool :=
  level_eqb (fst a) (fst b) && N.eqb (snd a) (snd b).

(* what a thread (an API caller or a handler body) may do to the bus *)
Inductive act :=
| ASub (l : level) (h : N)
| AUnsub (l : level) (h : N)
| APub.

(* thread identity: an external caller, or the goroutine started for handler h and event e *)
Inductive tid := Ext (t : N) | Hdl (h e : N).

Definition tid_eqb (a b : tid) : bool :=
  match a, b with
  | Ext x, Ext y => N.eqb x y
  | Hdl h e, Hdl h' e' => N.eqb h h' && N.eqb e e'
  | _, _ => false
  end.

(* canonical order of the thread table: callers by number, then handler goroutines by (event, handler) *)
Definition tid_leb (a b : tid) : bool :=
  match a, b with
  | Ext x, Ext y => N.leb x y
  | Ext _, Hdl _ _ => true
  | Hdl _ _, Ext _ => false
  | Hdl h e, Hdl h' e' => N.ltb e e' || (N.eqb e e' && N.leb h h')
  end.

Inductive tstate :=
| TNew (h e : N)                                   (* goroutine started, handler body not entered yet *)
| TRun (acts : list act)                           (* remaining calls of an API caller / application handler *)
| TSnap (e : N) (snap : list item) (rest : list act)   (* in Publish: snapshot taken, muHandle not held *)
| TCore (e : N) (cur : list act) (cores apps : list N) (rest : list act)
                                                   (* in Publish holding muHandle: [cur] = rest of the running core
                                                      handler's script, [cores] = core handlers still to call *)
| TRel (e : N) (rest : list act).                  (* application handlers started, muHandle still held *)

Record st := {
  bus : list item;                         (* events.handlers *)
  scripts : list (item * list act);        (* behaviour of the handlers *)
  locked : bool;                           (* muHandle *)
  threads : list (tid * tstate);           (* unfinished threads, in canonical order *)
  next_e : N                               (* number of Publish calls so far = id of the next event *)
}.

Definition init : st :=
  {| bus := []; scripts := []; locked := false; threads := []; next_e := 0 |}.

Inductive op :=
| Script (l : level) (h : N) (acts : list act)   (* define what handler h does when called at level l *)
| Call (t : N) (a : act)                         (* caller t starts one API call *)
| Step (k : N)                                   (* the (k mod n)-th of the n runnable threads takes one atomic step *)
| Drain (n : N)                                  (* up to n steps, always the first runnable thread *)
| Par (acts : list act).                         (* overlapping subscribe / unsubscribe calls, one goroutine each *)

Inductive obs :=
| OSub (t : tid) (l : level) (h : N)             (* subscribe returned *)
| OUnsub (t : tid) (l : level) (h : N)           (* unsubscribe returned *)
| OSnap (t : tid) (e : N)                        (* Publish of event e called, handler list copied *)
| OLock (t : tid) (e : N)
| ODeliver (t : tid) (l : level) (h : N) (e : N) (* HandleEvent of handler h entered on thread t *)
| OSpawn (t : tid) (e : N) (n : N)               (* n application handler goroutines started *)
| OReturn (t : tid) (e : N)                      (* Publish of event e returned *)
| OIdle                                          (* no unfinished thread *)
| ODeadlock                                      (* unfinished threads, none can run *)
| OBusy (t : N)                                  (* Call for a caller that has not finished: ignored *)
| OStuck (t : tid).                              (* implementation only: a step did not complete *)

(* ---- the bus ---- *)

(* events.subscribe: append unless the same (level, handler) is present *)
Definition subscribe (i : item) (b : list item) : list item :=
  if existsb (item_eqb i) b then b else b ++ [i].

(* events.unsubscribe: keep every item that differs in level or handler *)
Definition unsubscribe (i : item) (b : list item) : list item :=
  filter (fun j => negb (item_eqb i j)) b.

Fixpoint handlers_of (l : level) (b : list item) : list N :=
  match b with
  | [] => []
  | (l', h) :: r => if level_eqb l l' then h :: handlers_of l r else handlers_of l r
  end.

Fixpoint script_of (i : item) (sc : list (item * list act)) : list act :=
  match sc with
  | [] => []
  | (j, a) :: r => if item_eqb i j then a else script_of i r
  end.

(* ---- a burst of overlapping calls ---- *)

(* the burst's goroutines are callers of their own, numbered from here *)
Definition par_base : N := 1000.

Definition act_bus (a : act) (b : list item) : list item :=
  match a with
  | ASub l h => subscribe (l, h) b
  | AUnsub l h => unsubscribe (l, h) b
  | APub => b                                     (* not part of a burst: ignored *)
  end.

(* sequential composition in the order given *)
Fixpoint par_bus (acts : list act) (b : list item) : list item :=
  match acts with
  | [] => b
  | a :: r => par_bus r (act_bus a b)
  end.

(* every call returns; reported in the order given (which goroutine finished first is the schedule's business) *)
Fixpoint par_obs (i : N) (acts : list act) : list obs :=
  match acts with
  | [] => []
  | ASub l h :: r => OSub (Ext i) l h :: par_obs (N.succ i) r
  | AUnsub l h :: r => OUnsub (Ext i) l h :: par_obs (N.succ i) r
  | APub :: r => par_obs (N.succ i) r
  end.

(* the calls of a burst commute: only subscribe / unsubscribe; two calls that name the same
   (level, handler) pair are of the same kind; all core-level subscriptions name one handler
   (the order of the core entries is the order in which Publish calls them - the only way in
   which the order of the list shows) *)
Definition act_item (a : act) : option item :=
  match a with ASub l h | AUnsub l h => Some (l, h) | APub => None end.

Definition act_is_sub (a : act) : bool := match a with ASub _ _ => true | _ => false end.

Definition act_compat (a a' : act) : bool :=
  match act_item a, act_item a' with
  | Some i, Some j =>
      (negb (item_eqb i j) || Bool.eqb (act_is_sub a) (act_is_sub a')) &&
      (negb (act_is_sub a && act_is_sub a' && level_eqb (fst i) Core && level_eqb (fst j) Core) || item_eqb i j)
  | _, _ => false
  end.

Fixpoint par_ok (acts : list act) : bool :=
  match acts with
  | [] => true
  | a :: r => match act_item a with Some _ => true | None => false end && forallb (act_compat a) r && par_ok r
  end.

(* ---- the thread table ---- *)

Fixpoint insert_thread (x : tid * tstate) (l : list (tid * tstate)) : list (tid * tstate) :=
  match l with
  | [] => [x]
  | y :: r => if tid_leb (fst y) (fst x) then y :: insert_thread x r else x :: l
  end.

Fixpoint insert_threads (xs l : list (tid * tstate)) : list (tid * tstate) :=
  match xs with
  | [] => l
  | x :: r => insert_threads r (insert_thread x l)
  end.

Definition has_tid (t : tid) (l : list (tid * tstate)) : bool :=
  existsb (fun x => tid_eqb t (fst x)) l.

(* a thread can take a step unless it waits for muHandle *)
Definition runnable (lk : bool) (x : tid * tstate) : bool :=
  match snd x with
  | TSnap _ _ _ => negb lk
  | TCore _ (APub :: _) _ _ _ => false            (* core handler inside Publish calls Publish: muHandle is held by itself *)
  | _ => true
  end.

(* split the table at the n-th runnable thread *)
Fixpoint pick (lk : bool) (n : nat) (pre l : list (tid * tstate))
  : option (list (tid * tstate) * (tid * tstate) * list (tid * tstate)) :=
  match l with
  | [] => None
  | x :: r =>
      if runnable lk x then
        match n with
        | O => Some (rev pre, x, r)
        | S n' => pick lk n' (x :: pre) r
        end
      else pick lk n (x :: pre) r
  end.

Definition count_runnable (lk : bool) (l : list (tid * tstate)) : nat :=
  length (filter (runnable lk) l).

(* a thread whose calls are all done disappears from the table *)
Definition keep (t : tid) (ts : tstate) : list (tid * tstate) :=
  match ts with
  | TRun [] => []
  | _ => [(t, ts)]
  end.

(* result of one atomic step of one thread *)
Record eff := {
  e_bus : list item;
  e_locked : bool;
  e_next : N;
  e_state : tstate;
  e_spawn : list (tid * tstate);
  e_obs : list obs
}.

Definition do_act (s : st) (t : tid) (a : act) (k : list act -> tstate) (r : list act) : eff :=
  match a with
  | ASub l h =>
      {| e_bus := subscribe (l, h) (bus s); e_locked := locked s; e_next := next_e s;
         e_state := k r; e_spawn := []; e_obs := [OSub t l h] |}
  | AUnsub l h =>
      {| e_bus := unsubscribe (l, h) (bus s); e_locked := locked s; e_next := next_e s;
         e_state := k r; e_spawn := []; e_obs := [OUnsub t l h] |}
  | APub =>
      (* only reached from TRun (a core handler's Publish is never runnable) *)
      {| e_bus := bus s; e_locked := locked s; e_next := N.succ (next_e s);
         e_state := TSnap (next_e s) (bus s) r; e_spawn := []; e_obs := [OSnap t (next_e s)] |}
  end.

Definition exec (s : st) (t : tid) (ts : tstate) : eff :=
  let same st' o :=
    {| e_bus := bus s; e_locked := locked s; e_next := next_e s; e_state := st'; e_spawn := []; e_obs := o |} in
  match ts with
  | TNew h e => same (TRun (script_of (App, h) (scripts s))) [ODeliver t App h e]
  | TRun [] => same (TRun []) []
  | TRun (a :: r) => do_act s t a TRun r
  | TSnap e snap r =>
      {| e_bus := bus s; e_locked := true; e_next := next_e s;
         e_state := TCore e [] (handlers_of Core snap) (handlers_of App snap) r;
         e_spawn := []; e_obs := [OLock t e] |}
  | TCore e (a :: cur) cs aps r => do_act s t a (fun c => TCore e c cs aps r) cur
  | TCore e [] (c :: cs) aps r =>
      same (TCore e (script_of (Core, c) (scripts s)) cs aps r) [ODeliver t Core c e]
  | TCore e [] [] aps r =>
      {| e_bus := bus s; e_locked := locked s; e_next := next_e s; e_state := TRel e r;
         e_spawn := map (fun h => (Hdl h e, TNew h e)) aps;
         e_obs := [OSpawn t e (N.of_nat (length aps))] |}
  | TRel e r =>
      {| e_bus := bus s; e_locked := false; e_next := next_e s; e_state := TRun r;
         e_spawn := []; e_obs := [OReturn t e] |}
  end.

(* one scheduler step: the (k mod n)-th runnable thread runs *)
Definition sched (s : st) (k : N) : st * list obs :=
  let n := count_runnable (locked s) (threads s) in
  match n with
  | O => (s, [match threads s with [] => OIdle | _ => ODeadlock end])
  | S _ =>
      match pick (locked s) (N.to_nat k mod n) [] (threads s) with
      | None => (s, [ODeadlock])      (* unreachable: the index is below the count *)
      | Some (pre, (t, ts), post) =>
          let e := exec s t ts in
          ({| bus := e_bus e; scripts := scripts s; locked := e_locked e;
              threads := insert_threads (e_spawn e) (pre ++ keep t (e_state e) ++ post);
              next_e := e_next e |}, e_obs e)
      end
  end.

Definition quiet_obs (o : list obs) : bool :=
  match o with
  | [OIdle] | [ODeadlock] => true
  | _ => false
  end.

Fixpoint drain (fuel : nat) (s : st) : st * list obs :=
  match fuel with
  | O => (s, [])
  | S f =>
      let '(s1, o) := sched s 0 in
      if quiet_obs o then (s1, o)
      else let '(s2, o2) := drain f s1 in (s2, o ++ o2)
  end.

Fixpoint set_script (i : item) (a : list act) (sc : list (item * list act)) : list (item * list act) :=
  match sc with
  | [] => [(i, a)]
  | (j, b) :: r => if item_eqb i j then (i, a) :: r else (j, b) :: set_script i a r
  end.

Definition step (s : st) (o : op) : st * list obs :=
  match o with
  | Script l h acts =>
      ({| bus := bus s; scripts := set_script (l, h) acts (scripts s); locked := locked s;
          threads := threads s; next_e := next_e s |}, [])
  | Call t a =>
      if has_tid (Ext t) (threads s) then (s, [OBusy t])
      else ({| bus := bus s; scripts := scripts s; locked := locked s;
               threads := insert_thread (Ext t, TRun [a]) (threads s); next_e := next_e s |}, [])
  | Step k => sched s k
  | Drain n => drain (N.to_nat n) s
  | Par acts =>
      ({| bus := par_bus acts (bus s); scripts := scripts s; locked := locked s;
          threads := threads s; next_e := next_e s |}, par_obs par_base acts)
  end.

Fixpoint run (s : st) (ops : list op) : st * list (op * list obs) :=
  match ops with
  | [] => (s, [])
  | o :: r =>
      let '(s1, out) := step s o in
      let '(s2, tr) := run s1 r in
      (s2, (o, out) :: tr)
  end.

(* ---- wire encoding ----
   level: 0 core, 1 application.  act: three integers [0 l h] subscribe, [1 l h] unsubscribe, [2 0 0] publish.
   tid: two integers, [0 t] caller t, [h+1 e] goroutine of handler h for event e. *)
Definition parse_level (z : Z) : level := if Z.eqb z 0 then Core else App.
Definition print_level (l : level) : Z := match l with Core => 0 | App => 1 end.

Definition parse_act (k l h : Z) : option act :=
  if Z.eqb k 0 then Some (ASub (parse_level l) (Nz h))
  else if Z.eqb k 1 then Some (AUnsub (parse_level l) (Nz h))
  else if Z.eqb k 2 then Some APub
  else None.

Fixpoint parse_acts (l : list Z) : option (list act) :=
  match l with
  | [] => Some []
  | k :: lv :: h :: r =>
      match parse_act k lv h, parse_acts r with
      | Some a, Some r' => Some (a :: r')
      | _, _ => None
      end
  | _ => None
  end.

Definition parse_op (l : list Z) : option op :=
  match l with
  | 0 :: lv :: h :: r => match parse_acts r with Some a => Some (Script (parse_level lv) (Nz h) a) | None => None end
  | [1; t; k; lv; h] => match parse_act k lv h with Some a => Some (Call (Nz t) a) | None => None end
  | [2; k] => Some (Step (Nz k))
  | [3; n] => Some (Drain (Nz n))
  | 4 :: r => match parse_acts r with Some a => Some (Par a) | None => None end
  | _ => None
  end.

Definition print_tid (t : tid) : list Z :=
  match t with
  | Ext x => [0; Zn x]
  | Hdl h e => [Zn h + 1; Zn e]
  end.

Definition parse_tid (a b : Z) : tid :=
  if Z.eqb a 0 then Ext (Nz b) else Hdl (Nz (a - 1)) (Nz b).

Definition print_obs (o : obs) : list Z :=
  match o with
  | OSub t l h => 0 :: print_tid t ++ [print_level l; Zn h]
  | OUnsub t l h => 1 :: print_tid t ++ [print_level l; Zn h]
  | OSnap t e => 2 :: print_tid t ++ [Zn e]
  | OLock t e => 3 :: print_tid t ++ [Zn e]
  | ODeliver t l h e => 4 :: print_tid t ++ [print_level l; Zn h; Zn e]
  | OSpawn t e n => 5 :: print_tid t ++ [Zn e; Zn n]
  | OReturn t e => 6 :: print_tid t ++ [Zn e]
  | OIdle => [7]
  | ODeadlock => [8]
  | OBusy t => [9; Zn t]
  | OStuck t => 10 :: print_tid t
  end.

Definition parse_obs (l : list Z) : option obs :=
  match l with
  | [0; a; b; lv; h] => Some (OSub (parse_tid a b) (parse_level lv) (Nz h))
  | [1; a; b; lv; h] => Some (OUnsub (parse_tid a b) (parse_level lv) (Nz h))
  | [2; a; b; e] => Some (OSnap (parse_tid a b) (Nz e))
  | [3; a; b; e] => Some (OLock (parse_tid a b) (Nz e))
  | [4; a; b; lv; h; e] => Some (ODeliver (parse_tid a b) (parse_level lv) (Nz h) (Nz e))
  | [5; a; b; e; n] => Some (OSpawn (parse_tid a b) (Nz e) (Nz n))
  | [6; a; b; e] => Some (OReturn (parse_tid a b) (Nz e))
  | [7] => Some OIdle
  | [8] => Some ODeadlock
  | [9; t] => Some (OBusy (Nz t))
  | [10; a; b] => Some (OStuck (parse_tid a b))
  | _ => None
  end.
