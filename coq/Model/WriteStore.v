(* C04 — the store model of Model/FunctionStore.v extended by one operation: a remote write and a
   local update of the same function that OVERLAP (released together on two goroutines: the write
   datagram of a bound peer through DeviceRemote.HandleSpineMesssage, and FeatureLocal.UpdateData
   of the application).  FeatureLocal.updateData holds the feature mutex and
   FunctionData.UpdateData its own mutex over the whole read-modify-write, so the two updates take
   effect one after the other, in one of the two orders.  The runner releases only pairs that
   commute (identified partial updates naming disjoint identifiers: Spec/WriteSpec.v [overlap_ok],
   Proofs/WriteOverlap.v [overlap_commutes]), so the model fixes one order: the write first.
   No proofs here. *)
From Verif Require Import Base.Prelude Model.Schema Model.Update Model.FunctionStore.

Inductive wop :=
| Seq (o : op)              (* an operation of Model/FunctionStore.v *)
| Overlap (w l : upd).      (* remote write w (remoteWrite = true, persisted, over the wire) overlapping
                               the local update l (remoteWrite = false, persisted) *)

(* observations of Overlap: the answer to the write, the result of the local update, the data
   afterwards, and the data-change event of the write if it was accepted *)
Definition wstep (s : st) (o : wop) : st * list obs :=
  match o with
  | Seq o => step s o
  | Overlap w l =>
      let '(s1, o1) := update_data s true true w in
      let '(s2, o2) := update_data s1 false true l in
      (s2, [hd (Res 2) o1; hd (Res 2) o2; Store (store s2)] ++
           (match o1 with Res 0 :: _ => [Event] | _ => [] end))
  end.

Fixpoint wrun (s : st) (ops : list wop) : st * list (wop * list obs) :=
  match ops with
  | [] => (s, [])
  | o :: r =>
      let '(s1, out) := wstep s o in
      let '(s2, tr) := wrun s1 r in
      (s2, (o, out) :: tr)
  end.

(* wire encoding: the operations of FunctionStore.v keep their codes 0 1 2;
   3 <items> <filter partial> <filter delete> <items> <filter partial> <filter delete>   (write, then local update) *)
Definition parse_upd (l : zs) : option (upd * zs) :=
  match parse_items l with
  | Some (new, r1) =>
      match parse_filter r1 with
      | Some (fp, r2) =>
          match parse_filter r2 with
          | Some (fd, r3) => Some ({| u_new := new; u_fp := fp; u_fd := fd |}, r3)
          | None => None
          end
      | None => None
      end
  | None => None
  end.

Definition parse_wop (l : zs) : option wop :=
  match l with
  | 3 :: r =>
      match parse_upd r with
      | Some (w, r1) => match parse_upd r1 with Some (lo, []) => Some (Overlap w lo) | _ => None end
      | None => None
      end
  | _ => option_map Seq (parse_op l)
  end.
