(* C11 — executable model of the data store of one function at the level of memory:
   spine/function_data.go (FunctionData.UpdateData, DataCopy), the per-type UpdateList
   methods of model/*_additions.go (one shape, Gen/GenUpdateWiring.v), the generic engine
   model/update.go + model/collection_operations.go with its exact reads, in-place writes
   and allocations, and what FeatureLocal / FeatureRemote hand to the application
   (DataCopy results, the data returned by UpdateData, data-change event payloads).
   No proofs here.

   Two variants of FunctionData.UpdateData, selected by the Init operation:
     fixed = true   the repaired code (patches/fix-C11-functiondata-update-on-copy.diff):
                    the update runs on cloneData(r.data), r.data is replaced only if the
                    update succeeded and persist is set
     fixed = false  the pinned code: the update runs on r.data itself (r.data = new(T) if nil)
   The value-level behaviour of the engine is the pinned one; the five repairs announced
   for C02/C04 and the two of C05 that landed as 306e400 / db846a9 (which change values and panics,
   not the memory discipline) are switchable ([quirks])
   so that the runner can follow the tree it is built against (it probes the real engine). *)
From Verif Require Import Base.Prelude Model.Schema Model.Slices Gen.GenSchemas.

Definition fld (it : cell) (i : nat) : option N := nth i it None.

Fixpoint set_fld (it : cell) (i : nat) (v : option N) : cell :=
  match it, i with
  | [], _ => []
  | _ :: r, O => v :: r
  | x :: r, S i' => x :: set_fld r i' v
  end.

Definition is_some {A} (o : option A) : bool := match o with Some _ => true | None => false end.

Definition eqb_oN (a b : option N) : bool :=
  match a, b with
  | None, None => true
  | Some x, Some y => N.eqb x y
  | _, _ => false
  end.

Fixpoint eqb_cell (a b : cell) : bool :=
  match a, b with
  | [], [] => true
  | x :: a', y :: b' => eqb_oN x y && eqb_cell a' b'
  | _, _ => false
  end.

Fixpoint eqb_cells (a b : list cell) : bool :=
  match a, b with
  | [], [] => true
  | x :: a', y :: b' => eqb_cell x y && eqb_cells a' b'
  | _, _ => false
  end.

Fixpoint eqb_key (a b : list N) : bool :=
  match a, b with
  | [], [] => true
  | x :: a', y :: b' => N.eqb x y && eqb_key a' b'
  | _, _ => false
  end.

Definition mem_key (k : list N) (l : list (list N)) : bool := existsb (eqb_key k) l.

Inductive res (A : Type) := Ok (a : A) | Panic.
Arguments Ok {A}.
Arguments Panic {A}.

(* the abstract content of a FilterType for the function at hand *)
Record flt := {
  f_sel : option (list (option N));   (* the ...SelectorsType struct: one optional value per field *)
  f_elems : option (list bool)        (* the ...ElementsType struct: field set or not *)
}.

(* FilterType.Data(): "Data not found in Filter" when neither is set *)
Definition filter_data (f : option flt) : option flt :=
  match f with
  | Some x => match f_sel x, f_elems x with None, None => None | _, _ => Some x end
  | None => None
  end.

(* value-level repairs announced by C02/C04 (all false = the engine of the pinned tree) *)
Record quirks := {
  q_nobreak : bool;     (* copyToSelectedData updates every matching item (no break) *)
  q_keepwc : bool;      (* copyToSelectedData / copyToAllData restore the writecheck field on remote writes *)
  q_deladdr : bool;     (* deleteFilteredData: only addressed items need to be writable *)
  q_mergeaddr : bool;   (* Merge: an unwritable item fails a remote write only when the write names it *)
  q_mergeunk : bool;    (* Merge: a remote write naming an unknown item fails *)
  q_selnil : bool;      (* SelectorMatch: an item without a value for a selected field does not match
                           (commit db846a9; before: nil dereference) *)
  q_emptysel : bool     (* UpdateList: a partial update with filter data but no data item fails
                           (commit 306e400; before: index out of range on &newData[0]) *)
}.
Definition no_quirks : quirks :=
  {| q_nobreak := false; q_keepwc := false; q_deladdr := false; q_mergeaddr := false; q_mergeunk := false;
     q_selnil := false; q_emptysel := false |}.

Section Engine.
  Variable grow : nat -> nat -> nat.
  Variable sch : schema.
  Variable q : quirks.

  (* ---- pure item-level functions (collection_operations.go, update.go, commandframe_additions.go) ---- *)

  (* hashKey: the key fields rendered and joined, stopping at the first nil key,
     after a struct key, and at a key of any other kind *)
  Fixpoint hash_from (keys : list nat) (it : cell) : list N :=
    match keys with
    | [] => []
    | k :: r =>
        match fld it k with
        | None => []
        | Some v =>
            match kind_of sch k with
            | KUint | KString => v :: hash_from r it
            | KStructHelper => [v]
            | _ => []
            end
        end
    end.
  Definition hash_key (it : cell) : list N := hash_from (s_keys sch) it.

  (* writeAllowed *)
  Definition write_allowed (it : cell) : bool :=
    match s_wc sch with
    | [w] =>
        match fld it w with
        | None => false
        | Some v => match kind_of sch w with KBool => N.eqb v 1 | _ => true end
        end
    | _ => true
    end.

  (* updateFields(remoteWrite, source, &destination) *)
  Fixpoint update_fields_from (remote : bool) (i : nat) (src dst : cell) : cell :=
    match dst with
    | [] => []
    | d :: dr =>
        (if negb (is_some d) || (remote && existsb (Nat.eqb i) (s_wc sch)) then hd None src else d)
          :: update_fields_from remote (S i) (tl src) dr
    end.
  Definition update_fields (remote : bool) (src dst : cell) : cell := update_fields_from remote 0 src dst.

  (* ToMap(s2)[h]: a later duplicate wins *)
  Fixpoint find_last_hash (h : list N) (l : list cell) : option cell :=
    match l with
    | [] => None
    | x :: r =>
        match find_last_hash h r with
        | Some y => Some y
        | None => if eqb_key (hash_key x) h then Some x else None
        end
    end.

  Definition has_identifiers (it : cell) : bool := forallb (fun k => is_some (fld it k)) (s_keys sch).

  (* the comparator of SortData: uint keys only, "false" on anything else *)
  Fixpoint less_from (keys : list nat) (a b : cell) : bool :=
    match keys with
    | [] => false
    | k :: r =>
        match fld a k, fld b k with
        | Some x, Some y =>
            match kind_of sch k with
            | KUint => if N.eqb x y then less_from r a b else N.ltb x y
            | _ => false
            end
        | _, _ => false
        end
    end.
  Definition less (a b : cell) : bool := less_from (s_keys sch) a b.

  (* sort.Slice on at most 12 elements is insertionSortLessFunc *)
  Fixpoint ins (x : cell) (racc : list cell) : list cell :=
    match racc with
    | [] => [x]
    | y :: r => if less x y then y :: ins x r else x :: racc
    end.
  Definition isort (l : list cell) : list cell := rev (fold_left (fun r x => ins x r) l []).

  (* CopyNonNilDataFromItemToItem(source, destination) *)
  Fixpoint copy_nonnil (src dst : cell) {struct dst} : cell :=
    match dst with
    | [] => []
    | d :: dr =>
        match src with
        | [] => dst
        | s :: sr => (if is_some s then s else d) :: copy_nonnil sr dr
        end
    end.

  (* FilterData.SelectorMatch: Panic = unsupported item field (and, before db846a9, a nil one) *)
  Fixpoint sel_match_from (ks : list selk) (sel : list (option N)) (it : cell) : res bool :=
    match ks, sel with
    | k :: kr, s :: sr =>
        match s with
        | None => sel_match_from kr sr it
        | Some v =>
            match k with
            | SIgnore => sel_match_from kr sr it
            | SBad => Panic
            | SField i =>
                match fld it i with
                | None => if q_selnil q then Ok false else Panic
                | Some w => if N.eqb w v then sel_match_from kr sr it else Ok false
                end
            end
        end
    | _, _ => Ok true
    end.
  Definition selector_match (sel : list (option N)) (it : cell) : res bool :=
    match s_sel sch with
    | Some ks => sel_match_from ks sel it
    | None => Ok true
    end.

  (* RemoveElementFromItem: a no-op when the two structs differ in field count *)
  Fixpoint remove_from (m : list (option nat)) (el : list bool) (it : cell) : cell :=
    match m, el with
    | mi :: mr, e :: er =>
        remove_from mr er (match mi, e with Some i, true => set_fld it i None | _, _ => it end)
    | _, _ => it
    end.
  Definition remove_elems (el : list bool) (it : cell) : cell :=
    match s_elems sch with
    | Some m => if Nat.eqb (length m) (s_nf sch) then remove_from m el it else it
    | None => it
    end.

  (* restoreWriteCheck(remoteWrite, previous, &item) of the announced repair: a remote write
     leaves the writecheck field as it was *)
  Definition restore_wc (remote : bool) (prev it : cell) : cell :=
    if q_keepwc q && remote then fold_left (fun x w => set_fld x w (fld prev w)) (s_wc sch) it else it.

  (* what copyToSelectedData / copyToAllData leave in &existingData[i] *)
  Definition apply_data (remote : bool) (new it : cell) : cell :=
    restore_wc remote it (copy_nonnil new it).

  (* what deleteFilteredData leaves in &existingData[i] when it removes elements *)
  Definition strip_data (remote : bool) (el : list bool) (it : cell) : cell :=
    restore_wc remote it (remove_elems el it).

  (* ---- the loops of update.go over the memory ---- *)

  (* copyToSelectedData: for i := range existingData { if SelectorMatch(&existingData[i]) { ... } } *)
  Fixpoint sel_loop (remote : bool) (sel : list (option N)) (n0 : cell) (ex : slice) (idx : list nat) (ok : bool)
    : prog (res bool) :=
    match idx with
    | [] => Ret (Ok ok)
    | i :: r =>
        it <- get (fun m => rd m ex i) ;;
        match selector_match sel it with
        | Panic => Ret Panic
        | Ok false => sel_loop remote sel n0 ex r ok
        | Ok true =>
            if negb (write_allowed it) && remote then sel_loop remote sel n0 ex r false
            else
              write ex i (apply_data remote n0 it) ;;;
              if q_nobreak q then sel_loop remote sel n0 ex r ok else Ret (Ok ok)
        end
    end.

  (* copyToAllData *)
  Fixpoint all_loop (remote : bool) (n0 : cell) (ex : slice) (idx : list nat) (ok : bool) : prog bool :=
    match idx with
    | [] => Ret ok
    | i :: r =>
        it <- get (fun m => rd m ex i) ;;
        if negb (write_allowed it) && remote then all_loop remote n0 ex r false
        else write ex i (apply_data remote n0 it) ;;; all_loop remote n0 ex r ok
    end.

  (* one round of deleteFilteredData after the write check *)
  Definition del_body (remote : bool) (f : flt) (ex : slice) (i : nat) (it : cell) (addressed : bool) (result : slice)
    : prog slice :=
    match f_sel f, f_elems f with
    | Some _, Some el =>
        if addressed then
          write ex i (strip_data remote el it) ;;;
          it' <- get (fun m => rd m ex i) ;;
          append grow result it'
        else append grow result it
    | Some _, None => if addressed then Ret result else append grow result it
    | None, Some el =>
        write ex i (strip_data remote el it) ;;;
        it' <- get (fun m => rd m ex i) ;;
        append grow result it'
    | None, None => append grow result it
    end.

  (* deleteFilteredData: var result []T; for i := range existingData { ... result = append(result, ...) } *)
  Fixpoint del_loop (remote : bool) (f : flt) (ex : slice) (idx : list nat) (result : slice) (ok : bool)
    : prog (res (slice * bool)) :=
    match idx with
    | [] => Ret (Ok (result, ok))
    | i :: r =>
        it <- get (fun m => rd m ex i) ;;
        let wa := write_allowed it in
        if q_deladdr q then
          match (match f_sel f with Some s => selector_match s it | None => Ok true end) with
          | Panic => Ret Panic
          | Ok addressed =>
              if addressed && negb wa && remote then del_loop remote f ex r result false
              else result' <- del_body remote f ex i it addressed result ;; del_loop remote f ex r result' ok
          end
        else if negb wa && remote then del_loop remote f ex r result false
        else
          match (match f_sel f with Some s => selector_match s it | None => Ok true end) with
          | Panic => Ret Panic
          | Ok addressed => result' <- del_body remote f ex i it addressed result ;; del_loop remote f ex r result' ok
          end
    end.

  (* Merge, first loop: for _, s1Item := range s1 *)
  Fixpoint merge1 (remote : bool) (l2 : list cell) (l1 : list cell) (result : slice) (ok : bool)
    : prog (slice * bool) :=
    match l1 with
    | [] => Ret (result, ok)
    | s1i :: r =>
        let found := find_last_hash (hash_key s1i) l2 in
        let wa := write_allowed s1i in
        let bad := negb wa && remote && (if q_mergeaddr q then is_some found else true) in
        let x := match found with
                 | Some s2i => if negb remote || wa then update_fields remote s1i s2i else s1i
                 | None => s1i
                 end in
        result' <- append grow result x ;;
        merge1 remote l2 r result' (ok && negb bad)
    end.

  (* Merge, second loop: items of s2 whose hash is not in s1 are appended by local updates *)
  Fixpoint merge2 (hashes1 : list (list N)) (l2 : list cell) (result : slice) : prog slice :=
    match l2 with
    | [] => Ret result
    | s2i :: r =>
        if mem_key (hash_key s2i) hashes1 then merge2 hashes1 r result
        else result' <- append grow result s2i ;; merge2 hashes1 r result'
    end.

  Definition merge (remote : bool) (s1 s2 : slice) : prog (slice * bool) :=
    l1 <- get (fun m => items m s1) ;;
    l2 <- get (fun m => items m s2) ;;
    r1 <- merge1 remote l2 l1 nil_slice true ;;
    let '(result, ok) := r1 in
    let hashes1 := map hash_key l1 in
    if remote then
      let unknown := existsb (fun s2i => negb (mem_key (hash_key s2i) hashes1)) l2 in
      Ret (result, ok && negb (q_mergeunk q && unknown))
    else
      result' <- merge2 hashes1 l2 result ;;
      Ret (result', ok).

  (* SortData: sort.Slice swaps the elements of data in place; the cells that end up
     different are written *)
  Fixpoint write_back (sl : slice) (i : nat) (old new : list cell) : prog unit :=
    match old, new with
    | o :: orest, n :: nrest =>
        (if eqb_cell o n then Ret tt else write sl i n) ;;; write_back sl (S i) orest nrest
    | _, _ => Ret tt
    end.

  Definition sort_data (sl : slice) : prog slice :=
    match s_len sl, s_keys sch with
    | O, _ => Ret sl
    | _, [] => Ret sl
    | _, _ =>
        l <- get (fun m => items m sl) ;;
        write_back sl 0 l (isort l) ;;;
        Ret sl
    end.

  (* model.UpdateList[T](remoteWrite, existingData, newData, filterPartial, filterDelete) *)
  Definition update_list (remote : bool) (ex new : slice) (fp fd : option flt) : prog (res (slice * bool)) :=
    r1 <- match filter_data fd with
          | Some f =>
              d <- del_loop remote f ex (seq 0 (s_len ex)) nil_slice true ;;
              match d with
              | Panic => Ret Panic
              | Ok (upd, true) => Ret (Ok (upd, true))
              | Ok (_, false) => Ret (Ok (ex, false))
              end
          | None => Ret (Ok (ex, true))
          end ;;
    match r1 with
    | Panic => Ret Panic
    | Ok (ex1, ok0) =>
        match filter_data fp with
        | Some f =>
            if Nat.eqb (s_len new) 0 then
              (if q_emptysel q then Ret (Ok (ex1, false))  (* return existingData, false *)
               else Ret Panic)                             (* &newData[0] *)
            else
              n0 <- get (fun m => rd m new 0) ;;
              match f_sel f with
              | None => Ret (Ok (ex1, ok0))                (* copyToSelectedData without selector *)
              | Some sel =>
                  r <- sel_loop remote sel n0 ex1 (seq 0 (s_len ex1)) true ;;
                  match r with
                  | Panic => Ret Panic
                  | Ok ok => Ret (Ok (ex1, ok0 && ok))
                  end
              end
        | None =>
            n0 <- get (fun m => rd m new 0) ;;
            if negb (Nat.eqb (s_len new) 0) && negb (has_identifiers n0) then
              ok <- all_loop remote n0 ex1 (seq 0 (s_len ex1)) true ;;
              Ret (Ok (ex1, ok0 && ok))
            else
              r <- merge remote ex1 new ;;
              let '(d, ok) := r in
              d' <- sort_data d ;;
              Ret (Ok (d', ok0 && ok))
        end
    end.

  (* func (r *XListDataType) UpdateList(remoteWrite, persist, newList, filterPartial, filterDelete):
       data, success := UpdateList(remoteWrite, r.XData, newData, ...); if success && persist { r.XData = data } *)
  Definition per_type (remote persist : bool) (recv : nat) (new : slice) (fp fd : option flt)
    : prog (res (slice * bool)) :=
    ex <- get (fun m => obj m recv) ;;
    r <- update_list remote ex new fp fd ;;
    match r with
    | Ok (d, true) => (if persist then emit (EWriteObj recv d) else Ret tt) ;;; Ret r
    | _ => Ret r
    end.

  Inductive uret := UPanic | UFail | UObj (p : nat) | UList (sl : slice).

  (* cloneData (the repair): new(T) for nil, else a copy of *data whose list has its own array *)
  Definition clone_data (st : option nat) : prog nat :=
    match st with
    | None => alloc_obj nil_slice
    | Some p =>
        cs <- get (fun m => items m (obj m p)) ;;
        sl <- alloc_arr cs ;;
        alloc_obj sl
    end.

  (* FunctionData.UpdateData(remoteWrite, persist, newData = parg, filterPartial, filterDelete) *)
  Definition update_data (fixed remote persist : bool) (parg : nat) (fp fd : option flt) : prog uret :=
    if persist && negb (is_some fp) && negb (is_some fd) then
      emit (EStore (Some parg)) ;;; Ret (UObj parg)       (* r.data = newData; return r.data *)
    else
      new <- get (fun m => obj m parg) ;;
      st <- get storep ;;
      if fixed then
        work <- clone_data st ;;
        r <- per_type remote persist work new fp fd ;;
        match r with
        | Panic => Ret UPanic
        | Ok (_, false) => Ret UFail
        | Ok (d, true) => (if persist then emit (EStore (Some work)) else Ret tt) ;;; Ret (UList d)
        end
      else
        recv <- match st with
                | Some p => Ret p
                | None => p <- alloc_obj nil_slice ;; emit (EStore (Some p)) ;;; Ret p
                end ;;
        r <- per_type remote persist recv new fp fd ;;
        match r with
        | Panic => Ret UPanic
        | Ok (_, false) => Ret UFail
        | Ok (d, true) => Ret (UList d)
        end.

  (* DataCopy: copiedData = *r.data; return &copiedData (nil when nothing is stored) *)
  Definition data_copy : prog (option nat) :=
    st <- get storep ;;
    match st with
    | None => Ret None
    | Some p => sl <- get (fun m => obj m p) ;; c <- alloc_obj sl ;; Ret (Some c)
    end.

  (* one update as the application sees it: the data object arrives (built by the caller or
     decoded from the message: a new *T with a new array), UpdateData runs, the runner reads
     the store back with DataCopy *)
  (* rb = false: the runner does NOT read the store back after this update (no DataCopy between
     this update and the next operation) *)
  Definition read_back (rb : bool) : prog (option nat) := if rb then data_copy else Ret None.

  Definition update_prog (fixed remote persist rb : bool) (new : list cell) (fp fd : option flt)
    : prog (uret * nat * option nat) :=
    sl <- alloc_arr new ;;
    parg <- alloc_obj sl ;;
    r <- update_data fixed remote persist parg fp fd ;;
    c <- read_back rb ;;
    Ret (r, parg, c).
End Engine.

(* ---- the store as the application sees it ---- *)

(* something handed to the application: a pointer to an outer struct (DataCopy result, event
   payload, the *T returned by the replace path) or a bare list (the data returned by a
   partial update) *)
Inductive hand := HObj (p : nat) | HList (sl : slice).

Definition header (m : mem) (h : hand) : slice :=
  match h with HObj p => obj m p | HList sl => sl end.
Definition val (m : mem) (h : hand) : list cell := items m (header m h).

Record upd := {
  u_new : list cell;
  u_fp : option flt;
  u_fd : option flt
}.

Inductive op :=
| Init (ty : nat) (fam : N) (fixed : bool) (q : quirks)
    (* start over with registered list type ty (index into Gen/GenSchemas.all_schemas);
       fam = the API the runner drives: 0 a bare FunctionData, 2 a FeatureRemote, 3 a FeatureLocal;
       1 / 4 = 0 / 2 for the three types whose per-type UpdateList returns `persist` instead of the
       data (IdentificationListDataType, SessionIdentificationListDataType,
       SessionMeasurementRelationListDataType): a partial update then hands nothing back *)
| Update (remote persist rb : bool) (wire : N) (u : upd)
    (* FunctionData.UpdateData reached through FeatureLocal.UpdateData / SetData, FeatureRemote.UpdateData,
       an inbound notify (wire=1) / reply (wire=2) / write (wire=1, remote); rb: the store is read
       back with DataCopy (and the copy kept) right after the update; rb = false leaves the store
       unobserved until a later Snapshot / read-back *)
| Snapshot
    (* DataCopy, the result being kept by the application *)
| Keep
    (* the application keeps a DataCopy of data that lives outside the modelled memory
       (runner family 5: nodeManagementUseCaseData of a DeviceLocal) *)
| Ext (z : zs).
    (* an operation of the stack that is not transcribed (family 5: one of the four EntityLocal
       use-case operations).  The model says nothing about it except that nothing handed out
       changes; the monitor judges the implementation's observations (a runtime oracle only). *)

Inductive obs :=
| Res (code : N)                                     (* 0 success, 1 error returned, 2 panic *)
| Out (kind : N) (oc ac : nat) (v : list cell)
    (* an object handed to the application: kind 0 DataCopy, 1 data returned by UpdateData, 2 event
       payload; oc / ac: 1 + the index of the earliest handed-out object with the same outer struct /
       the same backing array (its own index if none; 0: no outer struct / empty list); v its value *)
| NilStore                                           (* DataCopy returned nil *)
| Kept                                               (* an object outside the modelled memory was handed out *)
| Changed (k : nat).                                 (* handed-out object k no longer has the value it had *)

Record st := {
  sch : schema;
  fam : N;
  fixed : bool;
  qk : quirks;
  cur : mem;
  handed : list (hand * list cell)      (* every object handed out, with its value at hand-out *)
}.

Definition init : st :=
  {| sch := empty_schema; fam := 0; fixed := true; qk := no_quirks; cur := mem0; handed := [] |}.

Definition schema_of (ty : nat) : schema := nth ty all_schemas empty_schema.

(* does the API of this family hand the result of UpdateData back to the caller: the stored
   object of the replace path / the list of a partial update? *)
Definition returns_obj (fam wire : N) : bool :=
  N.eqb fam 0 || N.eqb fam 1 || ((N.eqb fam 2 || N.eqb fam 4) && N.eqb wire 0).
Definition returns_list (fam wire : N) : bool := N.eqb fam 0 || (N.eqb fam 2 && N.eqb wire 0).

Fixpoint first_index {A} (f : A -> bool) (l : list A) (i : nat) : option nat :=
  match l with
  | [] => None
  | x :: r => if f x then Some i else first_index f r (S i)
  end.

Definition same_outer (h : hand) (x : hand * list cell) : bool :=
  match h, fst x with HObj p, HObj p' => Nat.eqb p p' | _, _ => false end.

Definition same_array (m : mem) (h : hand) (x : hand * list cell) : bool :=
  let a := header m h in let b := header m (fst x) in
  negb (Nat.eqb (s_len b) 0) && Nat.eqb (s_arr a) (s_arr b).

(* hand one object out: record it with its value, describe it *)
Definition hand_out (m : mem) (kind : N) (h : hand) (hs : list (hand * list cell))
  : list (hand * list cell) * obs :=
  let k := length hs in
  let oc := match h with
            | HObj _ => S (match first_index (same_outer h) hs 0 with Some j => j | None => k end)
            | HList _ => O
            end in
  let ac := if Nat.eqb (s_len (header m h)) 0 then O
            else S (match first_index (same_array m h) hs 0 with Some j => j | None => k end) in
  (hs ++ [(h, val m h)], Out kind oc ac (val m h)).

Fixpoint hand_outs (m : mem) (news : list (N * hand)) (hs : list (hand * list cell))
  : list (hand * list cell) * list obs :=
  match news with
  | [] => (hs, [])
  | (kind, h) :: r =>
      let '(hs1, o) := hand_out m kind h hs in
      let '(hs2, os) := hand_outs m r hs1 in
      (hs2, o :: os)
  end.

(* compare every object handed out earlier with its recorded value (the runner's deep clone);
   a change is reported once, the record then follows the object *)
Fixpoint check_changed (m : mem) (hs : list (hand * list cell)) (k : nat)
  : list (hand * list cell) * list obs :=
  match hs with
  | [] => ([], [])
  | (h, v) :: r =>
      let '(r', os) := check_changed m r (S k) in
      if eqb_cells (val m h) v then ((h, v) :: r', os) else ((h, val m h) :: r', Changed k :: os)
  end.

Definition ret_news (ro rl : bool) (r : uret) : list (N * hand) :=
  match r with
  | UObj p => if ro then [(1%N, HObj p)] else []
  | UList sl => if rl then [(1%N, HList sl)] else []
  | _ => []
  end.

Definition succeeded (r : uret) : bool := match r with UObj _ | UList _ => true | _ => false end.
Definition code_of (r : uret) : N := match r with UPanic => 2 | UFail => 1 | _ => 0 end.

Definition snap_news (c : option nat) : list (N * hand) :=
  match c with Some p => [(0%N, HObj p)] | None => [] end.
Definition snap_nil (c : option nat) : list obs :=
  match c with Some _ => [] | None => [NilStore] end.

Section Step.
  Variable grow : nat -> nat -> nat.

  (* the effects of one operation, in program order (for the statements about readers that run
     concurrently with it) *)
  Definition step_effects (s : st) (o : op) : list eff :=
    match o with
    | Init _ _ _ _ => []
    | Update remote persist rb wire u =>
        snd (exec (update_prog grow (sch s) (qk s) (fixed s) remote persist rb (u_new u) (u_fp u) (u_fd u)) (cur s))
    | Snapshot => snd (exec data_copy (cur s))
    | Keep => []
    | Ext _ => []
    end.

  Definition step (s : st) (o : op) : st * list obs :=
    match o with
    | Init ty fm fx q =>
        ({| sch := schema_of ty; fam := fm; fixed := fx; qk := q; cur := mem0; handed := [] |}, [])
    | Update remote persist rb wire u =>
        let '(r, parg, c, m', _) :=
          exec (update_prog grow (sch s) (qk s) (fixed s) remote persist rb (u_new u) (u_fp u) (u_fd u)) (cur s) in
        let '(hs0, chg) := check_changed m' (handed s) 0 in
        let news := ret_news (returns_obj (fam s) wire) (returns_list (fam s) wire) r ++
                    (if negb (N.eqb wire 0) && succeeded r then [(2%N, HObj parg)] else []) ++
                    snap_news c in
        let '(hs1, outs) := hand_outs m' news hs0 in
        ({| sch := sch s; fam := fam s; fixed := fixed s; qk := qk s; cur := m'; handed := hs1 |},
         [Res (code_of r)] ++ outs ++ (if rb then snap_nil c else []) ++ chg)
    | Snapshot =>
        let '(c, m', _) := exec data_copy (cur s) in
        let '(hs0, chg) := check_changed m' (handed s) 0 in
        let '(hs1, outs) := hand_outs m' (snap_news c) hs0 in
        ({| sch := sch s; fam := fam s; fixed := fixed s; qk := qk s; cur := m'; handed := hs1 |},
         outs ++ snap_nil c ++ chg)
    | Keep =>
        ({| sch := sch s; fam := fam s; fixed := fixed s; qk := qk s; cur := cur s;
            handed := handed s ++ [(HList nil_slice, [])] |}, [Kept])
    | Ext _ => (s, [])
    end.

  Fixpoint run (s : st) (ops : list op) : st * list (op * list obs) :=
    match ops with
    | [] => (s, [])
    | o :: r =>
        let '(s1, out) := step s o in
        let '(s2, tr) := run s1 r in
        (s2, (o, out) :: tr)
    end.
End Step.

(* ---- wire encoding (self-describing: field counts travel with the data) ----
   op:   0 ty fam fixed q1 q2 q3 q4 q5 [q6 q7]     (q6 q7 absent = 0)
         1 remote persist wire <items> <filter partial> <filter delete>
         2
         3                 (Keep)
         5 remote persist wire <items> <filter partial> <filter delete>   (as 1, without read-back)
         4 ...             (Ext: the numbers are the runner's business)
   <items>  = n nf, then n items of nf numbers each (0 = nil, v+1 = value v)
   <filter> = 0 (nil) | 1 hs he ns ne <ns numbers> <ne numbers 0/1>
   obs:  10 code | 15 kind oc ac <items> | 16 | 17 | 14 k *)

Definition of_z (z : Z) : option N := if Z.eqb z 0 then None else Some (Nz (z - 1)).
Definition to_z (o : option N) : Z := match o with None => 0 | Some v => Zn v + 1 end.

Fixpoint take_items (nf : nat) (n : nat) (l : zs) : option (list cell * zs) :=
  match n with
  | O => Some ([], l)
  | S n' =>
      if Nat.ltb (length l) nf then None
      else match take_items nf n' (skipn nf l) with
           | Some (r, rest) => Some (map of_z (firstn nf l) :: r, rest)
           | None => None
           end
  end.

Definition parse_items (l : zs) : option (list cell * zs) :=
  match l with
  | n :: nf :: r => if Z.ltb n 0 || Z.ltb nf 0 then None else take_items (Z.to_nat nf) (Z.to_nat n) r
  | _ => None
  end.

Definition parse_filter (l : zs) : option (option flt * zs) :=
  match l with
  | 0 :: r => Some (None, r)
  | 1 :: hs :: he :: zns :: zne :: r =>
      if Z.ltb zns 0 || Z.ltb zne 0 then None else
      let ns := if bZ hs then Z.to_nat zns else O in
      let ne := if bZ he then Z.to_nat zne else O in
      if Nat.ltb (length r) (ns + ne) then None
      else
        let selv := firstn ns r in
        let elv := firstn ne (skipn ns r) in
        Some (Some {| f_sel := if bZ hs then Some (map of_z selv) else None;
                      f_elems := if bZ he then Some (map bZ elv) else None |},
              skipn (ns + ne) r)
  | _ => None
  end.

Definition parse_op (l : zs) : option op :=
  match l with
  | [0; ty; fm; fx; q1; q2; q3; q4; q5] =>
      if Z.ltb ty 0 || Z.ltb fm 0 then None
      else Some (Init (Z.to_nat ty) (Nz fm) (bZ fx)
                   {| q_nobreak := bZ q1; q_keepwc := bZ q2; q_deladdr := bZ q3; q_mergeaddr := bZ q4; q_mergeunk := bZ q5;
                      q_selnil := false; q_emptysel := false |})
  | [0; ty; fm; fx; q1; q2; q3; q4; q5; q6; q7] =>
      if Z.ltb ty 0 || Z.ltb fm 0 then None
      else Some (Init (Z.to_nat ty) (Nz fm) (bZ fx)
                   {| q_nobreak := bZ q1; q_keepwc := bZ q2; q_deladdr := bZ q3; q_mergeaddr := bZ q4; q_mergeunk := bZ q5;
                      q_selnil := bZ q6; q_emptysel := bZ q7 |})
  | [2] => Some Snapshot
  | [3] => Some Keep
  | 4 :: r => Some (Ext r)
  | code :: remote :: persist :: wire :: r =>
      if negb (Z.eqb code 1 || Z.eqb code 5) || Z.ltb wire 0 then None else
      match parse_items r with
      | Some (new, r1) =>
          match parse_filter r1 with
          | Some (fp, r2) =>
              match parse_filter r2 with
              | Some (fd, []) => Some (Update (bZ remote) (bZ persist) (Z.eqb code 1) (Nz wire) {| u_new := new; u_fp := fp; u_fd := fd |})
              | _ => None
              end
          | None => None
          end
      | None => None
      end
  | _ => None
  end.

(* the field count travels with the list; an empty list is printed with the field count 0 *)
Definition print_items (l : list cell) : zs :=
  Z.of_nat (length l) :: Z.of_nat (match l with x :: _ => length x | [] => 0 end) :: flat_map (map to_z) l.

Definition print_obs (o : obs) : zs :=
  match o with
  | Res c => [10; Zn c]
  | Out k oc ac v => 15 :: Zn k :: Z.of_nat oc :: Z.of_nat ac :: print_items v
  | NilStore => [16]
  | Kept => [17]
  | Changed k => [14; Z.of_nat k]
  end.

Definition parse_obs (l : zs) : option obs :=
  match l with
  | [10; c] => Some (Res (Nz c))
  | 15 :: k :: oc :: ac :: r =>
      match parse_items r with
      | Some (it, []) => Some (Out (Nz k) (Z.to_nat oc) (Z.to_nat ac) it)
      | _ => None
      end
  | [16] => Some NilStore
  | [17] => Some Kept
  | [14; k] => Some (Changed (Z.to_nat k))
  | _ => None
  end.
