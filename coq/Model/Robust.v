(* C05 — executable model of the inbound path of spine-go over a datagram type in
   which every pointer the code dereferences is an [option] and every slice a
   list:  DeviceRemote.HandleSpineMesssage -> DeviceLocal.ProcessCmd ->
   FeatureLocal.HandleMessage / NodeManagement.HandleMessage and its
   sub-handlers (detailed discovery, subscription and binding calls, use case
   data, destination list, result) -> the entry conditions of the update engine
   (FunctionData.UpdateData, model.UpdateList).

   One transcription, two readings, selected by [fx]:
     fx = false   the code WITHOUT the C05 repairs: a dereference of an absent
                  value is [Panic site] (site = innermost spine-go function);
     fx = true    the repaired code (patches/fix-C05-*.diff): the guard's behaviour.
   Both readings include the discovery repairs of C06 and the update-engine
   repairs of C02/C04/C11 that the tree carries.  No proofs here.

   World (harness/cmd/c05): local device d0 with
     [0]:0 NodeManagement (special)   [0]:1 DeviceClassification (server)
     [1]:1 LoadControl server: loadControlLimitConstraintsListData (read, write),
                               loadControlNodeData (read)
     [1]:2 LoadControl client
   and connections (SKI) 1..3.  Identifiers are numbers kept in bijection by the
   harness.  Observed: reply / result / notify datagrams written to any
   connection (read and call datagrams are not, see props/C05.json). *)
From Verif Require Import Base.Prelude.

(* ------------------------------------------------------------------ results *)
Inductive res (A : Type) : Type := Ok (a : A) | Panic (site : N).
Arguments Ok {A} a.
Arguments Panic {A} site.

Definition bind {A B} (m : res A) (f : A -> res B) : res B :=
  match m with Ok a => f a | Panic s => Panic s end.
Notation "x <- m ;; f" := (bind m (fun x => f)) (at level 61, m at next level, right associativity).
Notation "' pat <- m ;; f" := (bind m (fun x => match x with pat => f end))
  (at level 61, pat pattern, m at next level, right associativity).

(* a dereference the repaired code guards: [fb] is what the guard does *)
Definition guard {A} (fx : bool) (site : N) (fb : res A) : res A := if fx then fb else Panic site.

(* panic sites = innermost spine-go frame *)
Definition S_LFBA : N := 1.        (* spine.DeviceLocal.FeatureByAddress *)
Definition S_PROCESSCMD : N := 2.  (* spine.DeviceLocal.ProcessCmd *)
Definition S_EXTRACT : N := 3.     (* model.CmdType.ExtractFilter *)
Definition S_PRINT : N := 4.       (* model.DatagramType.PrintMessageOverview *)
Definition S_SUBREQ : N := 5.      (* spine.NodeManagement.handleMsgSubscriptionRequestCall *)
Definition S_SUBDEL : N := 6.      (* spine.NodeManagement.handleMsgSubscriptionDeleteCall *)
Definition S_BINDREQ : N := 7.     (* spine.NodeManagement.handleMsgBindingRequestCall *)
Definition S_BINDDEL : N := 8.     (* spine.NodeManagement.handleMsgBindingDeleteCall *)
Definition S_ADDSUB : N := 9.      (* spine.SubscriptionManager.AddSubscription *)
Definition S_REMSUB : N := 10.     (* spine.SubscriptionManager.RemoveSubscription *)
Definition S_ADDBIND : N := 11.    (* spine.BindingManager.AddBinding *)
Definition S_REMBIND : N := 12.    (* spine.BindingManager.RemoveBinding *)
Definition S_RFBA : N := 13.       (* spine.DeviceRemote.FeatureByAddress *)
Definition S_REPLYDISC : N := 14.  (* spine.NodeManagement.processReplyDetailedDiscoveryData *)
Definition S_ADDENT : N := 15.     (* spine.DeviceRemote.AddEntityAndFeatures *)
Definition S_NEWENTITY : N := 16.  (* spine.NewEntity *)
Definition S_UNMARSHAL : N := 17.  (* spine.unmarshalFeature *)
Definition S_SETOPS : N := 18.     (* spine.FeatureRemote.SetOperations *)
Definition S_FACTORY : N := 19.    (* spine.CreateFunctionData *)
Definition S_UPDATELIST : N := 20. (* model.UpdateList *)
Definition S_SELMATCH : N := 21.   (* model.FilterData.SelectorMatch *)

(* ------------------------------------------------------------------ wire values *)
Record faddr := { fa_dev : option N; fa_ent : option (list N); fa_feat : option N }.

Inductive cls := CRead | CReply | CNotify | CWrite | CCall | CResult | CUnknown.
Inductive role := RClient | RServer | RSpecial | ROther.
Inductive estate := EAdded | ERemoved | EOther.

Record header := {
  h_src : option faddr; h_dst : option faddr;
  h_ctr : option N; h_ref : option N; h_ack : option bool; h_cls : option cls }.

(* FilterType: CmdControl (partial non-nil, delete non-nil); the selectors and the elements of
   the modelled list function (its only selector field is the key limitId; for the elements
   only "the key element is named" matters) *)
Record filt := {
  f_ctrl : option (bool * bool);
  f_sel : option (option N);
  f_elems : option bool;
  (* the selectors / elements of ANOTHER function (the harness uses measurementListData's): FilterType.Data()
     takes the LAST selectors and the LAST elements field in struct order whatever the cmd's function is, and
     these come after the modelled function's; none of their field names exists in the modelled items *)
  f_fsel : bool;
  f_felems : bool }.

Record regreq := { rq_cli : option faddr; rq_srv : option faddr; rq_type : option N }.
Record regdel := { rd_cli : option faddr; rd_srv : option faddr }.

Record eaddrT := { ea_dev : option N; ea_ent : option (list N) }.
Record entdesc := { ed_addr : option eaddrT; ed_type : option N; ed_state : option estate }.
Record featdesc := {
  fd_addr : option faddr; fd_type : option N; fd_role : option role;
  fd_fns : list (bool * bool) }.          (* per supportedFunction: Function non-nil, PossibleOperations non-nil *)
Record disc := {
  d_devinfo : option (option (option N));  (* DeviceInformation / .Description / .DeviceAddress.Device *)
  d_ents : list (option entdesc);          (* EntityInformation[i].Description *)
  d_feats : list (option featdesc) }.      (* FeatureInformation[i].Description *)

(* CmdType as the handlers read it.  [c_data] is cmd.Data(): the function of the first
   non-nil payload field in struct order; [c_nitems] the length of that payload's list (0 if it
   has none); [c_ids] the keys of its items when it is the modelled list function.  The node
   management handler looks at its own fields directly. *)
Record cmd := {
  c_filters : list filt;
  c_data : option N;
  c_nitems : N;
  c_ids : list (option N);
  c_result : option (option N);            (* ResultData / .ErrorNumber *)
  c_disc : option disc;
  c_subreq : option (option regreq);       (* NodeManagementSubscriptionRequestCall / .SubscriptionRequest *)
  c_subdel : option (option regdel);
  c_subdata : bool;
  c_bindreq : option (option regreq);
  c_binddel : option (option regdel);
  c_binddata : bool;
  c_usecase : bool;
  c_destlist : bool }.

Record dgram := { dg_hd : header; dg_cmd : option cmd }.   (* Payload.Cmd[0]; None = empty list *)

(* ------------------------------------------------------------------ tables *)
(* feature types: 0 = a type CreateFunctionData has nothing for *)
Definition T_LOADCONTROL : N := 1.
Definition T_MEASUREMENT : N := 2.
Definition T_GENERIC : N := 4.
Definition T_NODEMGMT : N := 5.
Definition T_DEVCLASS : N := 6.
Definition T_OTHER : N := 7.     (* any other type the factory knows *)

(* functions *)
Definition F_CONS : N := 1.      (* loadControlLimitConstraintsListData: THE modelled list function *)
Definition F_NODE : N := 2.      (* loadControlNodeData *)
Definition F_MEAS : N := 3.      (* measurementListData *)
Definition F_MANUF : N := 4.     (* deviceClassificationManufacturerData *)
Definition F_DISC : N := 10.
Definition F_USECASE : N := 11.
Definition F_DESTLIST : N := 12.
Definition F_SUBDATA : N := 13.
Definition F_SUBREQ : N := 14.
Definition F_SUBDEL : N := 15.
Definition F_BINDDATA : N := 16.
Definition F_BINDREQ : N := 17.
Definition F_BINDDEL : N := 18.
Definition F_RESULT : N := 19.

(* function_data_factory.go, restricted to the modelled functions *)
Definition registered (t fn : N) : bool :=
  if N.eqb t T_NODEMGMT then N.eqb fn F_DISC || N.eqb fn F_USECASE || N.eqb fn F_DESTLIST
  else if N.eqb t T_LOADCONTROL then N.eqb fn F_CONS || N.eqb fn F_NODE
  else if N.eqb t T_MEASUREMENT then N.eqb fn F_MEAS
  else if N.eqb t T_DEVCLASS then N.eqb fn F_MANUF
  else if N.eqb t T_GENERIC then N.eqb fn F_CONS || N.eqb fn F_NODE || N.eqb fn F_MEAS || N.eqb fn F_MANUF
  else false.

(* the payload type implements model.Updater *)
Definition updater (fn : N) : bool := N.eqb fn F_CONS || N.eqb fn F_MEAS || N.eqb fn F_DESTLIST.

(* error numbers (model/result.go) *)
Definition E_GENERAL : N := 1.
Definition E_DESTUNKNOWN : N := 4.
Definition E_NOTSUPPORTED : N := 6.
Definition E_REJECTED : N := 7.

Definition DEV_EMPTY : N := 50.      (* the device address "" *)
Definition LOCAL_DEV : N := 0.

(* ------------------------------------------------------------------ state *)
Record rfeat := { rf_id : N; rf_dev : option N; rf_type : N; rf_role : role }.
Record rent := { re_addr : list N; re_dev : option N; re_feats : list rfeat }.
Record peer := { p_ski : N; p_addr : option N; p_ents : list rent }.
Record entry := { e_srv : list N * N; e_ski : N; e_cdev : option N; e_cent : list N; e_cfeat : N }.

Record lfeat := { lf_ent : list N; lf_id : N; lf_type : N; lf_role : role; lf_ops : list (N * (bool * bool)) }.

Definition local_features : list lfeat := [
  {| lf_ent := [0%N]; lf_id := 0; lf_type := T_NODEMGMT; lf_role := RSpecial;
     lf_ops := [(F_DISC, (true, false)); (F_USECASE, (true, false)); (F_SUBDATA, (true, false));
                (F_SUBREQ, (false, false)); (F_SUBDEL, (false, false)); (F_BINDDATA, (true, false));
                (F_BINDREQ, (false, false)); (F_BINDDEL, (false, false)); (F_DESTLIST, (true, false))] |};
  {| lf_ent := [0%N]; lf_id := 1; lf_type := T_DEVCLASS; lf_role := RServer; lf_ops := [(F_MANUF, (true, false))] |};
  {| lf_ent := [1%N]; lf_id := 1; lf_type := T_LOADCONTROL; lf_role := RServer;
     lf_ops := [(F_CONS, (true, true)); (F_NODE, (true, false))] |};
  {| lf_ent := [1%N]; lf_id := 2; lf_type := T_LOADCONTROL; lf_role := RClient; lf_ops := [] |};
  {| lf_ent := [1%N]; lf_id := 3; lf_type := T_GENERIC; lf_role := RServer; lf_ops := [] |} ].

Record st := {
  peers : list peer;                 (* DeviceLocal.remoteDevices *)
  subs : list entry;                 (* SubscriptionManager.subscriptionEntries *)
  binds : list entry;                (* BindingManager.bindingEntries *)
  lstore : list (option N) }.        (* keys of the items of [1]:1 loadControlLimitConstraintsListData *)

Definition init : st := {| peers := []; subs := []; binds := []; lstore := [Some 1%N; Some 2%N] |}.

(* ------------------------------------------------------------------ observations / operations *)
Inductive out :=
| OReply (p fn : N) (ref : option N)       (* reply datagram written to connection p *)
| OResult (p err : N) (ref : option N)     (* result datagram (error number, 0 = success) *)
| ONotify (p fn : N).                      (* notify datagram *)

Inductive obs :=
| Out (o : out)
| OPanic (site : N)                        (* the handler panicked *)
| OWedge                                   (* implementation only: the handler did not return *)
| OBadAbs.                                 (* implementation only: the abstraction in the operation is not the payload's *)

Inductive op :=
| Connect (p : N)
| Disconnect (p : N)
| Inbound (p : N) (d : option dgram)       (* None: the bytes are not a JSON datagram *)
| Probe (p c : N)                          (* a valid detailed-discovery read from p, message counter c *)
| Opaque (p : N).                          (* search only: a data message of a function outside the modelled set
                                              (reply / notify / read between data features); it cannot touch what the
                                              model tracks (trees, registries, the modelled store); only panic / wedge
                                              are observed for it, its outputs are not compared *)

(* ------------------------------------------------------------------ helpers *)
Fixpoint eqb_ln (a b : list N) : bool :=
  match a, b with
  | [], [] => true
  | x :: a', y :: b' => N.eqb x y && eqb_ln a' b'
  | _, _ => false
  end.

Definition eqb_on (a b : option N) : bool :=
  match a, b with
  | None, None => true
  | Some x, Some y => N.eqb x y
  | _, _ => false
  end.

Definition eqb_role (a b : role) : bool :=
  match a, b with
  | RClient, RClient | RServer, RServer | RSpecial, RSpecial | ROther, ROther => true
  | _, _ => false
  end.

Definition is_cls (c : cls) (k : cls) : bool :=
  match c, k with
  | CRead, CRead | CReply, CReply | CNotify, CNotify | CWrite, CWrite | CCall, CCall | CResult, CResult
  | CUnknown, CUnknown => true
  | _, _ => false
  end.

(* reflect.DeepEqual(id, e.Address().Entity): a nil slice equals no stored (non-empty) address *)
Definition ent_is (a : option (list N)) (e : list N) : bool :=
  match a with Some l => eqb_ln l e | None => false end.

Definition find_peer (s : st) (p : N) : option peer := find (fun x => N.eqb (p_ski x) p) (peers s).

Definition find_rent (pe : peer) (a : option (list N)) : option rent :=
  find (fun x => ent_is a (re_addr x)) (p_ents pe).

(* EntityRemote.FeatureOfAddress *)
Definition find_rfeat (en : rent) (f : option N) : option rfeat :=
  match f with
  | None => None
  | Some f => find (fun x => N.eqb (rf_id x) f) (re_feats en)
  end.

(* DeviceRemote.FeatureByAddress on a non-nil address *)
Definition remote_feature (pe : peer) (a : faddr) : option (rent * rfeat) :=
  match find_rent pe (fa_ent a) with
  | None => None
  | Some en => match find_rfeat en (fa_feat a) with Some rf => Some (en, rf) | None => None end
  end.

(* DeviceLocal.FeatureByAddress on a non-nil address *)
Definition local_feature (a : faddr) : option lfeat :=
  match fa_feat a with
  | None => None
  | Some f => find (fun x => ent_is (fa_ent a) (lf_ent x) && N.eqb (lf_id x) f) local_features
  end.

Definition set_peer (s : st) (pe : peer) : st :=
  {| peers := map (fun x => if N.eqb (p_ski x) (p_ski pe) then pe else x) (peers s);
     subs := subs s; binds := binds s; lstore := lstore s |}.

Definition set_subs (s : st) (l : list entry) : st :=
  {| peers := peers s; subs := l; binds := binds s; lstore := lstore s |}.
Definition set_binds (s : st) (l : list entry) : st :=
  {| peers := peers s; subs := subs s; binds := l; lstore := lstore s |}.
Definition set_store (s : st) (l : list (option N)) : st :=
  {| peers := peers s; subs := subs s; binds := binds s; lstore := l |}.

(* ------------------------------------------------------------------ sending *)
(* Sender.Reply / Sender.result -> sendSpineMessage -> PrintMessageOverview(send = true):
   the unrepaired code dereferences MsgCounterReference = the request's MsgCounter *)
Definition send_reply (fx : bool) (p fn : N) (h : header) : res (list out) :=
  match h_ctr h with
  | Some c => Ok [OReply p fn (Some c)]
  | None => guard fx S_PRINT (Ok [OReply p fn None])
  end.

Definition send_result (fx : bool) (p err : N) (h : header) : res (list out) :=
  match h_ctr h with
  | Some c => Ok [OResult p err (Some c)]
  | None => guard fx S_PRINT (Ok [OResult p err None])
  end.

(* DeviceLocal.NotifySubscribers *)
Definition notify_subscribers (s : st) (lf : lfeat) (fn : N) : list out :=
  map (fun x => ONotify (e_ski x) fn)
      (filter (fun x => eqb_ln (fst (e_srv x)) (lf_ent lf) && N.eqb (snd (e_srv x)) (lf_id lf)) (subs s)).

(* ------------------------------------------------------------------ filters / update engine entry *)
(* CmdType.ExtractFilter: the last filter with Partial set, the last one with only Delete set *)
Fixpoint extract_filters (fx : bool) (l : list filt) (fp fd : option filt) : res (option filt * option filt) :=
  match l with
  | [] => Ok (fp, fd)
  | f :: r =>
      match f_ctrl f with
      | None => guard fx S_EXTRACT (extract_filters fx r fp fd)
      | Some (true, _) => extract_filters fx r (Some f) fd
      | Some (false, true) => extract_filters fx r fp (Some f)
      | Some (false, false) => extract_filters fx r fp fd
      end
  end.

(* FilterType.Data() succeeds: some selectors or elements field is set *)
Definition filter_has_data (f : filt) : bool :=
  f_fsel f || f_felems f || match f_sel f, f_elems f with None, None => false | _, _ => true end.

(* FilterData.Selector / .Elements as the update engine sees them *)
Inductive selk := SOwn (v : option N) | SForeign.

Definition eff_sel (f : filt) : option selk :=
  if f_fsel f then Some SForeign else match f_sel f with Some v => Some (SOwn v) | None => None end.

(* a foreign elements value removes nothing from an item of the modelled function (RemoveElementFromItem
   returns when the field counts differ): it acts like own elements that do not name the key *)
Definition eff_elems (f : filt) : option bool := if f_felems f then Some false else f_elems f.

(* FilterData.SelectorMatch on an item with key [k]; the unrepaired code panics when the
   selector names the key and the item has none *)
Definition selector_match (fx : bool) (sel : selk) (k : option N) : res bool :=
  match sel with
  | SForeign => Ok true          (* no field of a foreign selector exists in the item: every item matches *)
  | SOwn None => Ok true
  | SOwn (Some v) => match k with
                     | Some k' => Ok (N.eqb v k')
                     | None => guard fx S_SELMATCH (Ok false)
                     end
  end.

Fixpoint map_res {A B} (f : A -> res B) (l : list A) : res (list B) :=
  match l with
  | [] => Ok []
  | x :: r => y <- f x ;; ys <- map_res f r ;; Ok (y :: ys)
  end.

(* deleteFilteredData on the keys of the stored items (no item of the modelled list function has a
   "writecheck" field, so nothing here can fail) *)
Definition delete_filtered (fx : bool) (f : filt) (store : list (option N)) : res (list (option N)) :=
  match eff_sel f, eff_elems f with
  | None, None => Ok store
  | Some sel, Some idel =>
      map_res (fun k => m <- selector_match fx sel k ;; Ok (if m && idel then None else k)) store
  | Some sel, None =>
      ms <- map_res (fun k => m <- selector_match fx sel k ;; Ok (k, m)) store ;;
      Ok (map fst (filter (fun km => negb (snd km)) ms))
  | None, Some idel => Ok (map (fun k => if idel then None else k) store)
  end.

(* copyToSelectedData (every matching item receives the non-nil fields of the first new item) *)
Definition copy_selected (fx : bool) (f : filt) (k0 : option N) (store : list (option N)) : res (list (option N)) :=
  match eff_sel f with
  | None => Ok store
  | Some sel =>
      map_res (fun k => m <- selector_match fx sel k ;;
                        Ok (if m then match k0 with Some _ => k0 | None => k end else k)) store
  end.

(* model.UpdateList for a remote write to the local store: new store and success *)
Definition update_list_local (fx : bool) (fp fd : option filt) (ids : list (option N)) (store : list (option N))
  : res (list (option N) * bool) :=
  st1 <- match fd with
         | Some f => if filter_has_data f then delete_filtered fx f store else Ok store
         | None => Ok store
         end ;;
  match fp with
  | Some f =>
      if filter_has_data f then
        match ids with
        | [] => guard fx S_UPDATELIST (Ok (st1, false))
        | k0 :: _ => st2 <- copy_selected fx f k0 st1 ;; Ok (st2, true)
        end
      else
        (* no data in the partial filter: identifiers / merge *)
        match ids with
        | None :: _ => Ok (st1, true)                                   (* copyToAllData: keys unchanged *)
        | _ => Ok (st1, forallb (fun k => existsb (eqb_on k) st1) ids)  (* Merge: a remote write cannot append *)
        end
  | None =>
      match ids with
      | None :: _ => Ok (st1, true)
      | _ => Ok (st1, forallb (fun k => existsb (eqb_on k) st1) ids)
      end
  end.

(* FunctionData.UpdateData of a REMOTE feature (remoteWrite = false): None = success *)
Definition update_remote (fx : bool) (t fn : N) (fp fd : option filt) (nitems : N) : res (option N) :=
  if negb (registered t fn) then Ok (Some E_GENERAL) else
  match fp, fd with
  | None, None => Ok None
  | _, _ =>
      if negb (updater fn) then Ok (Some E_GENERAL) else
      match fp with
      | Some f => if filter_has_data f && N.eqb nitems 0
                  then guard fx S_UPDATELIST (Ok (Some E_GENERAL)) else Ok None
      | None => Ok None
      end
  end.

(* ------------------------------------------------------------------ registries *)
Definition role_type_ok (r : role) (t : N) (want : role) (wt : N) : bool :=
  (eqb_role r RSpecial || eqb_role r want) && (N.eqb t wt || N.eqb t T_GENERIC).

Definition same_srv (x : entry) (lf : lfeat) : bool :=
  eqb_ln (fst (e_srv x)) (lf_ent lf) && N.eqb (snd (e_srv x)) (lf_id lf).

Definition same_cli (x : entry) (dev : option N) (ent : list N) (feat : N) : bool :=
  eqb_on (e_cdev x) dev && eqb_ln (e_cent x) ent && N.eqb (e_cfeat x) feat.

Definition mk_entry (lf : lfeat) (pe : peer) (en : rent) (rf : rfeat) : entry :=
  {| e_srv := (lf_ent lf, lf_id lf); e_ski := p_ski pe; e_cdev := rf_dev rf; e_cent := re_addr en; e_cfeat := rf_id rf |}.

(* the error text of the unrepaired code dereferences remoteDevice.Address() *)
Definition no_client (fx : bool) (site : N) (pe : peer) (s : st) : res (st * bool) :=
  match p_addr pe with
  | Some _ => Ok (s, true)
  | None => guard fx site (Ok (s, true))
  end.

(* optional address -> lookups that are nil-safe in the repaired code *)
Definition local_feature_opt (fx : bool) (a : option faddr) : res (option lfeat) :=
  match a with
  | Some a => Ok (local_feature a)
  | None => guard fx S_LFBA (Ok None)
  end.

Definition remote_feature_opt (fx : bool) (pe : peer) (a : option faddr) : res (option (rent * rfeat)) :=
  match a with
  | Some a => Ok (remote_feature pe a)
  | None => guard fx S_RFBA (Ok None)
  end.

(* SubscriptionManager.AddSubscription; bool = error *)
Definition add_subscription (fx : bool) (s : st) (pe : peer) (r : regreq) : res (st * bool) :=
  srv <- local_feature_opt fx (rq_srv r) ;;
  match srv with
  | None => Ok (s, true)
  | Some lf =>
      match rq_type r with
      | None => guard fx S_ADDSUB (Ok (s, true))
      | Some t =>
          if negb (role_type_ok (lf_role lf) (lf_type lf) RServer t) then Ok (s, true) else
          cli <- remote_feature_opt fx pe (rq_cli r) ;;
          match cli with
          | None => no_client fx S_ADDSUB pe s
          | Some (en, rf) =>
              if negb (role_type_ok (rf_role rf) (rf_type rf) RClient t) then Ok (s, true) else
              (* an existing subscription is found by server feature, connection and client ADDRESS *)
              if existsb (fun x => same_srv x lf && N.eqb (e_ski x) (p_ski pe) &&
                                   same_cli x (rf_dev rf) (re_addr en) (rf_id rf)) (subs s)
              then Ok (s, true)
              else Ok (set_subs s (subs s ++ [mk_entry lf pe en rf]), false)
          end
      end
  end.

(* the client address of a delete call, device defaulted to the sender's *)
Definition del_client (pe : peer) (a : faddr) : option N :=
  match fa_dev a with Some d => Some d | None => p_addr pe end.

Definition ent_list (a : option (list N)) : list N := match a with Some l => l | None => [] end.

(* SubscriptionManager.RemoveSubscription (entries of the calling connection only: fix c14f34e) *)
Definition remove_subscription (fx : bool) (s : st) (pe : peer) (r : regdel) : res (st * bool) :=
  match rd_cli r with
  | None => guard fx S_REMSUB (Ok (s, true))
  | Some ca =>
      match remote_feature pe ca with
      | None => no_client fx S_REMSUB pe s
      | Some (en, rf) =>
          srv <- local_feature_opt fx (rd_srv r) ;;
          match srv with
          | None => Ok (s, true)
          | Some lf =>
              let keep := filter (fun x => negb (N.eqb (e_ski x) (p_ski pe) && same_cli x (del_client pe ca) (ent_list (fa_ent ca)) (rf_id rf) && same_srv x lf)) (subs s) in
              if Nat.eqb (length keep) (length (subs s)) then Ok (s, true)
              else Ok (set_subs s keep, false)
          end
      end
  end.

(* BindingManager.AddBinding (it checks ServerFeatureType itself) *)
Definition add_binding (fx : bool) (s : st) (pe : peer) (r : regreq) : res (st * bool) :=
  srv <- local_feature_opt fx (rq_srv r) ;;
  match srv with
  | None => Ok (s, true)
  | Some lf =>
      match rq_type r with
      | None => Ok (s, true)
      | Some t =>
          if negb (role_type_ok (lf_role lf) (lf_type lf) RServer t) then Ok (s, true) else
          if existsb (fun x => same_srv x lf) (binds s) then Ok (s, true) else
          cli <- remote_feature_opt fx pe (rq_cli r) ;;
          match cli with
          | None => no_client fx S_ADDBIND pe s
          | Some (en, rf) =>
              if negb (role_type_ok (rf_role rf) (rf_type rf) RClient t) then Ok (s, true) else
              Ok (set_binds s (binds s ++ [mk_entry lf pe en rf]), false)
          end
      end
  end.

(* BindingManager.HasLocalFeatureRemoteBinding *)
Definition has_binding (s : st) (lf : lfeat) (en : rent) (rf : rfeat) : bool :=
  existsb (fun x => same_srv x lf && same_cli x (rf_dev rf) (re_addr en) (rf_id rf)) (binds s).

(* BindingManager.RemoveBinding (entries of the calling connection only: fix c14f34e) *)
Definition remove_binding (fx : bool) (s : st) (pe : peer) (r : regdel) : res (st * bool) :=
  match rd_cli r with
  | None => guard fx S_REMBIND (Ok (s, true))
  | Some ca =>
      match remote_feature pe ca with
      | None => no_client fx S_REMBIND pe s
      | Some (en, rf) =>
          srv <- local_feature_opt fx (rd_srv r) ;;
          match srv with
          | None => Ok (s, true)
          | Some lf =>
              if negb (eqb_role (lf_role lf) RSpecial || eqb_role (lf_role lf) RServer) then Ok (s, true) else
              if negb (has_binding s lf en rf) then Ok (s, true) else
              let keep := filter (fun x => negb (N.eqb (e_ski x) (p_ski pe) && same_cli x (del_client pe ca) (ent_list (fa_ent ca)) (rf_id rf) && same_srv x lf)) (binds s) in
              if Nat.eqb (length keep) (length (binds s)) then Ok (s, true)
              else Ok (set_binds s keep, false)
          end
      end
  end.

(* Remove{Subscriptions,Bindings}ForEntity *)
Definition entity_match (p : N) (e : list N) (x : entry) : bool := N.eqb (e_ski x) p && eqb_ln (e_cent x) e.

Definition drop_entity_entries (s : st) (p : N) (e : list N) : st :=
  {| peers := peers s;
     subs := filter (fun x => negb (entity_match p e x)) (subs s);
     binds := filter (fun x => negb (entity_match p e x)) (binds s);
     lstore := lstore s |}.

(* ------------------------------------------------------------------ detailed discovery *)
Definition is_empty_dev (d : option N) : bool :=
  match d with None => true | Some v => N.eqb v DEV_EMPTY end.

Definition disc_dev (d : disc) : option N :=
  match d_devinfo d with Some (Some a) => a | _ => None end.

(* unmarshalFeature + NewFeatureRemote + SetOperations for one feature entry of the entity *)
Definition make_feature (fx : bool) (dev : option N) (fd : featdesc) : res (option rfeat) :=
  match fd_addr fd with
  | None => Ok None      (* unreachable: the caller has looked at FeatureAddress.Entity *)
  | Some a =>
      match fa_feat a, fd_type fd, fd_role fd with
      | Some id, Some t, Some r =>
          _ <- (if N.eqb t 0 then guard fx S_FACTORY (Ok tt) else Ok tt) ;;
          _ <- (if existsb (fun fo => negb (fst fo) && snd fo) (fd_fns fd) then guard fx S_SETOPS (Ok tt) else Ok tt) ;;
          Ok (Some {| rf_id := id; rf_dev := dev; rf_type := t; rf_role := r |})
      | _, _, _ => guard fx S_UNMARSHAL (Ok None)
      end
  end.

Fixpoint make_features (fx : bool) (dev : option N) (e : list N) (l : list (option featdesc)) : res (list rfeat) :=
  match l with
  | [] => Ok []
  | None :: r => guard fx S_ADDENT (make_features fx dev e r)
  | Some fd :: r =>
      match fd_addr fd with
      | None => guard fx S_ADDENT (make_features fx dev e r)
      | Some a =>
          if ent_is (fa_ent a) e then
            f <- make_feature fx dev fd ;;
            fs <- make_features fx dev e r ;;
            Ok (match f with Some f => f :: fs | None => fs end)
          else make_features fx dev e r
      end
  end.

Definition nm_feature (dev : option N) : rfeat :=
  {| rf_id := 0; rf_dev := dev; rf_type := T_NODEMGMT; rf_role := RSpecial |}.

(* DeviceRemote.CheckEntityInformation: Some e = the entity address, None = error *)
Definition check_entity (fx initial : bool) (pe : peer) (ed : option entdesc) : option (entdesc * eaddrT * list N) :=
  match ed with
  | None => None
  | Some ed =>
      match ed_addr ed with
      | None => None
      | Some ea =>
          match ea_ent ea with
          | None => None
          | Some e =>
              if fx && match e with [] => true | _ => false end then None else
              if initial then Some (ed, ea, e) else
              if fx && match ed_state ed with Some ERemoved => eqb_ln e [0%N] | _ => false end then None else
              match ea_dev ea, p_addr pe with
              | Some d, Some a => if N.eqb d a then Some (ed, ea, e) else None
              | _, _ => Some (ed, ea, e)
              end
          end
      end
  end.

(* DeviceRemote.AddEntityAndFeatures: new peer, error *)
Fixpoint add_entities (fx initial : bool) (pe : peer) (d : disc) (l : list (option entdesc)) : res (peer * bool) :=
  match l with
  | [] => Ok (pe, false)
  | ei :: r =>
      match check_entity fx initial pe ei with
      | None => Ok (pe, true)
      | Some (ed, ea, e) =>
          found <- match find (fun x => eqb_ln (re_addr x) e) (p_ents pe) with
                   | Some en => Ok (Some (en, false))
                   | None =>
                       match ed_type ed with
                       | None => guard fx S_ADDENT (Ok None)
                       | Some _ =>
                           match e with
                           | [] => Panic S_NEWENTITY       (* only the unrepaired check lets an empty address through *)
                           | _ => Ok (Some ({| re_addr := e; re_dev := p_addr pe; re_feats := [] |}, true))
                           end
                       end
                   end ;;
          match found with
          | None => Ok (pe, true)
          | Some (en, created) =>
              let dev := if is_empty_dev (re_dev en)
                         then match disc_dev d with Some a => Some a | None => re_dev en end
                         else re_dev en in
              fs <- make_features fx dev e (d_feats d) ;;
              let fs1 := if fx && eqb_ln e [0%N] && negb (existsb (fun f => N.eqb (rf_id f) 0) fs)
                         then fs ++ [nm_feature dev] else fs in
              let en1 := {| re_addr := e; re_dev := dev; re_feats := fs1 |} in
              let ents := if created then p_ents pe ++ [en1]
                          else map (fun x => if eqb_ln (re_addr x) e then en1 else x) (p_ents pe) in
              add_entities fx initial {| p_ski := p_ski pe; p_addr := p_addr pe; p_ents := ents |} d r
          end
      end
  end.

(* NodeManagement.removeRemoteEntity *)
Definition remove_entity (s : st) (p : N) (e : list N) : st :=
  match find_peer s p with
  | None => s
  | Some pe =>
      if existsb (fun x => eqb_ln (re_addr x) e) (p_ents pe) then
        let pe1 := {| p_ski := p_ski pe; p_addr := p_addr pe;
                      p_ents := filter (fun x => negb (eqb_ln (re_addr x) e)) (p_ents pe) |} in
        drop_entity_entries (set_peer s pe1) p e
      else s
  end.

(* processReplyDetailedDiscoveryData: error flag *)
Definition listed (d : disc) : list (list N) :=
  flat_map (fun ei => match ei with
                      | Some ed => match ed_addr ed with
                                   | Some ea => match ea_ent ea with Some e => [e] | None => [] end
                                   | None => []
                                   end
                      | None => []
                      end) (d_ents d).

Definition reply_discovery (fx : bool) (s : st) (pe : peer) (d : disc) : res (st * bool) :=
  match d_devinfo d with
  | None => guard fx S_REPLYDISC (Ok (s, true))
  | Some None => Ok (s, true)
  | Some (Some da) =>
      let pe0 := {| p_ski := p_ski pe; p_addr := match da with Some a => Some a | None => p_addr pe end;
                    p_ents := p_ents pe |} in
      '(pe1, err) <- add_entities fx true pe0 d (d_ents d) ;;
      let s1 := set_peer s pe1 in
      if err then Ok (s1, true) else
      let gone := filter (fun e => negb (existsb (eqb_ln e) (listed d)) && negb (fx && eqb_ln e [0%N]))
                         (map re_addr (p_ents pe1)) in
      Ok (fold_left (fun acc e => remove_entity acc (p_ski pe) e) gone s1, false)
  end.

(* provideDetailedDiscoveryDiffForFullNotify *)
Definition full_notify_diff (fx : bool) (pe : peer) (d : disc) : disc :=
  let known e := existsb (fun x => ent_is e (re_addr x)) (p_ents pe) in
  let added := flat_map (fun ei => match ei with
                                   | Some ed => match ed_addr ed with
                                                | Some ea => if known (ea_ent ea) then []
                                                             else [Some {| ed_addr := ed_addr ed; ed_type := ed_type ed; ed_state := Some EAdded |}]
                                                | None => []
                                                end
                                   | None => []
                                   end) (d_ents d) in
  let existing := flat_map (fun ei => match ei with
                                      | Some ed => match ed_addr ed with
                                                   | Some ea => if known (ea_ent ea) then [ent_list (ea_ent ea)] else []
                                                   | None => []
                                                   end
                                      | None => []
                                      end) (d_ents d) in
  let added_addrs := flat_map (fun ei => match ei with
                                         | Some ed => match ed_addr ed with Some ea => [ea_ent ea] | None => [] end
                                         | None => []
                                         end) added in
  let removed := flat_map (fun en => if existsb (eqb_ln (re_addr en)) existing || (fx && eqb_ln (re_addr en) [0%N]) then []
                                     else [Some {| ed_addr := Some {| ea_dev := re_dev en; ea_ent := Some (re_addr en) |};
                                                   ed_type := Some 1%N; ed_state := Some ERemoved |}]) (p_ents pe) in
  {| d_devinfo := d_devinfo d;
     d_ents := added ++ removed;
     d_feats := filter (fun fi => match fi with
                                  | Some fd => match fd_addr fd with
                                               | Some a => existsb (fun e => match e, fa_ent a with
                                                                             | Some x, Some y => eqb_ln x y
                                                                             | None, None => true
                                                                             | _, _ => false
                                                                             end) added_addrs
                                               | None => false
                                               end
                                  | None => false
                                  end) (d_feats d) |}.

(* processNotifyDetailedDiscoveryData: the loop over the entries *)
Fixpoint notify_entries (fx : bool) (s : st) (p : N) (d : disc) (l : list (option entdesc)) : res (st * bool) :=
  match l with
  | [] => Ok (s, false)
  | ei :: r =>
      match ei with
      | None => Ok (s, true)
      | Some ed =>
          match ed_addr ed, ed_state ed with
          | Some _, Some EAdded =>
              match find_peer s p with
              | None => Ok (s, true)
              | Some pe =>
                  '(pe1, err) <- add_entities fx false pe d [ei] ;;
                  let s1 := set_peer s pe1 in
                  if err then Ok (s1, true) else notify_entries fx s1 p d r
              end
          | Some _, Some ERemoved =>
              match find_peer s p with
              | None => Ok (s, true)
              | Some pe =>
                  match check_entity fx false pe ei with
                  | None => Ok (s, true)
                  | Some (_, _, e) => notify_entries fx (remove_entity s p e) p d r
                  end
              end
          | Some _, Some EOther => notify_entries fx s p d r
          | _, _ => Ok (s, true)
          end
      end
  end.

Definition notify_discovery (fx : bool) (s : st) (pe : peer) (partial : bool) (d : disc) : res (st * bool) :=
  let d1 := if partial then d else full_notify_diff fx pe d in
  match d_ents d1 with
  | [] => Ok (s, true)
  | _ => notify_entries fx s (p_ski pe) d1 (d_ents d1)
  end.

(* ------------------------------------------------------------------ handlers *)
(* every handler returns: new state, outputs, error (None = nil) *)
Definition hres := (st * list out * option N)%type.

Definition ret (s : st) (o : list out) (e : option N) : res hres := Ok (s, o, e).

(* FeatureLocal.processResult *)
Definition process_result (s : st) (c : cmd) : res hres :=
  match c_result c with
  | Some (Some _) => ret s [] None
  | _ => ret s [] (Some E_GENERAL)
  end.

Definition reg_outcome (s : st) (r : res (st * bool)) : res hres :=
  '(s1, err) <- r ;; ret s1 [] (if err then Some E_GENERAL else None).

(* NodeManagement.HandleMessage *)
Definition nm_handle (fx : bool) (s : st) (pe : peer) (rf : rfeat) (h : header) (k : cls) (c : cmd) (fp : option filt)
  : res hres :=
  let p := p_ski pe in
  match c_result c with
  | Some _ => process_result s c
  | None =>
  match c_disc c with
  | Some d =>
      match k with
      | CRead => o <- send_reply fx p F_DISC h ;; ret s o None
      | CReply => reg_outcome s (reply_discovery fx s pe d)
      | CNotify => reg_outcome s (notify_discovery fx s pe (match fp with Some _ => true | None => false end) d)
      | _ => ret s [] (Some E_GENERAL)
      end
  | None =>
  match c_subreq c with
  | Some r =>
      match k with
      | CCall => match r with
                 | Some r => reg_outcome s (add_subscription fx s pe r)
                 | None => guard fx S_SUBREQ (ret s [] (Some E_GENERAL))
                 end
      | _ => ret s [] (Some E_GENERAL)
      end
  | None =>
  match c_subdel c with
  | Some r =>
      match k with
      | CCall => match r with
                 | Some r => reg_outcome s (remove_subscription fx s pe r)
                 | None => guard fx S_SUBDEL (ret s [] (Some E_GENERAL))
                 end
      | _ => ret s [] (Some E_GENERAL)
      end
  | None =>
  if c_subdata c then
      match k with
      | CCall => o <- send_reply fx p F_SUBDATA h ;; ret s o None
      | _ => ret s [] (Some E_GENERAL)
      end
  else
  match c_bindreq c with
  | Some r =>
      match k with
      | CCall => match r with
                 | Some r => reg_outcome s (add_binding fx s pe r)
                 | None => guard fx S_BINDREQ (ret s [] (Some E_GENERAL))
                 end
      | _ => ret s [] (Some E_GENERAL)
      end
  | None =>
  match c_binddel c with
  | Some r =>
      match k with
      | CCall => match r with
                 | Some r => reg_outcome s (remove_binding fx s pe r)
                 | None => guard fx S_BINDDEL (ret s [] (Some E_GENERAL))
                 end
      | _ => ret s [] (Some E_GENERAL)
      end
  | None =>
  if c_binddata c then
      match k with
      | CCall => o <- send_reply fx p F_BINDDATA h ;; ret s o None
      | _ => ret s [] (Some E_GENERAL)
      end
  else if c_usecase c then
      match k with
      | CRead => o <- send_reply fx p F_USECASE h ;; ret s o None
      | CReply | CNotify => ret s [] None
      | _ => ret s [] (Some E_GENERAL)
      end
  else if c_destlist c then
      match k with
      | CRead => o <- send_reply fx p F_DESTLIST h ;; ret s o None
      | _ => ret s [] (Some E_GENERAL)
      end
  else ret s [] (Some E_NOTSUPPORTED)
  end end end end end end.

(* FeatureLocal.executeWrite + processWrite on a feature of the world *)
Definition process_write (fx : bool) (s : st) (p : N) (lf : lfeat) (h : header) (c : cmd) (fn : N) (fp fd : option filt)
  : res hres :=
  let fail := o <- send_result fx p E_GENERAL h ;; ret s o None in
  let succeed s1 :=
    let n := notify_subscribers s1 lf fn in
    match h_ack h with
    | Some true => o <- send_result fx p 0 h ;; ret s1 (n ++ o) None
    | _ => ret s1 n None
    end in
  if negb (registered (lf_type lf) fn) then fail else
  match fp, fd with
  | None, None =>
      succeed (if N.eqb fn F_CONS then set_store s (c_ids c) else s)
  | _, _ =>
      if negb (updater fn) then fail else
      if N.eqb fn F_CONS then
        '(store1, ok) <- update_list_local fx fp fd (c_ids c) (lstore s) ;;
        if ok then succeed (set_store s store1) else fail
      else
        (* no other writable list function exists in the world; kept for completeness *)
        match fp with
        | Some f => if filter_has_data f && N.eqb (c_nitems c) 0 then guard fx S_UPDATELIST fail else succeed s
        | None => succeed s
        end
  end.

(* FeatureLocal.HandleMessage *)
Definition feature_handle (fx : bool) (s : st) (pe : peer) (rf : rfeat) (lf : lfeat) (h : header) (k : cls) (c : cmd)
  (fp fd : option filt) : res hres :=
  let p := p_ski pe in
  match c_data c with
  | None => ret s [] (Some E_NOTSUPPORTED)
  | Some fn =>
      match k with
      | CResult => process_result s c
      | CRead =>
          if eqb_role (lf_role lf) RClient then ret s [] (Some E_REJECTED) else
          if negb (registered (lf_type lf) fn) then ret s [] (Some E_GENERAL) else
          o <- send_reply fx p fn h ;; ret s o None
      | CReply | CNotify =>
          e <- update_remote fx (rf_type rf) fn fp fd (c_nitems c) ;; ret s [] e
      | CWrite => process_write fx s p lf h c fn fp fd
      | _ => ret s [] (Some E_GENERAL)
      end
  end.

(* PrintMessageOverview(send = false), evaluated eagerly as a log argument *)
Definition print_overview (fx : bool) (h : header) (k : cls) (c : cmd) : res unit :=
  match k with
  | CReply => match h_ref h with Some _ => Ok tt | None => guard fx S_PRINT (Ok tt) end
  | CResult => match h_ref h, c_result c with
               | Some _, Some (Some _) => Ok tt
               | _, _ => guard fx S_PRINT (Ok tt)
               end
  | _ => Ok tt
  end.

(* DeviceLocal.ProcessCmd *)
Definition process_cmd (fx : bool) (s : st) (pe : peer) (d : dgram) : res (st * list out) :=
  let h := dg_hd d in
  let p := p_ski pe in
  match (if fx then match h_src h, h_dst h with Some _, Some _ => true | _, _ => false end else true) with
  | false => Ok (s, [])                                        (* repaired: a datagram without addresses is ignored *)
  | true =>
  lfo <- local_feature_opt fx (h_dst h) ;;
  match dg_cmd d with
  | None => Ok (s, [])
  | Some c =>
      '(fp, fd) <- extract_filters fx (c_filters c) None None ;;
      match h_src h with
      | None => Panic S_PROCESSCMD                             (* unreachable when fx *)
      | Some src =>
          match remote_feature pe src with
          | None => Ok (s, [])                                 (* "invalid remote feature address" *)
          | Some (en, rf) =>
              match h_cls h with
              | None => o <- send_result fx p E_DESTUNKNOWN h ;; Ok (s, o)
              | Some k =>
                  match lfo with
                  | None =>
                      (* no error response to an incoming result *)
                      if is_cls k CResult then Ok (s, [])
                      else o <- send_result fx p E_DESTUNKNOWN h ;; Ok (s, o)
                  | Some lf =>
                      _ <- print_overview fx h k c ;;
                      gate <- (if is_cls k CWrite then
                                 match c_data c with
                                 | None => o <- send_result fx p E_GENERAL h ;; Ok (Some o)
                                 | Some fn =>
                                     match assoc_N fn (lf_ops lf) with
                                     | Some (_, true) =>
                                         if has_binding s lf en rf then Ok None
                                         else o <- send_result fx p E_GENERAL h ;; Ok (Some o)
                                     | _ => o <- send_result fx p E_GENERAL h ;; Ok (Some o)
                                     end
                                 end
                               else Ok None) ;;
                      match gate with
                      | Some o => Ok (s, o)
                      | None =>
                          '(s1, o, err) <- (if N.eqb (lf_type lf) T_NODEMGMT
                                            then nm_handle fx s pe rf h k c fp
                                            else feature_handle fx s pe rf lf h k c fp fd) ;;
                          match err with
                          | Some e =>
                              if is_cls k CResult then Ok (s1, o)
                              else o2 <- send_result fx p e h ;; Ok (s1, o ++ o2)
                          | None =>
                              match h_ack h with
                              | Some true =>
                                  if is_cls k CCall || is_cls k CReply || is_cls k CNotify
                                  then o2 <- send_result fx p 0 h ;; Ok (s1, o ++ o2)
                                  else Ok (s1, o)
                              | _ => Ok (s1, o)
                              end
                          end
                      end
                  end
              end
          end
      end
  end
  end.

(* the probe: a valid detailed-discovery read from connection p *)
Definition nm_addr (d : N) : faddr := {| fa_dev := Some d; fa_ent := Some [0%N]; fa_feat := Some 0%N |}.

Definition empty_cmd : cmd :=
  {| c_filters := []; c_data := None; c_nitems := 0; c_ids := []; c_result := None; c_disc := None;
     c_subreq := None; c_subdel := None; c_subdata := false; c_bindreq := None; c_binddel := None;
     c_binddata := false; c_usecase := false; c_destlist := false |}.

Definition probe_dgram (p c : N) : dgram :=
  {| dg_hd := {| h_src := Some (nm_addr p); h_dst := Some (nm_addr LOCAL_DEV); h_ctr := Some c; h_ref := None;
                 h_ack := None; h_cls := Some CRead |};
     dg_cmd := Some {| c_filters := []; c_data := Some F_DISC; c_nitems := 0; c_ids := []; c_result := None;
                       c_disc := Some {| d_devinfo := None; d_ents := []; d_feats := [] |};
                       c_subreq := None; c_subdel := None; c_subdata := false; c_bindreq := None; c_binddel := None;
                       c_binddata := false; c_usecase := false; c_destlist := false |} |}.

(* RemoveRemoteDeviceConnection *)
Definition disconnect (s : st) (p : N) : st :=
  match find_peer s p with
  | None => s
  | Some pe =>
      let s1 := fold_left (fun acc en => drop_entity_entries acc p (re_addr en)) (p_ents pe) s in
      {| peers := filter (fun x => negb (N.eqb (p_ski x) p)) (peers s1);
         subs := subs s1; binds := binds s1; lstore := lstore s1 |}
  end.

Definition new_peer (p : N) : peer :=
  {| p_ski := p; p_addr := None;
     p_ents := [ {| re_addr := [0%N]; re_dev := None; re_feats := [nm_feature None] |} ] |}.

(* one operation; a panic leaves the state as it was (the process would be gone) *)
Definition step_res (fx : bool) (s : st) (o : op) : res (st * list out) :=
  match o with
  | Connect p =>
      match find_peer s p with
      | Some _ => Ok (s, [])
      | None => Ok ({| peers := peers s ++ [new_peer p]; subs := subs s; binds := binds s; lstore := lstore s |}, [])
      end
  | Disconnect p => Ok (disconnect s p, [])
  | Inbound p None => Ok (s, [])
  | Inbound p (Some d) =>
      match find_peer s p with
      | None => Ok (s, [])
      | Some pe => process_cmd fx s pe d
      end
  | Probe p c =>
      match find_peer s p with
      | None => Ok (s, [])
      | Some pe => process_cmd fx s pe (probe_dgram p c)
      end
  | Opaque _ => Ok (s, [])
  end.

Definition step_fx (fx : bool) (s : st) (o : op) : st * list obs :=
  match step_res fx s o with
  | Ok (s1, l) => (s1, map Out l)
  | Panic site => (s, [OPanic site])
  end.

(* the model of the repaired tree: what the correspondence harness runs *)
Definition step : st -> op -> st * list obs := step_fx true.

Fixpoint run_fx (fx : bool) (s : st) (ops : list op) : st * list (op * list obs) :=
  match ops with
  | [] => (s, [])
  | o :: r =>
      let '(s1, out) := step_fx fx s o in
      let '(s2, tr) := run_fx fx s1 r in
      (s2, (o, out) :: tr)
  end.

Definition run := run_fx true.
