(* C06 — executable model of the remote device tree as driven by detailed
   discovery (spine/nodemanagement_detaileddiscovery.go, spine/device_remote.go,
   spine/entity_remote.go, spine/feature_remote.go).  No proofs here.

   The model transcribes the code WITH the three C06 repairs applied
   (patches/fix-C06-*.diff):
     - processNotifyDetailedDiscoveryData handles every entity entry by its own
       state (the pinned loops are kept below as [process_entries_pinned] for the
       refutation witness),
     - the client-side caches are cleaned with the remote device's address,
     - a detailed discovery reply removes the entities it does not list.

   Abstraction.  Identifiers (entity types, feature types, roles, functions,
   descriptions) are numbers; an entity address is a non-empty [list N].  The
   operations map of a remote feature (a Go map) is a list sorted by function
   with one entry per function.  The three registries that refer to remote
   entities — SubscriptionManager entries, BindingManager entries, and the
   subscription / binding caches of local client features — are one set of
   (peer, kind, entity address, feature id), kept in a canonical order.
   Three peers (SKIs) 0, 1, 2, each with its own device address. *)
From Verif Require Import Base.Prelude.
Open Scope N_scope.

(* ---------------------------------------------------------------- data *)

Definition addr := list N.

Fixpoint addr_eqb (a b : addr) : bool :=
  match a, b with
  | [], [] => true
  | x :: a', y :: b' => N.eqb x y && addr_eqb a' b'
  | _, _ => false
  end.

Definition mem_addr (a : addr) (l : list addr) : bool := existsb (fun x => addr_eqb x a) l.

(* FeatureRemote: address.feature, ftype, role, description, operations *)
Record feat := { f_id : N; f_type : N; f_role : N; f_descr : option N; f_ops : list (N * N) }.
(* EntityRemote: address.entity, eType, description, features *)
Record ent := { e_addr : addr; e_type : N; e_descr : option N; e_feats : list feat }.
Definition tree := list ent.

(* NodeManagementDetailedDiscoveryDataType, restricted to what the code reads.
   possibleOperations of a supported function: None = absent, Some k with
   k = 3*read + write, read/write in {0 absent, 1 present, 2 present+partial}. *)
Record mfeat := { mf_ent : addr; mf_id : N; mf_type : N; mf_role : N; mf_descr : option N;
                  mf_ops : list (N * option N) }.
Record ment := { me_addr : addr; me_type : N; me_descr : option N; me_state : option N }.
Record dmsg := { d_devinfo : bool; d_ents : list ment; d_feats : list mfeat }.

Definition ST_ADDED : N := 1.       (* lastStateChange "added" *)
Definition ST_REMOVED : N := 2.     (* "removed"; any other number: "modified" *)
Definition ROLE_CLIENT : N := 0.
Definition ROLE_SERVER : N := 1.
Definition ROLE_SPECIAL : N := 2.
Definition ET_DEVICEINFORMATION : N := 0.
Definition FT_NODEMANAGEMENT : N := 0.

(* registry kinds *)
Definition K_SUB : N := 0.          (* SubscriptionManager entry, client feature = (peer, addr, fid) *)
Definition K_BIND : N := 1.         (* BindingManager entry *)
Definition K_CSUB : N := 2.         (* local client feature's subscription cache *)
Definition K_CBIND : N := 3.        (* local client feature's binding cache *)
Definition K_NMSUB : N := 4.        (* local NodeManagement's subscription cache (DeviceLocal.HandleEvent) *)

Record rentry := { r_peer : N; r_kind : N; r_addr : addr; r_fid : N }.

Fixpoint addr_cmp (a b : addr) : comparison :=
  match a, b with
  | [], [] => Eq
  | [], _ => Lt
  | _, [] => Gt
  | x :: a', y :: b' => match N.compare x y with Eq => addr_cmp a' b' | c => c end
  end.

Definition rentry_cmp (x y : rentry) : comparison :=
  match N.compare (r_kind x) (r_kind y) with
  | Eq => match N.compare (r_peer x) (r_peer y) with
          | Eq => match addr_cmp (r_addr x) (r_addr y) with
                  | Eq => N.compare (r_fid x) (r_fid y)
                  | c => c
                  end
          | c => c
          end
  | c => c
  end.

Definition rentry_eqb (x y : rentry) : bool :=
  N.eqb (r_kind x) (r_kind y) && N.eqb (r_peer x) (r_peer y) &&
  addr_eqb (r_addr x) (r_addr y) && N.eqb (r_fid x) (r_fid y).

Definition reg_mem (e : rentry) (l : list rentry) : bool := existsb (rentry_eqb e) l.

(* the registry is a set kept in canonical order *)
Fixpoint reg_insert (e : rentry) (l : list rentry) : list rentry :=
  match l with
  | [] => [e]
  | x :: r => if rentry_eqb e x then l
              else match rentry_cmp e x with
                   | Gt => x :: reg_insert e r
                   | _ => e :: l
                   end
  end.

Record peer := { p_known : bool;      (* DeviceRemote.address set (UpdateDevice) *)
                 p_tree : tree }.     (* DeviceRemote.entities *)

Record st := { s0 : peer; s1 : peer; s2 : peer; s_reg : list rentry }.

Definition get_peer (s : st) (p : N) : option peer :=
  match p with
  | 0 => Some (s0 s)
  | 1 => Some (s1 s)
  | 2 => Some (s2 s)
  | _ => None
  end.

Definition set_peer (s : st) (p : N) (x : peer) : st :=
  match p with
  | 0 => {| s0 := x; s1 := s1 s; s2 := s2 s; s_reg := s_reg s |}
  | 1 => {| s0 := s0 s; s1 := x; s2 := s2 s; s_reg := s_reg s |}
  | 2 => {| s0 := s0 s; s1 := s1 s; s2 := x; s_reg := s_reg s |}
  | _ => s
  end.

Definition set_reg (s : st) (r : list rentry) : st :=
  {| s0 := s0 s; s1 := s1 s; s2 := s2 s; s_reg := r |}.

(* NewDeviceRemote / addNodeManagement: entity [0] with the NodeManagement feature 0 *)
Definition init_tree : tree :=
  [{| e_addr := [0]; e_type := ET_DEVICEINFORMATION; e_descr := None;
      e_feats := [{| f_id := 0; f_type := FT_NODEMANAGEMENT; f_role := ROLE_SPECIAL;
                     f_descr := None; f_ops := [] |}] |}].
Definition init_peer : peer := {| p_known := false; p_tree := init_tree |}.
Definition init : st := {| s0 := init_peer; s1 := init_peer; s2 := init_peer; s_reg := [] |}.

(* ---------------------------------------------------------------- operations *)

Inductive kind := KReply | KPartial | KFull.

Inductive op :=
| Msg (p : N) (k : kind) (m : dmsg)            (* datagram from peer p's NodeManagement to ours *)
| RegAdd (p : N) (kd : N) (a : addr) (fid : N)
| MsgDuring (p : N) (k : kind) (m : dmsg) (p' : N) (kd : N) (a : addr) (fid : N).
    (* the datagram of peer p, during whose removal cascade (while the subscription / binding registry
       publishes its removal events) the subscription (kd 0) or binding (kd 1) request call of ANOTHER
       peer p' for its feature (a, fid) is delivered on a second goroutine.  The registries hold their
       lock across the whole removal, so the call waits and takes effect afterwards: the operation is
       the message followed by the call.  A call of the same peer (p' = p) is not delivered. *)
    (* RegAdd kd 0/1: peer p's client feature (a, fid) subscribes / binds to a local server
       feature reserved for it (SubscriptionManager.AddSubscription / BindingManager.AddBinding),
       kd 2/3: the local client feature calls SubscribeToRemote / BindToRemote for
       p's feature (a, fid); each only if the entry is not there yet *)

Inductive obs :=
| OSnap (s : st)                  (* what the API reports after the operation: known flag and tree of every peer, registries *)
| EvDevice (p : N)                (* EventTypeDeviceChange / add *)
| EvEntity (p : N) (added : bool) (a : addr)   (* EventTypeEntityChange add / remove *)
| ORes (ok : bool).               (* result of a registry call *)

(* ---------------------------------------------------------------- device_remote.go *)

(* DeviceRemote.Entity *)
Definition entity (t : tree) (a : addr) : option ent := find (fun e => addr_eqb (e_addr e) a) t.
Definition known (a : addr) (t : tree) : bool := existsb (fun e => addr_eqb (e_addr e) a) t.

(* DeviceRemote.FeatureByAddress / EntityRemote.FeatureOfAddress *)
Definition feature_by_address (t : tree) (a : addr) (fid : N) : option feat :=
  match entity t a with
  | Some e => find (fun f => N.eqb (f_id f) fid) (e_feats e)
  | None => None
  end.

(* FeatureRemote.SetOperations: a map, entries without possibleOperations skipped *)
Fixpoint set_op (fn k : N) (l : list (N * N)) : list (N * N) :=
  match l with
  | [] => [(fn, k)]
  | (f, v) :: r => match N.compare fn f with
                   | Lt => (fn, k) :: l
                   | Eq => (fn, k) :: r
                   | Gt => (f, v) :: set_op fn k r
                   end
  end.

Definition set_operations (sf : list (N * option N)) : list (N * N) :=
  fold_left (fun acc x => match snd x with
                          | None => acc
                          | Some k => set_op (fst x) k acc
                          end) sf [].

(* unmarshalFeature *)
Definition unmarshal_feature (fi : mfeat) : feat :=
  {| f_id := mf_id fi; f_type := mf_type fi; f_role := mf_role fi; f_descr := mf_descr fi;
     f_ops := set_operations (mf_ops fi) |}.

(* SWITCH.  false: the tree with patches/fix-C06-*.diff only.  true: additionally
   patches/fix-C05-15-keep-remote-nodemanagement.diff and fix-C05-16-reply-keeps-device-information-entity.diff
   (the device information entity [0] and its NodeManagement feature 0 cannot be lost).  Every theorem is
   proved for both values (the proofs never look at the value); set it to what the tree under check contains. *)
Definition protect0 : bool := true.

Definition is_devinfo (a : addr) : bool := protect0 && addr_eqb a [0].
Arguments is_devinfo : simpl never.

Definition nm_feature : feat :=
  {| f_id := 0; f_type := FT_NODEMANAGEMENT; f_role := ROLE_SPECIAL; f_descr := None; f_ops := [] |}.

(* the features AddEntityAndFeatures attaches to the entity with address a; under protect0, entity [0]
   gets a NodeManagement feature 0 appended when the message lists no feature with id 0 for it *)
Definition features_for (a : addr) (fis : list mfeat) : list feat :=
  let fs := map unmarshal_feature (filter (fun fi => addr_eqb (mf_ent fi) a) fis) in
  if is_devinfo a && negb (existsb (fun f => N.eqb (f_id f) 0) fs) then fs ++ [nm_feature] else fs.

(* SetDescription; RemoveAllFeatures; AddFeature... on the entity Entity(a) returns (the first with that address);
   the entity type of an existing entity is not touched *)
Fixpoint update_entity (a : addr) (d : option N) (fs : list feat) (t : tree) : tree :=
  match t with
  | [] => []
  | e :: r => if addr_eqb (e_addr e) a
              then {| e_addr := e_addr e; e_type := e_type e; e_descr := d; e_feats := fs |} :: r
              else e :: update_entity a d fs r
  end.

(* DeviceRemote.AddEntityAndFeatures: returns the new tree and the addresses of the entities it created *)
Fixpoint add_entity_and_features (t : tree) (eis : list ment) (fis : list mfeat) : tree * list addr :=
  match eis with
  | [] => (t, [])
  | ei :: rest =>
      let a := me_addr ei in
      let fs := features_for a fis in
      if known a t then
        add_entity_and_features (update_entity a (me_descr ei) fs t) rest fis
      else
        let '(t2, news) :=
          add_entity_and_features
            (t ++ [{| e_addr := a; e_type := me_type ei; e_descr := me_descr ei; e_feats := fs |}]) rest fis in
        (t2, a :: news)
  end.

(* DeviceRemote.RemoveEntityByAddress: None if Entity(a) is nil.  (The code drops
   every entity deeply equal to Entity(a); reachable trees have one entity per
   address — theorem C06_addresses_unique — so this is the entity with address a.) *)
Definition remove_entity_by_address (a : addr) (t : tree) : option tree :=
  if known a t then Some (filter (fun e => negb (addr_eqb (e_addr e) a)) t) else None.

(* ---------------------------------------------------------------- the cascade *)

Definition of_entity (p : N) (k : N) (a : addr) (x : rentry) : bool :=
  N.eqb (r_kind x) k && N.eqb (r_peer x) p && addr_eqb (r_addr x) a.

Definition drop (p : N) (k : N) (a : addr) (r : list rentry) : list rentry :=
  filter (fun x => negb (of_entity p k a x)) r.

(* removeRemoteEntity after RemoveEntityByAddress succeeded:
   RemoveSubscriptionsForEntity (same SKI, same entity address), RemoveBindingsForEntity,
   CleanRemoteEntityCaches(remote device address, entity address) — the latter returns
   at once while the device address is unknown *)
Definition cascade (p : N) (dev_known : bool) (a : addr) (r : list rentry) : list rentry :=
  let r1 := drop p K_SUB a r in
  let r2 := drop p K_BIND a r1 in
  if dev_known then drop p K_NMSUB a (drop p K_CBIND a (drop p K_CSUB a r2)) else r2.

(* ---------------------------------------------------------------- nodemanagement_detaileddiscovery.go *)

(* processNotifyDetailedDiscoveryData (repaired), the loop over data.EntityInformation;
   fis = data.FeatureInformation.  Result: tree, registries, events. *)
Fixpoint process_entries (p : N) (dk : bool) (t : tree) (r : list rentry)
                         (eis : list ment) (fis : list mfeat) : tree * list rentry * list obs :=
  match eis with
  | [] => (t, r, [])
  | ei :: rest =>
      match me_state ei with
      | None => (t, r, [])                          (* invalid EntityInformation.Description: error return *)
      | Some s =>
          if N.eqb s ST_ADDED then
            let '(t1, news) := add_entity_and_features t [ei] fis in
            let '(t2, r2, evs) := process_entries p dk t1 r rest fis in
            (t2, r2, map (EvEntity p true) news ++ evs)
          else if N.eqb s ST_REMOVED then
            if is_devinfo (me_addr ei) then (t, r, [])   (* CheckEntityInformation: the device information entity cannot be removed: error return *)
            else
            match remove_entity_by_address (me_addr ei) t with
            | None => process_entries p dk t r rest fis
            | Some t1 =>
                let '(t2, r2, evs) := process_entries p dk t1 (cascade p dk (me_addr ei) r) rest fis in
                (t2, r2, EvEntity p false (me_addr ei) :: evs)
            end
          else process_entries p dk t r rest fis
      end
  end.

(* provideDetailedDiscoveryDiffForFullNotify *)
Definition provide_diff (t : tree) (m : dmsg) : dmsg :=
  let unknown := filter (fun ei => negb (known (me_addr ei) t)) (d_ents m) in
  let existing := map me_addr (filter (fun ei => known (me_addr ei) t) (d_ents m)) in
  let added := map (fun ei => {| me_addr := me_addr ei; me_type := me_type ei; me_descr := me_descr ei;
                                 me_state := Some ST_ADDED |}) unknown in
  let removed := map (fun e => {| me_addr := e_addr e; me_type := e_type e; me_descr := None;
                                  me_state := Some ST_REMOVED |})
                     (filter (fun e => negb (mem_addr (e_addr e) existing) && negb (is_devinfo (e_addr e))) t) in
  {| d_devinfo := d_devinfo m;
     d_ents := added ++ removed;
     d_feats := filter (fun fi => mem_addr (mf_ent fi) (map me_addr unknown)) (d_feats m) |}.

(* the removal loop the repaired processReplyDetailedDiscoveryData runs over the addresses of
   remoteDevice.Entities() (the slice as it is when the loop starts) *)
Fixpoint remove_unlisted (p : N) (dk : bool) (listed : list addr) (es : list addr)
                         (t : tree) (r : list rentry) : tree * list rentry * list obs :=
  match es with
  | [] => (t, r, [])
  | a :: rest =>
      if mem_addr a listed || is_devinfo a then remove_unlisted p dk listed rest t r
      else match remove_entity_by_address a t with
           | None => remove_unlisted p dk listed rest t r
           | Some t1 =>
               let '(t2, r2, evs) := remove_unlisted p dk listed rest t1 (cascade p dk a r) in
               (t2, r2, EvEntity p false a :: evs)
           end
  end.

(* DeviceLocal.ProcessCmd: the datagram is handled only if its source, feature 0 of
   entity [0], resolves in the remote device *)
Definition source_resolves (t : tree) : bool :=
  match feature_by_address t [0] 0 with Some _ => true | None => false end.

Definition nm_entry (p : N) : rentry := {| r_peer := p; r_kind := K_NMSUB; r_addr := [0]; r_fid := 0 |}.

Definition handle_msg (s : st) (p : N) (k : kind) (m : dmsg) : st * list obs :=
  match get_peer s p with
  | None => (s, [])
  | Some pr =>
      let t := p_tree pr in
      if negb (source_resolves t) then (s, [])
      else match k with
           | KReply =>
               (* UpdateDevice; AddEntityAndFeatures(true); device event (on which DeviceLocal.HandleEvent
                  subscribes our NodeManagement to the peer's); entity events; removal of unlisted entities *)
               let '(t1, news) := add_entity_and_features t (d_ents m) (d_feats m) in
               let r1 := reg_insert (nm_entry p) (s_reg s) in
               let '(t2, r2, evs) := remove_unlisted p true (map me_addr (d_ents m)) (map e_addr t1) t1 r1 in
               (set_reg (set_peer s p {| p_known := true; p_tree := t2 |}) r2,
                EvDevice p :: map (EvEntity p true) news ++ evs)
           | KPartial =>
               let '(t2, r2, evs) := process_entries p (p_known pr) t (s_reg s) (d_ents m) (d_feats m) in
               (set_reg (set_peer s p {| p_known := p_known pr; p_tree := t2 |}) r2, evs)
           | KFull =>
               let m' := provide_diff t m in
               let '(t2, r2, evs) := process_entries p (p_known pr) t (s_reg s) (d_ents m') (d_feats m') in
               (set_reg (set_peer s p {| p_known := p_known pr; p_tree := t2 |}) r2, evs)
           end
  end.

(* registry calls (environment of the property: they create what the cascade must remove) *)
Definition reg_add (s : st) (p kd : N) (a : addr) (fid : N) : st * bool :=
  let e := {| r_peer := p; r_kind := kd; r_addr := a; r_fid := fid |} in
  match get_peer s p with
  | None => (s, false)
  | Some pr =>
      let allowed :=
        if N.eqb kd K_SUB || N.eqb kd K_BIND then
          (* AddSubscription / AddBinding: the client feature must exist and not be a server *)
          match feature_by_address (p_tree pr) a fid with
          | Some f => negb (N.eqb (f_role f) ROLE_SERVER)
          | None => false
          end
        else if N.eqb kd K_CSUB || N.eqb kd K_CBIND then
          (* SubscribeToRemote / BindToRemote: RemoteDeviceForAddress must find the device *)
          p_known pr
        else false in
      if allowed && negb (reg_mem e (s_reg s)) then (set_reg s (reg_insert e (s_reg s)), true)
      else (s, false)
  end.

(* the request call of peer p' that arrived while peer p's message was processed *)
Definition call_after (s : st) (p p' kd : N) (a : addr) (fid : N) : st * bool :=
  if N.eqb p p' || negb (N.eqb kd K_SUB || N.eqb kd K_BIND) then (s, false) else reg_add s p' kd a fid.

Definition step (s : st) (o : op) : st * list obs :=
  match o with
  | Msg p k m => let '(s1, evs) := handle_msg s p k m in (s1, OSnap s1 :: evs)
  | RegAdd p kd a fid => let '(s1, ok) := reg_add s p kd a fid in (s1, [OSnap s1; ORes ok])
  | MsgDuring p k m p' kd a fid =>
      let '(s1, evs) := handle_msg s p k m in
      let '(s2, ok) := call_after s1 p p' kd a fid in
      (s2, OSnap s2 :: evs ++ [ORes ok])
  end.

Fixpoint run (s : st) (ops : list op) : st * list (op * list obs) :=
  match ops with
  | [] => (s, [])
  | o :: r =>
      let '(s1, out) := step s o in
      let '(s2, tr) := run s1 r in
      (s2, (o, out) :: tr)
  end.

(* ---------------------------------------------------------------- the pinned loops (5099313), for the refutation witness *)

(* removal branch of the pinned code: walks ALL entries of the message *)
Fixpoint remove_all_pinned (p : N) (dk : bool) (t : tree) (r : list rentry) (eis : list ment)
  : tree * list rentry * list obs :=
  match eis with
  | [] => (t, r, [])
  | ei :: rest =>
      match remove_entity_by_address (me_addr ei) t with
      | None => remove_all_pinned p dk t r rest
      | Some t1 =>
          let '(t2, r2, evs) := remove_all_pinned p dk t1 (cascade p dk (me_addr ei) r) rest in
          (t2, r2, EvEntity p false (me_addr ei) :: evs)
      end
  end.

(* outer loop of the pinned code: an "added" entry calls AddEntityAndFeatures on the
   whole message, a "removed" entry removes every entity the message names *)
Fixpoint process_entries_pinned (p : N) (dk : bool) (t : tree) (r : list rentry)
                                (todo : list ment) (all : list ment) (fis : list mfeat)
  : tree * list rentry * list obs :=
  match todo with
  | [] => (t, r, [])
  | ei :: rest =>
      match me_state ei with
      | None => (t, r, [])
      | Some s =>
          if N.eqb s ST_ADDED then
            let '(t1, news) := add_entity_and_features t all fis in
            let '(t2, r2, evs) := process_entries_pinned p dk t1 r rest all fis in
            (t2, r2, map (EvEntity p true) news ++ evs)
          else if N.eqb s ST_REMOVED then
            let '(t1, r1, evs1) := remove_all_pinned p dk t r all in
            let '(t2, r2, evs) := process_entries_pinned p dk t1 r1 rest all fis in
            (t2, r2, evs1 ++ evs)
          else process_entries_pinned p dk t r rest all fis
      end
  end.

(* ---------------------------------------------------------------- wire encoding *)
Open Scope Z_scope.

Definition P (A : Type) := zs -> option (A * zs).

Definition pN : P N := fun l =>
  match l with
  | x :: r => if Z.leb 0 x then Some (Nz x, r) else None
  | [] => None
  end.

Definition pB : P bool := fun l =>
  match l with
  | x :: r => Some (bZ x, r)
  | [] => None
  end.

Fixpoint pmany {A} (p : P A) (n : nat) : P (list A) := fun l =>
  match n with
  | O => Some ([], l)
  | S n' => match p l with
            | Some (x, r) => match pmany p n' r with
                             | Some (xs, r') => Some (x :: xs, r')
                             | None => None
                             end
            | None => None
            end
  end.

Definition pcount {A} (p : P A) : P (list A) := fun l =>
  match pN l with
  | Some (n, r) => pmany p (N.to_nat n) r
  | None => None
  end.

Definition pbind {A B} (p : P A) (f : A -> P B) : P B := fun l =>
  match p l with
  | Some (x, r) => f x r
  | None => None
  end.
Definition pret {A} (x : A) : P A := fun l => Some (x, l).

Notation "x <- p ;; q" := (pbind p (fun x => q)) (at level 61, p at next level, right associativity).

Definition pOpt : P (option N) :=
  f <- pB ;; v <- pN ;; pret (if f then Some v else None).

Definition pAddr : P addr := pcount pN.

Definition pMent : P ment :=
  a <- pAddr ;; ty <- pN ;; d <- pOpt ;; s <- pOpt ;;
  pret {| me_addr := a; me_type := ty; me_descr := d; me_state := s |}.

Definition pMop : P (N * option N) := fn <- pN ;; o <- pOpt ;; pret (fn, o).

Definition pMfeat : P mfeat :=
  a <- pAddr ;; id <- pN ;; ty <- pN ;; ro <- pN ;; d <- pOpt ;; ops <- pcount pMop ;;
  pret {| mf_ent := a; mf_id := id; mf_type := ty; mf_role := ro; mf_descr := d; mf_ops := ops |}.

Definition pMsg : P dmsg :=
  di <- pB ;; es <- pcount pMent ;; fs <- pcount pMfeat ;;
  pret {| d_devinfo := di; d_ents := es; d_feats := fs |}.

Definition done {A} (r : option (A * zs)) : option A :=
  match r with
  | Some (x, []) => Some x
  | _ => None
  end.

Definition parse_op (l : zs) : option op :=
  match l with
  | 1 :: p :: k :: r =>
      match (if Z.eqb k 0 then Some KReply else if Z.eqb k 1 then Some KPartial
             else if Z.eqb k 2 then Some KFull else None), done (pMsg r) with
      | Some kd, Some m => if Z.leb 0 p && Z.ltb p 3 then Some (Msg (Nz p) kd m) else None
      | _, _ => None
      end
  | 2 :: p :: kd :: fid :: r =>
      match done (pAddr r) with
      | Some a => if Z.leb 0 p && Z.ltb p 3 && Z.leb 0 kd && Z.ltb kd 4 && Z.leb 0 fid
                  then Some (RegAdd (Nz p) (Nz kd) a (Nz fid)) else None
      | None => None
      end
  | 3 :: p :: k :: p' :: kd :: fid :: r =>
      match (if Z.eqb k 0 then Some KReply else if Z.eqb k 1 then Some KPartial
             else if Z.eqb k 2 then Some KFull else None),
            done ((a <- pAddr ;; m <- pMsg ;; pret (a, m)) r) with
      | Some kk, Some (a, m) =>
          if Z.leb 0 p && Z.ltb p 3 && Z.leb 0 p' && Z.ltb p' 3 && Z.leb 0 kd && Z.ltb kd 2 && Z.leb 0 fid
          then Some (MsgDuring (Nz p) kk m (Nz p') (Nz kd) a (Nz fid)) else None
      | _, _ => None
      end
  | _ => None
  end.

(* printing *)
Definition eOpt (o : option N) : zs := match o with Some v => [1; Zn v] | None => [0; 0] end.
Definition eAddr (a : addr) : zs := Z.of_nat (length a) :: map Zn a.
Definition eCount {A} (f : A -> zs) (l : list A) : zs := Z.of_nat (length l) :: flat_map f l.

Definition eFeat (f : feat) : zs :=
  [Zn (f_id f); Zn (f_type f); Zn (f_role f)] ++ eOpt (f_descr f) ++
  eCount (fun x => [Zn (fst x); Zn (snd x)]) (f_ops f).
Definition eEnt (e : ent) : zs :=
  eAddr (e_addr e) ++ [Zn (e_type e)] ++ eOpt (e_descr e) ++ eCount eFeat (e_feats e).
Definition ePeer (x : peer) : zs := Zb (p_known x) :: eCount eEnt (p_tree x).
Definition eReg (x : rentry) : zs := [Zn (r_peer x); Zn (r_kind x); Zn (r_fid x)] ++ eAddr (r_addr x).
Definition eSt (s : st) : zs := ePeer (s0 s) ++ ePeer (s1 s) ++ ePeer (s2 s) ++ eCount eReg (s_reg s).

Definition print_obs (o : obs) : zs :=
  match o with
  | OSnap s => 0 :: eSt s
  | EvDevice p => [1; Zn p]
  | EvEntity p ad a => [2; Zn p; Zb ad] ++ eAddr a
  | ORes ok => [3; Zb ok]
  end.

Definition pOp2 : P (N * N) := fn <- pN ;; k <- pN ;; pret (fn, k).
Definition pFeat : P feat :=
  id <- pN ;; ty <- pN ;; ro <- pN ;; d <- pOpt ;; ops <- pcount pOp2 ;;
  pret {| f_id := id; f_type := ty; f_role := ro; f_descr := d; f_ops := ops |}.
Definition pEnt : P ent :=
  a <- pAddr ;; ty <- pN ;; d <- pOpt ;; fs <- pcount pFeat ;;
  pret {| e_addr := a; e_type := ty; e_descr := d; e_feats := fs |}.
Definition pPeer : P peer := k <- pB ;; t <- pcount pEnt ;; pret {| p_known := k; p_tree := t |}.
Definition pReg : P rentry :=
  p <- pN ;; kd <- pN ;; fid <- pN ;; a <- pAddr ;;
  pret {| r_peer := p; r_kind := kd; r_addr := a; r_fid := fid |}.
Definition pSt : P st :=
  a <- pPeer ;; b <- pPeer ;; c <- pPeer ;; r <- pcount pReg ;;
  pret {| s0 := a; s1 := b; s2 := c; s_reg := r |}.

Definition parse_obs (l : zs) : option obs :=
  match l with
  | 0 :: r => match done (pSt r) with Some s => Some (OSnap s) | None => None end
  | [1; p] => Some (EvDevice (Nz p))
  | 2 :: p :: ad :: r => match done (pAddr r) with Some a => Some (EvEntity (Nz p) (bZ ad) a) | None => None end
  | [3; ok] => Some (ORes (bZ ok))
  | _ => None
  end.
