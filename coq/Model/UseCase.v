(* C20 — executable model of the use-case registry kept in the node-management
   function nodeManagementUseCaseData:
     spine/entity_local.go   AddUseCaseSupport / RemoveUseCaseSupport / SetUseCaseAvailability /
                             RemoveAllUseCaseSupports / HasUseCaseSupport  (REPAIRED: the
                             copy-modify-store cycle runs under the package mutex useCaseMux)
     model/nodemanagement_additions.go, model/usecaseinformation_additions.go  (helpers)
     spine/nodemanagement_usecase.go processReadUseCaseData, spine/device_local.go RemoveEntity
   No proofs here.

   Identifiers are numbers kept by the harness: entity e = local entity with address [e],
   actor/name/version/sub-revision ids >= 1 (the empty actor and the empty name act as
   wildcards in the helpers and are outside the property's quantifier).

   Every mutating operation is two atomic steps, the boundary being the yield hook
   "UseCase.copied":   Begin t u = thread t starts operation u: lock useCaseMux, DataCopy;
                       End t     = modify the copy, SetData, unlock, return.
   A Begin while another thread holds the mutex blocks; the waiter gets the mutex when the
   holder's End releases it (FIFO among waiters: a waiter has no effect before it acquires,
   so any other hand-off order equals the FIFO order of a schedule with permuted Begins;
   the harness keeps at most one real waiter to make the hand-off deterministic).

   Value semantics: DataCopy is shallow and the helpers write in place into the shared
   backing arrays, but with the mutex there is exactly one snapshot alive per cycle and it
   is replaced by SetData, so aliasing is unobservable (see DESIGN.md, as built C20).
   [step_pinned] is the unrepaired cycle (no mutex), kept for the refutation witness. *)
From Verif Require Import Base.Prelude.

Record support := { s_name : N; s_ver : N; s_sub : N; s_avail : bool; s_scen : list N }.
Record info := { i_ent : N; i_actor : N; i_sups : list support }.

(* the function data: None = never set (DataCopy fails with "data not found") *)
Definition data := option (list info).
Definition data_list (d : data) : list info := match d with Some l => l | None => [] end.

Inductive uop :=
| UAdd (e a : N) (s : support)
| URemove (e a n : N)
| USetAvail (e a n : N) (av : bool)
| URemoveAll (e : N)
| URemoveEntity (e : N).           (* DeviceLocal.RemoveEntity: calls RemoveAllUseCaseSupports *)

Definition ent_of (u : uop) : N :=
  match u with
  | UAdd e _ _ | URemove e _ _ | USetAvail e _ _ _ | URemoveAll e | URemoveEntity e => e
  end.

(* ---- helpers of model/*_additions.go ---- *)
Definition same_ea (e a : N) (i : info) : bool := N.eqb (i_ent i) e && N.eqb (i_actor i) a.
Definition named (n : N) (s : support) : bool := N.eqb (s_name s) n.
Definition has_name (n : N) (l : list support) : bool := existsb (named n) l.

(* UseCaseInformationDataType.Add: overwrite a same-named support, else append *)
Fixpoint sup_add (u : support) (l : list support) : list support :=
  match l with
  | [] => [u]
  | x :: r => if named (s_name u) x then u :: r else x :: sup_add u r
  end.

(* NodeManagementUseCaseDataType.AddUseCaseSupport: first entry of (entity, actor), else a new entry *)
Fixpoint info_add (e a : N) (u : support) (l : list info) : list info :=
  match l with
  | [] => [{| i_ent := e; i_actor := a; i_sups := [u] |}]
  | i :: r =>
      if same_ea e a i
      then {| i_ent := i_ent i; i_actor := i_actor i; i_sups := sup_add u (i_sups i) |} :: r
      else i :: info_add e a u r
  end.

(* RemoveUseCaseSupport: first entry of (entity, actor) holding the name; the entry is dropped when empty *)
Fixpoint info_remove (e a n : N) (l : list info) : list info :=
  match l with
  | [] => []
  | i :: r =>
      if same_ea e a i && has_name n (i_sups i)
      then match filter (fun x => negb (named n x)) (i_sups i) with
           | [] => r
           | s => {| i_ent := i_ent i; i_actor := i_actor i; i_sups := s |} :: r
           end
      else i :: info_remove e a n r
  end.

Definition with_avail (s : support) (av : bool) : support :=
  {| s_name := s_name s; s_ver := s_ver s; s_sub := s_sub s; s_avail := av; s_scen := s_scen s |}.

Fixpoint sup_set (n : N) (av : bool) (l : list support) : list support :=
  match l with
  | [] => []
  | x :: r => if named n x then with_avail x av :: r else x :: sup_set n av r
  end.

(* SetAvailability *)
Fixpoint info_set (e a n : N) (av : bool) (l : list info) : list info :=
  match l with
  | [] => []
  | i :: r =>
      if same_ea e a i && has_name n (i_sups i)
      then {| i_ent := i_ent i; i_actor := i_actor i; i_sups := sup_set n av (i_sups i) |} :: r
      else i :: info_set e a n av r
  end.

(* RemoveUseCaseDataForAddress *)
Definition info_remove_all (e : N) (l : list info) : list info :=
  filter (fun i => negb (N.eqb (i_ent i) e)) l.

(* HasUseCaseSupport (useCaseInformationIndex with actor and name given) *)
Definition info_has (e a n : N) (l : list info) : bool :=
  existsb (fun i => same_ea e a i && has_name n (i_sups i)) l.

(* the modify part of one EntityLocal operation applied to the snapshot; the result is what SetData stores.
   Without data, everything but Add returns before SetData. *)
Definition apply_uop (d : data) (u : uop) : data :=
  match u with
  | UAdd e a s => Some (info_add e a s (data_list d))
  | URemove e a n => option_map (info_remove e a n) d
  | USetAvail e a n av => option_map (info_set e a n av) d
  | URemoveAll e | URemoveEntity e => option_map (info_remove_all e) d
  end.

(* ---- the machine ---- *)
Inductive op :=
| Begin (t : N) (u : uop)
| End (t : N)
| Has (e a n : N)                  (* EntityLocal.HasUseCaseSupport *)
| Read                             (* a peer reads nodeManagementUseCaseData *)
| Par2 (u1 u2 : uop).              (* two operations started together on their own goroutines and left to run freely
                                      (no parking at the hook).  With the mutex one cycle follows the other; the
                                      model composes them in the order given.  The harness issues them for different
                                      entities only, where both orders denote the same registry
                                      (Proofs: par2_commutes) and compares the data up to the order of its entries. *)

Inductive obs :=
| Parked                           (* the thread reached UseCase.copied *)
| Blocked                          (* the thread waits for the mutex *)
| Busy                             (* thread id in use: nothing started *)
| Done                             (* the operation returned *)
| Acquired (t : N)                 (* waiter t got the mutex and reached UseCase.copied *)
| NotRunnable                      (* the thread is not parked at the hook: step not realisable *)
| HasR (b : bool)
| RInfo (e a : N)                  (* one useCaseInformation entry ... *)
| RSup (s : support)               (* ... and its supports, in order *)
| REnd.

Definition render (d : data) : list obs :=
  flat_map (fun i => RInfo (i_ent i) (i_actor i) :: map RSup (i_sups i)) (data_list d) ++ [REnd].

Record st := {
  store : data;
  hold : option (N * uop * data);   (* holder of useCaseMux: thread, its operation, its snapshot *)
  wait : list (N * uop)             (* threads blocked on useCaseMux, FIFO *)
}.

Definition init : st := {| store := None; hold := None; wait := [] |}.

Definition is_holder (t : N) (s : st) : bool :=
  match hold s with Some (t', _, _) => N.eqb t t' | None => false end.

Definition active (t : N) (s : st) : bool :=
  is_holder t s || match assoc_N t (wait s) with Some _ => true | None => false end.

Definition step (s : st) (o : op) : st * list obs :=
  match o with
  | Begin t u =>
      if active t s then (s, [Busy])
      else match hold s with
           | None => ({| store := store s; hold := Some (t, u, store s); wait := wait s |}, [Parked])
           | Some _ => ({| store := store s; hold := hold s; wait := wait s ++ [(t, u)] |}, [Blocked])
           end
  | End t =>
      match hold s with
      | Some (t', u, snap) =>
          if N.eqb t t'
          then let d := apply_uop snap u in
               match wait s with
               | [] => ({| store := d; hold := None; wait := [] |}, Done :: render d)
               | (t2, u2) :: w =>
                   ({| store := d; hold := Some (t2, u2, d); wait := w |}, Done :: Acquired t2 :: render d)
               end
          else (s, [NotRunnable])
      | None => (s, [NotRunnable])
      end
  | Has e a n => (s, [HasR (info_has e a n (data_list (store s)))])
  | Read => (s, render (store s))
  | Par2 u1 u2 =>
      match hold s with
      | Some _ => (s, [NotRunnable])
      | None =>
          let d := apply_uop (apply_uop (store s) u1) u2 in
          ({| store := d; hold := None; wait := wait s |}, Done :: render d)
      end
  end.

Fixpoint run (s : st) (ops : list op) : st * list (op * list obs) :=
  match ops with
  | [] => (s, [])
  | o :: r =>
      let '(s1, out) := step s o in
      let '(s2, tr) := run s1 r in
      (s2, (o, out) :: tr)
  end.

(* ---- the pinned (unrepaired) cycle: no mutex, every thread keeps its own snapshot ---- *)
Record pst := { p_store : data; p_cop : list (N * (uop * data)) }.
Definition pinit : pst := {| p_store := None; p_cop := [] |}.

Definition step_pinned (s : pst) (o : op) : pst * list obs :=
  match o with
  | Begin t u =>
      match assoc_N t (p_cop s) with
      | Some _ => (s, [Busy])
      | None => ({| p_store := p_store s; p_cop := p_cop s ++ [(t, (u, p_store s))] |}, [Parked])
      end
  | End t =>
      match assoc_N t (p_cop s) with
      | Some (u, snap) =>
          let d := apply_uop snap u in
          ({| p_store := d; p_cop := remove_N t (p_cop s) |}, Done :: render d)
      | None => (s, [NotRunnable])
      end
  | Has e a n => (s, [HasR (info_has e a n (data_list (p_store s)))])
  | Read => (s, render (p_store s))
  | Par2 u1 u2 =>
      (* without the mutex both copy before either stores: the later store wins *)
      let d := apply_uop (p_store s) u2 in
      ({| p_store := d; p_cop := p_cop s |}, Done :: render d)
  end.

Fixpoint run_pinned (s : pst) (ops : list op) : pst * list (op * list obs) :=
  match ops with
  | [] => (s, [])
  | o :: r =>
      let '(s1, out) := step_pinned s o in
      let '(s2, tr) := run_pinned s1 r in
      (s2, (o, out) :: tr)
  end.

(* ---- wire encoding ----
   op:  0 t 0 e a n ver sub av sc*   Begin t (UAdd ...)
        0 t 1 e a n                  Begin t (URemove ...)
        0 t 2 e a n av               Begin t (USetAvail ...)
        0 t 3 e                      Begin t (URemoveAll e)
        0 t 4 e                      Begin t (URemoveEntity e)
        1 t                          End t
        2 e a n                      Has
        3                            Read
        4 n u1.. u2..                Par2 u1 u2 (u1 takes the n numbers after n, u2 the rest)
   obs: 0 Parked, 1 Blocked, 2 Busy, 3 Done, 4 t Acquired, 5 NotRunnable, 6 b HasR,
        7 e a RInfo, 8 n ver sub av sc* RSup, 9 REnd *)
Definition parse_uop (l : list Z) : option uop :=
  match l with
  | 0 :: e :: a :: n :: ver :: sub :: av :: sc =>
      Some (UAdd (Nz e) (Nz a) {| s_name := Nz n; s_ver := Nz ver; s_sub := Nz sub; s_avail := bZ av; s_scen := map Nz sc |})
  | [1; e; a; n] => Some (URemove (Nz e) (Nz a) (Nz n))
  | [2; e; a; n; av] => Some (USetAvail (Nz e) (Nz a) (Nz n) (bZ av))
  | [3; e] => Some (URemoveAll (Nz e))
  | [4; e] => Some (URemoveEntity (Nz e))
  | _ => None
  end.

Definition parse_op (l : list Z) : option op :=
  match l with
  | 0 :: t :: r => match parse_uop r with Some u => Some (Begin (Nz t) u) | None => None end
  | [1; t] => Some (End (Nz t))
  | [2; e; a; n] => Some (Has (Nz e) (Nz a) (Nz n))
  | [3] => Some Read
  | 4 :: n :: r =>
      match parse_uop (firstn (Z.to_nat n) r), parse_uop (skipn (Z.to_nat n) r) with
      | Some u1, Some u2 => Some (Par2 u1 u2)
      | _, _ => None
      end
  | _ => None
  end.

Definition print_obs (o : obs) : list Z :=
  match o with
  | Parked => [0]
  | Blocked => [1]
  | Busy => [2]
  | Done => [3]
  | Acquired t => [4; Zn t]
  | NotRunnable => [5]
  | HasR b => [6; Zb b]
  | RInfo e a => [7; Zn e; Zn a]
  | RSup s => 8 :: Zn (s_name s) :: Zn (s_ver s) :: Zn (s_sub s) :: Zb (s_avail s) :: map Zn (s_scen s)
  | REnd => [9]
  end.

Definition parse_obs (l : list Z) : option obs :=
  match l with
  | [0] => Some Parked
  | [1] => Some Blocked
  | [2] => Some Busy
  | [3] => Some Done
  | [4; t] => Some (Acquired (Nz t))
  | [5] => Some NotRunnable
  | [6; b] => Some (HasR (bZ b))
  | [7; e; a] => Some (RInfo (Nz e) (Nz a))
  | 8 :: n :: ver :: sub :: av :: sc =>
      Some (RSup {| s_name := Nz n; s_ver := Nz ver; s_sub := Nz sub; s_avail := bZ av; s_scen := map Nz sc |})
  | [9] => Some REnd
  | _ => None
  end.
