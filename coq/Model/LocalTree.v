(* C07 — executable model of the local device tree and its announcement:
     spine/device_local.go   AddEntity / RemoveEntity / notifySubscribersOfEntity / FeatureByAddress / Entity
     spine/entity_local.go   AddFeature / GetOrAddFeature (REPAIRED: re-check under the lock) / FeatureOfAddress
     spine/entity.go         NextFeatureId
     spine/feature_local.go  AddFunctionType / Information,  spine/operations.go Information
     spine/nodemanagement_detaileddiscovery.go processReadDetailedDiscoveryData
   No proofs here.

   Identifiers are numbers kept by the harness: entity e = the entity object with address
   id e (0 = the built-in device-information entity, created by NewDeviceLocal with node
   management and device classification; application entities are >= 1, hence [positive]
   in the entity operations), feature types, roles (1 client, 2 server, 3 special),
   functions, entity types, descriptions (0 none, 1 the automatic description of
   GetOrAddFeature, 2+k the custom text k), peers p and their client features c.

   The application discipline built into the operations (not checked by the code): one
   entity object per address (NewEntity is ignored for an existing address), an object is
   added to the device only while it is not a member, feature ids come from NextFeatureId.

   GetOrAddFeature is two atomic steps, the boundary being the yield hook
   "GetOrAddFeature.miss":  GLookup t = FeatureOfTypeAndRole under the entity lock,
   GCreate t = lock, (repaired: look again,) NextFeatureId, create, append.
   [step_pinned] is the unrepaired creation step, kept for the refutation witness.

   Subscription entries on node management are plain data (peer, client feature), kept
   sorted; the harness sets them up through real subscription calls.

   The detailed-discovery read (processReadDetailedDiscoveryData) is two atomic steps, the
   boundary being the yield hook "DiscoveryRead.entities":
     ReadBegin t p   DeviceLocal.Entities() under the device lock: the handler holds the
                     slice header, i.e. the member list as of this moment; parked
     ReadEnd t       the handler walks THAT list; every entity object in it is live, so it
                     is rendered with the type and the features / operations it has now
                     (EntityLocal.Features() and FeatureLocal.Information() are taken under
                     their own locks at this point); an entity removed from the device
                     since ReadBegin is still in the list and still has its features
   The list taken at ReadBegin is immutable: AddEntity appends to DeviceLocal.entities
   (possibly into spare capacity of the same backing array, beyond the length of the slice
   header taken earlier, hence invisible to it) and RemoveEntity builds a NEW slice and
   never writes to the old backing array.  [Read p] is the uninterrupted read
   (ReadBegin; ReadEnd on a thread of its own).  Read threads and GetOrAddFeature threads
   are separate name spaces ([rds] and [thr]).
   [step_inplace] is the variant in which RemoveEntity compacts the backing array in place
   (slices.DeleteFunc): a pending read then sees the live array through its old length --
   the following entities shifted down and a zeroed tail, on which the handler panics
   (observation ReadPanicked, no reply).  It is kept for the refutation witness only and
   assumes that no AddEntity reallocated the array in between.

   [Burst e calls]: overlapping feature creation on ONE entity object -- as many goroutines
   as calls, released together, no hooks: NextFeatureId alone (BNext), NewFeatureLocal(
   NextFeatureId) + AddFeature (BAdd ty role, no description, no functions) or
   GetOrAddFeature (BGet ty role), the (type, role)s of one burst pairwise different (a
   burst that is not is refused: BadBurst, nothing runs).  Every call takes its feature id
   in ONE atomic step (Entity.NextFeatureId under muxGenerator) and appends under
   EntityLocal.mux, so every interleaving hands out the same SET of ids -- next, next+1, ...
   -- and leaves the same generator; which call obtains which id is the schedule's
   business.  The model is the sequential composition in the order given; the runner
   reports the ids sorted and paired with the calls in the order given and from then on
   names the features of that entity by the model's ids (a bijection on the burst's ids). *)
From Verif Require Import Base.Prelude.

Definition ROLE_CLIENT : N := 1.
Definition ROLE_SERVER : N := 2.
Definition ROLE_SPECIAL : N := 3.
Definition NCLIENT : N := 3.          (* client-capable features every harness peer announces: 0, 1, 2 *)

Definition opflags := (bool * bool * bool * bool)%type.   (* read, read partial, write, write partial *)

Record feat := { f_id : N; f_type : N; f_role : N; f_desc : N; f_ops : list (N * opflags) }.
Record eobj := { e_type : N; e_feats : list feat }.

Definition is_tr (ty role : N) (f : feat) : bool := N.eqb (f_type f) ty && N.eqb (f_role f) role.
Definition find_tr (ty role : N) (l : list feat) : option feat := find (is_tr ty role) l.
Definition find_id (id : N) (l : list feat) : option feat := find (fun f => N.eqb (f_id f) id) l.

(* FeatureLocal.AddFunctionType: server and special roles only; the first registration wins;
   partial reads are never announced; partial write iff write and the function data supports it *)
Definition fn_add (role : N) (ops : list (N * opflags)) (fn : N) (r w ps : bool) : list (N * opflags) :=
  if N.eqb role ROLE_SERVER || N.eqb role ROLE_SPECIAL
  then match assoc_N fn ops with
       | Some _ => ops
       | None => ops ++ [(fn, (r, false, w, w && ps))]
       end
  else ops.

Definition fnspec := (N * bool * bool * bool)%type.       (* function, read, write, supports partial write *)

Definition fns_add (role : N) (ops : list (N * opflags)) (fns : list fnspec) : list (N * opflags) :=
  fold_left (fun acc (x : fnspec) => let '(fn, r, w, ps) := x in fn_add role acc fn r w ps) fns ops.

(* EntityLocal.AddFeature: dropped if a feature of this type and role exists *)
Definition feats_add (f : feat) (l : list feat) : list feat :=
  match find_tr (f_type f) (f_role f) l with
  | Some _ => l
  | None => l ++ [f]
  end.

Fixpoint upd_obj (e : N) (g : eobj -> eobj) (l : list (N * eobj)) : list (N * eobj) :=
  match l with
  | [] => []
  | (k, o) :: r => if N.eqb e k then (k, g o) :: r else (k, o) :: upd_obj e g r
  end.

Definition upd_feats (e : N) (g : list feat -> list feat) (l : list (N * eobj)) : list (N * eobj) :=
  upd_obj e (fun o => {| e_type := e_type o; e_feats := g (e_feats o) |}) l.

Fixpoint feats_upd_id (id : N) (g : feat -> feat) (l : list feat) : list feat :=
  match l with
  | [] => []
  | f :: r => if N.eqb (f_id f) id then g f :: r else f :: feats_upd_id id g r
  end.

Definition with_desc (f : feat) (d : N) : feat :=
  {| f_id := f_id f; f_type := f_type f; f_role := f_role f; f_desc := d; f_ops := f_ops f |}.

Definition with_ops (f : feat) (ops : list (N * opflags)) : feat :=
  {| f_id := f_id f; f_type := f_type f; f_role := f_role f; f_desc := f_desc f; f_ops := ops |}.

(* the feature id generator of an entity object *)
Definition ctr_of (ctrs : list (N * N)) (e : N) : N :=
  match assoc_N e ctrs with Some c => c | None => 0 end.

Fixpoint ctr_bump (e : N) (l : list (N * N)) : list (N * N) :=
  match l with
  | [] => []
  | (k, c) :: r => if N.eqb e k then (k, N.succ c) :: r else (k, c) :: ctr_bump e r
  end.

(* subscription entries as a sorted set *)
Definition sub_eqb (a b : N * N) : bool := N.eqb (fst a) (fst b) && N.eqb (snd a) (snd b).
Definition sub_le (a b : N * N) : bool :=
  N.ltb (fst a) (fst b) || (N.eqb (fst a) (fst b) && N.leb (snd a) (snd b)).
Definition sub_mem (x : N * N) (l : list (N * N)) : bool := existsb (sub_eqb x) l.
Fixpoint sub_ins (x : N * N) (l : list (N * N)) : list (N * N) :=
  match l with
  | [] => [x]
  | y :: r => if sub_le x y then x :: l else y :: sub_ins x r
  end.
Definition sub_del (x : N * N) (l : list (N * N)) : list (N * N) := filter (fun y => negb (sub_eqb x y)) l.

(* canonical order of announced functions (the code iterates a map) *)
Fixpoint ins_op (x : N * opflags) (l : list (N * opflags)) : list (N * opflags) :=
  match l with
  | [] => [x]
  | y :: r => if N.leb (fst x) (fst y) then x :: l else y :: ins_op x r
  end.
Definition sort_ops (l : list (N * opflags)) : list (N * opflags) := fold_right ins_op [] l.

(* ---- operations and observations ---- *)
Inductive bcall :=
| BNext                                  (* NextFeatureId *)
| BAdd (ty role : N)                     (* NewFeatureLocal(NextFeatureId(), ty, role); AddFeature *)
| BGet (ty role : N).                    (* GetOrAddFeature(ty, role) *)

(* what a During overlaps with the stalled notification write *)
Inductive dinner :=
| IRead (p : N)                          (* peer p reads the detailed discovery data *)
| IReconnect (p : N).                    (* peer p disconnects (RemoveRemoteDeviceConnection) and connects again *)

Inductive op :=
| NewEntity (e : positive) (ty : N)      (* NewEntityLocal for address e, unless that object exists *)
| AddEntity (e : positive)               (* DeviceLocal.AddEntity, unless already a member *)
| RemoveEntity (e : positive)            (* DeviceLocal.RemoveEntity *)
| AddFeature (e ty role desc : N) (fns : list fnspec)
      (* NewFeatureLocal(NextFeatureId), [SetDescriptionString custom desc if desc > 0], AddFunctionType*, AddFeature *)
| AddFunction (e fid fn : N) (r w ps : bool)   (* AddFunctionType on the feature with id fid *)
| NextId (e : N)                         (* NextFeatureId *)
| GetOrAdd (e ty role : N)               (* GetOrAddFeature, uninterrupted *)
| GLookup (t e ty role : N)              (* thread t calls GetOrAddFeature: the lookup *)
| GCreate (t : N)                        (* thread t continues after the hook: the creation *)
| Subscribe (p c : N)                    (* peer p subscribes its client feature c to node management *)
| Unsubscribe (p c : N)
| Read (p : N)                           (* peer p reads nodeManagementDetailedDiscoveryData, uninterrupted *)
| ReadBegin (t p : N)                    (* thread t handles a read of peer p: the entity list is taken; parked at the hook *)
| ReadEnd (t : N)                        (* thread t continues after the hook: the reply is built from that list and sent *)
| Burst (e : N) (calls : list bcall)     (* overlapping calls on entity object e, one goroutine each, released together *)
| Reconnect (p : N)                      (* peer p's connection closes (RemoveRemoteDeviceConnection: its subscriptions go) and
                                            is set up again, announcing the same client features *)
| During (add : bool) (e : positive) (q : N) (i : dinner)
      (* AddEntity e / RemoveEntity e whose first notification write to peer q is stalled inside the connection
         writer; while it is stalled [i] runs to completion; then the write is released.  The notification is
         sent outside every lock and from data fixed before the first write (the rendered entity, the list of
         subscription entries), so this is AddEntity / RemoveEntity followed by [i]; q is schedule only *)
| SetDescr (e fid d : N).
      (* FeatureLocal.SetDescriptionString(custom text d) on the existing feature fid of entity object e, at any
         point of its life (before or after it has been announced); Information() reads the description anew
         every time, so the next reply / notification carries the new text *)

Inductive obs :=
| Created | Exists | NoEntity | AlreadyMember
| FeatId (id : N)                        (* feature id handed out by NextFeatureId *)
| GRet (id : N) (new : bool)             (* GetOrAddFeature returned the feature id; new: the feature list grew *)
| Miss                                   (* the lookup missed: the thread is parked at the hook *)
| NoThread | BusyT
| SubRes (ok : bool)
| NBegin (p c : N) (ok : bool)           (* notify datagram to peer p, addressed to its client feature c *)
| RBegin (p : N) (ok : bool)             (* reply datagram to peer p *)
| REnt (e ty lsc : N)                    (* entity information: address, type, lastStateChange 0 none 1 added 2 removed *)
| RFeat (e id ty role desc rid rty rrole : N)
      (* feature information, and what DeviceLocal.FeatureByAddress(e, id) returns: id, type, role (0 0 0 = nil) *)
| RFn (fn : N) (r rp w wp : bool)        (* supported function with possible operations, sorted by fn *)
| REnd
| Other (p : N)                          (* any other datagram written to peer p *)
| OkDone | NoFeature
| Parked                                 (* the read handler holds its entity list and is parked at the hook *)
| ReadPanicked                           (* the read handler panicked (nil entity in its list); no reply was sent *)
| BadBurst                               (* two calls of the burst name one (type, role): refused *)
| Len (n : N)                            (* During: the next n observations are the entity operation's, the rest the overlapped one's *)
| Blocked.                               (* During: the overlapped operation returned only after the stalled write was released *)

Definition render_feat (e : N) (f : feat) (res : option feat) : list obs :=
  let '(rid, rty, rrole) := match res with
                            | Some g => (f_id g, f_type g, f_role g)
                            | None => (0, 0, 0)%N
                            end in
  RFeat e (f_id f) (f_type f) (f_role f) (f_desc f) rid rty rrole ::
  map (fun x : N * opflags => let '(fn, (r, rp, w, wp)) := x in RFn fn r rp w wp) (sort_ops (f_ops f)).

Record st := {
  objs : list (N * eobj);              (* entity objects by address id *)
  ctrs : list (N * N);                 (* next feature id per entity object *)
  members : list N;                    (* DeviceLocal.entities *)
  subs : list (N * N);                 (* subscription entries on node management: (peer, client feature) *)
  thr : list (N * (N * N * N));        (* GetOrAddFeature calls parked at the hook: thread -> (entity, type, role) *)
  rds : list (N * (N * list N))        (* discovery reads parked at the hook: thread -> (peer, the entity list it holds) *)
}.

(* the tree built by NewDeviceLocal (feature set "smart"): entity 0 with
   node management (id 0, special, nine functions) and device classification (id 1, server) *)
Definition ET_DEVINFO : N := 1.
Definition FT_NODEMGMT : N := 1.
Definition FT_DEVCLASS : N := 2.
Definition ro : opflags := (true, false, false, false).
Definition no : opflags := (false, false, false, false).
Definition nm_feat : feat :=
  {| f_id := 0; f_type := FT_NODEMGMT; f_role := ROLE_SPECIAL; f_desc := 0;
     f_ops := [(1, ro); (2, ro); (3, ro); (4, no); (5, no); (6, ro); (7, no); (8, no); (9, ro)]%N |}.
Definition dc_feat : feat :=
  {| f_id := 1; f_type := FT_DEVCLASS; f_role := ROLE_SERVER; f_desc := 0; f_ops := [(10%N, ro)] |}.

Definition init : st :=
  {| objs := [(0%N, {| e_type := ET_DEVINFO; e_feats := [nm_feat; dc_feat] |})];
     ctrs := [(0, 2)]%N; members := [0%N]; subs := []; thr := []; rds := [] |}.

(* DeviceLocal.FeatureByAddress: first member entity with the address, first feature with the id *)
Definition resolve (s : st) (e id : N) : option feat :=
  if memN e (members s)
  then match assoc_N e (objs s) with
       | Some o => find_id id (e_feats o)
       | None => None
       end
  else None.

Definition feats_of (s : st) (e : N) : list feat :=
  match assoc_N e (objs s) with Some o => e_feats o | None => [] end.
Definition type_of (s : st) (e : N) : N :=
  match assoc_N e (objs s) with Some o => e_type o | None => 0 end.

Definition render_feats (s : st) (e : N) : list obs :=
  flat_map (fun f => render_feat e f (resolve s e (f_id f))) (feats_of s e).

(* processReadDetailedDiscoveryData from the entity list [l] the handler holds: the entity
   objects of [l] as they are in [s] (the resolution columns are what FeatureByAddress
   returns in [s]: nil for an entity that is not a member any more) *)
Definition render_reply_of (s : st) (p : N) (l : list N) : list obs :=
  RBegin p true :: map (fun e => REnt e (type_of s e) 0) l ++
  flat_map (render_feats s) l ++ [REnd].

(* the uninterrupted read *)
Definition render_reply (s : st) (p : N) : list obs := render_reply_of s p (members s).

(* notifySubscribersOfEntity: one partial notify per subscription entry on node management *)
Definition render_notifs (s : st) (e lsc : N) (with_feats : bool) : list obs :=
  flat_map (fun pc : N * N =>
              NBegin (fst pc) (snd pc) true :: REnt e (type_of s e) lsc ::
              (if with_feats then render_feats s e else []) ++ [REnd]) (subs s).

Definition set_objs (s : st) (o : list (N * eobj)) : st :=
  {| objs := o; ctrs := ctrs s; members := members s; subs := subs s; thr := thr s; rds := rds s |}.

(* hand out the next feature id of entity e *)
Definition take_id (s : st) (e : N) : st * N :=
  ({| objs := objs s; ctrs := ctr_bump e (ctrs s); members := members s; subs := subs s; thr := thr s; rds := rds s |},
   ctr_of (ctrs s) e).

(* the locked creation of GetOrAddFeature; [recheck] = the repair *)
Definition create (recheck : bool) (s : st) (e ty role : N) : st * list obs :=
  match (if recheck then find_tr ty role (feats_of s e) else None) with
  | Some f => (s, [GRet (f_id f) false])
  | None =>
      let '(s1, id) := take_id s e in
      let f := {| f_id := id; f_type := ty; f_role := role; f_desc := 1; f_ops := [] |} in
      (set_objs s1 (upd_feats e (fun l => l ++ [f]) (objs s1)), [GRet id true])
  end.

(* the calls of a burst as the operations they are *)
Definition bcall_op (e : N) (c : bcall) : op :=
  match c with
  | BNext => NextId e
  | BAdd ty role => AddFeature e ty role 0 []
  | BGet ty role => GetOrAdd e ty role
  end.

Definition bcall_tr (c : bcall) : list (N * N) :=
  match c with
  | BNext => []
  | BAdd ty role => [(ty, role)]
  | BGet ty role => [(ty, role)]
  end.

Definition tr_mem (x : N * N) (l : list (N * N)) : bool := existsb (sub_eqb x) l.

Fixpoint tr_nodup (l : list (N * N)) : bool :=
  match l with
  | [] => true
  | x :: r => negb (tr_mem x r) && tr_nodup r
  end.

Definition burst_wf (calls : list bcall) : bool := tr_nodup (flat_map bcall_tr calls).

(* every operation but Burst *)
Definition step_base (recheck inplace : bool) (s : st) (o : op) : st * list obs :=
  match o with
  | NewEntity e ty =>
      match assoc_N (Npos e) (objs s) with
      | Some _ => (s, [Exists])
      | None =>
          ({| objs := objs s ++ [(Npos e, {| e_type := ty; e_feats := [] |})];
              ctrs := ctrs s ++ [(Npos e, 1%N)];
              members := members s; subs := subs s; thr := thr s; rds := rds s |}, [Created])
      end
  | AddEntity e =>
      match assoc_N (Npos e) (objs s) with
      | None => (s, [NoEntity])
      | Some _ =>
          if memN (Npos e) (members s) then (s, [AlreadyMember])
          else let s1 := {| objs := objs s; ctrs := ctrs s; members := members s ++ [Npos e];
                            subs := subs s; thr := thr s; rds := rds s |} in
               (s1, render_notifs s1 (Npos e) 1 true)
      end
  | RemoveEntity e =>
      match assoc_N (Npos e) (objs s) with
      | None => (s, [NoEntity])
      | Some _ =>
          let s1 := {| objs := objs s; ctrs := ctrs s;
                       members := filter (fun x => negb (N.eqb x (Npos e))) (members s);
                       subs := subs s; thr := thr s; rds := rds s |} in
          (s1, render_notifs s1 (Npos e) 2 false)
      end
  | AddFeature e ty role desc fns =>
      match assoc_N e (objs s) with
      | None => (s, [NoEntity])
      | Some _ =>
          let '(s1, id) := take_id s e in
          let f := {| f_id := id; f_type := ty; f_role := role;
                      f_desc := if N.eqb desc 0 then 0 else N.succ desc;
                      f_ops := fns_add role [] fns |} in
          (set_objs s1 (upd_feats e (feats_add f) (objs s1)), [FeatId id])
      end
  | AddFunction e fid fn r w ps =>
      match assoc_N e (objs s) with
      | None => (s, [NoEntity])
      | Some o =>
          match find_id fid (e_feats o) with
          | None => (s, [NoFeature])
          | Some _ =>
              (set_objs s (upd_feats e (feats_upd_id fid (fun f => with_ops f (fn_add (f_role f) (f_ops f) fn r w ps))) (objs s)),
               [OkDone])
          end
      end
  | NextId e =>
      match assoc_N e (objs s) with
      | None => (s, [NoEntity])
      | Some _ => let '(s1, id) := take_id s e in (s1, [FeatId id])
      end
  | GetOrAdd e ty role =>
      match assoc_N e (objs s) with
      | None => (s, [NoEntity])
      | Some o =>
          match find_tr ty role (e_feats o) with
          | Some f => (s, [GRet (f_id f) false])
          | None => create recheck s e ty role
          end
      end
  | GLookup t e ty role =>
      match assoc_N t (thr s) with
      | Some _ => (s, [BusyT])
      | None =>
          match assoc_N e (objs s) with
          | None => (s, [NoEntity])
          | Some o =>
              match find_tr ty role (e_feats o) with
              | Some f => (s, [GRet (f_id f) false])
              | None =>
                  ({| objs := objs s; ctrs := ctrs s; members := members s; subs := subs s;
                      thr := (t, (e, ty, role)) :: thr s; rds := rds s |}, [Miss])
              end
          end
      end
  | GCreate t =>
      match assoc_N t (thr s) with
      | None => (s, [NoThread])
      | Some (e, ty, role) =>
          create recheck {| objs := objs s; ctrs := ctrs s; members := members s; subs := subs s;
                            thr := remove_N t (thr s); rds := rds s |} e ty role
      end
  | Subscribe p c =>
      if N.ltb c NCLIENT && negb (sub_mem (p, c) (subs s))
      then ({| objs := objs s; ctrs := ctrs s; members := members s; subs := sub_ins (p, c) (subs s); thr := thr s; rds := rds s |},
            [SubRes true])
      else (s, [SubRes false])
  | Unsubscribe p c =>
      if sub_mem (p, c) (subs s)
      then ({| objs := objs s; ctrs := ctrs s; members := members s; subs := sub_del (p, c) (subs s); thr := thr s; rds := rds s |},
            [SubRes true])
      else (s, [SubRes false])
  | Read p => (s, render_reply s p)
  | ReadBegin t p =>
      match assoc_N t (rds s) with
      | Some _ => (s, [BusyT])
      | None =>
          ({| objs := objs s; ctrs := ctrs s; members := members s; subs := subs s; thr := thr s;
              rds := (t, (p, members s)) :: rds s |}, [Parked])
      end
  | ReadEnd t =>
      match assoc_N t (rds s) with
      | None => (s, [NoThread])
      | Some (p, l) =>
          let s1 := {| objs := objs s; ctrs := ctrs s; members := members s; subs := subs s; thr := thr s;
                       rds := remove_N t (rds s) |} in
          if inplace
          then (* the handler ranges over the first [length l] slots of the live backing array *)
               if N.ltb (N.of_nat (length (members s))) (N.of_nat (length l))
               then (s1, [ReadPanicked])
               else (s1, render_reply_of s1 p (firstn (length l) (members s)))
          else (s1, render_reply_of s1 p l)
      end
  | Burst _ _ => (s, [BadBurst])
  | Reconnect p =>
      ({| objs := objs s; ctrs := ctrs s; members := members s;
          subs := filter (fun x : N * N => negb (N.eqb (fst x) p)) (subs s); thr := thr s; rds := rds s |}, [OkDone])
  | During _ _ _ _ => (s, [BadBurst])
  | SetDescr e fid d =>
      match assoc_N e (objs s) with
      | None => (s, [NoEntity])
      | Some o =>
          match find_id fid (e_feats o) with
          | None => (s, [NoFeature])
          | Some _ =>
              (* custom text d is description code 1 + d, as in AddFeature *)
              (set_objs s (upd_feats e (feats_upd_id fid (fun f => with_desc f (N.succ d))) (objs s)), [OkDone])
          end
      end
  end.

Definition ent_op (add : bool) (e : positive) : op := if add then AddEntity e else RemoveEntity e.
Definition inner_op (i : dinner) : op :=
  match i with
  | IRead p => Read p
  | IReconnect p => Reconnect p
  end.

(* the calls of a burst one after the other *)
Fixpoint run_calls (recheck inplace : bool) (s : st) (l : list op) : st * list obs :=
  match l with
  | [] => (s, [])
  | o :: r =>
      let '(s1, out) := step_base recheck inplace s o in
      let '(s2, out2) := run_calls recheck inplace s1 r in
      (s2, out ++ out2)
  end.

Definition step_gen (recheck inplace : bool) (s : st) (o : op) : st * list obs :=
  match o with
  | Burst e calls =>
      if burst_wf calls
      then match assoc_N e (objs s) with
           | None => (s, [NoEntity])
           | Some _ => run_calls recheck inplace s (map (bcall_op e) calls)
           end
      else (s, [BadBurst])
  | During add e q i =>
      let '(s1, o1) := step_base recheck inplace s (ent_op add e) in
      let '(s2, o2) := step_base recheck inplace s1 (inner_op i) in
      (s2, Len (N.of_nat (length o1)) :: o1 ++ o2)
  | _ => step_base recheck inplace s o
  end.

Definition step := step_gen true false.
Definition step_pinned := step_gen false false.       (* GetOrAddFeature without the second look *)
Definition step_inplace := step_gen true true.        (* RemoveEntity compacting in place *)

Fixpoint run_gen (recheck inplace : bool) (s : st) (ops : list op) : st * list (op * list obs) :=
  match ops with
  | [] => (s, [])
  | o :: r =>
      let '(s1, out) := step_gen recheck inplace s o in
      let '(s2, tr) := run_gen recheck inplace s1 r in
      (s2, (o, out) :: tr)
  end.

Definition run := run_gen true false.
Definition run_pinned := run_gen false false.
Definition run_inplace := run_gen true true.

(* ---- wire encoding ----
   op:  0 e ty | 1 e | 2 e | 3 e ty role desc (fn r w ps)* | 4 e fid fn r w ps | 5 e | 6 e ty role |
        7 t e ty role | 8 t | 9 p c | 10 p c | 11 p | 12 t p | 13 t |
        14 e (kind ty role)*   kind 0 BNext (ty role ignored) 1 BAdd 2 BGet |
        15 add e q kind p      kind 0 IRead 1 IReconnect | 16 p | 17 e fid d
   obs: 0 Created 1 Exists 2 NoEntity 3 AlreadyMember | 4 id | 5 id new | 6 Miss 7 NoThread 8 BusyT | 9 ok |
        10 p c ok | 11 p ok | 12 e ty lsc | 13 e id ty role desc rid rty rrole | 14 fn r rp w wp | 15 REnd |
        16 p | 17 OkDone 18 NoFeature | 19 Parked 20 ReadPanicked | 21 BadBurst | 22 n Len | 23 Blocked *)
Fixpoint parse_fns (l : list Z) : option (list fnspec) :=
  match l with
  | [] => Some []
  | fn :: r :: w :: ps :: rest =>
      match parse_fns rest with
      | Some x => Some ((Nz fn, bZ r, bZ w, bZ ps) :: x)
      | None => None
      end
  | _ => None
  end.

Fixpoint parse_calls (l : list Z) : option (list bcall) :=
  match l with
  | [] => Some []
  | k :: ty :: role :: rest =>
      match parse_calls rest with
      | Some x =>
          if Z.eqb k 0 then Some (BNext :: x)
          else if Z.eqb k 1 then Some (BAdd (Nz ty) (Nz role) :: x)
          else if Z.eqb k 2 then Some (BGet (Nz ty) (Nz role) :: x)
          else None
      | None => None
      end
  | _ => None
  end.

Definition parse_op (l : list Z) : option op :=
  match l with
  | [0; Zpos e; ty] => Some (NewEntity e (Nz ty))
  | [1; Zpos e] => Some (AddEntity e)
  | [2; Zpos e] => Some (RemoveEntity e)
  | 3 :: e :: ty :: role :: desc :: fns =>
      match parse_fns fns with
      | Some x => Some (AddFeature (Nz e) (Nz ty) (Nz role) (Nz desc) x)
      | None => None
      end
  | [4; e; fid; fn; r; w; ps] => Some (AddFunction (Nz e) (Nz fid) (Nz fn) (bZ r) (bZ w) (bZ ps))
  | [5; e] => Some (NextId (Nz e))
  | [6; e; ty; role] => Some (GetOrAdd (Nz e) (Nz ty) (Nz role))
  | [7; t; e; ty; role] => Some (GLookup (Nz t) (Nz e) (Nz ty) (Nz role))
  | [8; t] => Some (GCreate (Nz t))
  | [9; p; c] => Some (Subscribe (Nz p) (Nz c))
  | [10; p; c] => Some (Unsubscribe (Nz p) (Nz c))
  | [11; p] => Some (Read (Nz p))
  | [12; t; p] => Some (ReadBegin (Nz t) (Nz p))
  | [13; t] => Some (ReadEnd (Nz t))
  | [15; add; Zpos e; q; k; p] =>
      if Z.eqb k 0 then Some (During (bZ add) e (Nz q) (IRead (Nz p)))
      else if Z.eqb k 1 then Some (During (bZ add) e (Nz q) (IReconnect (Nz p)))
      else None
  | [16; p] => Some (Reconnect (Nz p))
  | [17; e; fid; d] => Some (SetDescr (Nz e) (Nz fid) (Nz d))
  | 14 :: e :: calls =>
      match parse_calls calls with
      | Some x => Some (Burst (Nz e) x)
      | None => None
      end
  | _ => None
  end.

Definition print_obs (o : obs) : list Z :=
  match o with
  | Created => [0]
  | Exists => [1]
  | NoEntity => [2]
  | AlreadyMember => [3]
  | FeatId id => [4; Zn id]
  | GRet id new => [5; Zn id; Zb new]
  | Miss => [6]
  | NoThread => [7]
  | BusyT => [8]
  | SubRes ok => [9; Zb ok]
  | NBegin p c ok => [10; Zn p; Zn c; Zb ok]
  | RBegin p ok => [11; Zn p; Zb ok]
  | REnt e ty lsc => [12; Zn e; Zn ty; Zn lsc]
  | RFeat e id ty role desc rid rty rrole => [13; Zn e; Zn id; Zn ty; Zn role; Zn desc; Zn rid; Zn rty; Zn rrole]
  | RFn fn r rp w wp => [14; Zn fn; Zb r; Zb rp; Zb w; Zb wp]
  | REnd => [15]
  | Other p => [16; Zn p]
  | OkDone => [17]
  | NoFeature => [18]
  | Parked => [19]
  | ReadPanicked => [20]
  | BadBurst => [21]
  | Len n => [22; Zn n]
  | Blocked => [23]
  end.

Definition parse_obs (l : list Z) : option obs :=
  match l with
  | [0] => Some Created
  | [1] => Some Exists
  | [2] => Some NoEntity
  | [3] => Some AlreadyMember
  | [4; id] => Some (FeatId (Nz id))
  | [5; id; new] => Some (GRet (Nz id) (bZ new))
  | [6] => Some Miss
  | [7] => Some NoThread
  | [8] => Some BusyT
  | [9; ok] => Some (SubRes (bZ ok))
  | [10; p; c; ok] => Some (NBegin (Nz p) (Nz c) (bZ ok))
  | [11; p; ok] => Some (RBegin (Nz p) (bZ ok))
  | [12; e; ty; lsc] => Some (REnt (Nz e) (Nz ty) (Nz lsc))
  | [13; e; id; ty; role; desc; rid; rty; rrole] =>
      Some (RFeat (Nz e) (Nz id) (Nz ty) (Nz role) (Nz desc) (Nz rid) (Nz rty) (Nz rrole))
  | [14; fn; r; rp; w; wp] => Some (RFn (Nz fn) (bZ r) (bZ rp) (bZ w) (bZ wp))
  | [15] => Some REnd
  | [16; p] => Some (Other (Nz p))
  | [17] => Some OkDone
  | [18] => Some NoFeature
  | [19] => Some Parked
  | [20] => Some ReadPanicked
  | [21] => Some BadBurst
  | [22; n] => Some (Len (Nz n))
  | [23] => Some Blocked
  | _ => None
  end.
