(* C12 — executable model of the write-approval bookkeeping of spine/feature_local.go:
     HandleMessage (write branch), addPendingApproval (one time.AfterFunc timer per pending
     write), processWriteApprovalCallbacks, ApproveOrDenyWrite, CleanWriteApprovalCaches
     (called by DeviceLocal.RemoveRemoteDevice), processWrite.
   No proofs here.

   The model is a scheduled one: every critical section / window boundary is one atomic
   step and the schedule is the operation list itself, so "forall ops" is "for all
   histories and all interleavings".  Atomic steps:

     Arrive p c ack    peer p's authorised write with msgCounter c reaches HandleMessage:
                       the timer is created, the pending entry stored, every callback spawned
     Lookup p c cb a   callback cb calls ApproveOrDenyWrite(msg, approve = a): first critical
                       section (pending entry looked up under muxResponseCB); the goroutine
                       then stands at the hook "ApproveOrDenyWrite.lookedup"
     Commit p c cb     the rest of that call (tally under muxWriteReceived, timer.Stop,
                       delete, processWrite or error result)
     Expire p c        the approval timeout of the write elapses: the runtime takes the timer
                       off its heap (from now on Stop reports false) and starts its body,
                       which stands at the hook verifApprovalTimer(0, ...)
     Fire p c          the body of the timer runs (delete the pending entry, error result)
     Clean p           DeviceLocal.RemoveRemoteDevice(ski p) -> CleanWriteApprovalCaches
     AddCb             AddWriteApprovalCallback
     Probe             read the bookkeeping maps and the function data (state projection: the pending
                       entries, the tally entries of writes of connected peers, the data; a tally entry
                       left behind for a removed connection has no effect, the stack drops it with the
                       SKI's map at the next clean-up of that SKI, and it is not projected)

   Identifiers: a peer (SKI) is a number, a write is the pair (peer, msgCounter); the value
   a write carries is unique to it, so the function data is "the write applied last".

   [step_gen f] is parameterised by which of the four repairs are present; [step] is the
   repaired code (all four), [step_pinned] the code as pinned (none):
     f_tally  ApproveOrDenyWrite creates writeApprovalReceived[ski] only when it is missing
              (pinned: re-created whenever the counter has no entry, wiping the tallies of
              the peer's other pending writes)
     f_stop   ApproveOrDenyWrite gives up when timer.Stop() reports that the timer already
              fired or was stopped (pinned: result ignored)
     f_clean  CleanWriteApprovalCaches stops the timers it forgets (pinned: not stopped)
     f_body   the timer body answers only if it still finds (and removes) the pending entry
              (pinned: always sends the error result)

   Environment discipline (what the harness never does; such operations are [Skipped]):
   callbacks are registered before the first write arrives; (peer, msgCounter) pairs are
   not reused; a write arrives only from a connected peer; a callback gives at most one
   verdict per write and only for a write it was presented; the timeout of a write elapses
   once. *)
From Verif Require Import Base.Prelude.

Definition wid := (N * N)%type.          (* (peer, msgCounter) *)
Definition vid := (wid * N)%type.        (* one verdict call: (write, callback) *)

Definition weqb (a b : wid) : bool := N.eqb (fst a) (fst b) && N.eqb (snd a) (snd b).
Definition veqb (a b : vid) : bool := weqb (fst a) (fst b) && N.eqb (snd a) (snd b).

(* association lists over a key with a boolean equality *)
Section Keyed.
  Context {K : Type} (keqb : K -> K -> bool).
  Definition kmem (k : K) (l : list K) : bool := existsb (keqb k) l.
  Definition kdel (k : K) (l : list K) : list K := filter (fun x => negb (keqb k x)) l.
  Fixpoint kassoc {A} (k : K) (l : list (K * A)) : option A :=
    match l with
    | [] => None
    | (k', a) :: r => if keqb k k' then Some a else kassoc k r
    end.
  Definition kremove {A} (k : K) (l : list (K * A)) : list (K * A) :=
    filter (fun x => negb (keqb k (fst x))) l.
  Definition kset {A} (k : K) (a : A) (l : list (K * A)) : list (K * A) := (k, a) :: kremove k l.
End Keyed.

Definition wmem := kmem weqb.
Definition wdel := kdel weqb.
Definition wassoc {A} := @kassoc wid weqb A.
Definition wremove {A} := @kremove wid weqb A.
Definition wset {A} := @kset wid weqb A.
Definition vmem := kmem veqb.
Definition vassoc {A} := @kassoc vid veqb A.
Definition vremove {A} := @kremove vid veqb A.

Definition of_peer (p : N) (w : wid) : bool := N.eqb (fst w) p.

(* ---- operations and observations ---- *)
Inductive op :=
| AddCb
| Arrive (p c : N) (ack : bool) (slot : N)   (* slot: real-time hint for the harness only *)
| Lookup (p c cb : N) (appr : bool)
| Commit (p c cb : N)
| Expire (p c : N)
| Fire (p c : N)
| Clean (p : N)
| Probe.

Inductive obs :=
| Skipped                            (* operation outside the discipline / step not runnable: nothing done *)
| Presented (cb p c : N)             (* callback cb was invoked with the write *)
| Result (p c e : N)                 (* result datagram to peer p for msgCounter c: 0 success, 1 timeout, 7 denied *)
| Applied (p c : N)                  (* the write was stored (data-change event of the write) *)
| Parked                             (* the verdict goroutine stands at ApproveOrDenyWrite.lookedup *)
| Returned                           (* the ApproveOrDenyWrite call returned *)
| TimerFired                         (* the timer body started (stands at its first hook) *)
| NoTimer                            (* no timer body started although the timeout elapsed *)
| PendingLeft (p : N) (n : N)        (* bookkeeping entries of peer p after RemoveRemoteDevice *)
| PendingEntry (p c : N)             (* Probe: key of pendingWriteApprovals *)
| TallyEntry (p c : N) (n : N)       (* Probe: entry of writeApprovalReceived *)
| DataIs (p c : N)                   (* Probe: the function data is the value of write (p, c) *)
| DataNone                           (* Probe: the function data was never written *)
| Sent (p k : N)                     (* any other datagram written to peer p (never expected) *)
| Drift                              (* the function data changed without a data-change event (never expected) *)
| Stuck (k : N)                      (* a call into the stack did not return within the watchdog's bound (never expected);
                                        k = kind of step: 1 inbound write, 2 verdict lookup, 3 verdict commit, 5 timer body,
                                        6 RemoveRemoteDevice, 7 bookkeeping accessor *)
| Panicked (k : N).                  (* a call into the stack panicked (recovered by the runner; never expected); k as for Stuck *)

Definition E_TIMEOUT : N := 1.       (* model.ErrorNumberTypeGeneralError, NewErrorTypeFromString *)
Definition E_DENIED : N := 7.        (* the error number the denying callbacks of the harness pass *)

(* ---- the environment's bookkeeping (discipline) ---- *)
Record disc := {
  d_ncb : nat;                       (* registered callbacks *)
  d_arr : list (wid * bool);         (* writes that arrived, with their ackRequest flag *)
  d_verd : list vid;                 (* verdict calls begun *)
  d_gone : list N;                   (* peers whose connection was removed *)
  d_exp : list wid                   (* writes whose timeout has elapsed *)
}.

Definition dinit : disc := {| d_ncb := 0; d_arr := []; d_verd := []; d_gone := []; d_exp := [] |}.

Definition arrived (w : wid) (d : disc) : bool :=
  match wassoc w (d_arr d) with Some _ => true | None => false end.
Definition ack_of (w : wid) (d : disc) : bool :=
  match wassoc w (d_arr d) with Some a => a | None => false end.
Definition gone (p : N) (d : disc) : bool := memN p (d_gone d).

Definition d_ok (d : disc) (o : op) : bool :=
  match o with
  | AddCb => match d_arr d with [] => true | _ => false end
  | Arrive p c _ _ => negb (gone p d) && negb (arrived (p, c) d)
  | Lookup p c cb _ => arrived (p, c) d && Nat.ltb (N.to_nat cb) (d_ncb d) && negb (vmem ((p, c), cb) (d_verd d))
  | Commit _ _ _ => true             (* runnable iff the goroutine stands at the hook: decided by the state *)
  | Expire p c => arrived (p, c) d && negb (wmem (p, c) (d_exp d))
  | Fire _ _ => true                 (* runnable iff the timer body stands at its hook *)
  | Clean p => negb (gone p d)
  | Probe => true
  end.

Definition d_next (d : disc) (o : op) : disc :=
  match o with
  | AddCb => {| d_ncb := S (d_ncb d); d_arr := d_arr d; d_verd := d_verd d; d_gone := d_gone d; d_exp := d_exp d |}
  | Arrive p c ack _ => {| d_ncb := d_ncb d; d_arr := ((p, c), ack) :: d_arr d; d_verd := d_verd d; d_gone := d_gone d; d_exp := d_exp d |}
  | Lookup p c cb _ => {| d_ncb := d_ncb d; d_arr := d_arr d; d_verd := ((p, c), cb) :: d_verd d; d_gone := d_gone d; d_exp := d_exp d |}
  | Expire p c => {| d_ncb := d_ncb d; d_arr := d_arr d; d_verd := d_verd d; d_gone := d_gone d; d_exp := (p, c) :: d_exp d |}
  | Clean p => {| d_ncb := d_ncb d; d_arr := d_arr d; d_verd := d_verd d; d_gone := p :: d_gone d; d_exp := d_exp d |}
  | Commit _ _ _ | Fire _ _ | Probe => d
  end.

(* ---- the state of the feature ---- *)
Inductive tstate :=
| TRun                               (* on the runtime's timer heap: Stop() = true *)
| TExp                               (* expired: body started, standing at its first hook; Stop() = false *)
| TDone                              (* body finished *)
| TStop.                             (* stopped before it expired *)

Definition is_run (t : option tstate) : bool := match t with Some TRun => true | _ => false end.

Record st := {
  dz : disc;
  pending : list wid;                (* keys of pendingWriteApprovals (the value is the write's timer) *)
  tally : list (wid * nat);          (* writeApprovalReceived *)
  timers : list (wid * tstate);      (* every timer ever created, by its write *)
  parked : list (vid * bool);        (* verdict goroutines between lookup and commit, with err.ErrorNumber == 0 *)
  data : option wid                  (* the function data: the write applied last *)
}.

Definition init : st := {| dz := dinit; pending := []; tally := []; timers := []; parked := []; data := None |}.

Record fixes := { f_tally : bool; f_stop : bool; f_clean : bool; f_body : bool }.
Definition repaired : fixes := {| f_tally := true; f_stop := true; f_clean := true; f_body := true |}.
Definition pinned : fixes := {| f_tally := false; f_stop := false; f_clean := false; f_body := false |}.

Definition tally_get (w : wid) (l : list (wid * nat)) : nat :=
  match wassoc w l with Some k => k | None => O end.

Definition drop_peer {A} (p : N) (l : list (wid * A)) : list (wid * A) :=
  filter (fun x => negb (of_peer p (fst x))) l.

(* the success result of processWrite, sent when the write asked for an acknowledgement *)
Definition ack_result (ack : bool) (w : wid) : list obs :=
  if ack then [Result (fst w) (snd w) 0] else [].

Definition presented (n : nat) (w : wid) : list obs :=
  map (fun cb => Presented (N.of_nat cb) (fst w) (snd w)) (seq 0 n).

(* the timers CleanWriteApprovalCaches(ski p) stops when repaired: those of p's pending entries *)
Definition stop_pending (p : N) (pd : list wid) (tm : list (wid * tstate)) : list (wid * tstate) :=
  map (fun x => match snd x with
                | TRun => if of_peer p (fst x) && wmem (fst x) pd then (fst x, TStop) else x
                | _ => x
                end) tm.

Definition left_of (p : N) (pd : list wid) (tl : list (wid * nat)) : N :=
  N.of_nat (length (filter (of_peer p) pd) + length (filter (fun x => of_peer p (fst x)) tl)).

Definition step_gen (f : fixes) (s : st) (o : op) : st * list obs :=
  if negb (d_ok (dz s) o) then (s, [Skipped]) else
  let d := d_next (dz s) o in
  match o with
  | AddCb =>
      ({| dz := d; pending := pending s; tally := tally s; timers := timers s; parked := parked s; data := data s |}, [])
  | Arrive p c ack _ =>
      let w := (p, c) in
      match d_ncb d with
      | O => (* no callback: HandleMessage calls processWrite directly *)
          ({| dz := d; pending := pending s; tally := tally s; timers := timers s; parked := parked s; data := Some w |},
           ack_result ack w ++ [Applied p c])
      | S _ => (* addPendingApproval; processWriteApprovalCallbacks *)
          ({| dz := d; pending := pending s ++ [w]; tally := tally s; timers := wset w TRun (timers s);
              parked := parked s; data := data s |},
           presented (d_ncb d) w)
      end
  | Lookup p c cb a =>
      let w := (p, c) in
      if wmem w (pending s)
      then ({| dz := d; pending := pending s; tally := tally s; timers := timers s;
               parked := parked s ++ [((w, cb), a)]; data := data s |}, [Parked])
      else ({| dz := d; pending := pending s; tally := tally s; timers := timers s; parked := parked s; data := data s |},
            [Returned])
  | Commit p c cb =>
      let w := (p, c) in
      match vassoc (w, cb) (parked s) with
      | None => (s, [Skipped])
      | Some a =>
          let pk := vremove (w, cb) (parked s) in
          let n := d_ncb d in
          (* "do we have enough approvals?" *)
          let tl := if Nat.ltb 1 n && a
                    then match wassoc w (tally s) with
                         | Some k => wset w (S k) (tally s)
                         | None => wset w 1%nat (if f_tally f then tally s else drop_peer p (tally s))
                         end
                    else tally s in
          if Nat.ltb 1 n && a && Nat.ltb (tally_get w tl) n
          then ({| dz := d; pending := pending s; tally := tl; timers := timers s; parked := pk; data := data s |}, [Returned])
          else
            (* timer.Stop(); delete(writeApprovalReceived[ski], counter) *)
            let stopped := is_run (wassoc w (timers s)) in
            let tm := if stopped then wset w TStop (timers s) else timers s in
            let tl2 := wremove w tl in
            if f_stop f && negb stopped
            then ({| dz := d; pending := pending s; tally := tl2; timers := tm; parked := pk; data := data s |}, [Returned])
            else
              let pd := wdel w (pending s) in
              if a
              then ({| dz := d; pending := pd; tally := tl2; timers := tm; parked := pk; data := Some w |},
                    ack_result (ack_of w d) w ++ [Applied p c; Returned])
              else ({| dz := d; pending := pd; tally := tl2; timers := tm; parked := pk; data := data s |},
                    [Result p c E_DENIED; Returned])
      end
  | Expire p c =>
      let w := (p, c) in
      if is_run (wassoc w (timers s))
      then ({| dz := d; pending := pending s; tally := tally s; timers := wset w TExp (timers s);
               parked := parked s; data := data s |}, [TimerFired])
      else ({| dz := d; pending := pending s; tally := tally s; timers := timers s; parked := parked s; data := data s |},
            [NoTimer])
  | Fire p c =>
      let w := (p, c) in
      match wassoc w (timers s) with
      | Some TExp =>
          let tm := wset w TDone (timers s) in
          if f_body f && negb (wmem w (pending s))
          then ({| dz := d; pending := pending s; tally := tally s; timers := tm; parked := parked s; data := data s |}, [])
          else ({| dz := d; pending := wdel w (pending s); tally := tally s; timers := tm; parked := parked s; data := data s |},
                [Result p c E_TIMEOUT])
      | _ => (s, [Skipped])
      end
  | Clean p =>
      let tm := if f_clean f then stop_pending p (pending s) (timers s) else timers s in
      let pd := filter (fun w => negb (of_peer p w)) (pending s) in
      let tl := drop_peer p (tally s) in
      ({| dz := d; pending := pd; tally := tl; timers := tm; parked := parked s; data := data s |},
       [PendingLeft p (left_of p pd tl)])
  | Probe =>
      (s, map (fun w => PendingEntry (fst w) (snd w)) (pending s) ++
          map (fun x => TallyEntry (fst (fst x)) (snd (fst x)) (N.of_nat (snd x)))
              (filter (fun x => negb (gone (fst (fst x)) (dz s))) (tally s)) ++
          [match data s with Some w => DataIs (fst w) (snd w) | None => DataNone end])
  end.

Definition step := step_gen repaired.
Definition step_pinned := step_gen pinned.

Fixpoint run_gen (f : fixes) (s : st) (ops : list op) : st * list (op * list obs) :=
  match ops with
  | [] => (s, [])
  | o :: r =>
      let '(s1, out) := step_gen f s o in
      let '(s2, tr) := run_gen f s1 r in
      (s2, (o, out) :: tr)
  end.

Definition run := run_gen repaired.
Definition run_pinned := run_gen pinned.

(* ---- wire encoding ----
   op:  0                 AddCb
        1 p c ack slot    Arrive
        2 p c cb a        Lookup
        3 p c cb          Commit
        4 p c             Expire
        5 p c             Fire
        6 p               Clean
        7                 Probe
   obs: 0 Skipped, 1 cb p c Presented, 2 p c e Result, 3 p c Applied, 4 Parked, 5 Returned,
        6 TimerFired, 7 NoTimer, 8 p n PendingLeft, 9 p c PendingEntry, 10 p c n TallyEntry,
        11 p c DataIs, 12 DataNone, 13 p k Sent, 14 Drift, 15 k Stuck, 16 k Panicked.
   Within one operation the observations are listed in ascending order of this encoding. *)
Definition parse_op (l : list Z) : option op :=
  match l with
  | [0] => Some AddCb
  | [1; p; c; ack; slot] => Some (Arrive (Nz p) (Nz c) (bZ ack) (Nz slot))
  | [2; p; c; cb; a] => Some (Lookup (Nz p) (Nz c) (Nz cb) (bZ a))
  | [3; p; c; cb] => Some (Commit (Nz p) (Nz c) (Nz cb))
  | [4; p; c] => Some (Expire (Nz p) (Nz c))
  | [5; p; c] => Some (Fire (Nz p) (Nz c))
  | [6; p] => Some (Clean (Nz p))
  | [7] => Some Probe
  | _ => None
  end.

Definition print_obs (o : obs) : list Z :=
  match o with
  | Skipped => [0]
  | Presented cb p c => [1; Zn cb; Zn p; Zn c]
  | Result p c e => [2; Zn p; Zn c; Zn e]
  | Applied p c => [3; Zn p; Zn c]
  | Parked => [4]
  | Returned => [5]
  | TimerFired => [6]
  | NoTimer => [7]
  | PendingLeft p n => [8; Zn p; Zn n]
  | PendingEntry p c => [9; Zn p; Zn c]
  | TallyEntry p c n => [10; Zn p; Zn c; Zn n]
  | DataIs p c => [11; Zn p; Zn c]
  | DataNone => [12]
  | Sent p k => [13; Zn p; Zn k]
  | Drift => [14]
  | Stuck k => [15; Zn k]
  | Panicked k => [16; Zn k]
  end.

Definition parse_obs (l : list Z) : option obs :=
  match l with
  | [0] => Some Skipped
  | [1; cb; p; c] => Some (Presented (Nz cb) (Nz p) (Nz c))
  | [2; p; c; e] => Some (Result (Nz p) (Nz c) (Nz e))
  | [3; p; c] => Some (Applied (Nz p) (Nz c))
  | [4] => Some Parked
  | [5] => Some Returned
  | [6] => Some TimerFired
  | [7] => Some NoTimer
  | [8; p; n] => Some (PendingLeft (Nz p) (Nz n))
  | [9; p; c] => Some (PendingEntry (Nz p) (Nz c))
  | [10; p; c; n] => Some (TallyEntry (Nz p) (Nz c) (Nz n))
  | [11; p; c] => Some (DataIs (Nz p) (Nz c))
  | [12] => Some DataNone
  | [13; p; k] => Some (Sent (Nz p) (Nz k))
  | [14] => Some Drift
  | [15; k] => Some (Stuck (Nz k))
  | [16; k] => Some (Panicked (Nz k))
  | _ => None
  end.
