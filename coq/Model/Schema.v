(* C02/C04/C11 — the schema of a list data type as the generic update engine of
   spine-go sees it by reflection (model/update.go, collection_operations.go,
   commandframe_additions.go).  Instances are generated into Gen/GenSchemas.v
   from the compiled types of /repo.  No proofs here. *)
From Verif Require Import Base.Prelude.

(* kind of one field of the element struct *)
Inductive kind :=
| KUint            (* pointer to a reflect.Uint *)
| KString          (* pointer to a string *)
| KBool            (* pointer to a bool *)
| KStruct          (* pointer to a struct *)
| KStructHelper    (* pointer to a struct implementing model.UpdateHelper *)
| KSlice           (* slice field: nillable, but not a pointer (never a key, never selectable) *)
| KOtherPtr        (* pointer to any other scalar (uint8, int, ...) *)
| KNonNil.         (* not nillable: CopyNonNilDataFromItemToItem would panic on it *)

Definition kind_eqb (a b : kind) : bool :=
  match a, b with
  | KUint, KUint | KString, KString | KBool, KBool | KStruct, KStruct
  | KStructHelper, KStructHelper | KSlice, KSlice | KOtherPtr, KOtherPtr | KNonNil, KNonNil => true
  | _, _ => false
  end.

(* how one field of the ...SelectorsType struct relates to the element struct
   (FilterData.SelectorMatch) *)
Inductive selk :=
| SIgnore            (* not a pointer, or no element field of that name: never constrains *)
| SField (i : nat)   (* compared with element field i (same pointee type, scalar) *)
| SBad.              (* same name but slice/struct valued or differently typed: panics or compares pointers *)

Record schema := {
  s_kinds : list kind;                   (* one per element field, struct order *)
  s_keys : list nat;                     (* pointer fields tagged eebus:"key", struct order *)
  s_wc : list nat;                       (* pointer fields tagged eebus:"writecheck" *)
  s_sel : option (list selk);            (* None: FilterType has no selectors field for the function *)
  s_elems : option (list (option nat))   (* per ...ElementsType field: the element field of the same name *)
}.

Definition s_nf (s : schema) : nat := length (s_kinds s).
Definition kind_of (s : schema) (i : nat) : kind := nth i (s_kinds s) KNonNil.

Definition empty_schema : schema :=
  {| s_kinds := []; s_keys := []; s_wc := []; s_sel := None; s_elems := None |}.

Fixpoint nodupb (l : list nat) : bool :=
  match l with
  | [] => true
  | x :: r => negb (existsb (Nat.eqb x) r) && nodupb r
  end.

Fixpoint seq_is (start : nat) (l : list (option nat)) : bool :=
  match l with
  | [] => true
  | Some i :: r => Nat.eqb i start && seq_is (S start) r
  | None :: _ => false
  end.

Definition key_kind_ok (k : kind) : bool :=
  match k with KUint | KString | KStructHelper => true | _ => false end.

Definition nillable (k : kind) : bool := match k with KNonNil => false | _ => true end.

Definition selk_ok (s : schema) (x : selk) : bool :=
  match x with
  | SIgnore | SBad => true
  | SField i => Nat.ltb i (s_nf s) &&
      match kind_of s i with KUint | KString | KBool | KOtherPtr => true | _ => false end
  end.

(* the hypotheses of the engine theorems, computed on every generated schema:
   at least one identifier field; identifiers are in range, distinct, of a kind
   hashKey renders, and a struct identifier (rendered by String(), after which
   hashKey stops) is the last one; at most one writecheck field, boolean, not an
   identifier; every field nillable; selector fields refer to scalar fields in
   range; the elements struct mirrors the element struct field by field (else
   RemoveElementFromItem silently does nothing). *)
Definition wf_schema (s : schema) : bool :=
  negb (Nat.eqb (length (s_keys s)) 0) &&
  forallb (fun i => Nat.ltb i (s_nf s) && key_kind_ok (kind_of s i)) (s_keys s) &&
  nodupb (s_keys s) &&
  forallb (fun i => negb (kind_eqb (kind_of s i) KStructHelper)) (removelast (s_keys s)) &&
  match s_wc s with
  | [] => true
  | [w] => Nat.ltb w (s_nf s) && kind_eqb (kind_of s w) KBool && negb (existsb (Nat.eqb w) (s_keys s))
  | _ => false
  end &&
  forallb nillable (s_kinds s) &&
  match s_sel s with None => true | Some l => forallb (selk_ok s) l end &&
  match s_elems s with None => true | Some l => Nat.eqb (length l) (s_nf s) && seq_is 0 l end.
