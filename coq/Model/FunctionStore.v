(* C02/C04/C11 — executable model of the per-function data store:
   spine/function_data.go (FunctionData.UpdateData, DataCopy), the per-type
   UpdateList methods of model/*_additions.go (all of one shape, see
   Gen/GenUpdateWiring.v) and the callers in spine/feature_local.go /
   feature_remote.go, which only choose remoteWrite and persist.  No proofs here.

   This is the value-level (functional) model: what the store holds and what the
   API returns.  Sharing of backing arrays between the store, handed-out copies
   and event payloads is the subject of Model/Slices.v (C11). *)
From Verif Require Import Base.Prelude Model.Schema Model.Update Gen.GenSchemas.

Record upd := {
  u_new : list item;            (* the list carried by the update's data *)
  u_fp : option flt;         (* filterPartial (nil or its content) *)
  u_fd : option flt          (* filterDelete *)
}.

Inductive op :=
| Init (ty : nat) (direct : bool)
    (* start over with registered list type number ty (index into Gen/GenSchemas.all_schemas);
       direct = the history runs a bare data object through its per-type UpdateList
       (no FunctionData around it, hence no replace fast path) *)
| Update (remote persist wire : bool) (u : upd)
    (* FunctionData.UpdateData(remoteWrite, persist, data, filterPartial, filterDelete), reached through
       FeatureLocal.UpdateData/SetData (remote=false, persist=true), FeatureRemote.UpdateData (remote=false),
       an inbound reply/notify (remote=false, persist=true, wire) or an inbound write (remote=true, persist=true, wire) *)
| Snapshot.
    (* DataCopy, the result being kept by the application *)

Inductive obs :=
| Res (code : N)                    (* 0 = success, 1 = error returned, 2 = panic *)
| Ret (l : list item)               (* the data returned by a successful UpdateData / UpdateList *)
| Store (l : option (list item))    (* what DataCopy returns after the operation (None = nil) *)
| Event                             (* a data-change event was published, its payload being the update's data object *)
| Changed (k : N).                  (* C11: the k-th object handed to the application differs from its value at hand-out *)

Record st := {
  sch : schema;
  direct : bool;
  store : option (list item)        (* FunctionData.data: None = nil *)
}.

Definition init : st := {| sch := empty_schema; direct := false; store := None |}.

Definition schema_of (ty : nat) : schema := nth ty all_schemas empty_schema.

Definition is_full (persist : bool) (u : upd) : bool :=
  persist && negb (is_some (u_fp u)) && negb (is_some (u_fd u)).

(* FunctionData.UpdateData; for a direct history the per-type UpdateList alone *)
Definition update_data (s : st) (remote persist : bool) (u : upd) : st * list obs :=
  if negb (direct s) && is_full persist u then
    (* "just set the data" *)
    ({| sch := sch s; direct := direct s; store := Some (u_new u) |}, [Res 0; Ret (u_new u)])
  else
    (* work := cloneData(r.data): an empty T when r.data == nil *)
    let existing := match store s with Some l => l | None => [] end in
    (* [fix C11 functiondata-update-on-copy] the update runs on a copy that owns its list:
       nothing is stored unless it succeeded and persist is set (a nil store stays nil).
       For a direct history (bare data object, no FunctionData) the same holds only for
       updates that succeed and persist, which is all the runners generate there. *)
    match update_list (sch s) remote existing (u_new u) (u_fp u) (u_fd u) with
    | Panic => (s, [Res 2])
    | Ok (_, false) => (s, [Res 1])
    | Ok (d, true) =>
        (if persist then {| sch := sch s; direct := direct s; store := Some d |} else s, [Res 0; Ret d])
    end.

Definition step (s : st) (o : op) : st * list obs :=
  match o with
  | Init ty d =>
      ({| sch := schema_of ty; direct := d; store := if d then Some [] else None |}, [])
  | Update remote persist wire u =>
      let '(s1, out) := update_data s remote persist u in
      (s1, out ++ [Store (store s1)] ++
           (match out with Res 0 :: _ => if wire then [Event] else [] | _ => [] end))
  | Snapshot => (s, [Store (store s)])
  end.

Fixpoint run (s : st) (ops : list op) : st * list (op * list obs) :=
  match ops with
  | [] => (s, [])
  | o :: r =>
      let '(s1, out) := step s o in
      let '(s2, tr) := run s1 r in
      (s2, (o, out) :: tr)
  end.

(* ---- wire encoding (self-describing: field counts travel with the data) ----
   op:   0 ty direct family      (family: which API the harness drives, see harness/upd/world.go; not used by the model)
         1 remote persist wire <items> <filter partial> <filter delete>
         2
   <items>  = n nf, then n items of nf numbers each (0 = nil, v+1 = value v)
   <filter> = 0 (nil) | 1 hs he ns ne <ns numbers> <ne numbers 0/1>
              (hs/he: selectors / elements struct present, ns/ne their field counts, 0 when absent)
   obs:  10 code | 11 <items> | 12 0 | 12 1 <items> | 13 | 14 k *)

Definition of_z (z : Z) : option N := if Z.eqb z 0 then None else Some (Nz (z - 1)).
Definition to_z (o : option N) : Z := match o with None => 0 | Some v => Zn v + 1 end.

Fixpoint take_items (nf : nat) (n : nat) (l : zs) : option (list item * zs) :=
  match n with
  | O => Some ([], l)
  | S n' =>
      if Nat.ltb (length l) nf then None
      else match take_items nf n' (skipn nf l) with
           | Some (r, rest) => Some (map of_z (firstn nf l) :: r, rest)
           | None => None
           end
  end.

Definition parse_items (l : zs) : option (list item * zs) :=
  match l with
  | n :: nf :: r => if Z.ltb n 0 || Z.ltb nf 0 then None else take_items (Z.to_nat nf) (Z.to_nat n) r
  | _ => None
  end.

Definition parse_filter (l : zs) : option (option flt * zs) :=
  match l with
  | 0 :: r => Some (None, r)
  | 1 :: hs :: he :: zns :: zne :: r =>
      if Z.ltb zns 0 || Z.ltb zne 0 then None else
      let ns := if bZ hs then Z.to_nat zns else O in
      let ne := if bZ he then Z.to_nat zne else O in
      if Nat.ltb (length r) (ns + ne) then None
      else
        let selv := firstn ns r in
        let elv := firstn ne (skipn ns r) in
        Some (Some {| f_sel := if bZ hs then Some (map of_z selv) else None;
                      f_elems := if bZ he then Some (map bZ elv) else None |},
              skipn (ns + ne) r)
  | _ => None
  end.

Definition parse_op (l : zs) : option op :=
  match l with
  | [0; ty; d; _] => if Z.ltb ty 0 then None else Some (Init (Z.to_nat ty) (bZ d))
  | 1 :: remote :: persist :: wire :: r =>
      match parse_items r with
      | Some (new, r1) =>
          match parse_filter r1 with
          | Some (fp, r2) =>
              match parse_filter r2 with
              | Some (fd, []) => Some (Update (bZ remote) (bZ persist) (bZ wire) {| u_new := new; u_fp := fp; u_fd := fd |})
              | _ => None
              end
          | None => None
          end
      | None => None
      end
  | [2] => Some Snapshot
  | _ => None
  end.

(* the field count travels with the list; an empty list is printed with the field count 0 *)
Definition print_items (l : list item) : zs :=
  Z.of_nat (length l) :: Z.of_nat (match l with x :: _ => length x | [] => 0 end) :: flat_map (map to_z) l.

Definition print_obs (o : obs) : zs :=
  match o with
  | Res c => [10; Zn c]
  | Ret l => 11 :: print_items l
  | Store None => [12; 0]
  | Store (Some l) => 12 :: 1 :: print_items l
  | Event => [13]
  | Changed k => [14; Zn k]
  end.

Definition parse_obs (l : zs) : option obs :=
  match l with
  | [10; c] => Some (Res (Nz c))
  | 11 :: r => match parse_items r with Some (it, []) => Some (Ret it) | _ => None end
  | [12; 0] => Some (Store None)
  | 12 :: 1 :: r => match parse_items r with Some (it, []) => Some (Store (Some it)) | _ => None end
  | [13] => Some Event
  | [14; k] => Some (Changed (Nz k))
  | _ => None
  end.
