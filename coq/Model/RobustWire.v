(* C05 — integer wire encoding of Model/Robust.v for the correspondence harness
   (harness/cmd/c05/abs.go writes exactly this format).  No proofs. *)
From Verif Require Import Base.Prelude Model.Robust.

Definition P (A : Type) := list Z -> option (A * list Z).

Definition pN : P N := fun l => match l with x :: r => Some (Nz x, r) | [] => None end.
Definition pB : P bool := fun l => match l with x :: r => Some (bZ x, r) | [] => None end.

Definition pMap {A B} (f : A -> B) (p : P A) : P B :=
  fun l => match p l with Some (a, r) => Some (f a, r) | None => None end.

Definition pOpt {A} (p : P A) : P (option A) :=
  fun l => match l with
           | 0 :: r => Some (None, r)
           | 1 :: r => match p r with Some (a, r') => Some (Some a, r') | None => None end
           | _ => None
           end.

Fixpoint pRep {A} (p : P A) (n : nat) : P (list A) :=
  fun l => match n with
           | O => Some ([], l)
           | S n' => match p l with
                     | Some (a, r) => match pRep p n' r with Some (t, r') => Some (a :: t, r') | None => None end
                     | None => None
                     end
           end.

Definition pList {A} (p : P A) : P (list A) :=
  fun l => match l with n :: r => pRep p (Z.to_nat n) r | [] => None end.

Definition pPair {A B} (pa : P A) (pb : P B) : P (A * B) :=
  fun l => match pa l with
           | Some (a, r) => match pb r with Some (b, r') => Some ((a, b), r') | None => None end
           | None => None
           end.

Definition pFaddr : P faddr :=
  pMap (fun x => match x with (d, (e, f)) => {| fa_dev := d; fa_ent := e; fa_feat := f |} end)
       (pPair (pOpt pN) (pPair (pOpt (pList pN)) (pOpt pN))).

Definition cls_of (z : Z) : option cls :=
  match z with
  | 1 => Some CRead | 2 => Some CReply | 3 => Some CNotify | 4 => Some CWrite | 5 => Some CCall | 6 => Some CResult
  | 7 => Some CUnknown | _ => None
  end.

Definition pCls : P (option cls) := fun l => match l with x :: r => Some (cls_of x, r) | [] => None end.

Definition pHeader : P header :=
  pMap (fun x => match x with (s, (d, (c, (rf, (a, k))))) =>
                   {| h_src := s; h_dst := d; h_ctr := c; h_ref := rf; h_ack := a; h_cls := k |} end)
       (pPair (pOpt pFaddr) (pPair (pOpt pFaddr) (pPair (pOpt pN) (pPair (pOpt pN) (pPair (pOpt pB) pCls))))).

Definition pFilt : P filt :=
  pMap (fun x => match x with (c, (s, (e, (fs, fe)))) => {| f_ctrl := c; f_sel := s; f_elems := e; f_fsel := fs; f_felems := fe |} end)
       (pPair (pOpt (pPair pB pB)) (pPair (pOpt (pOpt pN)) (pPair (pOpt pB) (pPair pB pB)))).

Definition pRegreq : P regreq :=
  pMap (fun x => match x with (c, (s, t)) => {| rq_cli := c; rq_srv := s; rq_type := t |} end)
       (pPair (pOpt pFaddr) (pPair (pOpt pFaddr) (pOpt pN))).

Definition pRegdel : P regdel :=
  pMap (fun x => match x with (c, s) => {| rd_cli := c; rd_srv := s |} end) (pPair (pOpt pFaddr) (pOpt pFaddr)).

Definition state_of (z : Z) : option estate :=
  match z with 1 => Some EAdded | 2 => Some ERemoved | 3 => Some EOther | _ => None end.
Definition role_of (z : Z) : option role :=
  match z with 1 => Some RClient | 2 => Some RServer | 3 => Some RSpecial | 4 => Some ROther | _ => None end.

Definition pEntdesc : P entdesc :=
  pMap (fun x => match x with (a, (t, s)) => {| ed_addr := a; ed_type := t; ed_state := s |} end)
       (pPair (pOpt (pMap (fun y => match y with (d, e) => {| ea_dev := d; ea_ent := e |} end)
                          (pPair (pOpt pN) (pOpt (pList pN)))))
              (pPair (pOpt pN) (fun l => match l with x :: r => Some (state_of x, r) | [] => None end))).

Definition pFeatdesc : P featdesc :=
  pMap (fun x => match x with (a, (t, (r, f))) => {| fd_addr := a; fd_type := t; fd_role := r; fd_fns := f |} end)
       (pPair (pOpt pFaddr) (pPair (pOpt pN)
          (pPair (fun l => match l with x :: r => Some (role_of x, r) | [] => None end) (pList (pPair pB pB))))).

Definition pDevinfo : P (option (option (option N))) :=
  fun l => match l with
           | 0 :: r => Some (None, r)
           | 1 :: r => Some (Some None, r)
           | 2 :: r => match pOpt pN r with Some (a, r') => Some (Some (Some a), r') | None => None end
           | _ => None
           end.

Definition pDisc : P disc :=
  pMap (fun x => match x with (d, (e, f)) => {| d_devinfo := d; d_ents := e; d_feats := f |} end)
       (pPair pDevinfo (pPair (pList (pOpt pEntdesc)) (pList (pOpt pFeatdesc)))).

Definition pCmd : P cmd :=
  pMap (fun x => match x with
                 (fl, (da, (ni, (ids, (rs, (di, (sr, (sd, (sda, (br, (bd, (bda, (uc, dl))))))))))))) =>
                   {| c_filters := fl; c_data := da; c_nitems := ni; c_ids := ids; c_result := rs; c_disc := di;
                      c_subreq := sr; c_subdel := sd; c_subdata := sda; c_bindreq := br; c_binddel := bd;
                      c_binddata := bda; c_usecase := uc; c_destlist := dl |} end)
       (pPair (pList pFilt) (pPair (pOpt pN) (pPair pN (pPair (pList (pOpt pN)) (pPair (pOpt (pOpt pN))
        (pPair (pOpt pDisc) (pPair (pOpt (pOpt pRegreq)) (pPair (pOpt (pOpt pRegdel)) (pPair pB
        (pPair (pOpt (pOpt pRegreq)) (pPair (pOpt (pOpt pRegdel)) (pPair pB (pPair pB pB))))))))))))).

Definition pDgram : P dgram :=
  pMap (fun x => match x with (h, c) => {| dg_hd := h; dg_cmd := c |} end) (pPair pHeader (pOpt pCmd)).

(* [3 p n b1..bn a...]: the n integers packing the payload bytes are skipped *)
Definition parse_op (l : list Z) : option op :=
  match l with
  | [1; p] => Some (Connect (Nz p))
  | [2; p] => Some (Disconnect (Nz p))
  | [4; p; c] => Some (Probe (Nz p) (Nz c))
  | 5 :: p :: _ => Some (Opaque (Nz p))        (* [5 p n b1..bn]: the payload bytes are the implementation's only *)
  | 3 :: p :: n :: r =>
      match skipn (Z.to_nat n) r with
      | [0] => Some (Inbound (Nz p) None)
      | 1 :: a => match pDgram a with
                  | Some (d, []) => Some (Inbound (Nz p) (Some d))
                  | _ => None
                  end
      | _ => None
      end
  | _ => None
  end.

Definition zoptN (o : option N) : list Z := match o with Some v => [1; Zn v] | None => [0] end.

Definition print_obs (o : obs) : list Z :=
  match o with
  | Out (OReply p fn rf) => [1; Zn p; Zn fn] ++ zoptN rf
  | Out (OResult p e rf) => [2; Zn p; Zn e] ++ zoptN rf
  | Out (ONotify p fn) => [3; Zn p; Zn fn]
  | OPanic s => [90; Zn s]
  | OWedge => [91]
  | OBadAbs => [92]
  end.

Definition parse_obs (l : list Z) : option obs :=
  match l with
  | [1; p; fn; 0] => Some (Out (OReply (Nz p) (Nz fn) None))
  | [1; p; fn; 1; r] => Some (Out (OReply (Nz p) (Nz fn) (Some (Nz r))))
  | [2; p; e; 0] => Some (Out (OResult (Nz p) (Nz e) None))
  | [2; p; e; 1; r] => Some (Out (OResult (Nz p) (Nz e) (Some (Nz r))))
  | [3; p; fn] => Some (Out (ONotify (Nz p) (Nz fn)))
  | [90; s] => Some (OPanic (Nz s))
  | [91] => Some OWedge
  | [92] => Some OBadAbs
  | _ => None
  end.
