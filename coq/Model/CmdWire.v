(* C18 — the executable model as a machine for the correspondence harness: the
   command table model and the codec instantiated with the generated tables,
   operations / observations and their integer wire encoding.  No proofs here.

   Operations
     Row ft fn shape data sel el   build the command of [shape] for function [fn]
                                   (registered for feature type [ft]) with the real API,
                                   encode, decode, look at it with Data / ExtractFilter /
                                   FilterType.Data.  [data] is what the function store holds
                                   (VNil: nothing), [sel]/[el] the selector / elements value.
     Codec tid v                   encode the value [v] of struct type [tid], decode it again
     Decode tid j                  decode an arbitrary JSON tree into struct type [tid] *)
From Coq Require Import String Ascii List ZArith NArith Bool.
From Verif Require Import Base.Prelude Model.JsonTy Model.JsonCodec Model.CmdTables.
From Verif Require Import Gen.GenJsonTypes Gen.GenTags Gen.GenFactory.
Import ListNotations.
Local Open Scope Z_scope.
Local Open Scope string_scope.

(* ---- instances over the generated tables ---- *)
Definition T : list sdesc := GenJsonTypes.structs.
Definition cmd_ptags : list ptag := Eval vm_compute in parse_tags GenTags.cmd_tags.
Definition filter_ptags : list ptag := Eval vm_compute in parse_tags GenTags.filter_tags.

(* parametrised by the tag tables and the delete-argument flag so that the pinned
   spellings can be replayed in Coq (Properties/C18.v, refutation examples) *)
Definition build_with (cpt fpt : list ptag) (by_addr : bool) :=
  build T cmd_id filter_id cmdcontrol_id cpt fpt
        cmd_function_idx cmd_filter_idx filter_cmdcontrol_idx cc_delete_idx cc_partial_idx by_addr.
Definition recognise_with (cpt fpt : list ptag) :=
  recognise T cmd_id filter_id cpt fpt cmd_filter_idx filter_cmdcontrol_idx cc_delete_idx cc_partial_idx.
Definition g_build := build_with cmd_ptags filter_ptags delete_arg_by_address.
Definition g_recognise := recognise_with cmd_ptags filter_ptags.
Definition g_wire := over_the_wire T cmd_id.
Definition cmd_ty : ty := TVal (KStruct cmd_id).

Definition fn_at (fn : N) : option fdesc := nth_error functions (N.to_nat fn).

Definition registered_b (ft fn : N) : bool :=
  existsb (fun p => N.eqb (fst p) ft && N.eqb (snd p) fn) registered.

(* index of the first function entry with this name; -2: not a registered function's name *)
Fixpoint fn_index_from (i : Z) (l : list fdesc) (name : string) : Z :=
  match l with
  | [] => -2
  | f :: r => if String.eqb (fn_name f) name then i else fn_index_from (i + 1) r name
  end.
Definition fn_index (name : string) : Z := fn_index_from 0 functions name.

(* ---- deterministic sample values of a type (the finite bound of C18_recognised) ---- *)
Fixpoint sample_k (depth : nat) (k : kind) : value :=
  match k with
  | KBool => VBool true
  | KInt lo hi => VInt (Z.min hi 7)
  | KStr => VStr "s"
  | KBad => VNil
  | KStruct id =>
      VStruct (map (fun f =>
                      match depth with
                      | O => zero T (f_ty f)
                      | S d =>
                          match f_ty f with
                          | TVal k' => sample_k d k'
                          | TPtr k' => sample_k d k'
                          | TSlice k' => VList [sample_k d k']
                          end
                      end) (fields_of T id))
  end.
Definition sample (depth : N) (id : N) : value := sample_k (N.to_nat depth) (KStruct id).
Definition sample_opt (depth : N) (o : option N) : value :=
  match o with Some id => sample depth id | None => VNil end.
Definition sample_depths : list N := [0; 1; 2]%N.

(* ---- operations and observations ---- *)
Inductive op :=
| Row (ft fn shape : N) (data sel el : value)
| Codec (tid : N) (v : value)
| Decode (tid : N) (j : json).

Inductive obs :=
| OJson (j : json)                                  (* the encoded JSON tree *)
| OData (fn : Z) (idx : Z) (tyid : Z) (v : value)   (* CmdType.Data(): function (index by name, -1 none, -2 unknown),
                                                       field position, payload struct id, payload *)
| ONoData                                           (* "Data not found in Cmd" *)
| OFilter (which : N) (present : bool) (fn selty elty : Z) (sel el : value)
                                                    (* which: 0 partial, 1 delete; FilterType.Data(): function
                                                       (-1: error), selector / elements struct id (-1: nil) and value *)
| OValue (v : value)                                (* decoded value *)
| OFail (code : N)                                  (* 17: Unmarshal failed; 18: Marshal failed *)
| OPanic (site : N)                                 (* the builder or ExtractFilter panicked *)
| ONotApplicable                                    (* the function has no selectors / elements type for this shape *)
| OBadRow.                                          (* (ft, fn) is not a registered pair *)

Definition st := unit.
Definition init : st := tt.

Definition obs_of_filter (which : N) (s : filter_seen) : obs :=
  match fs_present s, fs_data s with
  | false, _ => OFilter which false (-1) (-1) (-1) VNil VNil
  | true, None => OFilter which true (-1) (-1) (-1) VNil VNil
  | true, Some d =>
      OFilter which true (fn_index (fd_fct d))
              (match fd_sel d with Some (id, _) => Zn id | None => -1 end)
              (match fd_el d with Some (id, _) => Zn id | None => -1 end)
              (match fd_sel d with Some (_, v) => v | None => VNil end)
              (match fd_el d with Some (_, v) => v | None => VNil end)
  end.

Definition obs_of_data (o : option cmd_data_t) : obs :=
  match o with
  | None => ONoData
  | Some d => OData (match cd_fct d with Some n => fn_index n | None => -1 end)
                    (Z.of_nat (cd_idx d))
                    (match cd_ty d with Some id => Zn id | None => -1 end)
                    (cd_val d)
  end.

Definition opt_data (v : value) : option value := if is_nil v then None else Some v.

Definition step_row_with (cpt fpt : list ptag) (by_addr : bool)
           (ft fn shape : N) (data sel el : value) : list obs :=
  if negb (registered_b ft fn) then [OBadRow] else
  match fn_at fn with
  | None => [OBadRow]
  | Some f =>
      if negb (applicable f shape) then [ONotApplicable] else
      match build_with cpt fpt by_addr f shape (opt_data data) sel el with
      | Panic s => [OPanic s]
      | Ok cmd =>
          let j := enc T cmd_ty (VStruct cmd) in
          match dec T cmd_ty j with
          | Some (VStruct cmd') =>
              match recognise_with cpt fpt cmd' with
              | Panic s => [OJson j; OPanic s]
              | Ok sn => [OJson j; obs_of_data (sn_data sn);
                          obs_of_filter 0 (sn_partial sn); obs_of_filter 1 (sn_delete sn)]
              end
          | _ => [OJson j; OFail 17]
          end
      end
  end.

Definition step_row := step_row_with cmd_ptags filter_ptags delete_arg_by_address.

Definition step (s : st) (o : op) : st * list obs :=
  match o with
  | Row ft fn shape data sel el => (s, step_row ft fn shape data sel el)
  | Codec tid v =>
      let t := TVal (KStruct tid) in
      let j := enc T t v in
      (s, [OJson j; match dec T t j with Some v' => OValue v' | None => OFail 17 end])
  | Decode tid j =>
      (s, [match dec T (TVal (KStruct tid)) j with Some v' => OValue v' | None => OFail 17 end])
  end.

Fixpoint run (s : st) (ops : list op) : st * list (op * list obs) :=
  match ops with
  | [] => (s, [])
  | o :: r =>
      let '(s1, out) := step s o in
      let '(s2, tr) := run s1 r in
      (s2, (o, out) :: tr)
  end.

(* ---- wire encoding of trees as integer lists ----
   value: 0 | 1 b | 2 z | 3 n bytes.. | 4 n items.. (list) | 5 n items.. (struct)
   json:  0 | 1 b | 2 z | 3 n bytes.. | 4 n items.. (array) | 6 n (n' keybytes.. item).. (object) *)
Fixpoint print_str (s : string) : list Z :=
  match s with
  | EmptyString => []
  | String c r => Z.of_N (N_of_ascii c) :: print_str r
  end.
Definition str_len (s : string) : Z := Z.of_nat (String.length s).

Fixpoint print_value (v : value) : list Z :=
  match v with
  | VNil => [0]
  | VBool b => [1; Zb b]
  | VInt z => [2; z]
  | VStr s => 3 :: str_len s :: print_str s
  | VList l => 4 :: Z.of_nat (length l) :: flat_map print_value l
  | VStruct l => 5 :: Z.of_nat (length l) :: flat_map print_value l
  end.

Fixpoint print_json (j : json) : list Z :=
  match j with
  | JNull => [0]
  | JBool b => [1; Zb b]
  | JNum z => [2; z]
  | JStr s => 3 :: str_len s :: print_str s
  | JArr l => 4 :: Z.of_nat (length l) :: flat_map print_json l
  | JObj l => 6 :: Z.of_nat (length l) ::
              (fix go (l : list (string * json)) : list Z :=
                 match l with
                 | [] => []
                 | (k, x) :: r => ((str_len k :: print_str k) ++ print_json x ++ go r)%list
                 end) l
  end.

Fixpoint take_str (n : nat) (l : list Z) : option (string * list Z) :=
  match n with
  | O => Some (EmptyString, l)
  | S n' =>
      match l with
      | [] => None
      | z :: r =>
          if (Z.leb 0 z && Z.ltb z 256)%bool then
            match take_str n' r with
            | Some (s, r') => Some (String (ascii_of_N (Z.to_N z)) s, r')
            | None => None
            end
          else None
      end
  end.

(* a count read from the wire is usable only if that many items can follow *)
Definition count (n : Z) (l : list Z) : option nat :=
  if (Z.leb 0 n && Z.leb n (Z.of_nat (length l)))%bool then Some (Z.to_nat n) else None.

Fixpoint parse_value (fuel : nat) (l : list Z) {struct fuel} : option (value * list Z) :=
  match fuel with
  | O => None
  | S fu =>
      let many := fix many (n : nat) (l : list Z) {struct n} : option (list value * list Z) :=
        match n with
        | O => Some ([], l)
        | S n' =>
            match parse_value fu l with
            | Some (v, l') =>
                match many n' l' with
                | Some (vs, l'') => Some (v :: vs, l'')
                | None => None
                end
            | None => None
            end
        end in
      match l with
      | 0 :: r => Some (VNil, r)
      | 1 :: b :: r => Some (VBool (bZ b), r)
      | 2 :: z :: r => Some (VInt z, r)
      | 3 :: n :: r =>
          match count n r with
          | Some k => match take_str k r with Some (s, r') => Some (VStr s, r') | None => None end
          | None => None
          end
      | 4 :: n :: r =>
          match count n r with
          | Some k => match many k r with Some (vs, r') => Some (VList vs, r') | None => None end
          | None => None
          end
      | 5 :: n :: r =>
          match count n r with
          | Some k => match many k r with Some (vs, r') => Some (VStruct vs, r') | None => None end
          | None => None
          end
      | _ => None
      end
  end.

Fixpoint parse_json (fuel : nat) (l : list Z) {struct fuel} : option (json * list Z) :=
  match fuel with
  | O => None
  | S fu =>
      let many := fix many (n : nat) (l : list Z) {struct n} : option (list json * list Z) :=
        match n with
        | O => Some ([], l)
        | S n' =>
            match parse_json fu l with
            | Some (v, l') =>
                match many n' l' with
                | Some (vs, l'') => Some (v :: vs, l'')
                | None => None
                end
            | None => None
            end
        end in
      let members := fix members (n : nat) (l : list Z) {struct n} : option (list (string * json) * list Z) :=
        match n with
        | O => Some ([], l)
        | S n' =>
            match l with
            | kn :: r =>
                match count kn r with
                | Some k =>
                    match take_str k r with
                    | Some (key, r1) =>
                        match parse_json fu r1 with
                        | Some (v, r2) =>
                            match members n' r2 with
                            | Some (ms, r3) => Some ((key, v) :: ms, r3)
                            | None => None
                            end
                        | None => None
                        end
                    | None => None
                    end
                | None => None
                end
            | [] => None
            end
        end in
      match l with
      | 0 :: r => Some (JNull, r)
      | 1 :: b :: r => Some (JBool (bZ b), r)
      | 2 :: z :: r => Some (JNum z, r)
      | 3 :: n :: r =>
          match count n r with
          | Some k => match take_str k r with Some (s, r') => Some (JStr s, r') | None => None end
          | None => None
          end
      | 4 :: n :: r =>
          match count n r with
          | Some k => match many k r with Some (vs, r') => Some (JArr vs, r') | None => None end
          | None => None
          end
      | 6 :: n :: r =>
          match count n r with
          | Some k => match members k r with Some (ms, r') => Some (JObj ms, r') | None => None end
          | None => None
          end
      | _ => None
      end
  end.

Definition pv (l : list Z) : option (value * list Z) := parse_value (S (length l)) l.
Definition pj (l : list Z) : option (json * list Z) := parse_json (S (length l)) l.

(* op encoding:  0 ft fn shape <data> <sel> <el>  |  1 tid <value>  |  2 tid <json> *)
Definition parse_op (l : list Z) : option op :=
  match l with
  | 0 :: ft :: fn :: shape :: r =>
      match pv r with
      | Some (d, r1) =>
          match pv r1 with
          | Some (s, r2) =>
              match pv r2 with
              | Some (e, []) => Some (Row (Nz ft) (Nz fn) (Nz shape) d s e)
              | _ => None
              end
          | None => None
          end
      | None => None
      end
  | 1 :: tid :: r => match pv r with Some (v, []) => Some (Codec (Nz tid) v) | _ => None end
  | 2 :: tid :: r => match pj r with Some (j, []) => Some (Decode (Nz tid) j) | _ => None end
  | _ => None
  end.

Definition print_obs (o : obs) : list Z :=
  match o with
  | OJson j => 10 :: print_json j
  | OData fn idx ty v => 11 :: fn :: idx :: ty :: print_value v
  | ONoData => [16]
  | OFilter w p fn st et sv ev => (12 + Zn w) :: Zb p :: fn :: st :: et :: (print_value sv ++ print_value ev)%list
  | OValue v => 14 :: print_value v
  | OFail c => [17; Zn c]
  | OPanic s => [19; Zn s]
  | ONotApplicable => [20]
  | OBadRow => [21]
  end.

Definition parse_obs (l : list Z) : option obs :=
  match l with
  | 10 :: r => match pj r with Some (j, []) => Some (OJson j) | _ => None end
  | 11 :: fn :: idx :: ty :: r => match pv r with Some (v, []) => Some (OData fn idx ty v) | _ => None end
  | [16] => Some ONoData
  | 14 :: r => match pv r with Some (v, []) => Some (OValue v) | _ => None end
  | w :: p :: fn :: st :: et :: r =>
      if (Z.eqb w 12 || Z.eqb w 13)%bool then
        match pv r with
        | Some (sv, r1) =>
            match pv r1 with
            | Some (ev, []) => Some (OFilter (Nz (w - 12)) (bZ p) fn st et sv ev)
            | _ => None
            end
        | None => None
        end
      else None
  | [17; c] => Some (OFail (Nz c))
  | [19; s] => Some (OPanic (Nz s))
  | [20] => Some ONotApplicable
  | [21] => Some OBadRow
  | _ => None
  end.
