(* Integer wire encoding of Model/Dispatch.v's operations and observations
   (the harness side is harness/dispatch/world.go). *)
From Verif Require Import Base.Prelude Model.Dispatch.

Definition P (A : Type) := list Z -> option (A * list Z).

Definition pret {A} (a : A) : P A := fun l => Some (a, l).
Definition pfail {A} : P A := fun _ => None.
Definition pbind {A B} (p : P A) (f : A -> P B) : P B :=
  fun l => match p l with Some (a, r) => f a r | None => None end.
Notation "'do' x <- p ;; q" := (pbind p (fun x => q)) (at level 200, x pattern, p at level 100, q at level 200).

Definition pZ : P Z := fun l => match l with x :: r => Some (x, r) | [] => None end.
Definition pN : P N := do x <- pZ;; pret (Nz x).
Definition pB : P bool := do x <- pZ;; pret (bZ x).
Definition pOptN : P (option N) := do x <- pZ;; pret (if Z.eqb x 0 then None else Some (Nz (x - 1))).

Fixpoint pRep {A} (n : nat) (p : P A) : P (list A) :=
  match n with
  | O => pret []
  | S n' => do a <- p;; do r <- pRep n' p;; pret (a :: r)
  end.

Definition pList {A} (p : P A) : P (list A) := do n <- pZ;; pRep (Z.to_nat n) p.
Definition pEaddr : P eaddr := pList pN.
Definition pFaddr : P faddr :=
  do d <- pOptN;; do e <- pEaddr;; do f <- pOptN;; pret {| fa_dev := d; fa_ent := e; fa_feat := f |}.
Definition pRole : P role :=
  do x <- pZ;; pret (if Z.eqb x 0 then RClient else if Z.eqb x 1 then RServer else RSpecial).
Definition pState : P (option estate) :=
  do x <- pZ;; pret (if Z.eqb x 0 then None else if Z.eqb x 1 then Some SAdded else Some SRemoved).
Definition pDiscEnt : P disc_ent :=
  do e <- pEaddr;; do d <- pOptN;; do s <- pState;; pret {| de_addr := e; de_dev := d; de_state := s |}.
Definition pDiscFeat : P disc_feat :=
  do e <- pEaddr;; do i <- pN;; do t <- pN;; do r <- pRole;;
  pret {| df_ent := e; df_id := i; df_type := t; df_role := r |}.
Definition pMsg : P disc_msg :=
  do d <- pOptN;; do es <- pList pDiscEnt;; do fs <- pList pDiscFeat;;
  pret {| dm_dev := d; dm_ents := es; dm_feats := fs |}.
Definition pCall : P reg_call :=
  do c <- pFaddr;; do s <- pFaddr;; do t <- pN;; pret {| rc_cli := c; rc_srv := s; rc_type := t |}.

Definition pCls : P cls :=
  do x <- pZ;;
  match x with
  | 0 => pret CRead | 1 => pret CReply | 2 => pret CNotify | 3 => pret CWrite | 4 => pret CCall
  | _ => pfail
  end.

Definition pPayload : P payload :=
  do x <- pZ;;
  match x with
  | 0 => do fn <- pN;; do v <- pN;; pret (PData fn v)
  | 1 => do m <- pMsg;; pret (PDiscovery m)
  | 2 => do v <- pN;; pret (PUseCase v)
  | 3 => do c <- pCall;; pret (PSubReq c)
  | 4 => do c <- pCall;; pret (PSubDel c)
  | 5 => do c <- pCall;; pret (PBindReq c)
  | 6 => do c <- pCall;; pret (PBindDel c)
  | 7 => pret PSubData
  | 8 => pret PBindData
  | 9 => pret PDestList
  | 10 => do e <- pN;; pret (PResult e)
  | _ => pfail
  end.

Definition pBody : P body :=
  do x <- pZ;;
  match x with
  | 0 => do e <- pN;; pret (BResult e)
  | 1 => do c <- pCls;; do pl <- pPayload;; pret (BCmd c pl)
  | 2 => do pl <- pPayload;; pret (BResultWith pl)
  | _ => pfail
  end.

(* the function element and the read restriction follow the body; older recordings end with the body *)
Definition pTail : P (N * N) :=
  fun l => match l with
           | [] => Some ((0%N, 0%N), [])
           | _ => (do f <- pN;; do x <- pN;; pret (f, x)) l
           end.

Definition pDgram : P dgram :=
  (* ackRequest on the wire: 0 absent, 1 true, 2 present and false; absent and false are the same request *)
  do s <- pFaddr;; do d <- pFaddr;; do c <- pN;; do r <- pOptN;; do a <- pZ;; do b <- pBody;; do t <- pTail;;
  pret {| d_src := s; d_dst := d; d_ctr := c; d_ref := r; d_ack := Z.eqb a 1; d_body := b; d_fct := fst t; d_sel := snd t |}.

(* a length-prefixed sub-list parsed completely by p *)
Definition pSub {A} (p : P A) : P A :=
  do n <- pZ;;
  fun l => match p (firstn (Z.to_nat n) l) with
           | Some (a, []) => Some (a, skipn (Z.to_nat n) l)
           | _ => None
           end.

Definition pOp : P op :=
  do code <- pZ;;
  match code with
  | 1 => do e <- pEaddr;; pret (AddLocalEntity e)
  | 2 => do t <- pN;; do r <- pRole;; do e <- pEaddr;; pret (AddLocalFeature e t r)
  | 3 => do f <- pN;; do fn <- pN;; do rd <- pB;; do wr <- pB;; do e <- pEaddr;; pret (AddFunction e f fn rd wr)
  | 4 => do f <- pN;; do fn <- pN;; do v <- pN;; do e <- pEaddr;; pret (SetData e f fn v)
  | 5 => do f <- pN;; do fn <- pN;; do e <- pEaddr;; pret (GetData e f fn)
  | 6 => do p <- pN;; pret (Connect p)
  | 7 => do p <- pN;; pret (Disconnect p)
  | 8 => do p <- pN;; do d <- pDgram;; pret (Inbound p d)
  | 9 => do f <- pN;; do c <- pN;; do cb <- pN;; do e <- pEaddr;; pret (AddRespCb e f c cb)
  | 10 => do f <- pN;; do cb <- pN;; do e <- pEaddr;; pret (AddResultCb e f cb)
  | 11 => do t <- pN;; pret (QFactory t)
  | 15 => do f <- pN;; do c <- pN;; do cb <- pN;; do k <- pN;; do e <- pEaddr;; pret (ParRegister e f c cb k)
  | 14 => do e <- pEaddr;; pret (RemoveLocalEntity e)
  | 13 => do l <- pList (do p <- pN;; do d <- pSub pDgram;; pret (p, d));; pret (SeqArrive l)
  | 12 => do late <- pOptN;; do pf <- pN;; do ps <- pList pN;; do d <- pDgram;; pret (ParArrive ps d late pf)
  | _ => pfail
  end.

Definition parse_op (l : list Z) : option op :=
  match pOp l with
  | Some (o, []) => Some o
  | _ => None
  end.

(* ---- printing ---- *)
Definition wOptN (o : option N) : list Z := match o with None => [0] | Some n => [Zn n + 1] end.
Definition wEaddr (e : eaddr) : list Z := Z.of_nat (length e) :: map Zn e.
Definition wFaddr (a : faddr) : list Z := wOptN (fa_dev a) ++ wEaddr (fa_ent a) ++ wOptN (fa_feat a).

Definition print_obs (o : obs) : list Z :=
  match o with
  | OReply p ref src dst fn v => [1; Zn p; Zn ref; Zn fn; Zn v] ++ wFaddr src ++ wFaddr dst
  | OResult p ref err src dst => [2; Zn p; Zn ref; Zn err] ++ wFaddr src ++ wFaddr dst
  | OInvoke cb e f ref p re rf data => [3; Zn cb; Zn f; Zn ref; Zn p; Zn rf; Zn data] ++ wEaddr e ++ wEaddr re
  | ORetB b => [4; Zb b]
  | ORetN n => [5; Zn n]
  | ONone => [6]
  end.

Definition pObs : P obs :=
  do code <- pZ;;
  match code with
  | 1 => do p <- pN;; do r <- pN;; do fn <- pN;; do v <- pN;; do s <- pFaddr;; do d <- pFaddr;; pret (OReply p r s d fn v)
  | 2 => do p <- pN;; do r <- pN;; do e <- pN;; do s <- pFaddr;; do d <- pFaddr;; pret (OResult p r e s d)
  | 3 => do cb <- pN;; do f <- pN;; do r <- pN;; do p <- pN;; do rf <- pN;; do v <- pN;; do e <- pEaddr;; do re <- pEaddr;;
         pret (OInvoke cb e f r p re rf v)
  | 4 => do b <- pB;; pret (ORetB b)
  | 5 => do n <- pN;; pret (ORetN n)
  | 6 => pret ONone
  | _ => pfail
  end.

Definition parse_obs (l : list Z) : option obs :=
  match pObs l with
  | Some (o, []) => Some o
  | _ => None
  end.
