(* C09: the machine the driver runs — the independent product of Model/Stack.v (sequential
   registry behaviour in arbitrary worlds) and Model/BindSched.v (two-step AddBinding under
   schedules in the fixed world).  The harness keeps one real device per component, so the
   product is faithful for mixed histories as well.  No proofs here. *)
From Verif Require Import Base.Prelude Base.Machine.
From Verif Require Model.Stack Model.StackWire Model.StackX Model.BindSched.

(* [CWire p]: peer p reads its binding list over the wire (nodeManagementBindingData call
   answered by NodeManagement.processReadBindingData); the reply's entries are observed in
   the encoding of a listing.  The model's answer is the listing of BindingManager.Bindings. *)
Inductive cop := CStack (o : StackX.xop) | CSched (o : BindSched.op) | CWire (p : N).
Inductive cobs := SO (o : Stack.obs) | BO (o : BindSched.obs).

Definition cst : Type := Stack.st * BindSched.st.
Definition cinit : cst := (Stack.init, BindSched.init).

Definition cstep (s : cst) (o : cop) : cst * list cobs :=
  match o with
  | CStack o' => let '(s1, out) := StackX.xstep (fst s) o' in ((s1, snd s), map SO out)
  | CSched o' => let '(s1, out) := BindSched.step (snd s) o' in ((fst s, s1), map BO out)
  | CWire p => let '(s1, out) := Stack.step (fst s) (Stack.ListBinds p) in ((s1, snd s), map SO out)
  end.

Fixpoint crun (s : cst) (ops : list cop) : cst * list (cop * list cobs) :=
  match ops with
  | [] => (s, [])
  | o :: r =>
      let '(s1, out) := cstep s o in
      let '(s2, tr) := crun s1 r in
      (s2, (o, out) :: tr)
  end.

Definition parse_op (l : list Z) : option cop :=
  match StackX.parse_xop l with
  | Some o => Some (CStack o)
  | None => match BindSched.parse_op l with
            | Some o => Some (CSched o)
            | None => match l with [56; p] => Some (CWire (Nz p)) | _ => None end
            end
  end.

Definition print_obs (o : cobs) : list Z :=
  match o with SO x => StackWire.print_obs x | BO x => BindSched.print_obs x end.

Definition parse_obs (l : list Z) : option cobs :=
  match StackWire.parse_obs l with
  | Some o => Some (SO o)
  | None => match BindSched.parse_obs l with Some o => Some (BO o) | None => None end
  end.

Definition stack_obs (l : list cobs) : option (list Stack.obs) :=
  option_all (map (fun x => match x with SO o => Some o | BO _ => None end) l).
Definition sched_obs (l : list cobs) : option (list BindSched.obs) :=
  option_all (map (fun x => match x with BO o => Some o | SO _ => None end) l).
