(* C19 — executable model of NewDateTimeTypeFromTime / DateTimeType.GetTime at the level
   (seconds since the Unix epoch, nanoseconds) <-> the numbers carried by the text
   "2006-01-02T15:04:05Z" (proleptic Gregorian calendar, UTC).  No proofs here.

   Go's time.Format / time.ParseInLocation are not transcribed: the calendar is the
   standard days <-> civil-date algorithm (compared with Go's output by the harness for
   every generated instant), and the only layout fact used is that the year is written
   with exactly four digits, so that a text is read back iff 0 <= year <= 9999
   (of the four layouts tried by GetTime the second and the fourth accept the text
   written by NewDateTimeTypeFromTime; fractional seconds are never written). *)
From Verif Require Import Base.Prelude.

(* days since 1970-01-01 -> (year, month, day) *)
Definition civil_from_days (z : Z) : Z * Z * Z :=
  let z := z + 719468 in
  let era := z / 146097 in
  let doe := z mod 146097 in
  let yoe := (doe - doe / 1460 + doe / 36524 - doe / 146096) / 365 in
  let doy := doe - (365 * yoe + yoe / 4 - yoe / 100) in
  let mp := (5 * doy + 2) / 153 in
  let d := doy - (153 * mp + 2) / 5 + 1 in
  let m := if mp <? 10 then mp + 3 else mp - 9 in
  let y := yoe + era * 400 in
  (if m <=? 2 then y + 1 else y, m, d).

Definition days_from_civil (y m d : Z) : Z :=
  let y := if m <=? 2 then y - 1 else y in
  let era := y / 400 in
  let yoe := y mod 400 in
  let doy := (153 * (if 2 <? m then m - 3 else m + 9) + 2) / 5 + d - 1 in
  let doe := yoe * 365 + yoe / 4 - yoe / 100 + doy in
  era * 146097 + doe - 719468.

Record dtext := { d_y : Z; d_mo : Z; d_d : Z; d_h : Z; d_mi : Z; d_s : Z }.

Definition text_of_unix (s : Z) : dtext :=
  let days := s / 86400 in
  let r := s mod 86400 in
  let '(y, m, d) := civil_from_days days in
  {| d_y := y; d_mo := m; d_d := d; d_h := r / 3600; d_mi := (r mod 3600) / 60; d_s := r mod 60 |}.

Definition unix_of_text (t : dtext) : Z :=
  days_from_civil (d_y t) (d_mo t) (d_d t) * 86400 + d_h t * 3600 + d_mi t * 60 + d_s t.

(* Time.Round(time.Second): halves go up.  (sec, nsec) with 0 <= nsec < 10^9. *)
Definition round_second (sec nsec : Z) : Z := if 500000000 <=? nsec then sec + 1 else sec.

(* NewDateTimeTypeFromTime / NewAbsoluteOrRelativeTimeTypeFromTime *)
Definition new_datetime (sec nsec : Z) : dtext := text_of_unix (round_second sec nsec).

(* DateTimeType.GetTime / AbsoluteOrRelativeTimeType.GetTime on such a text *)
Definition get_time (t : dtext) : option Z :=
  if (0 <=? d_y t) && (d_y t <=? 9999) then Some (unix_of_text t) else None.

Definition UNIX_YEAR_0 : Z := -62167219200.      (* 0000-01-01T00:00:00Z *)
Definition UNIX_YEAR_10000 : Z := 253402300800.  (* 10000-01-01T00:00:00Z *)
