(* C17 — abstract lock machine (executable definitions only, no proofs).

   Threads execute  Req l m | Acq l m | Rel l m | Acc x .. | Pub o | Obt o  over
   non-reentrant locks.  A lock is an instance (object, class); a location is
   (object, field).  Locks are reader/writer locks: a plain sync.Mutex is a lock
   that is only ever taken in mode MW.

     Req l m   the thread calls Lock (m = MW) / RLock (m = MR) and starts waiting
     Acq l m   the call returns: the lock is granted
     Rel l m   Unlock / RUnlock
     Acc x w a p s   read (w = false) or write (w = true) of location x;
               a: performed by a sync/atomic operation; p: performed before the
               object is published; s: label of the static table row (uninterpreted here)
     Pub o     the creating thread makes object o reachable for other threads
     Obt o     a thread obtains o through a synchronising hand-off (lock-protected
               container, go statement)

   A trace is a list of (thread, action); [apply] is the total state update,
   [enabled] says when the step may happen, [valid] traces are the executions.
   Granting is deliberately permissive (a reader is granted although a writer is
   pending): every real execution is a valid trace, and the waits-for relation
   [blockers] still contains the writer-preference edge of Go's RWMutex. *)
From Verif Require Import Base.Prelude.
From Coq Require Import String.

Definition tid := N.
Definition obj := N.
Definition cls := N.
Definition fld := N.
Definition lock := (obj * cls)%type.
Definition loc := (obj * fld)%type.

Inductive mode := MR | MW.

Inductive act :=
| Req (l : lock) (m : mode)
| Acq (l : lock) (m : mode)
| Rel (l : lock) (m : mode)
| Acc (x : loc) (w a p : bool) (s : N)
| Pub (o : obj)
| Obt (o : obj).

Definition event := (tid * act)%type.

Record state := mkState {
  held : list (lock * tid * mode);
  waiting : list (tid * lock * mode);
  published : list obj }.

Definition init : state := mkState [] [] [].

Definition lock_eqb (a b : lock) : bool := N.eqb (fst a) (fst b) && N.eqb (snd a) (snd b).
Definition mode_eqb (a b : mode) : bool :=
  match a, b with MR, MR | MW, MW => true | _, _ => false end.
Definition conflictb (a b : mode) : bool :=
  match a, b with MR, MR => false | _, _ => true end.
Definition conflict (a b : mode) : Prop := a = MW \/ b = MW.

Definition apply (st : state) (e : event) : state :=
  let (t, a) := e in
  match a with
  | Req l m => mkState (held st) ((t, l, m) :: waiting st) (published st)
  | Acq l m => mkState ((l, t, m) :: held st)
                       (filter (fun w => negb (N.eqb (fst (fst w)) t)) (waiting st))
                       (published st)
  | Rel l m => mkState (filter (fun h => negb (lock_eqb (fst (fst h)) l && N.eqb (snd (fst h)) t && mode_eqb (snd h) m)) (held st))
                       (waiting st) (published st)
  | Acc _ _ _ _ _ => st
  | Pub o => mkState (held st) (waiting st) (o :: published st)
  | Obt _ => st
  end.

Definition holds (st : state) (t : tid) (l : lock) (m : mode) : Prop := In (l, t, m) (held st).
Definition holds_any (st : state) (t : tid) (l : lock) : Prop := exists m, holds st t l m.
Definition is_waiting (st : state) (t : tid) : Prop := exists l m, In (t, l, m) (waiting st).

Definition enabled (st : state) (e : event) : Prop :=
  let (t, a) := e in
  match a with
  | Req _ _ => ~ is_waiting st t
  | Acq l m => In (t, l, m) (waiting st)
               /\ (forall t' m', holds st t' l m' -> ~ conflict m m')
               /\ ~ holds_any st t l
  | Rel l m => ~ is_waiting st t /\ holds st t l m
  | Acc _ _ _ _ _ => ~ is_waiting st t
  | Pub _ => ~ is_waiting st t
  | Obt o => ~ is_waiting st t /\ In o (published st)
  end.

(* boolean version of [enabled] (for concrete example traces) *)
Definition waitsb (st : state) (t : tid) : bool := existsb (fun w : tid * lock * mode => N.eqb (fst (fst w)) t) (waiting st).
Definition enabledb (st : state) (e : event) : bool :=
  let (t, a) := e in
  match a with
  | Req _ _ => negb (waitsb st t)
  | Acq l m => existsb (fun w : tid * lock * mode => N.eqb (fst (fst w)) t && lock_eqb (snd (fst w)) l && mode_eqb (snd w) m) (waiting st)
               && forallb (fun h : lock * tid * mode => negb (lock_eqb (fst (fst h)) l && conflictb m (snd h))) (held st)
               && negb (existsb (fun h : lock * tid * mode => lock_eqb (fst (fst h)) l && N.eqb (snd (fst h)) t) (held st))
  | Rel l m => negb (waitsb st t)
               && existsb (fun h : lock * tid * mode => lock_eqb (fst (fst h)) l && N.eqb (snd (fst h)) t && mode_eqb (snd h) m) (held st)
  | Acc _ _ _ _ _ => negb (waitsb st t)
  | Pub _ => negb (waitsb st t)
  | Obt o => negb (waitsb st t) && memN o (published st)
  end.
Fixpoint validb_from (st : state) (tr : list event) : bool :=
  match tr with
  | [] => true
  | e :: r => enabledb st e && validb_from (apply st e) r
  end.
Definition validb (tr : list event) : bool := validb_from init tr.

Definition run (tr : list event) : state := fold_left apply tr init.
Definition st_at (tr : list event) (n : nat) : state := run (firstn n tr).

(* the executions of the machine: every step is enabled in the state it is taken in *)
Definition valid (tr : list event) : Prop :=
  forall n e, nth_error tr n = Some e -> enabled (st_at tr n) e.

(* ---- waiting-for relation, circular wait ---- *)

(* the threads that thread t is currently blocked by: holders of the wanted lock in a
   conflicting mode, and - for a reader - writers already waiting for the same lock *)
Definition blockers (st : state) (t : tid) : list tid :=
  flat_map (fun w : tid * lock * mode =>
    let '(t0, l, m) := w in
    if N.eqb t0 t then
      map (fun h : lock * tid * mode => snd (fst h))
          (filter (fun h : lock * tid * mode => lock_eqb (fst (fst h)) l && conflictb m (snd h)) (held st))
      ++ match m with
         | MR => map (fun w' : tid * lock * mode => fst (fst w'))
                     (filter (fun w' : tid * lock * mode => lock_eqb (snd (fst w')) l && mode_eqb (snd w') MW) (waiting st))
         | MW => []
         end
    else []) (waiting st).

Definition blocked_by (st : state) (t t' : tid) : Prop := In t' (blockers st t).

Inductive wait_path (st : state) : tid -> tid -> Prop :=
| wp_one t t' : blocked_by st t t' -> wait_path st t t'
| wp_step t t1 t' : blocked_by st t t1 -> wait_path st t1 t' -> wait_path st t t'.

Definition circular_wait (st : state) : Prop := exists t, wait_path st t t.

Inductive wait_path0 (st : state) : tid -> tid -> Prop :=
| wp0_refl t : wait_path0 st t t
| wp0_step t t1 t' : blocked_by st t t1 -> wait_path0 st t1 t' -> wait_path0 st t t'.

(* lock-order discipline of a trace: whenever a thread asks for a lock, every lock it
   holds has a strictly smaller rank (in particular it does not hold the same class) *)
Definition disciplined (rank : cls -> nat) (tr : list event) : Prop :=
  forall n t l m, nth_error tr n = Some (t, Req l m) ->
    forall l' m', holds (st_at tr n) t l' m' -> (rank (snd l') < rank (snd l))%nat.

(* the same discipline, stated against a table of (held class, requested class) edges *)
Definition covered_by (edges : list (cls * cls)) (tr : list event) : Prop :=
  forall n t l m, nth_error tr n = Some (t, Req l m) ->
    forall l' m', holds (st_at tr n) t l' m' -> In (snd l', snd l) edges.

Definition rank_of (table : list (N * N)) (c : cls) : nat :=
  match assoc_N c table with Some r => N.to_nat r | None => 0%nat end.

Definition edges_ok (table : list (N * N)) (edges : list (cls * cls)) : bool :=
  forallb (fun e : cls * cls => Nat.ltb (rank_of table (fst e)) (rank_of table (snd e))) edges.

Definition rank_bound (table : list (N * N)) : nat :=
  fold_right (fun e acc => Nat.max (N.to_nat (snd e)) acc) 0%nat table.

(* ---- happens-before, data races ---- *)

Inductive hb (tr : list event) : nat -> nat -> Prop :=
| hb_po i j t a b : (i < j)%nat -> nth_error tr i = Some (t, a) -> nth_error tr j = Some (t, b) -> hb tr i j
| hb_lock i j t t' l m m' : (i < j)%nat -> nth_error tr i = Some (t, Rel l m) ->
    nth_error tr j = Some (t', Acq l m') -> conflict m m' -> hb tr i j
| hb_pub i j t t' o : (i < j)%nat -> nth_error tr i = Some (t, Pub o) ->
    nth_error tr j = Some (t', Obt o) -> hb tr i j
| hb_trans i j k : hb tr i j -> hb tr j k -> hb tr i k.

(* two accesses of different threads to the same location, at least one a write,
   not both atomic *)
Definition conflicting (tr : list event) (i j : nat) : Prop :=
  exists t t' x w a p s w' a' p' s',
    (i < j)%nat /\ nth_error tr i = Some (t, Acc x w a p s) /\ nth_error tr j = Some (t', Acc x w' a' p' s')
    /\ t <> t' /\ (w = true \/ w' = true) /\ (a = false \/ a' = false).

Definition data_race (tr : list event) (i j : nat) : Prop := conflicting tr i j /\ ~ hb tr i j.

Definition acc_obj (a : act) : option obj :=
  match a with Acc x _ _ _ _ => Some (fst x) | _ => None end.
Definition acc_prepub (a : act) : bool :=
  match a with Acc _ _ _ p _ => p | _ => false end.

(* publication protocol (assumed of the program; Go: objects are handed to other
   goroutines through lock-protected containers or go statements):
   P2 an access flagged "before publication" happens before any Pub of its object;
   P3 the publishing thread is the only one that touched the object so far;
   P4 a thread touches an object either after obtaining it or as the only thread so far.
   (P1, "Obt only after Pub", is part of [enabled].) *)
Definition pub_protocol (tr : list event) : Prop :=
  (forall i t a o, nth_error tr i = Some (t, a) -> acc_obj a = Some o -> acc_prepub a = true ->
     forall k t', (k < i)%nat -> nth_error tr k <> Some (t', Pub o))
  /\ (forall p t o, nth_error tr p = Some (t, Pub o) ->
        forall i t' a, (i < p)%nat -> nth_error tr i = Some (t', a) -> acc_obj a = Some o -> t' = t)
  /\ (forall j t a o, nth_error tr j = Some (t, a) -> acc_obj a = Some o ->
        (exists k, (k < j)%nat /\ nth_error tr k = Some (t, Obt o))
        \/ (forall i t' a', (i < j)%nat -> nth_error tr i = Some (t', a') -> acc_obj a' = Some o -> t' = t)).

(* a conflicting pair is protected if both threads hold a common lock in conflicting
   modes, or one of the two accesses is made before publication *)
Definition protected (tr : list event) (i j : nat) : Prop :=
  (exists t t' ai aj l m m', nth_error tr i = Some (t, ai) /\ nth_error tr j = Some (t', aj) /\
      holds (st_at tr i) t l m /\ holds (st_at tr j) t' l m' /\ conflict m m')
  \/ (exists t a, nth_error tr i = Some (t, a) /\ acc_prepub a = true)
  \/ (exists t a, nth_error tr j = Some (t, a) /\ acc_prepub a = true).

(* ---- the static tables (shape of Gen/GenLocks.v) ---- *)

(* (row id, field id, accessor id, write?, atomic?, before publication?,
    struct embedding the accessed object (0 = unknown), must-held [(class, write mode?)]) *)
Definition row := (N * N * N * bool * bool * bool * N * list (N * bool))%type.
Definition r_id (r : row) : N := let '(i, _, _, _, _, _, _, _) := r in i.
Definition r_field (r : row) : N := let '(_, f, _, _, _, _, _, _) := r in f.
Definition r_func (r : row) : N := let '(_, _, g, _, _, _, _, _) := r in g.
Definition r_write (r : row) : bool := let '(_, _, _, w, _, _, _, _) := r in w.
Definition r_atomic (r : row) : bool := let '(_, _, _, _, a, _, _, _) := r in a.
Definition r_prepub (r : row) : bool := let '(_, _, _, _, _, p, _, _) := r in p.
Definition r_variant (r : row) : N := let '(_, _, _, _, _, _, v, _) := r in v.
Definition r_held (r : row) : list (N * bool) := let '(_, _, _, _, _, _, _, h) := r in h.

Record tables := mkTables {
  t_classes : list (N * string * N * bool);   (* id, name, owner struct (0 = package level), rw *)
  t_fields : list (N * string * N);           (* id, name, struct *)
  t_rows : list row;
  t_excused : list (N * N * N) }.             (* field, accessor, accessor *)

Definition class_owner (T : tables) (c : cls) : option N :=
  match find (fun e : N * string * N * bool => N.eqb (fst (fst (fst e))) c) (t_classes T) with
  | Some e => Some (snd (fst e))
  | None => None
  end.
Definition field_struct (T : tables) (f : fld) : option N :=
  match find (fun e : N * string * N => N.eqb (fst (fst e)) f) (t_fields T) with
  | Some e => Some (snd e)
  | None => None
  end.

(* a class can guard a field if it is a mutex of the same struct (then the instance
   meant is the one of the accessed object) or a package-level mutex (one instance) *)
Definition usable (T : tables) (f : fld) (c : cls) : bool :=
  match class_owner T c, field_struct T f with
  | Some o, Some s => N.eqb o 0 || (N.eqb o s && negb (N.eqb s 0))
  | _, _ => false
  end.

Definition lock_inst (T : tables) (x : loc) (c : cls) : lock :=
  match class_owner T c with
  | Some 0%N => (0%N, c)
  | _ => (fst x, c)
  end.

Definition common_guard (T : tables) (f : fld) (h1 h2 : list (N * bool)) : bool :=
  existsb (fun e1 : N * bool =>
    usable T f (fst e1) &&
    existsb (fun e2 : N * bool => N.eqb (fst e1) (fst e2) && (snd e1 || snd e2)) h2) h1.

(* rows about objects embedded in different kinds of outer object (a Device inside a
   DeviceLocal / inside a DeviceRemote) never touch the same object *)
Definition same_variant (r1 r2 : row) : bool :=
  N.eqb (r_variant r1) 0 || N.eqb (r_variant r2) 0 || N.eqb (r_variant r1) (r_variant r2).

(* (written with if-then-else: vm_compute is call-by-value, [||] would evaluate both sides) *)
Definition rows_conflict (r1 r2 : row) : bool :=
  if N.eqb (r_field r1) (r_field r2)
  then (r_write r1 || r_write r2) && negb (r_atomic r1 && r_atomic r2) && same_variant r1 r2
  else false.

Definition pair_consistent (T : tables) (r1 r2 : row) : bool :=
  if rows_conflict r1 r2
  then if r_prepub r1 then true
       else if r_prepub r2 then true
       else common_guard T (r_field r1) (r_held r1) (r_held r2)
  else true.

Definition pair_excused (T : tables) (r1 r2 : row) : bool :=
  existsb (fun e : N * N * N =>
    let '(f, a, b) := e in
    N.eqb f (r_field r1) &&
    ((N.eqb a (r_func r1) && N.eqb b (r_func r2)) || (N.eqb a (r_func r2) && N.eqb b (r_func r1)))) (t_excused T).

(* the rows whose pairing breaks the lockset discipline (and is not excused) *)
Definition inconsistent_pairs (T : tables) (strict : bool) : list (N * N) :=
  flat_map (fun r1 : row =>
    flat_map (fun r2 : row =>
      if pair_consistent T r1 r2 then []
      else if N.leb (r_id r1) (r_id r2) && (strict || negb (pair_excused T r1 r2))
      then [(r_id r1, r_id r2)] else []) (t_rows T)) (t_rows T).

Definition table_ok (T : tables) : bool :=
  forallb (fun r1 : row => forallb (fun r2 : row =>
     if pair_consistent T r1 r2 then true else pair_excused T r1 r2) (t_rows T)) (t_rows T).

Definition table_strictly_ok (T : tables) : bool :=
  forallb (fun r1 : row => forallb (fun r2 : row => pair_consistent T r1 r2) (t_rows T)) (t_rows T).

Definition mode_of (wmode : bool) : mode := if wmode then MW else MR.
(* holding in at least the mode the table says: a row entry in read mode is met by a read or a write hold *)
Definition holds_atleast (st : state) (t : tid) (l : lock) (wmode : bool) : Prop :=
  holds st t l MW \/ (wmode = false /\ holds st t l MR).

(* the tie assumed between a trace and the static table: every access event is an
   instance of the table row it is labelled with, the accessed object is embedded in the
   kind of outer object the row says ([kind o]: each embedded object belongs to exactly one
   outer object), and the thread really holds the (usable) locks the row lists, on the
   instance that belongs to the accessed object *)
Definition conforms (T : tables) (kind : obj -> N) (tr : list event) : Prop :=
  forall i t x w a p s, nth_error tr i = Some (t, Acc x w a p s) ->
    exists r, In r (t_rows T) /\ r_id r = s /\ r_field r = snd x /\ r_write r = w /\ r_atomic r = a /\ r_prepub r = p
      /\ (r_variant r <> 0%N -> kind (fst x) = r_variant r)
      /\ forall c wm, In (c, wm) (r_held r) -> usable T (snd x) c = true ->
           holds_atleast (st_at tr i) t (lock_inst T x c) wm.

(* the pair of accesses (i, j) is an excused pair of the table *)
Definition excused_at (T : tables) (tr : list event) (i j : nat) : Prop :=
  exists t t' x w a p s w' a' p' s' r1 r2,
    nth_error tr i = Some (t, Acc x w a p s) /\ nth_error tr j = Some (t', Acc x w' a' p' s') /\
    In r1 (t_rows T) /\ In r2 (t_rows T) /\ r_id r1 = s /\ r_id r2 = s' /\ pair_excused T r1 r2 = true.

(* names for reporting *)
Definition row_name (T : tables) (funcs : list (N * string)) (i : N) : string :=
  match find (fun r : row => N.eqb (r_id r) i) (t_rows T) with
  | Some r =>
      let f := match find (fun e : N * string * N => N.eqb (fst (fst e)) (r_field r)) (t_fields T) with
               | Some e => snd (fst e) | None => "?"%string end in
      let g := match assoc_N (r_func r) funcs with Some s => s | None => "?"%string end in
      (f ++ (if r_write r then " written by " else " read by ") ++ g)%string
  | None => "?"%string
  end.
