(* C02/C04/C11 — executable model of the generic update engine of spine-go
   (model/update.go, model/collection_operations.go, FilterData.SelectorMatch in
   model/commandframe_additions.go), parametric in a schema.  No proofs here.

   An item is the list of its fields in struct order, each an optional value
   number (the harness maps value numbers injectively to Go values of the
   field's type and back).  Go panics are explicit ([Panic]).

   Transcribed as the code is after the repairs delivered with C02/C04
   (patches/fix-C02-selector-update-all-matches.diff, fix-C04-merge-addressed-items-only.diff,
   fix-C04-keep-writecheck-flag.diff, fix-C04-delete-addressed-items-only.diff) and with C05
   (/repo 306e400: a partial update with a selector but no data item fails; db846a9: SelectorMatch
   treats an item without a value for a selected field as not matching); each repaired
   line is marked [fix].  The in-place writes of copyToSelectedData / copyToAllData /
   RemoveElementFromItem into the array of [existing] are not visible at this level: the store
   hands the engine a copy (patches/fix-C11-functiondata-update-on-copy.diff, see FunctionStore.v). *)
From Verif Require Import Base.Prelude Model.Schema.

Definition item := list (option N).

Definition fld (it : item) (i : nat) : option N := nth i it None.

Fixpoint set_fld (it : item) (i : nat) (v : option N) : item :=
  match it, i with
  | [], _ => []
  | _ :: r, O => v :: r
  | x :: r, S i' => x :: set_fld r i' v
  end.

Definition is_some {A} (o : option A) : bool := match o with Some _ => true | None => false end.

Fixpoint eqb_key (a b : list N) : bool :=
  match a, b with
  | [], [] => true
  | x :: a', y :: b' => N.eqb x y && eqb_key a' b'
  | _, _ => false
  end.

Definition mem_key (k : list N) (l : list (list N)) : bool := existsb (eqb_key k) l.

Inductive res (A : Type) := Ok (a : A) | Panic.
Arguments Ok {A}.
Arguments Panic {A}.

(* the abstract content of a FilterType for the function at hand *)
Record flt := {
  f_sel : option (list (option N));   (* the ...SelectorsType struct: one optional value per field *)
  f_elems : option (list bool)        (* the ...ElementsType struct: field set or not *)
}.

(* FilterType.Data(): "Data not found in Filter" when neither is set *)
Definition filter_data (f : option flt) : option flt :=
  match f with
  | Some x => match f_sel x, f_elems x with None, None => None | _, _ => Some x end
  | None => None
  end.

Section Engine.
  Variable sch : schema.

  (* ---- collection_operations.go ---- *)

  (* hashKey: the key fields rendered and joined, stopping at the first nil key
     (prefix!), after a struct key, and at a key of any other kind *)
  Fixpoint hash_from (keys : list nat) (it : item) : list N :=
    match keys with
    | [] => []
    | k :: r =>
        match fld it k with
        | None => []
        | Some v =>
            match kind_of sch k with
            | KUint | KString => v :: hash_from r it
            | KStructHelper => [v]
            | _ => []
            end
        end
    end.
  Definition hash_key (it : item) : list N := hash_from (s_keys sch) it.

  (* writeAllowed *)
  Definition write_allowed (it : item) : bool :=
    match s_wc sch with
    | [w] =>
        match fld it w with
        | None => false
        | Some v => match kind_of sch w with KBool => N.eqb v 1 | _ => true end
        end
    | _ => true
    end.

  (* updateFields(remoteWrite, source, &destination): nil fields of destination, and on
     remote writes the writecheck field, are taken from source *)
  Fixpoint update_fields_from (remote : bool) (i : nat) (src dst : item) : item :=
    match dst with
    | [] => []
    | d :: dr =>
        (if negb (is_some d) || (remote && existsb (Nat.eqb i) (s_wc sch)) then hd None src else d)
          :: update_fields_from remote (S i) (tl src) dr
    end.
  Definition update_fields (remote : bool) (src dst : item) : item := update_fields_from remote 0 src dst.

  (* ToMap(s2)[h]: a later duplicate wins *)
  Fixpoint find_last_hash (h : list N) (l : list item) : option item :=
    match l with
    | [] => None
    | x :: r =>
        match find_last_hash h r with
        | Some y => Some y
        | None => if eqb_key (hash_key x) h then Some x else None
        end
    end.

  (* Merge *)
  Definition merge_item (remote : bool) (s2 : list item) (s1i : item) : item :=
    match find_last_hash (hash_key s1i) s2 with
    | Some s2i => if negb remote || write_allowed s1i then update_fields remote s1i s2i else s1i
    | None => s1i
    end.

  Definition merge (remote : bool) (s1 s2 : list item) : list item * bool :=
    let hashes1 := map hash_key s1 in
    let res1 := map (merge_item remote s2) s1 in
    (* [fix C04 merge-addressed-only] an unwritable item fails the write only when the write names it *)
    let ok1 := forallb (fun s1i => negb (is_some (find_last_hash (hash_key s1i) s2) && negb (write_allowed s1i) && remote)) s1 in
    let fresh := filter (fun s2i => negb (mem_key (hash_key s2i) hashes1)) s2 in
    (* only local updates can append; [fix C04 merge-unknown-item] a remote write naming an unknown item fails *)
    if remote then (res1, ok1 && match fresh with [] => true | _ => false end)
    else (res1 ++ fresh, ok1).

  (* ---- update.go ---- *)

  Definition has_identifiers (it : item) : bool := forallb (fun k => is_some (fld it k)) (s_keys sch).

  (* the comparator of SortData: uint keys only, "false" on anything else *)
  Fixpoint less_from (keys : list nat) (a b : item) : bool :=
    match keys with
    | [] => false
    | k :: r =>
        match fld a k, fld b k with
        | Some x, Some y =>
            match kind_of sch k with
            | KUint => if N.eqb x y then less_from r a b else N.ltb x y
            | _ => false
            end
        | _, _ => false
        end
    end.
  Definition less (a b : item) : bool := less_from (s_keys sch) a b.

  (* sort.Slice on at most 12 elements is insertionSortLessFunc:
       for i := 1; i < n; i++ { for j := i; j > 0 && less(j, j-1); j-- { swap(j, j-1) } }
     [ins x racc]: racc is the already sorted prefix, last element first *)
  Fixpoint ins (x : item) (racc : list item) : list item :=
    match racc with
    | [] => [x]
    | y :: r => if less x y then y :: ins x r else x :: racc
    end.
  Definition isort (l : list item) : list item := rev (fold_left (fun r x => ins x r) l []).

  Definition sort_data (l : list item) : list item :=
    match l, s_keys sch with
    | [], _ => l
    | _, [] => l
    | _, _ => isort l
    end.

  (* CopyNonNilDataFromItemToItem(source, destination) *)
  Fixpoint copy_nonnil (src dst : item) {struct dst} : item :=
    match dst with
    | [] => []
    | d :: dr =>
        match src with
        | [] => dst
        | s :: sr => (if is_some s then s else d) :: copy_nonnil sr dr
        end
    end.

  (* FilterData.SelectorMatch: Panic = unsupported item field (SBad: a struct-valued or differently
     typed field of the same name; excluded by wf_update, never generated);
     [fix C05 selector-nil-field] an item whose selected field is nil does not match *)
  Fixpoint sel_match_from (ks : list selk) (sel : list (option N)) (it : item) : res bool :=
    match ks, sel with
    | k :: kr, s :: sr =>
        match s with
        | None => sel_match_from kr sr it
        | Some v =>
            match k with
            | SIgnore => sel_match_from kr sr it
            | SBad => Panic
            | SField i =>
                match fld it i with
                | None => Ok false
                | Some w => if N.eqb w v then sel_match_from kr sr it else Ok false
                end
            end
        end
    | _, _ => Ok true
    end.
  Definition selector_match (sel : list (option N)) (it : item) : res bool :=
    match s_sel sch with
    | Some ks => sel_match_from ks sel it
    | None => Ok true
    end.

  (* RemoveElementFromItem: a no-op when the two structs differ in field count *)
  Fixpoint remove_from (m : list (option nat)) (el : list bool) (it : item) : item :=
    match m, el with
    | mi :: mr, e :: er =>
        remove_from mr er (match mi, e with Some i, true => set_fld it i None | _, _ => it end)
    | _, _ => it
    end.
  Definition remove_elems (el : list bool) (it : item) : item :=
    match s_elems sch with
    | Some m => if Nat.eqb (length m) (s_nf sch) then remove_from m el it else it
    | None => it
    end.

  (* restoreWriteCheck(remoteWrite, previous, &item): [fix C04 keep-writecheck-flag] on remote
     writes the fields tagged writecheck get back the value they had before *)
  Definition restore_wc (remote : bool) (prev it : item) : item :=
    if remote then fold_left (fun x w => set_fld x w (fld prev w)) (s_wc sch) it else it.

  (* one element of copyToSelectedData / copyToAllData after the write check *)
  Definition apply_data (remote : bool) (new it : item) : item :=
    restore_wc remote it (copy_nonnil new it).

  (* copyToSelectedData; [fix C02 selector-all-matches] every matching item is updated (no break) *)
  Fixpoint copy_to_selected (remote : bool) (sel : list (option N)) (new : item) (l : list item) : res (list item * bool) :=
    match l with
    | [] => Ok ([], true)
    | it :: r =>
        match selector_match sel it with
        | Panic => Panic
        | Ok m =>
            match copy_to_selected remote sel new r with
            | Panic => Panic
            | Ok (r', ok) =>
                if m then
                  if negb (write_allowed it) && remote then Ok (it :: r', false)
                  else Ok (apply_data remote new it :: r', ok)
                else Ok (it :: r', ok)
            end
        end
    end.

  (* copyToAllData *)
  Fixpoint copy_to_all (remote : bool) (new : item) (l : list item) : list item * bool :=
    match l with
    | [] => ([], true)
    | it :: r =>
        let '(r', ok) := copy_to_all remote new r in
        if negb (write_allowed it) && remote then (it :: r', false)
        else (apply_data remote new it :: r', ok)
    end.

  (* deleteFilteredData (at least one of selector / elements is set);
     [fix C04 delete-addressed-only] only addressed items need to be writable *)
  Fixpoint delete_filtered (remote : bool) (f : flt) (l : list item) : res (list item * bool) :=
    match l with
    | [] => Ok ([], true)
    | it :: r =>
        match (match f_sel f with Some sel => selector_match sel it | None => Ok true end) with
        | Panic => Panic
        | Ok addressed =>
            match delete_filtered remote f r with
            | Panic => Panic
            | Ok (r', ok) =>
                if addressed && negb (write_allowed it) && remote then Ok (r', false)
                else
                  match f_sel f, f_elems f with
                  | Some _, Some el => Ok ((if addressed then restore_wc remote it (remove_elems el it) else it) :: r', ok)
                  | Some _, None => Ok ((if addressed then [] else [it]) ++ r', ok)
                  | None, Some el => Ok (restore_wc remote it (remove_elems el it) :: r', ok)
                  | None, None => Ok (it :: r', ok)
                  end
            end
        end
    end.

  (* UpdateList[T], first part: "process delete filter (with selectors and elements)" *)
  Definition after_delete (remote : bool) (existing : list item) (fd : option flt) : res (list item * bool) :=
    match filter_data fd with
    | Some f =>
        match delete_filtered remote f existing with
        | Panic => Panic
        | Ok (d, true) => Ok (d, true)
        | Ok (_, false) => Ok (existing, false)   (* the result is dropped; see FunctionStore.v on what is observable *)
        end
    | None => Ok (existing, true)
    end.

  (* UpdateList[T], second part: selector update / identifier-less copy to all / Merge + SortData *)
  Definition apply_new (remote : bool) (ex new : list item) (fp : option flt) : res (list item * bool) :=
    match filter_data fp with
    | Some f =>
        match new with
        | [] => Ok (ex, false)                   (* [fix C05 selector-without-data] was &newData[0] on an empty list *)
        | n0 :: _ =>
            match f_sel f with
            | None => Ok (ex, true)              (* copyToSelectedData without selector: nothing happens *)
            | Some sel => copy_to_selected remote sel n0 ex
            end
        end
    | None =>
        match new with
        | n0 :: _ =>
            if negb (has_identifiers n0) then Ok (copy_to_all remote n0 ex)
            else let '(d, ok) := merge remote ex new in Ok (sort_data d, ok)
        | [] => let '(d, ok) := merge remote ex new in Ok (sort_data d, ok)
        end
    end.

  Definition update_list (remote : bool) (existing new : list item) (fp fd : option flt)
    : res (list item * bool) :=
    match after_delete remote existing fd with
    | Panic => Panic
    | Ok (ex, ok0) =>
        match apply_new remote ex new fp with
        | Panic => Panic
        | Ok (d, ok) => Ok (d, ok0 && ok)
        end
    end.
End Engine.
