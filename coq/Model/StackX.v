(* Overlap of a teardown with a registry call of ANOTHER peer, on top of Model/Stack.v.

   [During a b]: while the teardown operation [a] of peer p (Disconnect p, or a discovery
   notification / reply of p, which may remove entities) is running, the subscribe / bind /
   unsubscribe / unbind call [b] of a different peer q arrives on q's connection (another
   goroutine).  The registries hold their mutex across a whole Remove...ForEntity including the
   publication of the removal events, so q's call waits and is applied afterwards: the model is the
   sequential composition "teardown, then the call".  (The harness delivers the call from inside
   the removal cascade; for calls that do not commute with the teardown - a call that depends on
   entries of p - other linearisations are legitimate too; those are not generated.)
   The same operation covers a DELETE call of p as [a]: RemoveSubscription / RemoveBinding hold the
   registry mutex from reading the entries to storing the filtered list; a call of q that arrives
   in between waits and is applied to the stored list - again "a, then b".
   Anything else written as [During a b] (a not a teardown, b not a registry call, same peer)
   does nothing.  No proofs here. *)
From Verif Require Import Base.Prelude Model.Stack Model.StackWire.

Inductive xop := Base (o : op) | During (a b : op).

Definition td_peer (a : op) : option N :=
  match a with
  | Disconnect p | DiscoveryNotify p _ _ _ | DiscoveryReply p _ => Some p
  (* a delete call of p parked inside the registry's critical section (between the filter and the
     store of RemoveSubscription / RemoveBinding) while q's call arrives: q waits for the mutex *)
  | SubDelete p _ _ _ | BindDelete p _ _ _ => Some p
  | _ => None
  end.

Definition call_peer (b : op) : option (N * N) :=
  match b with
  | SubCall q ctr _ _ | SubDelete q ctr _ _ | BindCall q ctr _ _ | BindDelete q ctr _ _ => Some (q, ctr)
  | _ => None
  end.

(* the pair is an overlap: teardown of p, call of q <> p *)
Definition overlap (a b : op) : option (N * N * N) :=
  match td_peer a, call_peer b with
  | Some p, Some (q, ctr) => if N.eqb p q then None else Some (p, q, ctr)
  | _, _ => None
  end.

(* what q's call wrote and published: the result datagram to q answering counter ctr and the
   subscription / binding events of connection q.  The observations of an overlap are split by
   this predicate; the teardown of p <> q produces none of them. *)
Definition of_call (q ctr : N) (o : obs) : bool :=
  match o with
  | OResult p' ref _ _ _ => N.eqb p' q && N.eqb ref ctr
  | OEvent EvSub _ ski _ _ _ | OEvent EvBind _ ski _ _ _ => N.eqb ski q
  | _ => false
  end.

(* A second kind of overlap: the notification round of a local data change [a] = SetData ... is
   busy writing to an earlier subscriber when the connection of peer p is removed, [b] = Disconnect p.
   DeviceLocal.NotifySubscribers works on the list it took before its first write, so every
   subscriber of that list is written to - also p, whose connection object still exists - and the
   teardown of p runs to its end meanwhile: "the change, then the disconnect".  (What is written to
   p itself during such a round is not prescribed; the harness reports it in the canonical form
   "one notification per registry entry of p", see harness/stack.) *)
Definition round_overlap (a b : op) : option N :=
  match a, b with
  | SetData _ _ _ _, Disconnect p => Some p
  | _, _ => None
  end.

(* an observation about peer p: an event of connection p or a result written to p *)
Definition from_peer (p : N) (o : obs) : bool :=
  match o with
  | OEvent _ _ ski _ _ _ => N.eqb ski p
  | OResult p' _ _ _ _ => N.eqb p' p
  | _ => false
  end.

(* the observations of the second operation of an overlap are recognised by this predicate *)
Definition xsplit (a b : op) : option (obs -> bool) :=
  match overlap a b with
  | Some (_, q, ctr) => Some (fun o => of_call q ctr o)
  | None => match round_overlap a b with
            | Some p => Some (from_peer p)
            | None => None
            end
  end.

Definition xstep (s : st) (o : xop) : st * list obs :=
  match o with
  | Base o' => step s o'
  | During a b =>
      match xsplit a b with
      | Some _ =>
          let '(s1, o1) := step s a in
          let '(s2, o2) := step s1 b in
          (s2, o1 ++ o2)
      | None => (s, [])
      end
  end.

Fixpoint xrun (s : st) (ops : list xop) : st * list (xop * list obs) :=
  match ops with
  | [] => (s, [])
  | o :: r =>
      let '(s1, out) := xstep s o in
      let '(s2, tr) := xrun s1 r in
      (s2, (o, out) :: tr)
  end.

(* wire: [22; n; <n integers: the teardown operation>; <the call operation>] *)
Definition parse_xop (l : list Z) : option xop :=
  match l with
  | 22 :: n :: r =>
      match parse_op (firstn (Z.to_nat n) r), parse_op (skipn (Z.to_nat n) r) with
      | Some a, Some b => Some (During a b)
      | _, _ => None
      end
  | _ => match parse_op l with Some o => Some (Base o) | None => None end
  end.
