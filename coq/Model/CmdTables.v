(* C18 — executable model of the tag-driven lookups of model/commandframe_additions.go
   (CmdType.SetDataForFunction / Data / ExtractFilter, FilterType.SetDataForFunction /
   Data), of model/eebus_tags.go (EEBusTags) and of the command builders of
   spine/function_data_cmd.go (ReadCmdType, ReplyCmdType, NotifyOrWriteCmdType,
   filtersForSelectorsElements), as lookups over the generated tables.
   Commands and filters are positional [value]s of the CmdType / FilterType rows of
   Gen/GenJsonTypes.v, so that the codec model applies to them directly.
   No proofs here. *)
From Coq Require Import String Ascii List ZArith NArith Bool.
From Verif Require Import Model.JsonTy Model.JsonCodec.
Import ListNotations.
Local Open Scope string_scope.

(* Go panics are values *)
Inductive res (A : Type) := Ok (a : A) | Panic (site : N).
Arguments Ok {A}. Arguments Panic {A}.

Definition SITE_CONVERT : N := 1.     (* reflect.Value.Convert / Set with an unassignable type *)
Definition SITE_CMDCONTROL : N := 2.  (* ExtractFilter: filter without CmdControl, nil dereference *)

(* ---- model/eebus_tags.go: EEBusTags ---- *)
Fixpoint split_on_aux (c : ascii) (s : string) (cur : string -> string) : list string :=
  match s with
  | EmptyString => [cur EmptyString]
  | String x r =>
      if Ascii.eqb x c then cur EmptyString :: split_on_aux c r (fun t => t)
      else split_on_aux c r (fun t => cur (String x t))
  end.
(* strings.Split *)
Definition split_on (c : ascii) (s : string) : list string := split_on_aux c s (fun t => t).

Definition parse_eebus (tag : string) : list (string * string) :=
  match tag with
  | EmptyString => []
  | _ => flat_map (fun part =>
                     match split_on ":" part with
                     | [k] => [(k, "true")]
                     | [k; v] => [(k, v)]
                     | _ => []          (* logged as malformed, ignored *)
                     end) (split_on "," tag)
  end.

(* a field's Go name and parsed eebus tags *)
Definition ptag := (string * list (string * string))%type.
Definition parse_tags (l : list (string * string)) : list ptag :=
  map (fun p => (fst p, parse_eebus (snd p))) l.
Definition tag_get (k : string) (t : ptag) : option string := assoc_last k (snd t).

Definition nonempty (s : string) : bool := match s with EmptyString => false | _ => true end.

Fixpoint set_nth {A} (n : nat) (x : A) (l : list A) : list A :=
  match n, l with
  | O, _ :: r => x :: r
  | S n', y :: r => y :: set_nth n' x r
  | _, [] => []
  end.

Section Tables.
  Variable tbl : list sdesc.
  Variables cmd_id filter_id cmdcontrol_id : N.
  Variables ctags ftags : list ptag.               (* CmdType / FilterType, struct order *)
  Variables cmd_function_idx cmd_filter_idx filter_cmdcontrol_idx cc_delete_idx cc_partial_idx : nat.
  Variable by_addr : bool.                         (* `&deleteSelector` handed on (pinned tree) *)

  Definition cmd_fields := fields_of tbl cmd_id.
  Definition filter_fields := fields_of tbl filter_id.

  Definition is_ptr (f : field) : bool := match f_ty f with TPtr _ => true | _ => false end.
  Definition struct_id (f : field) : option N :=
    match kind_of (f_ty f) with KStruct id => Some id | _ => None end.

  (* ---- CmdType.SetDataForFunction ---- *)
  Definition cmd_slot_for (fct : string) (f : field) (t : ptag) : bool :=
    is_ptr f && negb (String.eqb (fst t) "Function" || String.eqb (fst t) "Filter") &&
    match tag_get "fct" t with Some fn => String.eqb fn fct | None => false end.

  (* assignment through reflect: panics unless the data's type is the field's type;
     [bad_ptr]: the data is a *interface{} (never convertible) *)
  Definition assign (f : field) (bad_ptr : bool) (dty : N) (data : value) : res value :=
    if bad_ptr then Panic SITE_CONVERT
    else match struct_id f with
         | Some id => if N.eqb id dty then Ok data else Panic SITE_CONVERT
         | None => Panic SITE_CONVERT
         end.

  Fixpoint set_loop (slot : field -> ptag -> bool) (bad_ptr : bool) (dty : N) (data : value)
           (fs : list field) (ts : list ptag) (vs : list value) : res (list value) :=
    match fs, ts, vs with
    | f :: fs', t :: ts', v :: vs' =>
        if slot f t then
          match assign f bad_ptr dty data with
          | Ok d => Ok (d :: vs')
          | Panic s => Panic s
          end
        else match set_loop slot bad_ptr dty data fs' ts' vs' with
             | Ok r => Ok (v :: r)
             | Panic s => Panic s
             end
    | _, _, _ => Ok vs
    end.

  (* [data = None] is the typed nil pointer: the field receives new(T) *)
  Definition set_cmd_data (fct : string) (dty : N) (data : option value) (cmd : list value) : res (list value) :=
    set_loop (cmd_slot_for fct) false dty
             (match data with Some v => v | None => new_struct tbl dty end) cmd_fields ctags cmd.

  (* ---- CmdType.Data: first non-nil pointer field carrying an fct key ---- *)
  Record cmd_data_t := { cd_idx : nat; cd_fct : option string; cd_ty : option N; cd_val : value }.

  Fixpoint cmd_data_loop (i : nat) (fs : list field) (ts : list ptag) (vs : list value) : option cmd_data_t :=
    match fs, ts, vs with
    | f :: fs', t :: ts', v :: vs' =>
        if is_ptr f && negb (is_nil v) &&
           negb (String.eqb (fst t) "Function" || String.eqb (fst t) "Filter")
        then match tag_get "fct" t with
             | Some fn => Some {| cd_idx := i; cd_fct := if nonempty fn then Some fn else None;
                                  cd_ty := struct_id f; cd_val := v |}
             | None => cmd_data_loop (S i) fs' ts' vs'
             end
        else cmd_data_loop (S i) fs' ts' vs'
    | _, _, _ => None
    end.
  Definition cmd_data (cmd : list value) : option cmd_data_t := cmd_data_loop 0 cmd_fields ctags cmd.

  (* ---- FilterType.SetDataForFunction ---- *)
  Definition filter_slot_for (typ fct : string) (f : field) (t : ptag) : bool :=
    is_ptr f && negb (String.eqb (fst t) "CmdControl" || String.eqb (fst t) "FilterId") &&
    match tag_get "fct" t, tag_get "typ" t with
    | Some fn, Some ty => nonempty ty && String.eqb ty typ && String.eqb fn fct
    | _, _ => false
    end.

  Definition set_filter_data (typ fct : string) (bad_ptr : bool) (dty : N) (data : value)
             (fil : list value) : res (list value) :=
    set_loop (filter_slot_for typ fct) bad_ptr dty data filter_fields ftags fil.

  (* ---- FilterType.Data: every non-nil tagged field; the last one of each kind wins ---- *)
  Record filter_data_t := { fd_fct : string; fd_sel : option (N * value); fd_el : option (N * value) }.

  Fixpoint filter_data_loop (acc : filter_data_t) (fs : list field) (ts : list ptag) (vs : list value) : filter_data_t :=
    match fs, ts, vs with
    | f :: fs', t :: ts', v :: vs' =>
        let acc' :=
          if is_ptr f && negb (is_nil v) &&
             negb (String.eqb (fst t) "CmdControl" || String.eqb (fst t) "FilterId")
          then match tag_get "fct" t, tag_get "typ" t, struct_id f with
               | Some fn, Some ty, Some id =>
                   if nonempty fn && nonempty ty then
                     {| fd_fct := fn;
                        fd_sel := if String.eqb ty "selector" then Some (id, v) else fd_sel acc;
                        fd_el := if String.eqb ty "elements" then Some (id, v) else fd_el acc |}
                   else acc
               | _, _, _ => acc
               end
          else acc in
        filter_data_loop acc' fs' ts' vs'
    | _, _, _ => acc
    end.

  (* None: "Data not found in Filter" *)
  Definition filter_data (fil : list value) : option filter_data_t :=
    let r := filter_data_loop {| fd_fct := ""; fd_sel := None; fd_el := None |} filter_fields ftags fil in
    if nonempty (fd_fct r) then Some r else None.

  (* ---- CmdType.ExtractFilter ---- *)
  Fixpoint extract_loop (fl : list value) (p d : option (list value)) : res (option (list value) * option (list value)) :=
    match fl with
    | [] => Ok (p, d)
    | VStruct fvs :: r =>
        match nth filter_cmdcontrol_idx fvs VNil with
        | VStruct cc =>
            if negb (is_nil (nth cc_partial_idx cc VNil)) then extract_loop r (Some fvs) d
            else if negb (is_nil (nth cc_delete_idx cc VNil)) then extract_loop r p (Some fvs)
            else extract_loop r p d
        | _ => Panic SITE_CMDCONTROL
        end
    | _ :: r => extract_loop r p d
    end.

  Definition extract_filter (cmd : list value) : res (option (list value) * option (list value)) :=
    match nth cmd_filter_idx cmd VNil with
    | VList fl => extract_loop fl None None
    | _ => Ok (None, None)
    end.

  (* ---- spine/function_data_cmd.go ---- *)
  Definition empty_cmd : list value := map (fun _ => VNil) cmd_fields.
  Definition empty_filter : list value := map (fun _ => VNil) filter_fields.
  Definition element_tag : value := VStruct [].       (* &model.ElementTagType{} *)

  Definition create_cmd (fct : string) (dty : N) (data : option value) : res (list value) :=
    set_cmd_data fct dty data empty_cmd.

  (* FilterType{CmdControl: &CmdControlType{Delete|Partial: &ElementTagType{}}} *)
  Definition control_filter (idx : nat) : list value :=
    set_nth filter_cmdcontrol_idx
            (VStruct (set_nth idx element_tag (map (fun _ => VNil) (fields_of tbl cmdcontrol_id))))
            empty_filter.

  (* an `any` argument: None = nil, Some (type id, value) = non-nil pointer *)
  Definition arg := option (N * value).

  Definition add_to_filter (typ fct : string) (bad_ptr : bool) (a : arg) (fil : list value) : res (list value) :=
    match a with
    | None => Ok fil
    | Some (dty, v) => set_filter_data typ fct bad_ptr dty v fil
    end.

  Definition is_some {A} (o : option A) : bool := match o with Some _ => true | None => false end.

  Definition filters_for (fct : string) (filters : list value) (del_sel part_sel del_el read_el : arg) : res (list value) :=
    let r1 :=
      if is_some del_sel || is_some del_el then
        match add_to_filter "selector" fct by_addr del_sel (control_filter cc_delete_idx) with
        | Panic s => Panic s
        | Ok f1 => match add_to_filter "elements" fct by_addr del_el f1 with
                   | Panic s => Panic s
                   | Ok f2 => Ok (filters ++ [VStruct f2])%list
                   end
        end
      else Ok filters in
    match r1 with
    | Panic s => Panic s
    | Ok fl =>
        if is_some part_sel || is_some read_el then
          match add_to_filter "selector" fct false part_sel (control_filter cc_partial_idx) with
          | Panic s => Panic s
          | Ok f1 => match add_to_filter "elements" fct false read_el f1 with
                     | Panic s => Panic s
                     | Ok f2 => Ok (fl ++ [VStruct f2])%list
                     end
          end
        else Ok fl
    end.

  Definition with_filters (cmd filters : list value) (fn : string) : list value :=
    set_nth cmd_function_idx (VStr fn) (set_nth cmd_filter_idx (VList filters) cmd).

  Definition filter_empty_partial : list value := [VStruct (control_filter cc_partial_idx)].

  Definition read_cmd (fct : string) (dty : N) (part_sel els : arg) : res (list value) :=
    match create_cmd fct dty None with
    | Panic s => Panic s
    | Ok cmd =>
        match filters_for fct [] None part_sel None els with
        | Panic s => Panic s
        | Ok [] => Ok cmd
        | Ok fl => Ok (with_filters cmd fl "")
        end
    end.

  (* [data]: DataCopy of the function's store (None = nothing stored) *)
  Definition reply_cmd (fct : string) (dty : N) (data : option value) (partial : bool) : res (list value) :=
    match create_cmd fct dty data with
    | Panic s => Panic s
    | Ok cmd => Ok (if partial then with_filters cmd filter_empty_partial "" else cmd)
    end.

  Definition notify_or_write_cmd (fct : string) (dty : N) (data : option value)
             (del_sel part_sel : arg) (partial_without_selector : bool) (del_el : arg) : res (list value) :=
    match create_cmd fct dty data with
    | Panic s => Panic s
    | Ok cmd =>
        if partial_without_selector then Ok (with_filters cmd filter_empty_partial fct)
        else match filters_for fct [] del_sel part_sel del_el None with
             | Panic s => Panic s
             | Ok [] => Ok cmd
             | Ok fl => Ok (with_filters cmd fl fct)
             end
    end.

  (* ---- the shapes of the property ---- *)
  Definition SH_READ : N := 0.
  Definition SH_READ_SEL : N := 1.
  Definition SH_READ_EL : N := 2.
  Definition SH_REPLY : N := 3.
  Definition SH_FULL : N := 4.
  Definition SH_PARTIAL : N := 5.
  Definition SH_PARTIAL_SEL : N := 6.
  Definition SH_DELETE_SEL : N := 7.
  Definition SH_DELETE_EL : N := 8.
  (* combinations beyond the nine of the property text *)
  Definition SH_READ_SEL_EL : N := 9.
  Definition SH_REPLY_PARTIAL : N := 10.
  Definition SH_DELETE_BOTH_PARTIAL_SEL : N := 11.

  Definition nine_shapes : list N := [0; 1; 2; 3; 4; 5; 6; 7; 8]%N.
  Definition all_shapes : list N := [0; 1; 2; 3; 4; 5; 6; 7; 8; 9; 10; 11]%N.

  Definition needs_sel (shape : N) : bool := existsb (N.eqb shape) [1; 6; 7; 9; 11]%N.
  Definition needs_el (shape : N) : bool := existsb (N.eqb shape) [2; 8; 9; 11]%N.
  Definition sends_data (shape : N) : bool := existsb (N.eqb shape) [3; 4; 5; 6; 7; 8; 10; 11]%N.

  (* a shape applies to a function when the types it needs exist for it *)
  Definition applicable (f : fdesc) (shape : N) : bool :=
    (negb (needs_sel shape) || is_some (fn_sel f)) && (negb (needs_el shape) || is_some (fn_el f)).

  Definition mk_arg (tyo : option N) (v : value) : arg :=
    match tyo with Some id => Some (id, v) | None => None end.

  (* the call the API user makes for a shape; [data] is what the function store holds *)
  Definition build (f : fdesc) (shape : N) (data : option value) (sel el : value) : res (list value) :=
    let fct := fn_name f in
    let dty := fn_data f in
    let s := mk_arg (fn_sel f) sel in
    let e := mk_arg (fn_el f) el in
    match shape with
    | 0 => read_cmd fct dty None None
    | 1 => read_cmd fct dty s None
    | 2 => read_cmd fct dty None e
    | 3 => reply_cmd fct dty data false
    | 4 => notify_or_write_cmd fct dty data None None false None
    | 5 => notify_or_write_cmd fct dty data None None true None
    | 6 => notify_or_write_cmd fct dty data None s false None
    | 7 => notify_or_write_cmd fct dty data s None false None
    | 8 => notify_or_write_cmd fct dty data None None false e
    | 9 => read_cmd fct dty s e
    | 10 => reply_cmd fct dty data true
    | _ => notify_or_write_cmd fct dty data s s false e
    end%N.

  (* what the receiving side sees after the wire: CmdType.Data, ExtractFilter, FilterType.Data *)
  Record filter_seen := {
    fs_present : bool;
    fs_data : option filter_data_t       (* None: absent, or Data() returned its error *)
  }.
  Record seen := {
    sn_data : option cmd_data_t;
    sn_partial : filter_seen;
    sn_delete : filter_seen
  }.

  Definition see_filter (o : option (list value)) : filter_seen :=
    match o with
    | None => {| fs_present := false; fs_data := None |}
    | Some fil => {| fs_present := true; fs_data := filter_data fil |}
    end.

  Definition recognise (cmd : list value) : res seen :=
    match extract_filter cmd with
    | Panic s => Panic s
    | Ok (p, d) => Ok {| sn_data := cmd_data cmd; sn_partial := see_filter p; sn_delete := see_filter d |}
    end.

  (* encode to JSON, decode again *)
  Definition over_the_wire (cmd : list value) : option (list value) :=
    match dec tbl (TVal (KStruct cmd_id)) (enc tbl (TVal (KStruct cmd_id)) (VStruct cmd)) with
    | Some (VStruct cmd') => Some cmd'
    | _ => None
    end.
End Tables.
