(* C16 — executable, scheduled model of spine/heartbeat_manager.go (HeartbeatManager) together
   with the two callers that drive it: FeatureLocal.AddFunctionType(heartbeat) -> SetLocalFeature
   and DeviceLocal.RemoveEntity -> StopHeartbeat.  No proofs here.

   [step] is the REPAIRED code (patches named fix-C16-...):
     - IsHeartbeatRunning / StopHeartbeat / StartHeartbeat run their check, close, make and go
       under stopMux (one critical section per call),
     - StartHeartbeat returns an error while no DeviceDiagnosis server feature is known,
     - a stream takes c.mux, re-checks its stop channel, and only then takes the counter and
       stores the data (so a stopped stream never refreshes, whatever select chose).
   [step_pinned] is the code as found (no critical section around check+close and stop+make, no
   feature check, no re-check of the stop channel), kept for the refutation witnesses.

   Atomic steps = the yield hooks of the harness:
     Call t c     goroutine t enters API call c and runs up to its first hook, its return, or
                  the mutex (Blocked; at most one waiter is modelled, a waiter has no effect
                  before it acquires, except the documented pre-lock part of its call)
     Resume t     goroutine t parked at StopHeartbeat.checked (1) / StartHeartbeat.stopped (2)
                  continues to the next hook or to its return; a return releases stopMux and the
                  waiter (if any) acquires it and runs on
     Tick g       stream g (the g-th goroutine started by `go updateHeartbeatData`) took the
                  ticker branch of its select (hook Heartbeat.fired) and runs one loop iteration
     Run g k      k >= 2 iterations of stream g in real time (nothing parked), with the measured
                  period
   Time is logical: a Tick may be placed wherever the runtime could fire the ticker; the period
   itself is the pure function [period] below (milliseconds; [period_ns] in nanoseconds as the
   code computes it).  Timestamps are runtime and appear only as the flag "fresh". *)
From Verif Require Import Base.Prelude Gen.GenConsts.

(* ---- the period of the ticker: updateHeartbeatData ---- *)
(* threshold and subtrahend are read from the source on every run (Gen/GenConsts.v, translator
   harness/cmd/gen/consts.go): `if d > A*time.Second { d -= B*time.Second }` *)
Definition period_of (thr sub d : Z) : Z := if Z.ltb thr d then d - sub else d.
Definition period (t_ms : Z) : Z := period_of heartbeat_threshold_ms heartbeat_subtract_ms t_ms.
Definition period_ns (d_ns : Z) : Z :=
  period_of (heartbeat_threshold_ms * 1000000) (heartbeat_subtract_ms * 1000000) d_ns.

(* ---- calls, program counters ---- *)
Inductive call := CIsRunning | CStop | CStart | CAddFn | CRemoveEntity.
Inductive pc := AtChecked (c : call) | AtStopped (c : call).

Inductive op :=
| Setup (t : Z)                    (* NewEntityLocal(..., t ms): only as the first operation, t >= 100 *)
| Call (t : N) (c : call)
| Resume (t : N)
| Tick (g : N)
| Run (g : N) (k : nat)
| Burst (mode : N) (k n : nat)     (* k StartHeartbeat calls without any parking in between (mode 0: back to back from
                                      one goroutine on one P, mode 1: k goroutines released together), then the
                                      streams run freely until n refreshes happened *)
| First (mode : N) (k : nat)       (* on k further fresh entities of the device (never used before, own DeviceDiagnosis
                                      feature, 100 ms): AddFunctionType(heartbeat) and, from a spinning start together
                                      with it, the entity's first other access to its heartbeat (mode 0
                                      IsHeartbeatRunning, 1 HeartbeatManager(), 2 StartHeartbeat); then the heartbeat runs,
                                      is stopped (StopHeartbeat / RemoveEntity) and watched for three periods.  The two
                                      calls compose sequentially in either order to "one manager, one stream, stoppable"
                                      (Properties/C16.v, C16_first_use_orders); nothing of it touches this entity *)
| Sub                              (* the peer subscribes to the DeviceDiagnosis feature *)
| Unsub
| Read.                            (* DataCopy(heartbeat) *)

Inductive obs :=
| Ready
| Busy                             (* thread id in use *)
| Blocked                          (* waits for stopMux *)
| NotRunnable                      (* step not realisable here *)
| Parked (h : N)                   (* 1 = StopHeartbeat.checked, 2 = StartHeartbeat.stopped *)
| Done                             (* the call returned *)
| RetB (b : bool)                  (* IsHeartbeatRunning returned b *)
| ErrNoFeature                     (* StartHeartbeat returned an error: no heartbeat feature yet *)
| Acquired (t : N)                 (* waiter t got stopMux *)
| Started (g : N)                  (* go updateHeartbeatData: stream g exists *)
| Refreshed (c n : N) (fresh : bool) (tmo : Z)
                                   (* SetData with counter c, n notify datagrams to the peer,
                                      timestamp current, announced timeout in the data (ms) *)
| Exited                           (* the stream saw its stop channel closed and returned *)
| Timing (p : Z) (late : N)        (* measured period (ms) and number of gaps above the timeout *)
| Panic (site : N)                 (* 1 close of closed channel, 2 nil feature in a refresh, 3 close of nil channel *)
| Bursted (g live : N) (fast : bool) (c nn : N) (mono : bool)
                                   (* after the burst: the stream left over is g; live = distinct streams that
                                      refreshed during the free run; fast = the n refreshes came quicker than one
                                      stream can produce them; c = last counter; nn = notifies to the peer for
                                      these refreshes; mono = the counters increased strictly *)
| Firsted (notrunning leaky : N)   (* of the k fresh entities: how many did not report a running heartbeat after the
                                      overlapped first use, how many were refreshed more than once after their stop *)
| Stuck                            (* a call did not return although nobody holds stopMux, or a resumed stream
                                      neither refreshed nor exited: never produced by the model *)
| SubR (b : bool)                  (* the peer is subscribed now *)
| Data (c : option N).             (* counter in the stored heartbeat data *)

Record st := {
  conf : bool;                     (* entity created *)
  tmo : Z;                         (* heartbeat timeout, ms *)
  cur : option N;                  (* stopHeartbeatC: the channel made for stream g *)
  closed : list N;                 (* closed channels *)
  nextg : N;
  streams : list N;                (* streams that have not returned *)
  counter : N;                     (* heartBeatNum *)
  data : option N;                 (* counter in the feature's heartbeat data *)
  feature : bool;                  (* localFeature set (first AddFunctionType(heartbeat) done) *)
  subs : bool;                     (* the peer is subscribed to the feature *)
  removed : bool;                  (* entity removed from the device *)
  hold : option (N * pc);          (* holder of stopMux, parked at a hook *)
  wait : option (N * call)         (* the goroutine blocked on stopMux *)
}.

Definition default_tmo : Z := 100.

(* The configured timeout t (ms, at least 100) is kept as the DurationType text, which keeps tenths of a
   second: the announced timeout is t truncated to a multiple of 100 ms, and StartHeartbeat derives the
   ticker from that text too (GetTimeDuration), so 190 ms is announced and run as 100 ms, 2050 ms as 2 s
   (which is not above the threshold). [tmo] below is the announced value. *)
Definition announced (t : Z) : Z := t / 100 * 100.
Definition bad_tmo (t : Z) : bool := Z.ltb t 100.

Definition init : st :=
  {| conf := false; tmo := default_tmo; cur := None; closed := []; nextg := 0; streams := [];
     counter := 0; data := None; feature := false; subs := false; removed := false;
     hold := None; wait := None |}.

Definition running (s : st) : bool :=
  match cur s with Some g => negb (memN g (closed s)) | None => false end.

Definition nnotify (s : st) : N := if subs s then 1%N else 0%N.

Definition set_hold (s : st) (h : option (N * pc)) : st :=
  {| conf := conf s; tmo := tmo s; cur := cur s; closed := closed s; nextg := nextg s; streams := streams s;
     counter := counter s; data := data s; feature := feature s; subs := subs s; removed := removed s;
     hold := h; wait := wait s |}.

Definition set_wait (s : st) (w : option (N * call)) : st :=
  {| conf := conf s; tmo := tmo s; cur := cur s; closed := closed s; nextg := nextg s; streams := streams s;
     counter := counter s; data := data s; feature := feature s; subs := subs s; removed := removed s;
     hold := hold s; wait := w |}.

Definition set_removed (s : st) : st :=
  {| conf := conf s; tmo := tmo s; cur := cur s; closed := closed s; nextg := nextg s; streams := streams s;
     counter := counter s; data := data s; feature := feature s; subs := subs s; removed := true;
     hold := hold s; wait := wait s |}.

Definition set_subs (s : st) (b : bool) : st :=
  {| conf := conf s; tmo := tmo s; cur := cur s; closed := closed s; nextg := nextg s; streams := streams s;
     counter := counter s; data := data s; feature := feature s; subs := b; removed := removed s;
     hold := hold s; wait := wait s |}.

Definition set_feature (s : st) : st :=
  {| conf := conf s; tmo := tmo s; cur := cur s; closed := closed s; nextg := nextg s; streams := streams s;
     counter := counter s; data := data s; feature := true; subs := subs s; removed := removed s;
     hold := hold s; wait := wait s |}.

Definition set_streams (s : st) (l : list N) : st :=
  {| conf := conf s; tmo := tmo s; cur := cur s; closed := closed s; nextg := nextg s; streams := l;
     counter := counter s; data := data s; feature := feature s; subs := subs s; removed := removed s;
     hold := hold s; wait := wait s |}.

(* close(c.stopHeartbeatC) *)
Definition do_close (s : st) (g : N) : st :=
  {| conf := conf s; tmo := tmo s; cur := cur s; closed := g :: closed s; nextg := nextg s; streams := streams s;
     counter := counter s; data := data s; feature := feature s; subs := subs s; removed := removed s;
     hold := hold s; wait := wait s |}.

(* c.stopHeartbeatC = make(...); go c.updateHeartbeatData(...) *)
Definition do_make (s : st) : st :=
  {| conf := conf s; tmo := tmo s; cur := Some (nextg s); closed := closed s; nextg := N.succ (nextg s);
     streams := streams s ++ [nextg s];
     counter := counter s; data := data s; feature := feature s; subs := subs s; removed := removed s;
     hold := hold s; wait := wait s |}.

(* heartBeatCounter(); SetData: one refresh *)
Definition do_refresh (s : st) : st * obs :=
  let c := N.succ (counter s) in
  ({| conf := conf s; tmo := tmo s; cur := cur s; closed := closed s; nextg := nextg s; streams := streams s;
      counter := c; data := Some c; feature := feature s; subs := subs s; removed := removed s;
      hold := hold s; wait := wait s |},
   Refreshed c (nnotify s) true (tmo s)).

Definition remove_g (g : N) (l : list N) : list N := filter (fun x => negb (N.eqb x g)) l.

(* the critical section of call c entered by thread t, stopMux free *)
Definition run_locked (s : st) (t : N) (c : call) : st * list obs :=
  match c with
  | CIsRunning => (s, [RetB (running s)])
  | CStop =>
      if running s then (set_hold s (Some (t, AtChecked CStop)), [Parked 1]) else (s, [Done])
  | CRemoveEntity =>
      if running s then (set_hold s (Some (t, AtChecked CRemoveEntity)), [Parked 1])
      else (set_removed s, [Done])
  | CStart | CAddFn =>
      if running s then (set_hold s (Some (t, AtChecked c)), [Parked 1])
      else (set_hold s (Some (t, AtStopped c)), [Parked 2])
  end.

(* stopMux is released (hold = None): the waiter, if any, acquires it *)
Definition release (s : st) : st * list obs :=
  match wait s with
  | None => (s, [])
  | Some (t2, c2) =>
      let '(s1, o) := run_locked (set_wait s None) t2 c2 in
      (s1, Acquired t2 :: o)
  end.

Definition is_active (s : st) (t : N) : bool :=
  match hold s with Some (t', _) => N.eqb t t' | None => false end ||
  match wait s with Some (t', _) => N.eqb t t' | None => false end.

(* the part of a call before it takes stopMux *)
Definition pre_lock (s : st) (c : call) : st * list obs * bool (* continue to the lock *) :=
  match c with
  | CIsRunning | CStop | CRemoveEntity => (s, [], true)
      (* RemoveEntity: RemoveAllSubscriptions/Bindings/UseCaseSupports concern what the entity holds as a
         client; the peer's subscription to the entity's server feature stays in the registry *)
  | CStart => if feature s then (s, [], true) else (s, [ErrNoFeature], false)
  | CAddFn =>
      if feature s then (s, [Done], false)       (* operations[heartbeat] is already set: nothing happens *)
      else let '(s1, o) := do_refresh (set_feature s) in (s1, [o], true)
  end.

Definition step_call (s : st) (t : N) (c : call) : st * list obs :=
  if is_active s t then (s, [Busy])
  else match hold s, wait s with
       | Some _, Some _ => (s, [NotRunnable])      (* a second waiter is not modelled *)
       | Some _, None =>
           let '(s1, o, go) := pre_lock s c in
           if go then (set_wait s1 (Some (t, c)), o ++ [Blocked]) else (s1, o)
       | None, _ =>
           let '(s1, o, go) := pre_lock s c in
           if go then let '(s2, o2) := run_locked s1 t c in (s2, o ++ o2) else (s1, o)
       end.

Definition finish (s : st) (c : call) : st * list obs :=
  let s0 := set_hold s None in
  let s1 := match c with CRemoveEntity => set_removed s0 | _ => s0 end in
  let '(s2, o) := release s1 in
  (s2, Done :: o).

Definition step_resume (s : st) (t : N) : st * list obs :=
  match hold s with
  | Some (t', p) =>
      if N.eqb t t' then
        match p with
        | AtChecked c =>
            match cur s with
            | Some g =>
                if memN g (closed s)
                then let '(s1, o) := release (set_hold s None) in (s1, Panic 1 :: o)   (* deferred Unlock *)
                else let s1 := do_close s g in
                     match c with
                     | CStart | CAddFn => (set_hold s1 (Some (t, AtStopped c)), [Parked 2])
                     | _ => finish s1 c
                     end
            | None => let '(s1, o) := release (set_hold s None) in (s1, Panic 3 :: o)
            end
        | AtStopped c =>
            let g := nextg s in
            let '(s1, o) := finish (do_make s) c in
            (s1, Started g :: o)
        end
      else (s, [NotRunnable])
  | None => (s, [NotRunnable])
  end.

(* one loop iteration of stream g after the ticker fired *)
Definition step_tick (s : st) (g : N) : st * list obs :=
  if memN g (streams s) then
    if memN g (closed s) then (set_streams s (remove_g g (streams s)), [Exited])
    else if feature s then let '(s1, o) := do_refresh s in (s1, [o])
         else (set_streams s (remove_g g (streams s)), [Panic 2])
  else (s, [NotRunnable]).

Fixpoint run_ticks (k : nat) (s : st) (g : N) : st * list obs :=
  match k with
  | O => (s, [Timing (period (tmo s)) 0])
  | S k' =>
      let '(s1, o) := step_tick s g in
      match o with
      | [Refreshed _ _ _ _] => let '(s2, o2) := run_ticks k' s1 g in (s2, o ++ o2)
      | _ => (s1, o)
      end
  end.

Definition max_run : nat := 12.

(* k StartHeartbeat calls one after the other with nobody parked: each stops the running stream and starts a new one *)
Definition restart1 (s : st) : st :=
  do_make (match cur s with Some g => if running s then do_close s g else s | None => s end).

Fixpoint restart (k : nat) (s : st) : st :=
  match k with O => s | S k' => restart k' (restart1 s) end.

Fixpoint refresh_n (n : nat) (s : st) : st :=
  match n with O => s | S n' => refresh_n n' (fst (do_refresh s)) end.

Definition burst_ok (k n : nat) : bool := Nat.leb 2 k && Nat.leb k 8 && Nat.leb 2 n && Nat.leb n max_run.

Definition step_burst (s : st) (k n : nat) : st * list obs :=
  if burst_ok k n then
    match hold s with
    | Some _ => (s, [NotRunnable])               (* stopMux is held by a parked goroutine: the starts would block *)
    | None =>
        if feature s then
          let s1 := restart k s in
          let s2 := refresh_n n s1 in
          (s2, [Bursted (match cur s1 with Some g => g | None => 0%N end) 1 false (counter s2)
                        (N.of_nat n * nnotify s) true])
        else (s, [ErrNoFeature])
    end
  else (s, [NotRunnable]).

Definition set_conf (s : st) (t : Z) : st :=
  {| conf := true; tmo := t; cur := cur s; closed := closed s; nextg := nextg s; streams := streams s;
     counter := counter s; data := data s; feature := feature s; subs := subs s; removed := removed s;
     hold := hold s; wait := wait s |}.

Definition step (s : st) (o : op) : st * list obs :=
  match o with
  | Setup t =>
      if conf s || bad_tmo t then (set_conf s (tmo s), [NotRunnable]) else (set_conf s (announced t), [Ready])
  | _ =>
      let s := set_conf s (tmo s) in
      match o with
      | Setup _ => (s, [NotRunnable])
      | Call t c => step_call s t c
      | Resume t => step_resume s t
      | Tick g => step_tick s g
      | Run g k => if Nat.leb 2 k && Nat.leb k max_run then run_ticks k s g else (s, [NotRunnable])
      | Burst _ k n => step_burst s k n
      | First _ _ => (s, [Firsted 0 0])
      | Sub => let b := subs s || negb (removed s) in (set_subs s b, [SubR b])
      | Unsub => let b := subs s && removed s in (set_subs s b, [SubR b])
      | Read => (s, [Data (data s)])
      end
  end.

Fixpoint run (s : st) (ops : list op) : st * list (op * list obs) :=
  match ops with
  | [] => (s, [])
  | o :: r =>
      let '(s1, out) := step s o in
      let '(s2, tr) := run s1 r in
      (s2, (o, out) :: tr)
  end.

(* ---- the code as found: no mutex around check+close / stop+make, no feature check, no re-check ---- *)
Record pst := { p_s : st; p_thr : list (N * pc) }.
Definition pinit : pst := {| p_s := init; p_thr := [] |}.

Definition pin_enter (s : st) (t : N) (c : call) : option pc * list obs :=
  match c with
  | CIsRunning => (None, [RetB (running s)])
  | CStop | CRemoveEntity => if running s then (Some (AtChecked c), [Parked 1]) else (None, [Done])
  | CStart | CAddFn => if running s then (Some (AtChecked c), [Parked 1]) else (Some (AtStopped c), [Parked 2])
  end.

Definition step_pinned (ps : pst) (o : op) : pst * list obs :=
  let s := set_conf (p_s ps) (tmo (p_s ps)) in
  let thr := p_thr ps in
  match o with
  | Setup t =>
      if conf (p_s ps) || bad_tmo t then ({| p_s := s; p_thr := thr |}, [NotRunnable])
      else ({| p_s := set_conf s (announced t); p_thr := thr |}, [Ready])
  | Call t c =>
      match assoc_N t thr with
      | Some _ => ({| p_s := s; p_thr := thr |}, [Busy])
      | None =>
          let '(s1, o1, go) :=
            match c with
            | CStart => (s, [], true)                        (* no feature check *)
            | _ => pre_lock s c
            end in
          if go then
            let '(p, o2) := pin_enter s1 t c in
            let s2 := match c, p with CRemoveEntity, None => set_removed s1 | _, _ => s1 end in
            ({| p_s := s2; p_thr := match p with Some p => thr ++ [(t, p)] | None => thr end |}, o1 ++ o2)
          else ({| p_s := s1; p_thr := thr |}, o1)
      end
  | Resume t =>
      match assoc_N t thr with
      | Some (AtChecked c) =>
          match cur s with
          | Some g =>
              if memN g (closed s) then ({| p_s := s; p_thr := remove_N t thr |}, [Panic 1])
              else let s1 := do_close s g in
                   match c with
                   | CStart | CAddFn => ({| p_s := s1; p_thr := remove_N t thr ++ [(t, AtStopped c)] |}, [Parked 2])
                   | CRemoveEntity => ({| p_s := set_removed s1; p_thr := remove_N t thr |}, [Done])
                   | _ => ({| p_s := s1; p_thr := remove_N t thr |}, [Done])
                   end
          | None => ({| p_s := s; p_thr := remove_N t thr |}, [Panic 3])
          end
      | Some (AtStopped c) =>
          ({| p_s := do_make s; p_thr := remove_N t thr |}, [Started (nextg s); Done])
      | None => ({| p_s := s; p_thr := thr |}, [NotRunnable])
      end
  | Tick g =>
      (* the select took the ticker branch; the stop channel is not looked at again *)
      if memN g (streams s) then
        if feature s then let '(s1, o1) := do_refresh s in ({| p_s := s1; p_thr := thr |}, [o1])
        else ({| p_s := set_streams s (remove_g g (streams s)); p_thr := thr |}, [Panic 2])
      else ({| p_s := s; p_thr := thr |}, [NotRunnable])
  | Run _ _ | Burst _ _ _ => ({| p_s := s; p_thr := thr |}, [NotRunnable])
  | First _ _ => ({| p_s := s; p_thr := thr |}, [Firsted 0 0])
  | Sub => let b := subs s || negb (removed s) in ({| p_s := set_subs s b; p_thr := thr |}, [SubR b])
  | Unsub => let b := subs s && removed s in ({| p_s := set_subs s b; p_thr := thr |}, [SubR b])
  | Read => ({| p_s := s; p_thr := thr |}, [Data (data s)])
  end.

Fixpoint run_pinned (s : pst) (ops : list op) : pst * list (op * list obs) :=
  match ops with
  | [] => (s, [])
  | o :: r =>
      let '(s1, out) := step_pinned s o in
      let '(s2, tr) := run_pinned s1 r in
      (s2, (o, out) :: tr)
  end.

(* ---- wire encoding ----
   op:  0 t        Setup (t ms)
        1 t c      Call t c   (c: 0 IsHeartbeatRunning, 1 StopHeartbeat, 2 StartHeartbeat,
                               3 AddFunctionType(heartbeat), 4 RemoveEntity)
        2 t        Resume t
        3 g        Tick g
        4 g k      Run g k
        5 Sub, 6 Unsub, 7 Read, 7 1 Read after more than one period of real time
        8 m k n    Burst m k n;   0 t w = Setup with a peer connection that takes w ms per write
   obs: 0 Ready, 1 Busy, 2 Blocked, 3 NotRunnable, 4 h Parked, 5 Done, 6 b RetB, 7 ErrNoFeature,
        8 t Acquired, 9 g Started, 10 c n fresh tmo Refreshed, 11 Exited, 12 p late Timing,
        13 site Panic, 14 b SubR, 15 [c] Data, 16 g live fast c nn mono Bursted, 17 Stuck, 18 a b Firsted;  op 9 m k = First m k *)
Definition parse_call (z : Z) : option call :=
  match z with
  | 0 => Some CIsRunning | 1 => Some CStop | 2 => Some CStart | 3 => Some CAddFn | 4 => Some CRemoveEntity
  | _ => None
  end.

Definition parse_op (l : list Z) : option op :=
  match l with
  | [0; t] => Some (Setup t)
  | [0; t; _] => Some (Setup t)    (* the peer's connection takes that many ms per write (runtime only) *)
  | [0; t; _; _] => Some (Setup t) (* ... and a peer that cannot be notified subscribed before it (runtime only) *)
  | [1; t; c] => match parse_call c with Some c => Some (Call (Nz t) c) | None => None end
  | [2; t] => Some (Resume (Nz t))
  | [3; g] => Some (Tick (Nz g))
  | [4; g; k] => Some (Run (Nz g) (Z.to_nat k))
  | [8; m; k; n] => Some (Burst (Nz m) (Z.to_nat k) (Z.to_nat n))
  | [9; m; k] => Some (First (Nz m) (Z.to_nat k))
  | [5] => Some Sub
  | [6] => Some Unsub
  | [7] => Some Read
  | [7; _] => Some Read            (* the runner lets more than one period pass first *)
  | _ => None
  end.

Definition print_obs (o : obs) : list Z :=
  match o with
  | Ready => [0]
  | Busy => [1]
  | Blocked => [2]
  | NotRunnable => [3]
  | Parked h => [4; Zn h]
  | Done => [5]
  | RetB b => [6; Zb b]
  | ErrNoFeature => [7]
  | Acquired t => [8; Zn t]
  | Started g => [9; Zn g]
  | Refreshed c n f t => [10; Zn c; Zn n; Zb f; t]
  | Exited => [11]
  | Timing p l => [12; p; Zn l]
  | Panic k => [13; Zn k]
  | SubR b => [14; Zb b]
  | Stuck => [17]
  | Bursted g l f c nn m => [16; Zn g; Zn l; Zb f; Zn c; Zn nn; Zb m]
  | Firsted a b => [18; Zn a; Zn b]
  | Data None => [15]
  | Data (Some c) => [15; Zn c]
  end.

Definition parse_obs (l : list Z) : option obs :=
  match l with
  | [0] => Some Ready
  | [1] => Some Busy
  | [2] => Some Blocked
  | [3] => Some NotRunnable
  | [4; h] => Some (Parked (Nz h))
  | [5] => Some Done
  | [6; b] => Some (RetB (bZ b))
  | [7] => Some ErrNoFeature
  | [8; t] => Some (Acquired (Nz t))
  | [9; g] => Some (Started (Nz g))
  | [10; c; n; f; t] => Some (Refreshed (Nz c) (Nz n) (bZ f) t)
  | [11] => Some Exited
  | [12; p; l] => Some (Timing p (Nz l))
  | [13; k] => Some (Panic (Nz k))
  | [14; b] => Some (SubR (bZ b))
  | [17] => Some Stuck
  | [16; g; l; f; c; nn; m] => Some (Bursted (Nz g) (Nz l) (bZ f) (Nz c) (Nz nn) (bZ m))
  | [18; a; b] => Some (Firsted (Nz a) (Nz b))
  | [15] => Some (Data None)
  | [15; c] => Some (Data (Some (Nz c)))
  | _ => None
  end.
