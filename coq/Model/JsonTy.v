(* C18 — the type-descriptor universe shared by the generated tables
   (Gen/GenJsonTypes.v, Gen/GenTags.v, Gen/GenFactory.v) and the codec / command
   table models.  Definitions only.

   The Go data model reachable from model.Datagram uses exactly three shapes of
   field types: a value T, a pointer *T and a slice []T, where T is bool, a
   sized integer, a string or a struct (the translator maps anything else to
   [KBad], which the well-formedness check of C18 rejects). *)
From Coq Require Import String List ZArith NArith.

Inductive kind :=
| KBool
| KInt (lo hi : Z)          (* Go's sized integer kinds, with their range *)
| KStr
| KStruct (id : N)          (* index into the struct table *)
| KBad.                     (* anything the codec model does not cover *)

Inductive ty :=
| TVal (k : kind)
| TPtr (k : kind)
| TSlice (k : kind).

Record field := mkF {
  f_json : string;          (* JSON member name *)
  f_omit : bool;            (* omitempty *)
  f_ty : ty
}.

Record sdesc := mkS {
  s_name : string;          (* Go type name, for reports *)
  s_rank : N;               (* 0 for leaves, > rank of every struct-typed field: acyclicity certificate *)
  s_custom : bool;          (* has its own MarshalJSON / UnmarshalJSON *)
  s_fields : list field     (* struct order *)
}.

(* one registered function: name, registered payload type, and the selectors /
   elements types the XSD naming convention assigns to that payload type *)
Record fdesc := mkFn {
  fn_name : string;
  fn_data : N;
  fn_sel : option N;
  fn_el : option N;
  fn_el_item : bool         (* the elements type is that of the list item (not of the payload type itself) *)
}.

(* Go values, positionally: a nil pointer / nil slice is [VNil], a non-nil pointer
   is its pointee, a struct is the list of its field values in struct order *)
Inductive value :=
| VNil
| VBool (b : bool)
| VInt (z : Z)
| VStr (s : string)
| VList (l : list value)
| VStruct (l : list value).

(* JSON trees (numbers are integers: the data model has no float field) *)
Inductive json :=
| JNull
| JBool (b : bool)
| JNum (z : Z)
| JStr (s : string)
| JArr (l : list json)
| JObj (l : list (string * json)).
