(* C19 — executable model of the part of github.com/rickb777/date/period v1.21.1 that
   NewDurationType / getTimeDurationFromString use: NewOf, Period.String, Parse (with
   normalisation) and DurationApprox, in Z arithmetic.  No proofs here.

   A Period holds six int16 fixed-point fields (value * 10).  Go's / and % truncate
   towards zero: [Z.quot] / [Z.rem].  The ISO-8601 text is abstracted to the numbers it
   carries ([ptext]); printing a field with "%g" of float32(field)/10 and reading it back
   with one decimal is taken to be the identity on |field| <= 32767 (trusted, compared
   with the library by the harness).  Durations are Z nanoseconds, |d| < 2^63 (the
   int64 wrap-around of -duration at MinInt64 is not modelled). *)
From Verif Require Import Base.Prelude.

Definition NS_HOUR : Z := 3600000000000.
Definition NS_MINUTE : Z := 60000000000.
Definition NS_SECOND : Z := 1000000000.
Definition NS_100MS : Z := 100000000.

Definition daysPerYearE4 : Z := 3652425.
Definition daysPerMonthE4 : Z := 304369.
Definition daysPerMonthE6 : Z := 30436875.

Record period := { p_y : Z; p_mo : Z; p_d : Z; p_h : Z; p_mi : Z; p_s : Z }.

(* period.NewOf (the returned "precise" flag is ignored by NewDurationType) *)
Definition new_of (dur : Z) : period :=
  let sign := if dur <? 0 then -1 else 1 in
  let d := Z.abs dur in
  let sign10 := sign * 10 in
  let total_hours := Z.quot d NS_HOUR in
  if total_hours <? 3277 then
    {| p_y := 0; p_mo := 0; p_d := 0; p_h := sign10 * total_hours;
       p_mi := sign10 * Z.quot (Z.rem d NS_HOUR) NS_MINUTE;
       p_s := sign * Z.quot (Z.rem d NS_MINUTE) NS_100MS |}
  else
    let total_days := Z.quot total_hours 24 in
    if total_days <? 3277 then
      {| p_y := 0; p_mo := 0; p_d := sign10 * total_days;
         p_h := sign10 * (total_hours - total_days * 24);
         p_mi := sign10 * Z.quot (Z.rem d NS_HOUR) NS_MINUTE;
         p_s := sign * Z.quot (Z.rem d NS_MINUTE) NS_100MS |}
    else
      let years := Z.quot (10000 * total_days) daysPerYearE4 in
      let months := Z.quot (10000 * total_days) daysPerMonthE4 - 12 * years in
      let hours := total_hours - total_days * 24 in
      let days := Z.quot (total_days * 10000 - daysPerMonthE4 * months - daysPerYearE4 * years) 10000 in
      {| p_y := sign10 * years; p_mo := sign10 * months; p_d := sign10 * days;
         p_h := sign10 * hours; p_mi := 0; p_s := 0 |}.

(* the numbers carried by the ISO-8601 text: sign prefix and the value*10 written before
   each designator (0 = designator absent; "P0D" = all zero) *)
Record ptext := { t_neg : bool; t_y : Z; t_mo : Z; t_w : Z; t_d : Z; t_h : Z; t_mi : Z; t_s : Z }.

Definition is_negative (p : period) : bool :=
  (p_y p <? 0) || (p_mo p <? 0) || (p_d p <? 0) || (p_h p <? 0) || (p_mi p <? 0) || (p_s p <? 0).

(* Period.String = toPeriod64("").String(): all fields are negated when any is negative;
   whole weeks are written as weeks *)
Definition to_text (p : period) : ptext :=
  let neg := is_negative p in
  let f := fun x => if neg then - x else x in
  let days := f (p_d p) in
  let weeks := (negb (days =? 0)) && (Z.rem days 70 =? 0) in
  {| t_neg := neg; t_y := f (p_y p); t_mo := f (p_mo p);
     t_w := if weeks then Z.quot days 7 else 0;
     t_d := if weeks then 0 else days;
     t_h := f (p_h p); t_mi := f (p_mi p); t_s := f (p_s p) |}.

Definition MAX_INT16 : Z := 32767.

(* period.Parse (normalise = true): fields, weeks folded into days, rippleUp(precise),
   moveFractionToRight, toPeriod (int16 overflow is an error).  A '-' inside the text
   (a negative number before a designator) is a parse error. *)
Definition parse (t : ptext) : option period :=
  if (t_y t <? 0) || (t_mo t <? 0) || (t_w t <? 0) || (t_d t <? 0) || (t_h t <? 0) || (t_mi t <? 0) || (t_s t <? 0)
  then None else
  let years := t_y t in
  let months := t_mo t in
  let days := t_d t + t_w t * 7 in
  let hours := t_h t in
  let minutes := t_mi t in
  let seconds := t_s t in
  (* rippleUp(true) *)
  let minutes := minutes + Z.quot seconds 600 * 10 in
  let seconds := Z.rem seconds 600 in
  let hours := hours + Z.quot minutes 600 * 10 in
  let minutes := Z.rem minutes 600 in
  let '(days, hours) :=
    if hours >? 32204 then (days + Z.quot hours 240 * 10, Z.rem hours 240) else (days, hours) in
  let '(months, days) :=
    if days >? 32760 then
      let dE6 := days * 100000 in
      (months + Z.quot dE6 daysPerMonthE6 * 10, Z.quot (Z.rem dE6 daysPerMonthE6) 100000)
    else (months, days) in
  let years := years + Z.quot months 120 * 10 in
  let months := Z.rem months 120 in
  (* moveFractionToRight *)
  let y10 := Z.rem years 10 in
  let '(years, months) :=
    if negb (y10 =? 0) && negb ((months =? 0) && (days =? 0) && (hours =? 0) && (minutes =? 0) && (seconds =? 0))
    then (Z.quot years 10 * 10, months + y10 * 12) else (years, months) in
  let m10 := Z.rem months 10 in
  let '(months, days) :=
    if negb (m10 =? 0) && negb ((days =? 0) && (hours =? 0) && (minutes =? 0) && (seconds =? 0))
    then (Z.quot months 10 * 10, days + Z.quot (m10 * daysPerMonthE6) 1000000) else (months, days) in
  let d10 := Z.rem days 10 in
  let '(days, hours) :=
    if negb (d10 =? 0) && negb ((hours =? 0) && (minutes =? 0) && (seconds =? 0))
    then (Z.quot days 10 * 10, hours + d10 * 24) else (days, hours) in
  let hh10 := Z.rem hours 10 in
  let '(hours, minutes) :=
    if negb (hh10 =? 0) && negb ((minutes =? 0) && (seconds =? 0))
    then (Z.quot hours 10 * 10, minutes + hh10 * 60) else (hours, minutes) in
  let mm10 := Z.rem minutes 10 in
  let '(minutes, seconds) :=
    if negb (mm10 =? 0) && negb (seconds =? 0)
    then (Z.quot minutes 10 * 10, seconds + mm10 * 60) else (minutes, seconds) in
  (* toPeriod *)
  if (years >? MAX_INT16) || (months >? MAX_INT16) || (days >? MAX_INT16) || (hours >? MAX_INT16)
     || (minutes >? MAX_INT16) || (seconds >? MAX_INT16)
  then None else
  let f := fun x => if t_neg t then - x else x in
  Some {| p_y := f years; p_mo := f months; p_d := f days; p_h := f hours; p_mi := f minutes; p_s := f seconds |}.

(* Period.DurationApprox: tdE6 * Microsecond + stE3 * Millisecond *)
Definition duration_approx (p : period) : Z :=
  let tdE6 := (p_y p * (daysPerYearE4 * 100) + p_mo p * daysPerMonthE6 + p_d p * 1000000) * 8640 in
  let stE3 := p_h p * 360000 + p_mi p * 6000 + p_s p * 100 in
  tdE6 * 1000 + stE3 * 1000000.

(* NewDurationType: the text; GetTimeDuration: the duration read from a text *)
Definition new_duration (dur : Z) : ptext := to_text (new_of dur).
Definition get_duration (t : ptext) : option Z :=
  match parse t with Some p => Some (duration_approx p) | None => None end.
