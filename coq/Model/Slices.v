(* C11 — memory model for the aliasing questions: Go slices as headers over a heap of
   backing arrays, the outer structs (a T with one list field, always handled through a pointer) as a second heap, and the
   FunctionData.data pointer.  Every change of the memory is an explicit effect; a
   program is a tree of effects and reads, so that the memory after a program IS the
   replay of its effect list (Proofs/SnapProofs.v, exec_replay) and "a reader running
   concurrently" can be stated over the prefixes of that list.  No proofs here.

   Abstractions: an element struct is the list of its fields, each an optional value
   number (the pointees are never written by spine-go, only the pointer fields of the
   element struct inside the backing array are: reflect Set on a field of
   existingData[i]); a slice header has no offset because none of the modelled paths
   re-slices with a lower bound; the nil slice and every zero-capacity slice point to
   the reserved empty array 0. *)
From Verif Require Import Base.Prelude.

Definition cell := list (option N).

Record slice := { s_arr : nat; s_len : nat; s_cap : nat }.
Definition nil_slice : slice := {| s_arr := 0; s_len := 0; s_cap := 0 |}.

Record mem := {
  arrays : list (list cell);     (* backing arrays; array 0 is the empty array *)
  objs : list slice;             (* outer structs: the header held by their list field *)
  storep : option nat            (* FunctionData.data: nil or a pointer to an outer struct *)
}.

Definition mem0 : mem := {| arrays := [[]]; objs := []; storep := None |}.

Inductive eff :=
| EAllocArr (cs : list cell)          (* make / growslice / json decode: a new backing array holding cs *)
| EWriteCell (a i : nat) (c : cell)   (* arrays[a][i] = c: reflect Set on fields of &s[i], append within capacity, sort swap *)
| EAllocObj (sl : slice)              (* new(T), copiedData = *r.data, a decoded / caller-built *T *)
| EWriteObj (p : nat) (sl : slice)    (* p.XListData = sl (per-type UpdateList, `if success && persist`) *)
| EStore (p : option nat).            (* r.data = p *)

Fixpoint upd_nth {A} (l : list A) (i : nat) (x : A) : list A :=
  match l, i with
  | [], _ => []
  | _ :: r, O => x :: r
  | y :: r, S i' => y :: upd_nth r i' x
  end.

Definition apply_eff (m : mem) (e : eff) : mem :=
  match e with
  | EAllocArr cs => {| arrays := arrays m ++ [cs]; objs := objs m; storep := storep m |}
  | EWriteCell a i c =>
      {| arrays := upd_nth (arrays m) a (upd_nth (nth a (arrays m) []) i c); objs := objs m; storep := storep m |}
  | EAllocObj sl => {| arrays := arrays m; objs := objs m ++ [sl]; storep := storep m |}
  | EWriteObj p sl => {| arrays := arrays m; objs := upd_nth (objs m) p sl; storep := storep m |}
  | EStore p => {| arrays := arrays m; objs := objs m; storep := p |}
  end.

Definition replay (l : list eff) (m : mem) : mem := fold_left apply_eff l m.

(* reads *)
Definition arr_of (m : mem) (a : nat) : list cell := nth a (arrays m) [].
Definition rd (m : mem) (sl : slice) (i : nat) : cell := nth i (arr_of m (s_arr sl)) [].
Definition items (m : mem) (sl : slice) : list cell := firstn (s_len sl) (arr_of m (s_arr sl)).
Definition obj (m : mem) (p : nat) : slice := nth p (objs m) nil_slice.

(* programs over the memory *)
Inductive prog (A : Type) :=
| Ret (a : A)
| Emit (e : eff) (k : prog A)
| Get (k : mem -> prog A).
Arguments Ret {A}.
Arguments Emit {A}.
Arguments Get {A}.

Fixpoint bind {A B} (p : prog A) (f : A -> prog B) : prog B :=
  match p with
  | Ret a => f a
  | Emit e k => Emit e (bind k f)
  | Get k => Get (fun m => bind (k m) f)
  end.

Notation "x <- p ;; q" := (bind p (fun x => q)) (at level 61, p at next level, right associativity).
Notation "p ;;; q" := (bind p (fun _ => q)) (at level 61, right associativity).

Definition emit (e : eff) : prog unit := Emit e (Ret tt).
Definition get {A} (f : mem -> A) : prog A := Get (fun m => Ret (f m)).

(* run a program: the result, the memory afterwards, the effects in program order *)
Fixpoint exec {A} (p : prog A) (m : mem) : A * mem * list eff :=
  match p with
  | Ret a => (a, m, [])
  | Emit e k => let '(a, m', l) := exec k (apply_eff m e) in (a, m', e :: l)
  | Get k => exec (k m) m
  end.

(* ---- the primitives of the Go code ---- *)

(* a new backing array with exactly these cells (capacity = length); nothing is
   allocated for zero cells (reflect.MakeSlice(t, 0, 0), an absent / empty JSON list) *)
Definition alloc_arr (cs : list cell) : prog slice :=
  match cs with
  | [] => Ret nil_slice
  | _ =>
      a <- get (fun m => length (arrays m)) ;;
      emit (EAllocArr cs) ;;;
      Ret {| s_arr := a; s_len := length cs; s_cap := length cs |}
  end.

Definition alloc_obj (sl : slice) : prog nat :=
  p <- get (fun m => length (objs m)) ;;
  emit (EAllocObj sl) ;;;
  Ret p.

Definition write (sl : slice) (i : nat) (c : cell) : prog unit := emit (EWriteCell (s_arr sl) i c).

Definition pad (n : nat) : list cell := repeat [] n.

(* append(sl, c) under growth policy [grow oldcap needed]: in place when there is
   room, otherwise a new array of capacity max needed (grow oldcap needed) *)
Definition append (grow : nat -> nat -> nat) (sl : slice) (c : cell) : prog slice :=
  if Nat.ltb (s_len sl) (s_cap sl) then
    write sl (s_len sl) c ;;;
    Ret {| s_arr := s_arr sl; s_len := S (s_len sl); s_cap := s_cap sl |}
  else
    old <- get (fun m => items m sl) ;;
    a <- get (fun m => length (arrays m)) ;;
    let need := S (s_len sl) in
    let cp := Nat.max need (grow (s_cap sl) need) in
    emit (EAllocArr (old ++ [c] ++ pad (cp - need))) ;;;
    Ret {| s_arr := a; s_len := need; s_cap := cp |}.

(* the growth policy used when the model is executed (runtime.growslice doubles small
   slices; size-class rounding is not modelled: no observation depends on capacities) *)
Definition go_grow (oldcap needed : nat) : nat :=
  if Nat.ltb (2 * oldcap) needed then needed else 2 * oldcap.
