(* C19 — executable model of model/commondatatypes_additions.go: NewScaledNumberType /
   ScaledNumberType.GetValue on IEEE-754 binary64 (Flocq [binary_float 53 1024],
   round to nearest even).  No proofs here (only the two arithmetic side conditions
   Flocq's functions are parameterised by).

   What is modelled, line by line (NewScaledNumberType, after the repair Trunc -> Round):
     temp := strconv.FormatFloat(value,'f',-1,64); numberOfDecimals := digits after '.'
                                   -> [decimals]: least d' such that some integer m has
                                      RN(m / 10^d') = value (that is what shortest
                                      formatting prints), cut at [decimal_cap] = 4
     math.Pow(10, float64(d))      -> [Z2B (10^d)]   (exact for d <= 22)
     value * ...                   -> [Bmult mode_NE]
     math.Round / math.Trunc       -> [round_away] / [round_trunc] (to an integer)
     NumberType(...) (int64 conv.) -> [to_int64] (out of range: 0x8000000000000000 as on amd64)
     scale = -d unless number = 0
   GetValue: float64(number) * math.Pow(10, scale)
                                   -> [Bmult (Z2B number) (pow10 scale)],
                                      math.Pow(10,-d) = RN(1/10^d) (compared with Go for d <= 22). *)
From Coq Require Import ZArith List Bool Lia.
From Flocq Require Import Core BinarySingleNaN.
From Verif Require Import Base.Prelude.

Definition prec : Z := 53.
Definition emax : Z := 1024.
#[global] Instance Hprec : Prec_gt_0 prec. Proof. reflexivity. Qed.
#[global] Instance Hmax : Prec_lt_emax prec emax. Proof. reflexivity. Qed.

Definition b64 := binary_float prec emax.

(* int64 / exact integer -> float64 (round to nearest even) *)
Definition Z2B (z : Z) : b64 := binary_normalize prec emax Hprec Hmax mode_NE z 0 false.

(* the correctly rounded quotient of two integers of any size (Go: parsing the decimal
   literal "a e-d" with b = 10^d; also a / b for floats that hold a and b exactly) *)
Definition RNdiv (a : Z) (b : positive) : b64 :=
  match a with
  | Z0 => B754_zero false
  | Zpos p => SF2B _ (proj1 (Bdiv_correct_aux prec emax Hprec Hmax mode_NE false p 0 false b 0))
  | Zneg p => SF2B _ (proj1 (Bdiv_correct_aux prec emax Hprec Hmax mode_NE true p 0 false b 0))
  end.

Definition pos10 (d : Z) : positive := Z.to_pos (10 ^ d).

(* the float64 nearest to the decimal k * 10^-d *)
Definition dec (k d : Z) : b64 := RNdiv k (pos10 d).

Definition same_mag (x : b64) (m : positive) (e : Z) : bool :=
  match x with
  | B754_finite _ m' e' _ => Pos.eqb m m' && Z.eqb e e'
  | _ => false
  end.

(* does some decimal with d fractional digits round to v?  It suffices to try the two
   integers around |v| * 10^d (the set of reals rounding to v is an interval around v). *)
Definition has_dec (v : b64) (d : Z) : bool :=
  match v with
  | B754_finite _ m e _ =>
      let num := Zpos m * 10 ^ d in
      let lo := if 0 <=? e then num * 2 ^ e else num / 2 ^ (- e) in
      let exact := if 0 <=? e then true else (num mod 2 ^ (- e) =? 0) in
      let hi := if exact then lo else lo + 1 in
      same_mag (RNdiv lo (pos10 d)) m e || same_mag (RNdiv hi (pos10 d)) m e
  | _ => true     (* "0", "-0", "+Inf", "NaN": no decimal point *)
  end.

Definition decimal_cap : Z := 4.

(* number of digits after the point in FormatFloat(v,'f',-1,64), cut at the cap *)
Definition decimals (v : b64) : Z :=
  if has_dec v 0 then 0 else if has_dec v 1 then 1 else if has_dec v 2 then 2
  else if has_dec v 3 then 3 else decimal_cap.

Definition MIN_INT64 : Z := - 2 ^ 63.

(* float64 -> int64 conversion of an integral float *)
Definition to_int64 (finite : bool) (n : Z) : Z :=
  if finite && (MIN_INT64 <=? n) && (n <? 2 ^ 63) then n else MIN_INT64.

(* math.Round: nearest integer, halves away from zero *)
Definition round_away (x : b64) : Z :=
  to_int64 (is_finite x) (Btrunc (Bnearbyint mode_NA x)).
(* math.Trunc *)
Definition round_trunc (x : b64) : Z := to_int64 (is_finite x) (Btrunc x).

Definition new_scaled_with (rnd : b64 -> Z) (v : b64) : Z * Z :=
  let d := decimals v in
  let n := rnd (Bmult mode_NE v (Z2B (10 ^ d))) in
  (n, if n =? 0 then 0 else - d).

(* the repaired code (fix: Trunc -> Round) and the pinned tree *)
Definition new_scaled := new_scaled_with round_away.
Definition new_scaled_pinned := new_scaled_with round_trunc.

Definition pow10 (s : Z) : b64 := if s <? 0 then RNdiv 1 (pos10 (- s)) else Z2B (10 ^ s).

Definition get_value (n s : Z) : b64 := Bmult mode_NE (Z2B n) (pow10 s).

(* ---- wire encoding of a float64: [sign; mantissa; exponent] with value
   (-1)^sign * mantissa * 2^exponent in canonical form (mantissa < 2^53, exponent >= -1074,
   mantissa >= 2^52 unless exponent = -1074); zero = [s;0;0]; infinity = [s;-1;0]; NaN = [0;-2;0] *)
Definition b64_of_wire (s m e : Z) : b64 :=
  if m =? -1 then B754_infinity (bZ s)
  else if m =? -2 then B754_nan
  else binary_normalize prec emax Hprec Hmax mode_NE (if bZ s then - m else m) e (bZ s).

Definition wire_of_b64 (x : b64) : list Z :=
  match x with
  | B754_zero s => [Zb s; 0; 0]
  | B754_infinity s => [Zb s; -1; 0]
  | B754_nan => [0; -2; 0]
  | B754_finite s m e _ => [Zb s; Zpos m; e]
  end.
