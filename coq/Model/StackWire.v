(* Integer wire encoding of Model/Stack.v's operations and observations
   (the harness side is harness/stack/wire.go). *)
From Verif Require Import Base.Prelude Model.Stack.

Definition P (A : Type) := list Z -> option (A * list Z).

Definition pret {A} (a : A) : P A := fun l => Some (a, l).
Definition pbind {A B} (p : P A) (f : A -> P B) : P B :=
  fun l => match p l with Some (a, r) => f a r | None => None end.
Notation "'do' x <- p ;; q" := (pbind p (fun x => q)) (at level 200, x pattern, p at level 100, q at level 200).

Definition pZ : P Z := fun l => match l with x :: r => Some (x, r) | [] => None end.
Definition pN : P N := do x <- pZ;; pret (Nz x).
Definition pB : P bool := do x <- pZ;; pret (bZ x).
Definition pOptN : P (option N) := do x <- pZ;; pret (if Z.eqb x 0 then None else Some (Nz (x - 1))).

Fixpoint pRep {A} (n : nat) (p : P A) : P (list A) :=
  match n with
  | O => pret []
  | S n' => do a <- p;; do r <- pRep n' p;; pret (a :: r)
  end.

Definition pList {A} (p : P A) : P (list A) := do n <- pZ;; pRep (Z.to_nat n) p.
Definition pEaddr : P eaddr := pList pN.
Definition pFaddr : P faddr :=
  do d <- pOptN;; do e <- pEaddr;; do f <- pOptN;; pret {| fa_dev := d; fa_ent := e; fa_feat := f |}.
Definition pRole : P role :=
  do x <- pZ;; pret (if Z.eqb x 0 then RClient else if Z.eqb x 1 then RServer else RSpecial).
Definition pState : P (option estate) :=
  do x <- pZ;; pret (if Z.eqb x 0 then None else if Z.eqb x 1 then Some SAdded else Some SRemoved).
Definition pDiscEnt : P disc_ent :=
  do e <- pEaddr;; do d <- pOptN;; do s <- pState;; pret {| de_addr := e; de_dev := d; de_state := s |}.
Definition pDiscFeat : P disc_feat :=
  do e <- pEaddr;; do i <- pN;; do t <- pN;; do r <- pRole;;
  pret {| df_ent := e; df_id := i; df_type := t; df_role := r |}.
Definition pMsg : P disc_msg :=
  do d <- pOptN;; do es <- pList pDiscEnt;; do fs <- pList pDiscFeat;;
  pret {| dm_dev := d; dm_ents := es; dm_feats := fs |}.
Definition pCall : P reg_call :=
  do c <- pFaddr;; do s <- pFaddr;; do t <- pOptN;; pret {| rc_cli := c; rc_srv := s; rc_type := t |}.

Definition pOp : P op :=
  do code <- pZ;;
  match code with
  | 1 => do e <- pEaddr;; pret (AddLocalEntity e)
  | 2 => do t <- pN;; do r <- pRole;; do e <- pEaddr;; pret (AddLocalFeature e t r)
  | 3 => do f <- pN;; do fn <- pN;; do rd <- pB;; do wr <- pB;; do e <- pEaddr;; pret (AddFunction e f fn rd wr)
  | 4 => do p <- pN;; pret (Connect p)
  | 5 => do p <- pN;; do m <- pMsg;; pret (DiscoveryReply p m)
  | 6 => do p <- pN;; do c <- pN;; do a <- pB;; do m <- pMsg;; pret (DiscoveryNotify p c a m)
  | 7 => do p <- pN;; do c <- pN;; do a <- pB;; do rc <- pCall;; pret (SubCall p c a rc)
  | 8 => do p <- pN;; do c <- pN;; do a <- pB;; do rc <- pCall;; pret (SubDelete p c a rc)
  | 9 => do p <- pN;; do c <- pN;; do a <- pB;; do rc <- pCall;; pret (BindCall p c a rc)
  | 10 => do p <- pN;; do c <- pN;; do a <- pB;; do rc <- pCall;; pret (BindDelete p c a rc)
  | 11 => do f <- pN;; do fn <- pN;; do v <- pN;; do e <- pEaddr;; pret (SetData e f fn v)
  | 12 => do p <- pN;; do c <- pN;; do a <- pB;; do fn <- pN;; do v <- pN;; do s <- pFaddr;; do d <- pFaddr;;
          pret (Write p c a s d fn v)
  | 13 => do p <- pN;; pret (Disconnect p)
  | 14 => do p <- pN;; pret (ListSubs p)
  | 15 => do p <- pN;; pret (ListBinds p)
  | 16 => do f <- pN;; do e <- pEaddr;; do r <- pFaddr;; pret (LocalSubscribe e f r)
  | 17 => do f <- pN;; do e <- pEaddr;; do r <- pFaddr;; pret (LocalBind e f r)
  | 18 => do f <- pN;; do e <- pEaddr;; do r <- pFaddr;; pret (HasLocalSub e f r)
  | 19 => do f <- pN;; do e <- pEaddr;; do r <- pFaddr;; pret (HasLocalBind e f r)
  | 20 => do f <- pN;; do fn <- pN;; do e <- pEaddr;; pret (ReadData e f fn)
  | 21 => do p <- pN;; do d <- pOptN;; pret (Resolve p d)
  | 23 => do f <- pN;; do e <- pEaddr;; do r <- pFaddr;; pret (LocalUnsubscribe e f r)
  | 24 => do f <- pN;; do e <- pEaddr;; do r <- pFaddr;; pret (LocalUnbind e f r)
  | _ => fun _ => None
  end.

Definition parse_op (l : list Z) : option op :=
  match pOp l with
  | Some (o, []) => Some o
  | _ => None
  end.

(* ---- printing ---- *)
Definition wOptN (o : option N) : list Z := match o with None => [0] | Some n => [Zn n + 1] end.
Definition wEaddr (e : eaddr) : list Z := Z.of_nat (length e) :: map Zn e.
Definition wFaddr (a : faddr) : list Z := wOptN (fa_dev a) ++ wEaddr (fa_ent a) ++ wOptN (fa_feat a).
Definition wOpt {A} (w : A -> list Z) (o : option A) : list Z := match o with None => [0] | Some a => 1 :: w a end.
Definition wKind (k : evkind) : Z :=
  match k with EvDevice => 0 | EvEntity => 1 | EvSub => 2 | EvBind => 3 | EvData => 4 end.
Definition wChange (c : evchange) : Z := match c with ChAdd => 0 | ChUpdate => 1 | ChRemove => 2 end.

Definition print_obs (o : obs) : list Z :=
  match o with
  | OResult p ref err src dst => [1; Zn p; Zn ref; Zb err] ++ wFaddr src ++ wFaddr dst
  | ONotify p src dst fn v => [2; Zn p; Zn fn; Zn v] ++ wFaddr src ++ wFaddr dst
  | OCall p k src dst => [3; Zn p; Zn k] ++ wFaddr src ++ wFaddr dst
  | OOther p c => [4; Zn p; Zn c]
  | OEvent k c ski e f lf => [5; wKind k; wChange c; Zn ski] ++ wOpt wEaddr e ++ wOpt wFaddr f ++ wOpt wFaddr lf
  | ORetN n => [6; Zn n]
  | ORetB b => [7; Zb b]
  | OEntry id srv cli => [8; Zn id] ++ wFaddr srv ++ wFaddr cli
  | ONone => [9]
  end.

Definition pOpt {A} (p : P A) : P (option A) :=
  do x <- pZ;; if Z.eqb x 0 then pret None else do a <- p;; pret (Some a).
Definition pKind : P evkind :=
  do x <- pZ;; pret (match x with 0 => EvDevice | 1 => EvEntity | 2 => EvSub | 3 => EvBind | _ => EvData end).
Definition pChange : P evchange :=
  do x <- pZ;; pret (match x with 0 => ChAdd | 1 => ChUpdate | _ => ChRemove end).

Definition pObs : P obs :=
  do code <- pZ;;
  match code with
  | 1 => do p <- pN;; do r <- pN;; do e <- pB;; do s <- pFaddr;; do d <- pFaddr;; pret (OResult p r e s d)
  | 2 => do p <- pN;; do fn <- pN;; do v <- pN;; do s <- pFaddr;; do d <- pFaddr;; pret (ONotify p s d fn v)
  | 3 => do p <- pN;; do k <- pN;; do s <- pFaddr;; do d <- pFaddr;; pret (OCall p k s d)
  | 4 => do p <- pN;; do c <- pN;; pret (OOther p c)
  | 5 => do k <- pKind;; do c <- pChange;; do ski <- pN;; do e <- pOpt pEaddr;; do f <- pOpt pFaddr;; do lf <- pOpt pFaddr;;
         pret (OEvent k c ski e f lf)
  | 6 => do n <- pN;; pret (ORetN n)
  | 7 => do b <- pB;; pret (ORetB b)
  | 8 => do i <- pN;; do s <- pFaddr;; do c <- pFaddr;; pret (OEntry i s c)
  | 9 => pret ONone
  | _ => fun _ => None
  end.

Definition parse_obs (l : list Z) : option obs :=
  match pObs l with
  | Some (o, []) => Some o
  | _ => None
  end.
