(* The composed model of the message-driven core of spine-go, as far as the
   registry / write-gate / teardown properties need it (C03, C08, C09, C10):
   local tree, one remote tree per connected peer, subscription and binding
   registries, function data as opaque values, client-side bookkeeping, the
   dispatcher's result rules for calls and writes, the core-level event log.

   Executable definitions only; transcribed from
     spine/device_local.go  spine/subscription_manager.go  spine/binding_manager.go
     spine/nodemanagement*.go  spine/device_remote.go  spine/entity_remote.go
     spine/feature_local.go
   Identifiers are numbers kept in bijection by the harness (harness/stack).

   Discovery and teardown are transcribed from /repo main with the C06 repairs (b136597: every
   notification entry by its own state; bbf4b62: the removal cascade cleans the client caches with
   the REMOTE DEVICE's address; 0fc9a5d: a discovery reply removes the entities it no longer lists)
   and the C05 repairs (294987f / 030c7cf: a connected remote device never loses entity [0] /
   NodeManagement feature 0), and with what DeviceLocal.HandleEvent does on the device-added
   event (the address of the node-management feature the reply came in through is completed in
   place).  Model/Discovery.v (C06) is an independent transcription of the same code. *)
From Verif Require Import Base.Prelude.

(* ------------------------------------------------------------------ addresses *)
Definition eaddr := list N.
Record faddr := { fa_dev : option N; fa_ent : eaddr; fa_feat : option N }.

Fixpoint eqb_eaddr (a b : eaddr) : bool :=
  match a, b with
  | [], [] => true
  | x :: a', y :: b' => N.eqb x y && eqb_eaddr a' b'
  | _, _ => false
  end.

Definition eqb_optN (a b : option N) : bool :=
  match a, b with
  | None, None => true
  | Some x, Some y => N.eqb x y
  | _, _ => false
  end.

Definition eqb_faddr (a b : faddr) : bool :=
  eqb_optN (fa_dev a) (fa_dev b) && eqb_eaddr (fa_ent a) (fa_ent b) && eqb_optN (fa_feat a) (fa_feat b).

Inductive role := RClient | RServer | RSpecial.
Definition eqb_role (a b : role) : bool :=
  match a, b with
  | RClient, RClient | RServer, RServer | RSpecial, RSpecial => true
  | _, _ => false
  end.

(* feature types (numbering of the harness) *)
Definition T_GENERIC : N := 4.
Definition T_NODEMGMT : N := 5.
Definition T_DEVCLASS : N := 6.
Definition LOCAL_DEV : N := 0.

(* function -> the feature type whose factory registers it (function_data_factory.go,
   restricted to the functions the harness uses) *)
Definition fn_registered (t fn : N) : bool :=
  match fn with
  | 1%N | 2%N => N.eqb t 1 || N.eqb t T_GENERIC     (* LoadControl: limit list, limit description list *)
  | 3%N => N.eqb t 2 || N.eqb t T_GENERIC           (* Measurement: measurement list *)
  | 4%N => N.eqb t 3 || N.eqb t T_GENERIC           (* DeviceConfiguration: key value list *)
  | _ => false
  end.

(* ------------------------------------------------------------------ trees *)
Record lfeat := {
  lf_ent : eaddr; lf_id : N; lf_type : N; lf_role : role;
  lf_ops : list (N * (bool * bool));      (* function -> (read, write), Feature.operations *)
  lf_data : list (N * N);                 (* function -> stored value *)
  lf_subs : list faddr;                   (* FeatureLocal.subscriptions (client-side bookkeeping) *)
  lf_binds : list faddr                   (* FeatureLocal.bindings *)
}.

Record lent := { le_addr : eaddr; le_next : N }.   (* entity + its feature id generator *)

Record rfeat := { rf_dev : option N; rf_id : N; rf_type : N; rf_role : role }.
Record rent := { re_dev : option N; re_addr : eaddr; re_feats : list rfeat }.
Record peer := { p_ski : N; p_addr : option N; p_ents : list rent }.

Record entry := { e_id : N; e_srv : eaddr * N; e_ski : N; e_cli : faddr }.

Record st := {
  lents : list lent;
  lfeats : list lfeat;
  peers : list peer;                      (* DeviceLocal.remoteDevices *)
  subs : list entry; next_sub : N;
  binds : list entry; next_bind : N
}.

Definition nodemgmt_feat : lfeat :=
  {| lf_ent := [0%N]; lf_id := 0; lf_type := T_NODEMGMT; lf_role := RSpecial;
     lf_ops := []; lf_data := []; lf_subs := []; lf_binds := [] |}.
Definition devclass_feat : lfeat :=
  {| lf_ent := [0%N]; lf_id := 1; lf_type := T_DEVCLASS; lf_role := RServer;
     lf_ops := []; lf_data := []; lf_subs := []; lf_binds := [] |}.

Definition init : st :=
  {| lents := [ {| le_addr := [0%N]; le_next := 2 |} ];
     lfeats := [nodemgmt_feat; devclass_feat];
     peers := []; subs := []; next_sub := 0; binds := []; next_bind := 0 |}.

(* ------------------------------------------------------------------ observations *)
Inductive evkind := EvDevice | EvEntity | EvSub | EvBind | EvData.
Inductive evchange := ChAdd | ChUpdate | ChRemove.

Inductive obs :=
| OResult (p : N) (ref : N) (err : bool) (src dst : faddr)       (* result datagram written to peer p *)
| ONotify (p : N) (src dst : faddr) (fn v : N)                   (* data notification written to peer p *)
| OCall (p : N) (kind : N) (src dst : faddr)                     (* outgoing subscribe/bind/... call (kind 1..4) *)
| OOther (p : N) (cls : N)                                       (* any other datagram written to peer p *)
| OEvent (k : evkind) (c : evchange) (ski : N) (ent : option eaddr) (feat : option faddr) (lfeat : option faddr)
| ORetN (n : N)                                                  (* numeric return value *)
| ORetB (b : bool)
| OEntry (id : N) (srv cli : faddr)                              (* one registry entry of a listing *)
| ONone.                                                         (* "nil" *)

(* ------------------------------------------------------------------ operations *)
Record reg_call := { rc_cli : faddr; rc_srv : faddr; rc_type : option N }.

Inductive estate := SAdded | SRemoved.
Record disc_ent := { de_addr : eaddr; de_dev : option N; de_state : option estate }.
Record disc_feat := { df_ent : eaddr; df_id : N; df_type : N; df_role : role }.
Record disc_msg := { dm_dev : option N; dm_ents : list disc_ent; dm_feats : list disc_feat }.

Inductive op :=
| AddLocalEntity (e : eaddr)
| AddLocalFeature (e : eaddr) (t : N) (r : role)
| AddFunction (e : eaddr) (f fn : N) (rd wr : bool)
| Connect (p : N)
| DiscoveryReply (p : N) (m : disc_msg)
| DiscoveryNotify (p ctr : N) (ack : bool) (m : disc_msg)        (* partial notification *)
| SubCall (p ctr : N) (ack : bool) (c : reg_call)
| SubDelete (p ctr : N) (ack : bool) (c : reg_call)
| BindCall (p ctr : N) (ack : bool) (c : reg_call)
| BindDelete (p ctr : N) (ack : bool) (c : reg_call)
| SetData (e : eaddr) (f fn v : N)
| Write (p ctr : N) (ack : bool) (src dst : faddr) (fn v : N)
| Disconnect (p : N)
| ListSubs (p : N)
| ListBinds (p : N)
| LocalSubscribe (e : eaddr) (f : N) (r : faddr)
| LocalBind (e : eaddr) (f : N) (r : faddr)
| HasLocalSub (e : eaddr) (f : N) (r : faddr)
| HasLocalBind (e : eaddr) (f : N) (r : faddr)
| ReadData (e : eaddr) (f fn : N)
| Resolve (p : N) (dev : option N)                                (* RemoteDeviceForSki / RemoteDeviceForAddress *)
| LocalUnsubscribe (e : eaddr) (f : N) (r : faddr)                (* FeatureLocal.RemoveRemoteSubscription *)
| LocalUnbind (e : eaddr) (f : N) (r : faddr).                    (* FeatureLocal.RemoveRemoteBinding *)

(* ------------------------------------------------------------------ lookups *)
Definition find_lfeat (s : st) (e : eaddr) (f : option N) : option lfeat :=
  match f with
  | None => None
  | Some f => find (fun x => eqb_eaddr (lf_ent x) e && N.eqb (lf_id x) f) (lfeats s)
  end.

(* DeviceLocal.FeatureByAddress: entity, then feature; the device part is ignored *)
Definition local_feature (s : st) (a : faddr) : option lfeat :=
  if existsb (fun le => eqb_eaddr (le_addr le) (fa_ent a)) (lents s)
  then find_lfeat s (fa_ent a) (fa_feat a) else None.

Definition lf_addr (f : lfeat) : faddr :=
  {| fa_dev := Some LOCAL_DEV; fa_ent := lf_ent f; fa_feat := Some (lf_id f) |}.

Definition find_peer (s : st) (p : N) : option peer := find (fun x => N.eqb (p_ski x) p) (peers s).

Definition find_rent (pe : peer) (e : eaddr) : option rent :=
  find (fun x => eqb_eaddr (re_addr x) e) (p_ents pe).

(* DeviceRemote.FeatureByAddress *)
Definition remote_feature (pe : peer) (a : faddr) : option (rent * rfeat) :=
  match find_rent pe (fa_ent a) with
  | None => None
  | Some en =>
      match fa_feat a with
      | None => None
      | Some f => match find (fun x => N.eqb (rf_id x) f) (re_feats en) with
                  | Some rf => Some (en, rf)
                  | None => None
                  end
      end
  end.

Definition rf_addr (en : rent) (rf : rfeat) : faddr :=
  {| fa_dev := rf_dev rf; fa_ent := re_addr en; fa_feat := Some (rf_id rf) |}.

(* checkRoleAndType *)
Definition role_type_ok (fr : role) (ft : N) (want : role) (t : N) : bool :=
  (eqb_role fr RSpecial || eqb_role fr want) && (N.eqb ft t || N.eqb ft T_GENERIC).

Definition set_peer (s : st) (pe : peer) : st :=
  {| lents := lents s; lfeats := lfeats s;
     peers := map (fun x => if N.eqb (p_ski x) (p_ski pe) then pe else x) (peers s);
     subs := subs s; next_sub := next_sub s; binds := binds s; next_bind := next_bind s |}.

Definition set_lfeats (s : st) (l : list lfeat) : st :=
  {| lents := lents s; lfeats := l; peers := peers s;
     subs := subs s; next_sub := next_sub s; binds := binds s; next_bind := next_bind s |}.

Definition set_subs (s : st) (l : list entry) (n : N) : st :=
  {| lents := lents s; lfeats := lfeats s; peers := peers s;
     subs := l; next_sub := n; binds := binds s; next_bind := next_bind s |}.

Definition set_binds (s : st) (l : list entry) (n : N) : st :=
  {| lents := lents s; lfeats := lfeats s; peers := peers s;
     subs := subs s; next_sub := next_sub s; binds := l; next_bind := n |}.

Definition upd_lfeat (s : st) (e : eaddr) (f : N) (g : lfeat -> lfeat) : st :=
  set_lfeats s (map (fun x => if eqb_eaddr (lf_ent x) e && N.eqb (lf_id x) f then g x else x) (lfeats s)).

(* ------------------------------------------------------------------ registries *)
Definition same_srv (en : entry) (sf : lfeat) : bool :=
  eqb_eaddr (fst (e_srv en)) (lf_ent sf) && N.eqb (snd (e_srv en)) (lf_id sf).

Definition ev_reg (k : evkind) (c : evchange) (ski : N) (en : rent) (cli : faddr) (sf : lfeat) : obs :=
  OEvent k c ski (Some (re_addr en)) (Some cli) (Some (lf_addr sf)).

(* SubscriptionManager.AddSubscription; result: None = ok, Some _ = error *)
Definition add_subscription (s : st) (pe : peer) (c : reg_call) : st * list obs * bool :=
  match local_feature s (rc_srv c), rc_type c with
  | None, _ => (s, [], true)
  | Some sf, None => (s, [], true)       (* nil type is a panic in the code: excluded by wf, see C05 *)
  | Some sf, Some t =>
      if negb (role_type_ok (lf_role sf) (lf_type sf) RServer t) then (s, [], true) else
      match remote_feature pe (rc_cli c) with
      | None => (s, [], true)
      | Some (en, rf) =>
          if negb (role_type_ok (rf_role rf) (rf_type rf) RClient t) then (s, [], true) else
          let id := N.succ (next_sub s) in
          let cli := rf_addr en rf in
          if existsb (fun x => same_srv x sf && N.eqb (e_ski x) (p_ski pe) && eqb_faddr (e_cli x) cli) (subs s)
          then (set_subs s (subs s) id, [], true)
          else (set_subs s (subs s ++ [ {| e_id := id; e_srv := (lf_ent sf, lf_id sf); e_ski := p_ski pe; e_cli := cli |} ]) id,
                [ev_reg EvSub ChAdd (p_ski pe) en cli sf], false)
      end
  end.

(* the client address of a delete call with the device defaulted to the sender's (SPINE 7.4.4) *)
Definition default_dev (pe : peer) (a : faddr) : faddr :=
  {| fa_dev := match fa_dev a with Some d => Some d | None => p_addr pe end;
     fa_ent := fa_ent a; fa_feat := fa_feat a |}.

(* SubscriptionManager.RemoveSubscription: only entries of the requesting connection (SKI) are removed *)
Definition remove_subscription (s : st) (pe : peer) (c : reg_call) : st * list obs * bool :=
  let ca := default_dev pe (rc_cli c) in
  match remote_feature pe (rc_cli c) with
  | None => (s, [], true)
  | Some (en, rf) =>
      match local_feature s (rc_srv c) with
      | None => (s, [], true)
      | Some sf =>
          let keep := filter (fun x => negb (N.eqb (e_ski x) (p_ski pe) && eqb_faddr (e_cli x) ca && same_srv x sf)) (subs s) in
          if Nat.eqb (length keep) (length (subs s)) then (s, [], true)
          else (set_subs s keep (next_sub s), [ev_reg EvSub ChRemove (p_ski pe) en (rf_addr en rf) sf], false)
      end
  end.

Definition bindings_on (s : st) (sf : lfeat) : list entry := filter (fun x => same_srv x sf) (binds s).

(* BindingManager.HasLocalFeatureRemoteBinding *)
Definition has_binding (s : st) (sf : lfeat) (cli : faddr) : bool :=
  existsb (fun x => eqb_faddr (e_cli x) cli) (bindings_on s sf).

(* BindingManager.AddBinding *)
Definition add_binding (s : st) (pe : peer) (c : reg_call) : st * list obs * bool :=
  match local_feature s (rc_srv c), rc_type c with
  | None, _ => (s, [], true)
  | Some sf, None => (s, [], true)
  | Some sf, Some t =>
      if negb (role_type_ok (lf_role sf) (lf_type sf) RServer t) then (s, [], true) else
      match bindings_on s sf with
      | _ :: _ => (s, [], true)
      | [] =>
          match remote_feature pe (rc_cli c) with
          | None => (s, [], true)
          | Some (en, rf) =>
              if negb (role_type_ok (rf_role rf) (rf_type rf) RClient t) then (s, [], true) else
              let id := N.succ (next_bind s) in
              let cli := rf_addr en rf in
              (set_binds s (binds s ++ [ {| e_id := id; e_srv := (lf_ent sf, lf_id sf); e_ski := p_ski pe; e_cli := cli |} ]) id,
               [ev_reg EvBind ChAdd (p_ski pe) en cli sf], false)
          end
      end
  end.

(* BindingManager.RemoveBinding (with the repaired filter: an entry is removed iff it belongs to the
   requesting connection (SKI), and client address AND server feature match) *)
Definition remove_binding (s : st) (pe : peer) (c : reg_call) : st * list obs * bool :=
  let ca := default_dev pe (rc_cli c) in
  match remote_feature pe (rc_cli c) with
  | None => (s, [], true)
  | Some (en, rf) =>
      match local_feature s (rc_srv c) with
      | None => (s, [], true)
      | Some sf =>
          if negb (role_type_ok (lf_role sf) (lf_type sf) RServer (lf_type sf)) then (s, [], true) else
          if negb (has_binding s sf (rf_addr en rf)) then (s, [], true) else
          let keep := filter (fun x => negb (N.eqb (e_ski x) (p_ski pe) && eqb_faddr (e_cli x) ca && same_srv x sf)) (binds s) in
          if Nat.eqb (length keep) (length (binds s)) then (s, [], true)
          else (set_binds s keep (next_bind s), [ev_reg EvBind ChRemove (p_ski pe) en (rf_addr en rf) sf], false)
      end
  end.

(* Remove{Subscriptions,Bindings}ForEntity (repaired): entries of the entity's device
   (SKI) whose client address has the entity's address; one removal event each *)
Definition entity_match (pe : peer) (en : rent) (x : entry) : bool :=
  N.eqb (e_ski x) (p_ski pe) && eqb_eaddr (fa_ent (e_cli x)) (re_addr en).

Definition ev_removed (k : evkind) (s : st) (pe : peer) (en : rent) (x : entry) : obs :=
  OEvent k ChRemove (p_ski pe) (Some (re_addr en))
    (match fa_feat (e_cli x) with
     | Some f => match find (fun rf => N.eqb (rf_id rf) f) (re_feats en) with
                 | Some rf => Some (rf_addr en rf)
                 | None => None
                 end
     | None => None
     end)
    (match find_lfeat s (fst (e_srv x)) (Some (snd (e_srv x))) with
     | Some sf => if existsb (fun le => eqb_eaddr (le_addr le) (lf_ent sf)) (lents s) then Some (lf_addr sf) else None
     | None => None
     end).

Definition remove_for_entity (s : st) (pe : peer) (en : rent) : st * list obs :=
  let gone_s := filter (entity_match pe en) (subs s) in
  let s1 := set_subs s (filter (fun x => negb (entity_match pe en x)) (subs s)) (next_sub s) in
  let gone_b := filter (entity_match pe en) (binds s1) in
  let s2 := set_binds s1 (filter (fun x => negb (entity_match pe en x)) (binds s1)) (next_bind s1) in
  (s2, map (ev_removed EvSub s pe en) gone_s ++ map (ev_removed EvBind s pe en) gone_b).

(* ------------------------------------------------------------------ sending *)
(* Sender.result: source = the request's destination with the local device address *)
Definition result_to (p ctr : N) (err : bool) (req_src req_dst : faddr) (sender_dev : option N) : obs :=
  OResult p ctr err {| fa_dev := sender_dev; fa_ent := fa_ent req_dst; fa_feat := fa_feat req_dst |} req_src.

(* DeviceLocal.NotifySubscribers *)
Definition notify_subscribers (s : st) (sf : lfeat) (fn v : N) : list obs :=
  map (fun x => ONotify (e_ski x) (lf_addr sf) (e_cli x) fn v) (filter (fun x => same_srv x sf) (subs s)).

(* ------------------------------------------------------------------ discovery *)
Definition mk_rfeat (en : rent) (d : disc_feat) : rfeat :=
  {| rf_dev := re_dev en; rf_id := df_id d; rf_type := df_type d; rf_role := df_role d |}.

(* the features AddEntityAndFeatures attaches to the entity with address a: the ones the message
   lists for it; the device information entity [0] always keeps a NodeManagement feature 0 (it is
   appended when the message lists no feature 0 for [0]) *)
Definition nm_rfeat (dev : option N) : rfeat :=
  {| rf_dev := dev; rf_id := 0; rf_type := T_NODEMGMT; rf_role := RSpecial |}.

Definition feats_for (en1 : rent) (a : eaddr) (m : disc_msg) : list rfeat :=
  let fs := map (mk_rfeat en1) (filter (fun d => eqb_eaddr (df_ent d) a) (dm_feats m)) in
  if eqb_eaddr a [0%N] && negb (existsb (fun f => N.eqb (rf_id f) 0) fs) then fs ++ [nm_rfeat (re_dev en1)] else fs.

(* DeviceRemote.AddEntityAndFeatures: returns the new peer and the entities created *)
Fixpoint add_entities (pe : peer) (m : disc_msg) (l : list disc_ent) : peer * list eaddr :=
  match l with
  | [] => (pe, [])
  | de :: r =>
      let '(en, created) :=
        match find_rent pe (de_addr de) with
        | Some en => (en, false)
        | None => ({| re_dev := p_addr pe; re_addr := de_addr de; re_feats := [] |}, true)
        end in
      let dev := match re_dev en with
                 | Some d => Some d
                 | None => dm_dev m
                 end in
      let en1 := {| re_dev := dev; re_addr := re_addr en; re_feats := [] |} in
      let en2 := {| re_dev := dev; re_addr := re_addr en; re_feats := feats_for en1 (de_addr de) m |} in
      let ents := if created then p_ents pe ++ [en2]
                  else map (fun x => if eqb_eaddr (re_addr x) (de_addr de) then en2 else x) (p_ents pe) in
      let pe1 := {| p_ski := p_ski pe; p_addr := p_addr pe; p_ents := ents |} in
      let '(pe2, cr) := add_entities pe1 m r in
      (pe2, if created then de_addr de :: cr else cr)
  end.

(* CheckEntityInformation(false, ei): device address mismatch *)
Definition check_entity (pe : peer) (de : disc_ent) : bool :=
  match de_dev de, p_addr pe with
  | Some d, Some a => N.eqb d a
  | _, _ => true
  end.

Definition ev_entity (c : evchange) (pe : peer) (e : eaddr) : obs := OEvent EvEntity c (p_ski pe) (Some e) None None.

(* CheckEntityInformation(false, ei) of an entry announced as removed: the device information
   entity cannot be removed *)
Definition check_removed (pe : peer) (de : disc_ent) : bool :=
  negb (eqb_eaddr (de_addr de) [0%N]) && check_entity pe de.

(* CleanRemoteEntityCaches(remote device address, entity address) over all local features *)
Definition clean_entity_caches (s : st) (dev : option N) (a : eaddr) : st :=
  match dev with
  | None => s
  | Some d =>
      let keep := fun x : faddr => negb (eqb_optN (fa_dev x) (Some d) && eqb_eaddr (fa_ent x) a) in
      set_lfeats s (map (fun f => {| lf_ent := lf_ent f; lf_id := lf_id f; lf_type := lf_type f; lf_role := lf_role f;
                                     lf_ops := lf_ops f; lf_data := lf_data f;
                                     lf_subs := filter keep (lf_subs f); lf_binds := filter keep (lf_binds f) |}) (lfeats s))
  end.

(* NodeManagement.removeRemoteEntity: the entity with address a of peer p, if it exists, with
   everything that refers to it; the client caches are cleaned with the REMOTE DEVICE's address *)
Definition remove_entity (s : st) (p : N) (a : eaddr) : st * list obs :=
  match find_peer s p with
  | None => (s, [])
  | Some pe =>
      match find_rent pe a with
      | None => (s, [])
      | Some en =>
          let pe1 := {| p_ski := p_ski pe; p_addr := p_addr pe;
                        p_ents := filter (fun x => negb (eqb_eaddr (re_addr x) a)) (p_ents pe) |} in
          let s1 := set_peer s pe1 in
          let '(s2, evs) := remove_for_entity s1 pe1 en in
          (clean_entity_caches s2 (p_addr pe) a, ev_entity ChRemove pe (re_addr en) :: evs)
      end
  end.

(* processReplyDetailedDiscoveryData, last part: the entities (as they are after the additions)
   that the reply does not list are removed, except the device information entity *)
Fixpoint remove_unlisted (s : st) (p : N) (listed : list eaddr) (es : list eaddr) : st * list obs :=
  match es with
  | [] => (s, [])
  | a :: r =>
      if existsb (eqb_eaddr a) listed || eqb_eaddr a [0%N] then remove_unlisted s p listed r
      else let '(s1, evs) := remove_entity s p a in
           let '(s2, evs2) := remove_unlisted s1 p listed r in
           (s2, evs ++ evs2)
  end.

(* processNotifyDetailedDiscoveryData (partial): every entry is handled by its own state *)
Fixpoint notify_entries (s : st) (p : N) (m : disc_msg) (l : list disc_ent) : st * list obs * bool :=
  match l with
  | [] => (s, [], false)
  | de :: r =>
      match de_state de, find_peer s p with
      | None, _ => (s, [], true)
      | Some _, None => (s, [], true)
      | Some SAdded, Some pe =>
          (* AddEntityAndFeatures(false, data restricted to this entry) *)
          if negb (check_entity pe de) then (s, [], true) else
          let '(pe1, created) := add_entities pe m [de] in
          let '(s2, evs, err) := notify_entries (set_peer s pe1) p m r in
          (s2, map (ev_entity ChAdd pe) created ++ evs, err)
      | Some SRemoved, Some pe =>
          if negb (check_removed pe de) then (s, [], true) else
          let '(s1, evs) := remove_entity s p (de_addr de) in
          let '(s2, evs2, err) := notify_entries s1 p m r in
          (s2, evs ++ evs2, err)
      end
  end.

(* ------------------------------------------------------------------ dispatcher pieces *)
Definition nm_addr (d : option N) : faddr := {| fa_dev := d; fa_ent := [0%N]; fa_feat := Some 0%N |}.

(* ProcessCmd for a node-management call from peer p's node management feature:
   result error on rejection, result success only when acknowledgement requested *)
Definition call_result (p ctr : N) (ack err : bool) (src dst : faddr) : list obs :=
  if err then [result_to p ctr true src dst (Some LOCAL_DEV)]
  else if ack then [result_to p ctr false src dst (Some LOCAL_DEV)] else [].

Definition with_source (s : st) (p : N) (src : faddr) (k : peer -> st * list obs) : st * list obs :=
  match find_peer s p with
  | None => (s, [])
  | Some pe =>
      match remote_feature pe src with
      | None => (s, [])                     (* "invalid remote feature address": silently dropped *)
      | Some _ => k pe
      end
  end.

Definition registry_call (s : st) (p ctr : N) (ack : bool) (c : reg_call)
  (f : st -> peer -> reg_call -> st * list obs * bool) : st * list obs :=
  with_source s p (nm_addr None) (fun pe =>
    let src := nm_addr (p_addr pe) in
    let '(s1, evs, err) := f s pe c in
    (s1, evs ++ call_result p ctr ack err src (nm_addr (Some LOCAL_DEV)))).

Definition listing (p : N) (l : list entry) : list obs :=
  map (fun x => OEntry (e_id x) {| fa_dev := Some LOCAL_DEV; fa_ent := fst (e_srv x); fa_feat := Some (snd (e_srv x)) |} (e_cli x))
      (filter (fun x => N.eqb (e_ski x) p) l).

Definition set_data (f : lfeat) (fn v : N) : lfeat :=
  {| lf_ent := lf_ent f; lf_id := lf_id f; lf_type := lf_type f; lf_role := lf_role f; lf_ops := lf_ops f;
     lf_data := (fn, v) :: remove_N fn (lf_data f); lf_subs := lf_subs f; lf_binds := lf_binds f |}.

Definition add_client_ref (sub : bool) (r : faddr) (f : lfeat) : lfeat :=
  {| lf_ent := lf_ent f; lf_id := lf_id f; lf_type := lf_type f; lf_role := lf_role f; lf_ops := lf_ops f;
     lf_data := lf_data f;
     lf_subs := if sub then lf_subs f ++ [r] else lf_subs f;
     lf_binds := if sub then lf_binds f else lf_binds f ++ [r] |}.

Definition peer_by_addr (s : st) (d : N) : option peer :=
  find (fun x => eqb_optN (p_addr x) (Some d)) (peers s).

(* SubscribeToRemote / BindToRemote *)
Definition local_request (s : st) (sub : bool) (e : eaddr) (f : N) (r : faddr) : st * list obs :=
  match find_lfeat s e (Some f) with
  | None => (s, [ONone])
  | Some lf =>
      match fa_dev r with
      | None => (s, [ORetB false])
      | Some d =>
          match peer_by_addr s d with
          | None => (s, [ORetB false])
          | Some pe =>
              if eqb_role (lf_role lf) RServer then (s, [ORetB false]) else
              (upd_lfeat s e f (add_client_ref sub r),
               [OCall (p_ski pe) (if sub then 1 else 2) (nm_addr (Some LOCAL_DEV)) (nm_addr (Some d)); ORetB true])
          end
      end
  end.

(* RemoveRemoteSubscription / RemoveRemoteBinding: the delete call goes to the device with the
   named address, every recorded request with that address is forgotten (no role test) *)
Definition del_client_ref (sub : bool) (r : faddr) (f : lfeat) : lfeat :=
  {| lf_ent := lf_ent f; lf_id := lf_id f; lf_type := lf_type f; lf_role := lf_role f; lf_ops := lf_ops f;
     lf_data := lf_data f;
     lf_subs := if sub then filter (fun x => negb (eqb_faddr x r)) (lf_subs f) else lf_subs f;
     lf_binds := if sub then lf_binds f else filter (fun x => negb (eqb_faddr x r)) (lf_binds f) |}.

Definition local_unrequest (s : st) (sub : bool) (e : eaddr) (f : N) (r : faddr) : st * list obs :=
  match find_lfeat s e (Some f) with
  | None => (s, [ONone])
  | Some lf =>
      match fa_dev r with
      | None => (s, [ORetB false])
      | Some d =>
          match peer_by_addr s d with
          | None => (s, [ORetB false])
          | Some pe =>
              (upd_lfeat s e f (del_client_ref sub r),
               [OCall (p_ski pe) (if sub then 3 else 4) (nm_addr (Some LOCAL_DEV)) (nm_addr (Some d)); ORetB true])
          end
      end
  end.

(* RemoveRemoteDevice + RemoveRemoteDeviceConnection *)
Definition remove_all_for_device (s : st) (pe : peer) : st * list obs :=
  let '(s1, ev1) := fold_left (fun acc en =>
                      let '(sa, ea) := acc in
                      let gone := filter (entity_match pe en) (subs sa) in
                      (set_subs sa (filter (fun x => negb (entity_match pe en x)) (subs sa)) (next_sub sa),
                       ea ++ map (ev_removed EvSub sa pe en) gone)) (p_ents pe) (s, []) in
  fold_left (fun acc en =>
               let '(sa, ea) := acc in
               let gone := filter (entity_match pe en) (binds sa) in
               (set_binds sa (filter (fun x => negb (entity_match pe en x)) (binds sa)) (next_bind sa),
                ea ++ map (ev_removed EvBind sa pe en) gone)) (p_ents pe) (s1, ev1).

Definition clean_device_caches (s : st) (d : option N) : st :=
  match d with
  | None => s
  | Some d =>
      let keep := fun a : faddr => negb (eqb_optN (fa_dev a) (Some d)) in
      set_lfeats s (map (fun f => {| lf_ent := lf_ent f; lf_id := lf_id f; lf_type := lf_type f; lf_role := lf_role f;
                                     lf_ops := lf_ops f; lf_data := lf_data f;
                                     lf_subs := filter keep (lf_subs f); lf_binds := filter keep (lf_binds f) |}) (lfeats s))
  end.

Definition disconnect (s : st) (p : N) : st * list obs :=
  match find_peer s p with
  | None => (s, [OEvent EvDevice ChRemove p None None None])
  | Some pe =>
      let '(s1, evs) := remove_all_for_device s pe in
      let s2 := {| lents := lents s1; lfeats := lfeats s1;
                   peers := filter (fun x => negb (N.eqb (p_ski x) p)) (peers s1);
                   subs := subs s1; next_sub := next_sub s1; binds := binds s1; next_bind := next_bind s1 |} in
      (clean_device_caches s2 (p_addr pe), evs ++ [OEvent EvDevice ChRemove p None None None])
  end.

(* DeviceLocal.HandleEvent on the device-added event of a discovery reply.  It takes the address of
   the feature object the reply came in through (message.FeatureRemote: the peer's node-management
   feature AS IT WAS BEFORE the reply, [pe]), completes a missing device part IN PLACE with the
   device's address, and lets the local node management subscribe to that address
   (SubscribeToRemote: recorded only if a connected device announces it).
   The completed address object is shared: by the registry entries made through that feature
   object, and by the remote tree as long as the reply did not re-create the features of [0]
   ([listed0] = the reply lists entity [0]). *)
Definition complete_one (p : N) (d : option N) (x : entry) : entry :=
  if N.eqb (e_ski x) p && eqb_faddr (e_cli x) (nm_addr None)
  then {| e_id := e_id x; e_srv := e_srv x; e_ski := e_ski x; e_cli := nm_addr d |}
  else x.

Definition complete_nm_addr (p : N) (d : option N) (l : list entry) : list entry := map (complete_one p d) l.

(* does this reply complete the address, and which entries does it rewrite *)
Definition reply_completes (pe pe1 : peer) : bool :=
  match remote_feature pe (nm_addr None) with
  | Some (_, rf) => match rf_dev rf, p_addr pe1 with None, Some _ => true | _, _ => false end
  | None => match p_addr pe1 with Some _ => true | None => false end
  end.

Definition complete_nm_tree (pe : peer) (d : option N) : peer :=
  {| p_ski := p_ski pe; p_addr := p_addr pe;
     p_ents := map (fun en => if eqb_eaddr (re_addr en) [0%N]
                              then {| re_dev := re_dev en; re_addr := re_addr en;
                                      re_feats := map (fun rf => if N.eqb (rf_id rf) 0 && eqb_optN (rf_dev rf) None
                                                                 then {| rf_dev := d; rf_id := rf_id rf; rf_type := rf_type rf; rf_role := rf_role rf |}
                                                                 else rf) (re_feats en) |}
                              else en) (p_ents pe) |}.

Definition handle_device_added (s1 : st) (p : N) (pe pe1 : peer) (listed0 : bool) : st :=
  let src_dev := match remote_feature pe (nm_addr None) with
                 | Some (_, rf) => rf_dev rf
                 | None => None
                 end in
  let sub_dev := match src_dev with Some d0 => Some d0 | None => p_addr pe1 end in
  let s1a := if reply_completes pe pe1
             then
               let sa := set_binds (set_subs s1 (complete_nm_addr p (p_addr pe1) (subs s1)) (next_sub s1))
                                   (complete_nm_addr p (p_addr pe1) (binds s1)) (next_bind s1) in
               if listed0 then sa else set_peer sa (complete_nm_tree pe1 (p_addr pe1))
             else s1 in
  match sub_dev with
  | Some d0 => match peer_by_addr s1a d0 with
               | Some _ => upd_lfeat s1a [0%N] 0 (add_client_ref true (nm_addr (Some d0)))
               | None => s1a
               end
  | None => s1a
  end.

(* ------------------------------------------------------------------ step *)
Definition step (s : st) (o : op) : st * list obs :=
  match o with
  | AddLocalEntity e =>
      if existsb (fun le => eqb_eaddr (le_addr le) e) (lents s) then (s, [])
      else ({| lents := lents s ++ [ {| le_addr := e; le_next := match e with 0%N :: _ => 0 | _ => 1 end |} ];
               lfeats := lfeats s; peers := peers s; subs := subs s; next_sub := next_sub s;
               binds := binds s; next_bind := next_bind s |}, [])
  | AddLocalFeature e t r =>
      match find (fun le => eqb_eaddr (le_addr le) e) (lents s) with
      | None => (s, [ONone])
      | Some le =>
          let id := le_next le in
          let f := {| lf_ent := e; lf_id := id; lf_type := t; lf_role := r; lf_ops := []; lf_data := [];
                      lf_subs := []; lf_binds := [] |} in
          (* EntityLocal.AddFeature ignores a second feature of the same type and role (the id is consumed) *)
          let dup := existsb (fun x => eqb_eaddr (lf_ent x) e && N.eqb (lf_type x) t && eqb_role (lf_role x) r) (lfeats s) in
          ({| lents := map (fun x => if eqb_eaddr (le_addr x) e then {| le_addr := e; le_next := N.succ id |} else x) (lents s);
              lfeats := if dup then lfeats s else lfeats s ++ [f]; peers := peers s; subs := subs s; next_sub := next_sub s;
              binds := binds s; next_bind := next_bind s |}, [ORetN id])
      end
  | AddFunction e f fn rd wr =>
      (upd_lfeat s e f (fun x =>
         if eqb_role (lf_role x) RClient then x else
         match assoc_N fn (lf_ops x) with
         | Some _ => x
         | None => {| lf_ent := lf_ent x; lf_id := lf_id x; lf_type := lf_type x; lf_role := lf_role x;
                      lf_ops := lf_ops x ++ [(fn, (rd, wr))]; lf_data := lf_data x;
                      lf_subs := lf_subs x; lf_binds := lf_binds x |}
         end), [])
  | Connect p =>
      (* the transport (re)connects SKI p: an existing connection is removed first
         (RemoveRemoteDeviceConnection), then SetupRemoteDevice creates a fresh DeviceRemote with
         entity [0] / node management feature 0 and no device address *)
      let '(s0, evs) := match find_peer s p with Some _ => disconnect s p | None => (s, []) end in
      let pe := {| p_ski := p; p_addr := None;
                   p_ents := [ {| re_dev := None; re_addr := [0%N];
                                  re_feats := [ {| rf_dev := None; rf_id := 0; rf_type := T_NODEMGMT; rf_role := RSpecial |} ] |} ] |} in
      ({| lents := lents s0; lfeats := lfeats s0;
          peers := peers s0 ++ [pe];
          subs := subs s0; next_sub := next_sub s0; binds := binds s0; next_bind := next_bind s0 |}, evs)
  | DiscoveryReply p m =>
      with_source s p (nm_addr None) (fun pe =>
        let pe0 := {| p_ski := p_ski pe; p_addr := match dm_dev m with Some d => Some d | None => p_addr pe end;
                      p_ents := p_ents pe |} in
        let '(pe1, created) := add_entities pe0 m (dm_ents m) in
        let s1 := set_peer s pe1 in
        (* core handler (DeviceLocal.HandleEvent) on the device-added event *)
        let s2 := handle_device_added s1 p pe pe1 (existsb (fun de => eqb_eaddr (de_addr de) [0%N]) (dm_ents m)) in
        (* the reply describes the complete device *)
        let '(s3, evs) := remove_unlisted s2 p (map de_addr (dm_ents m)) (map re_addr (p_ents pe1)) in
        (s3, OEvent EvDevice ChAdd p None None None :: map (ev_entity ChAdd pe1) created ++ evs))
  | DiscoveryNotify p ctr ack m =>
      with_source s p (nm_addr None) (fun pe =>
        let src := nm_addr (p_addr pe) in
        match dm_ents m with
        | [] => (s, call_result p ctr ack true src (nm_addr (Some LOCAL_DEV)))
        | _ =>
            let '(s1, evs, err) := notify_entries s p m (dm_ents m) in
            (s1, evs ++ call_result p ctr ack err src (nm_addr (Some LOCAL_DEV)))
        end)
  | SubCall p ctr ack c => registry_call s p ctr ack c add_subscription
  | SubDelete p ctr ack c => registry_call s p ctr ack c remove_subscription
  | BindCall p ctr ack c => registry_call s p ctr ack c add_binding
  | BindDelete p ctr ack c => registry_call s p ctr ack c remove_binding
  | SetData e f fn v =>
      match find_lfeat s e (Some f) with
      | None => (s, [ONone])
      | Some lf =>
          if fn_registered (lf_type lf) fn
          then (upd_lfeat s e f (fun x => set_data x fn v), notify_subscribers s lf fn v)
          else (s, [])
      end
  | Write p ctr ack src dst fn v =>
      with_source s p src (fun pe =>
        let rsrc := match remote_feature pe src with Some (en, rf) => rf_addr en rf | None => src end in
        match local_feature s dst with
        | None => (s, [result_to p ctr true src dst (fa_dev dst)])
        | Some lf =>
            let deny := [result_to p ctr true src dst (Some LOCAL_DEV)] in
            match assoc_N fn (lf_ops lf) with
            | Some (_, true) =>
                if negb (has_binding s lf rsrc) then (s, deny) else
                if negb (fn_registered (lf_type lf) fn) then (s, deny) else
                (upd_lfeat s (lf_ent lf) (lf_id lf) (fun x => set_data x fn v),
                 notify_subscribers s lf fn v ++
                 [OEvent EvData ChUpdate p (Some (fa_ent rsrc)) (Some rsrc) (Some (lf_addr lf))] ++
                 (if ack then [result_to p ctr false src dst (Some LOCAL_DEV)] else []))
            | _ => (s, deny)
            end
        end)
  | Disconnect p => disconnect s p
  | ListSubs p => (s, listing p (subs s))
  | ListBinds p => (s, listing p (binds s))
  | LocalSubscribe e f r => local_request s true e f r
  | LocalBind e f r => local_request s false e f r
  | HasLocalSub e f r =>
      match find_lfeat s e (Some f) with
      | None => (s, [ONone])
      | Some lf => (s, [ORetB (existsb (eqb_faddr r) (lf_subs lf))])
      end
  | HasLocalBind e f r =>
      match find_lfeat s e (Some f) with
      | None => (s, [ONone])
      | Some lf => (s, [ORetB (existsb (eqb_faddr r) (lf_binds lf))])
      end
  | ReadData e f fn =>
      match find_lfeat s e (Some f) with
      | None => (s, [ONone])
      | Some lf => (s, [match assoc_N fn (lf_data lf) with Some v => ORetN v | None => ONone end])
      end
  | Resolve p dev =>
      (s, [ORetB (match find_peer s p with Some _ => true | None => false end);
           ORetB (match dev with
                  | Some d => match peer_by_addr s d with Some _ => true | None => false end
                  | None => false
                  end)])
  | LocalUnsubscribe e f r => local_unrequest s true e f r
  | LocalUnbind e f r => local_unrequest s false e f r
  end.

Fixpoint run (s : st) (ops : list op) : st * list (op * list obs) :=
  match ops with
  | [] => (s, [])
  | o :: r =>
      let '(s1, out) := step s o in
      let '(s2, tr) := run s1 r in
      (s2, (o, out) :: tr)
  end.
