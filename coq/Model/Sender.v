(* C13 — executable model of spine/send.go (Sender) together with the part of
   golanguzb70/lrucache it uses.  No proofs here.

   Abstraction: a request hash is the pair (destination, command list), which the
   harness numbers; sha256/JSON injectivity is trusted (DESIGN.md section 7).
   A datagram is identified by (counter, kind, payload id). *)
From Verif Require Import Base.Prelude Gen.GenConsts.

(* kinds of written datagrams *)
Definition K_REQUEST : N := 0.
Definition K_NOTIFY : N := 1.
(* 2 reply, 3 result, 4 write: counter only *)

Record st := {
  ctr : N;                       (* Sender.msgNum *)
  reqs : list (N * N);           (* reqMsgCache: counter -> hash, insertion order *)
  lru : list (N * N);            (* datagramNotifyCache, most recently used first: counter -> payload *)
  space : nat                    (* LRUCache.space *)
}.

Definition init : st := {| ctr := 0; reqs := []; lru := []; space := notify_cache_size |}.

Inductive op :=
| Request (h : N)                (* Request/Subscribe/Bind/...: h numbers (destination, cmd) *)
| Response (ref : option N)      (* ProcessResponseForMsgCounterReference *)
| Notify (p : N)                 (* Notify with payload id p *)
| Other (k : N)                  (* Reply / result / Write: takes a counter, no cache *)
| Lookup (c : N)                 (* DatagramForMsgCounter *)
| NotifyProbe (p : N)            (* Notify whose datagram is looked up by its counter while the connection
                                    writer is being handed it (the notification is the most recent entry of
                                    the cache, so this lookup changes nothing) *)
| Burst (ks : list N)            (* overlapping Reply / result / Write calls of kinds ks from as many goroutines:
                                    each takes its counter in one atomic step (atomic.AddUint64), so every
                                    interleaving hands out the same set of counters; the runner pairs the
                                    counters, sorted, with the kinds in the order given *)
| RespDuring (h r : N)           (* Request h while whose datagram is inside the connection writer the response
                                    for counter r is processed (the reader goroutine of a fast peer): the duplicate
                                    test has been made, the new request is remembered after the write.  A withheld
                                    request writes nothing, so no response is delivered then. *)
| DupBurst (h : N) (ks : list N). (* a Request h overlapped by the calls of Burst ks.  When an identical request is
                                    unanswered (the only case the runner overlaps) the request is withheld: it
                                    takes no counter and changes nothing, so it commutes with every call of the
                                    burst and the sequential composition below is every interleaving; otherwise
                                    the runner issues the request first and the burst afterwards, which is the
                                    composition literally *)

Inductive obs :=
| Written (c k p : N)            (* datagram handed to the connection writer *)
| RetCtr (c : N)                 (* counter returned to the caller *)
| Found (p : N)
| NotFound.

(* msgCounterForHashFromCache: scan for a counter with this hash *)
Fixpoint find_hash (h : N) (l : list (N * N)) : option N :=
  match l with
  | [] => None
  | (c, h') :: r => if N.eqb h h' then Some c else find_hash h r
  end.

Fixpoint min_key (l : list (N * N)) (acc : N) : N :=
  match l with
  | [] => acc
  | (c, _) :: r => min_key r (N.min c acc)
  end.

(* addMsgCounterHashToCache *)
Definition add_req (c h : N) (l : list (N * N)) : list (N * N) :=
  let l1 := if Nat.ltb request_cache_limit (length l)
            then match l with
                 | [] => l
                 | (c0, _) :: r => remove_N (min_key r c0) l
                 end
            else l in
  remove_N c l1 ++ [(c, h)].

(* lrucache.Put *)
Definition lru_put (c p : N) (l : list (N * N)) (sp : nat) : list (N * N) * nat :=
  match assoc_N c l with
  | Some _ => ((c, p) :: remove_N c l, sp)
  | None =>
      match sp with
      | O => ((c, p) :: removelast l, O)
      | S sp' => ((c, p) :: l, sp')
      end
  end.

(* lrucache.Get (timeout = 0): a hit moves the node to the front *)
Definition lru_get (c : N) (l : list (N * N)) : option N * list (N * N) :=
  match assoc_N c l with
  | Some p => (Some p, (c, p) :: remove_N c l)
  | None => (None, l)
  end.

Fixpoint burst_obs (c : N) (ks : list N) : list obs :=
  match ks with
  | [] => []
  | k :: r => Written (N.succ c) k 0%N :: burst_obs (N.succ c) r
  end.

Fixpoint burst_ctr (c : N) (ks : list N) : N :=
  match ks with
  | [] => c
  | _ :: r => burst_ctr (N.succ c) r
  end.

Definition step (s : st) (o : op) : st * list obs :=
  match o with
  | Request h =>
      match find_hash h (reqs s) with
      | Some c => (s, [RetCtr c])
      | None =>
          let c := N.succ (ctr s) in
          ({| ctr := c; reqs := add_req c h (reqs s); lru := lru s; space := space s |},
           [Written c K_REQUEST h; RetCtr c])
      end
  | Response None => (s, [])
  | Response (Some r) =>
      ({| ctr := ctr s; reqs := remove_N r (reqs s); lru := lru s; space := space s |}, [])
  | Notify p =>
      let c := N.succ (ctr s) in
      let '(l, sp) := lru_put c p (lru s) (space s) in
      ({| ctr := c; reqs := reqs s; lru := l; space := sp |}, [Written c K_NOTIFY p; RetCtr c])
  | NotifyProbe p =>
      let c := N.succ (ctr s) in
      let '(l, sp) := lru_put c p (lru s) (space s) in
      ({| ctr := c; reqs := reqs s; lru := l; space := sp |}, [Written c K_NOTIFY p; RetCtr c; Found p])
  | Other k =>
      let c := N.succ (ctr s) in
      ({| ctr := c; reqs := reqs s; lru := lru s; space := space s |}, [Written c k 0%N])
  | Lookup c =>
      let '(r, l) := lru_get c (lru s) in
      ({| ctr := ctr s; reqs := reqs s; lru := l; space := space s |},
       [match r with Some p => Found p | None => NotFound end])
  | Burst ks =>
      ({| ctr := burst_ctr (ctr s) ks; reqs := reqs s; lru := lru s; space := space s |},
       burst_obs (ctr s) ks)
  | RespDuring h r =>
      match find_hash h (reqs s) with
      | Some c => (s, [RetCtr c])
      | None =>
          let c := N.succ (ctr s) in
          ({| ctr := c; reqs := add_req c h (remove_N r (reqs s)); lru := lru s; space := space s |},
           [Written c K_REQUEST h; RetCtr c])
      end
  | DupBurst h ks =>
      match find_hash h (reqs s) with
      | Some c =>
          ({| ctr := burst_ctr (ctr s) ks; reqs := reqs s; lru := lru s; space := space s |},
           RetCtr c :: burst_obs (ctr s) ks)
      | None =>
          let c := N.succ (ctr s) in
          ({| ctr := burst_ctr c ks; reqs := add_req c h (reqs s); lru := lru s; space := space s |},
           Written c K_REQUEST h :: RetCtr c :: burst_obs c ks)
      end
  end.

(* run a history, collecting the trace *)
Fixpoint run (s : st) (ops : list op) : st * list (op * list obs) :=
  match ops with
  | [] => (s, [])
  | o :: r =>
      let '(s1, out) := step s o in
      let '(s2, tr) := run s1 r in
      (s2, (o, out) :: tr)
  end.

(* ---- wire encoding ---- *)
Definition parse_op (l : list Z) : option op :=
  match l with
  | [0; h] => Some (Request (Nz h))
  | [1] => Some (Response None)
  | [1; r] => Some (Response (Some (Nz r)))
  | [2; p] => Some (Notify (Nz p))
  | [3; k] => Some (Other (Nz k))
  | [4; c] => Some (Lookup (Nz c))
  | [6; p] => Some (NotifyProbe (Nz p))
  | 5 :: ks => Some (Burst (map Nz ks))
  | 7 :: h :: ks => Some (DupBurst (Nz h) (map Nz ks))
  | [8; h; r] => Some (RespDuring (Nz h) (Nz r))
  | _ => None
  end.

Definition print_obs (o : obs) : list Z :=
  match o with
  | Written c k p => [0; Zn c; Zn k; Zn p]
  | RetCtr c => [1; Zn c]
  | Found p => [2; Zn p]
  | NotFound => [3]
  end.

Definition parse_obs (l : list Z) : option obs :=
  match l with
  | [0; c; k; p] => Some (Written (Nz c) (Nz k) (Nz p))
  | [1; c] => Some (RetCtr (Nz c))
  | [2; p] => Some (Found (Nz p))
  | [3] => Some NotFound
  | _ => None
  end.
