(* C15 — The event bus delivers every state change once, core first, without deadlock.
   Property theorems only; proofs are in Proofs/EventBusProofs.v.  The model is
   Model/EventBus.v (every call of spine/events.go as its atomic steps, the
   schedule being part of the operation list; tied to the real bus by the
   correspondence harness cmd/c15 which forces the same schedules through the
   `verif` yield points), the property is the trace monitor Spec/EventBusSpec.v
   (the same extracted monitor judges the implementation's traces). *)
From Verif Require Import Base.Prelude Model.EventBus Spec.EventBusSpec Proofs.EventBusProofs Proofs.EventBusBurst.
From Coq Require Import Sorting.Permutation.

(* Every history and every interleaving (the operation list chooses which thread
   takes the next atomic step), provided no core handler calls Publish: each step
   of the model's trace satisfies every clause of the monitor -
   a handler is called with an event only if it was subscribed, at that level,
   when the event's handler list was taken (so never for a Publish called after
   its unsubscription returned), never twice; core handlers run in the
   publisher's thread before Publish returns and before any application handler
   of that event; application handlers run on goroutines of their own; when
   everything has come to rest every subscribed handler has received every event
   and every Publish has returned; the bus is never deadlocked. *)
Theorem C15_trace_accepted : forall ops,
  core_quiet ops = true ->
  accepted (judge minit sinit (snd (run init ops))) = true.
Proof. exact run_accepted. Qed.
Print Assumptions C15_trace_accepted.

(* exactly once, spelled out: no (event, level, handler) occurs twice among the deliveries *)
Theorem C15_delivered_at_most_once : forall ops,
  core_quiet ops = true -> NoDup (deliveries (snd (run init ops))).
Proof. intros ops H. apply accepted_once. apply run_accepted. exact H. Qed.
Print Assumptions C15_delivered_at_most_once.

(* ... and the same holds of ANY trace the monitor accepts, in particular of the
   implementation's traces judged by the harness *)
Theorem C15_monitor_means_once : forall tr,
  accepted (judge minit sinit tr) = true -> NoDup (deliveries tr).
Proof. exact accepted_once. Qed.
Print Assumptions C15_monitor_means_once.

(* progress: in no reachable state are there unfinished calls none of which can take a step;
   handlers may subscribe, unsubscribe (both levels) and application handlers may publish *)
Theorem C15_no_deadlock : forall ops,
  core_quiet ops = true ->
  let s := fst (run init ops) in
  threads s <> [] -> exists x, In x (threads s) /\ runnable (locked s) x = true.
Proof. exact no_deadlock. Qed.
Print Assumptions C15_no_deadlock.

(* the handler lock is never held across a wait: its holder can always take its next step *)
Theorem C15_lock_holder_runs : forall ops,
  core_quiet ops = true ->
  let s := fst (run init ops) in
  locked s = true -> exists x, In x (threads s) /\ holder x /\ runnable true x = true.
Proof. exact holder_runs. Qed.
Print Assumptions C15_lock_holder_runs.

(* subscribing twice has no additional effect; unsubscription removes; the list never holds a pair twice *)
Theorem C15_subscribe_idempotent : forall i b, subscribe i (subscribe i b) = subscribe i b.
Proof. exact subscribe_idem. Qed.
Print Assumptions C15_subscribe_idempotent.

Theorem C15_unsubscribe_removes : forall i b, ~ In i (unsubscribe i b).
Proof. intros i b H. apply unsubscribe_In in H. destruct H as [H _]. apply H. reflexivity. Qed.
Print Assumptions C15_unsubscribe_removes.

Theorem C15_bus_has_no_duplicates : forall ops, core_quiet ops = true -> NoDup (bus (fst (run init ops))).
Proof. exact bus_NoDup. Qed.
Print Assumptions C15_bus_has_no_duplicates.

(* Overlapping subscribe / unsubscribe calls are the operation [Par acts] (k calls released
   together on k goroutines, at any moment - also while publications are under way); the
   histories of C15_trace_accepted contain them.  Each call is one critical section under
   events.mu, so a burst that really overlaps takes effect in SOME order of its calls.  For a
   well-posed burst (par_ok: two calls that name the same (level, handler) pair are of the same
   kind, all core-level subscriptions name one handler) every order leaves the same bus: the
   same core handlers in the same order (the order in which Publish calls them), the same
   application handlers (started as goroutines: their order does not show), the same pairs, none
   twice - so every later publication is delivered to the same handlers, and the model's order
   (the order given) stands for every schedule.  The runner overlaps exactly the well-posed bursts. *)
Theorem C15_burst_any_interleaving : forall acts acts' b,
  par_ok acts = true -> Permutation acts acts' -> NoDup b ->
  handlers_of Core (par_bus acts' b) = handlers_of Core (par_bus acts b) /\
  Permutation (handlers_of App (par_bus acts' b)) (handlers_of App (par_bus acts b)) /\
  Permutation (par_bus acts' b) (par_bus acts b) /\
  NoDup (par_bus acts' b).
Proof. exact burst_any_interleaving. Qed.
Print Assumptions C15_burst_any_interleaving.

(* the specification's side of the same fact: in whatever order the calls of a well-posed burst
   are reported, the monitor expects the same handlers for every later publication *)
Theorem C15_burst_same_expectations : forall acts acts' i i' m j,
  par_ok acts = true -> Permutation acts acts' ->
  In j (m_set (fst (mon_list m (par_obs i' acts')))) <-> In j (m_set (fst (mon_list m (par_obs i acts)))).
Proof. exact burst_same_expectations. Qed.
Print Assumptions C15_burst_same_expectations.

(* k overlapping subscriptions of one pair are one subscription (and such a burst is well posed) *)
Theorem C15_burst_same_pair_once : forall l h k b,
  par_ok (repeat (ASub l h) (S k)) = true /\
  par_bus (repeat (ASub l h) (S k)) b = subscribe (l, h) b.
Proof. intros l h k b. split; [apply par_ok_same_pair | apply burst_same_pair]. Qed.
Print Assumptions C15_burst_same_pair_once.

(* The restriction is necessary: a subscription and an unsubscription of one pair do not commute,
   and two new core-level subscriptions leave the core handlers in the order of their arrival. *)
Theorem C15_burst_restriction_needed :
  (exists acts acts', Permutation acts acts' /\ par_ok acts = false /\
     In (App, 1%N) (par_bus acts []) /\ ~ In (App, 1%N) (par_bus acts' [])) /\
  (exists acts acts', Permutation acts acts' /\ par_ok acts = false /\
     handlers_of Core (par_bus acts []) <> handlers_of Core (par_bus acts' [])).
Proof.
  split.
  - exists [AUnsub App 1; ASub App 1]%N, [ASub App 1; AUnsub App 1]%N.
    split; [apply perm_swap|]. split; [reflexivity|]. split; [left; reflexivity | intros []].
  - exists [ASub Core 1; ASub Core 2]%N, [ASub Core 2; ASub Core 1]%N.
    split; [apply perm_swap|]. split; [reflexivity|]. vm_compute. discriminate.
Qed.
Print Assumptions C15_burst_restriction_needed.

(* The hypothesis is necessary: a core handler that publishes blocks on muHandle,
   which its own publisher holds, for ever. *)
Theorem C15_core_handler_publishing_deadlocks : exists ops,
  core_quiet ops = false /\
  In ODeadlock (concat (map snd (snd (run init ops)))).
Proof.
  exists [Script Core 1 [APub]; Call 0 (ASub Core 1); Call 1 APub; Drain 20].
  vm_compute. split; [reflexivity|]. tauto.
Qed.
Print Assumptions C15_core_handler_publishing_deadlocks.

(* Non-vacuity: two levels, re-entrant (un)subscription, a publishing application
   handler, an interleaved unsubscription after the snapshot; accepted strictly,
   with the deliveries one expects. *)
Example C15_nonvacuous :
  let ops := [Script Core 1 [ASub App 3]; Script App 2 [AUnsub App 2; APub];
              Call 0 (ASub Core 1); Call 1 (ASub App 2); Call 2 (ASub App 2); Drain 10;
              Call 0 APub; Step 0;              (* snapshot of event 0: core 1, application 2 *)
              Call 1 (AUnsub App 2); Step 1;    (* unsubscribed after the snapshot: still delivered *)
              Drain 50] in
  deliveries (snd (run init ops)) =
    [(0, (Core, 1)); (0, (App, 2)); (1, (Core, 1)); (1, (App, 3))]%N /\
  forallb (fun ve => match fst ve with [] => true | _ => false end)
          (judge minit sinit (snd (run init ops))) = true /\
  last (concat (map snd (snd (run init ops)))) ODeadlock = OIdle.
Proof. vm_compute. repeat split; reflexivity. Qed.

(* Non-vacuity of the bursts: three overlapping subscriptions of one application handler and one
   of a core handler while a publication is parked after its snapshot, then a burst that
   unsubscribes one and subscribes another; each later event reaches each subscribed handler once. *)
Example C15_burst_nonvacuous :
  let ops := [Call 0 (ASub App 1); Drain 5; Call 0 APub; Step 0;      (* snapshot of event 0: application 1 *)
              Par [ASub App 2; ASub Core 3; ASub App 2; ASub App 2];
              Drain 50; Call 0 APub; Drain 50;                        (* event 1: core 3, application 1 and 2 *)
              Par [AUnsub App 1; ASub App 4; AUnsub Core 3];
              Call 0 APub; Drain 50] in                               (* event 2: application 2 and 4 *)
  deliveries (snd (run init ops)) =
    [(0, (App, 1)); (1, (Core, 3)); (1, (App, 1)); (1, (App, 2)); (2, (App, 2)); (2, (App, 4))]%N /\
  bus (fst (run init ops)) = [(App, 2); (App, 4)]%N /\
  forallb (fun ve => match fst ve with [] => true | _ => false end)
          (judge minit sinit (snd (run init ops))) = true.
Proof. vm_compute. repeat split; reflexivity. Qed.
