(* C15 — The event bus delivers every state change once, core first, without deadlock.
   Property theorems only; proofs are in Proofs/EventBusProofs.v.  The model is
   Model/EventBus.v (every call of spine/events.go as its atomic steps, the
   schedule being part of the operation list; tied to the real bus by the
   correspondence harness cmd/c15 which forces the same schedules through the
   `verif` yield points), the property is the trace monitor Spec/EventBusSpec.v
   (the same extracted monitor judges the implementation's traces). *)
From Verif Require Import Base.Prelude Model.EventBus Spec.EventBusSpec Proofs.EventBusProofs.

(* Every history and every interleaving (the operation list chooses which thread
   takes the next atomic step), provided no core handler calls Publish: each step
   of the model's trace satisfies every clause of the monitor -
   a handler is called with an event only if it was subscribed, at that level,
   when the event's handler list was taken (so never for a Publish called after
   its unsubscription returned), never twice; core handlers run in the
   publisher's thread before Publish returns and before any application handler
   of that event; application handlers run on goroutines of their own; when
   everything has come to rest every subscribed handler has received every event
   and every Publish has returned; the bus is never deadlocked. *)
Theorem C15_trace_accepted : forall ops,
  core_quiet ops = true ->
  accepted (judge minit sinit (snd (run init ops))) = true.
Proof. exact run_accepted. Qed.
Print Assumptions C15_trace_accepted.

(* exactly once, spelled out: no (event, level, handler) occurs twice among the deliveries *)
Theorem C15_delivered_at_most_once : forall ops,
  core_quiet ops = true -> NoDup (deliveries (snd (run init ops))).
Proof. intros ops H. apply accepted_once. apply run_accepted. exact H. Qed.
Print Assumptions C15_delivered_at_most_once.

(* ... and the same holds of ANY trace the monitor accepts, in particular of the
   implementation's traces judged by the harness *)
Theorem C15_monitor_means_once : forall tr,
  accepted (judge minit sinit tr) = true -> NoDup (deliveries tr).
Proof. exact accepted_once. Qed.
Print Assumptions C15_monitor_means_once.

(* progress: in no reachable state are there unfinished calls none of which can take a step;
   handlers may subscribe, unsubscribe (both levels) and application handlers may publish *)
Theorem C15_no_deadlock : forall ops,
  core_quiet ops = true ->
  let s := fst (run init ops) in
  threads s <> [] -> exists x, In x (threads s) /\ runnable (locked s) x = true.
Proof. exact no_deadlock. Qed.
Print Assumptions C15_no_deadlock.

(* the handler lock is never held across a wait: its holder can always take its next step *)
Theorem C15_lock_holder_runs : forall ops,
  core_quiet ops = true ->
  let s := fst (run init ops) in
  locked s = true -> exists x, In x (threads s) /\ holder x /\ runnable true x = true.
Proof. exact holder_runs. Qed.
Print Assumptions C15_lock_holder_runs.

(* subscribing twice has no additional effect; unsubscription removes; the list never holds a pair twice *)
Theorem C15_subscribe_idempotent : forall i b, subscribe i (subscribe i b) = subscribe i b.
Proof. exact subscribe_idem. Qed.
Print Assumptions C15_subscribe_idempotent.

Theorem C15_unsubscribe_removes : forall i b, ~ In i (unsubscribe i b).
Proof. intros i b H. apply unsubscribe_In in H. destruct H as [H _]. apply H. reflexivity. Qed.
Print Assumptions C15_unsubscribe_removes.

Theorem C15_bus_has_no_duplicates : forall ops, core_quiet ops = true -> NoDup (bus (fst (run init ops))).
Proof. exact bus_NoDup. Qed.
Print Assumptions C15_bus_has_no_duplicates.

(* The hypothesis is necessary: a core handler that publishes blocks on muHandle,
   which its own publisher holds, for ever. *)
Theorem C15_core_handler_publishing_deadlocks : exists ops,
  core_quiet ops = false /\
  In ODeadlock (concat (map snd (snd (run init ops)))).
Proof.
  exists [Script Core 1 [APub]; Call 0 (ASub Core 1); Call 1 APub; Drain 20].
  vm_compute. split; [reflexivity|]. tauto.
Qed.
Print Assumptions C15_core_handler_publishing_deadlocks.

(* Non-vacuity: two levels, re-entrant (un)subscription, a publishing application
   handler, an interleaved unsubscription after the snapshot; accepted strictly,
   with the deliveries one expects. *)
Example C15_nonvacuous :
  let ops := [Script Core 1 [ASub App 3]; Script App 2 [AUnsub App 2; APub];
              Call 0 (ASub Core 1); Call 1 (ASub App 2); Call 2 (ASub App 2); Drain 10;
              Call 0 APub; Step 0;              (* snapshot of event 0: core 1, application 2 *)
              Call 1 (AUnsub App 2); Step 1;    (* unsubscribed after the snapshot: still delivered *)
              Drain 50] in
  deliveries (snd (run init ops)) =
    [(0, (Core, 1)); (0, (App, 2)); (1, (Core, 1)); (1, (App, 3))]%N /\
  forallb (fun ve => match fst ve with [] => true | _ => false end)
          (judge minit sinit (snd (run init ops))) = true /\
  last (concat (map snd (snd (run init ops)))) ODeadlock = OIdle.
Proof. vm_compute. repeat split; reflexivity. Qed.
