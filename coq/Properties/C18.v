(* C18 — placeholder while the machinery is being built. *)
From Verif Require Import Base.Prelude Model.CmdWire Spec.CmdSpec.
