(* C18 — Wire format and function tables are coherent for every function.
   Property theorems only; proofs are in Proofs/CodecProofs.v and Proofs/CmdProofs.v.
   Models: Model/CmdTables.v (tag-driven lookups and command builders) and
   Model/JsonCodec.v (encoding/json at tree level) over the tables the translator
   regenerates from /repo on every run (Gen/GenTags.v, GenFactory.v, GenJsonTypes.v);
   machine: Model/CmdWire.v; the property is the monitor Spec/CmdSpec.v, which also
   judges the implementation's observations (harness/cmd/c18). *)
From Coq Require Import String List ZArith NArith Bool.
From Verif Require Import Base.Prelude Model.JsonTy Model.JsonCodec Model.CmdTables Model.CmdWire Spec.CmdSpec.
From Verif Require Import Gen.GenJsonTypes Gen.GenTags Gen.GenFactory Proofs.CodecProofs Proofs.CmdProofs.
Import ListNotations.
Local Open Scope Z_scope.

(* The type table (closure of model.Datagram) is well formed: per struct unique,
   non-empty JSON names; only supported kinds (no KBad: no map, interface, float,
   embedded or unexported field, no custom marshaller on a scalar); every struct id
   resolves; ranks strictly decrease along struct-typed fields (acyclic).  The tag
   rows are aligned with the CmdType / FilterType rows and every registered pair
   names an existing function entry with existing types. *)
Theorem C18_types_wf : wf_tbl GenJsonTypes.structs = true /\ tables_aligned = true.
Proof. split; [exact types_wf | exact tables_aligned_ok]. Qed.
Print Assumptions C18_types_wf.

Theorem C18_json_names_unique : forall id, NoDup (map f_json (fields_of GenJsonTypes.structs id)).
Proof. exact (fields_nodup T types_wf). Qed.
Print Assumptions C18_json_names_unique.

(* First sentence of the property, over the bound stated here: every registered
   (feature type, function) pair of GenFactory.registered, each of the nine shapes of
   the property text and three combinations more (all_shapes), payload / selector /
   elements values [sample] of depth 0, 1, 2 of the function's types.  The command the
   builders produce, encoded and decoded, is judged by the monitor: every violated
   clause is excused, and nothing is excused outside the two recorded classes
   (C18_recognised_strict). *)
Theorem C18_recognised_partial : forall ft fn shape depth,
  In (ft, fn) GenFactory.registered -> In shape all_shapes -> In depth sample_depths ->
  let o := sample_row ft fn shape depth in
  excused (snd (mon minit o (snd (step init o)))) (excuses (scope sinit o)) = true.
Proof. exact row_accepted. Qed.
Print Assumptions C18_recognised_partial.

Theorem C18_recognised_strict : forall ft fn shape depth,
  In (ft, fn) GenFactory.registered -> In shape all_shapes -> In depth sample_depths ->
  in_class fn = false ->
  let o := sample_row ft fn shape depth in
  snd (mon minit o (snd (step init o))) = [].
Proof.
  intros ft fn shape depth Hr Hs Hd Hc o.
  pose proof all_rows_strict as H. rewrite forallb_forall in H.
  assert (Hin : In o (rows_of GenFactory.registered)).
  { unfold rows_of. apply in_flat_map. exists (ft, fn). split; [exact Hr|].
    apply in_flat_map. exists shape. split; [exact Hs|].
    apply in_map_iff. exists depth. split; [reflexivity | exact Hd]. }
  specialize (H o Hin). unfold row_strict, strict_with, op_verdict in H.
  subst o. unfold sample_row in *. destruct (fn_at fn) eqn:E;
    (rewrite Hc in H; cbn [orb] in H;
     match type of H with (match ?v with [] => _ | _ => _ end) = true => destruct v; [reflexivity | discriminate] end).
Qed.
Print Assumptions C18_recognised_strict.

(* the rows are judged on well-typed values with the arguments their shape needs *)
Theorem C18_rows_not_vacuous : forallb row_typed (rows_of GenFactory.registered) = true.
Proof. exact rows_well_typed. Qed.
Print Assumptions C18_rows_not_vacuous.

(* Second sentence: for every type over the table and every well-typed value of
   any size, decoding the encoding gives the normal form [normt] (an omitted member
   comes back as the zero value), which is equivalent to the value: [norm] identifies
   absent and empty lists.  Strings are abstract here: valid UTF-8 is an assumption
   on the values (Go replaces invalid bytes when it writes the text). *)
Theorem C18_roundtrip : forall t v, has_type GenJsonTypes.structs t v = true ->
  dec GenJsonTypes.structs t (enc GenJsonTypes.structs t v) = Some (normt GenJsonTypes.structs t v) /\
  norm (normt GenJsonTypes.structs t v) = norm v.
Proof.
  intros t v H. split; [exact (roundtrip T types_wf v t H) | exact (norm_normt T v t H)].
Qed.
Print Assumptions C18_roundtrip.

(* The clause on TimePeriodType, over an abstract clock (integers in nanoseconds):
   marshal then unmarshal at clock reading [now] leaves a period with a start time
   unchanged, returns an absolute end at most one second away, and re-expresses a
   relative end as now + duration to the second.  The text formats of times and
   durations are C19's. *)
Theorem C18_timeperiod : forall now p,
  let q := tp_unmarshal now (tp_marshal now p) in
  p_start q = p_start p /\
  match p_start p, p_end p with
  | None, Some (EAbs t) => exists t', p_end q = Some (EAbs t') /\ Z.abs (t' - t) <= second
  | None, Some (ERel d) => exists t', p_end q = Some (EAbs t') /\ Z.abs (t' - (now + d)) <= second / 2
  | _, _ => q = p
  end.
Proof. exact timeperiod_roundtrip. Qed.
Print Assumptions C18_timeperiod.

(* Every history of operations within the bounds (rows over the sample values, Codec
   with any value, Decode with any JSON tree): each step of the model's trace
   satisfies every clause of the monitor that the scope predicate does not excuse. *)
Theorem C18_trace_accepted_partial : forall ops, Forall in_bounds ops ->
  accepted (judge minit sinit (snd (run init ops))) = true.
Proof. exact run_accepted. Qed.
Print Assumptions C18_trace_accepted_partial.

(* The full statement (nothing excused) is false of the faithful model: elements
   given for electricalConnectionCharacteristicData do not arrive, because the one
   fct tag of ElectricalConnectionCharacteristicDataElements names the list function. *)
Theorem C18_full_refuted : exists ops, Forall in_bounds ops /\
  strictly_accepted (judge minit sinit (snd (run init ops))) = false.
Proof.
  exists shared_elements_witness. split; [|exact full_refuted].
  repeat constructor. exists 1%N. split; [cbn; tauto | reflexivity].
Qed.
Print Assumptions C18_full_refuted.

(* The defects of the pinned tree, replayed in the model on the pinned spellings
   (delete argument handed on by address; the five tag strings): which clause each
   one violates.  The first six are repaired by patches/fix-C18-*.diff, the last is
   the recorded finding setpoint-description-elements-tag. *)
Theorem C18_pinned_defects_refuted :
  pinned_verdict true (row_by_name "Measurement" "measurementListData" 7 1) = [C_BUILDS] /\
  pinned_verdict true (row_by_name "Measurement" "measurementListData" 8 1) = [C_BUILDS] /\
  pinned_verdict false (row_by_name "NetworkManagement" "networkManagementFeatureDescriptionListData" 1 1) = [C_PSEL] /\
  pinned_verdict false (row_by_name "Generic" "sessionIdentificationListData" 2 1) = [C_PEL] /\
  pinned_verdict false (row_by_name "Generic" "sessionMeasurementRelationListData" 8 1) = [C_DEL] /\
  pinned_verdict false (row_by_name "Measurement" "measurementSeriesListData" 6 1) = [C_PSEL] /\
  pinned_verdict false (row_by_name "Setpoint" "setpointDescriptionListData" 2 1) = [C_SETPOINT_TAG].
Proof. exact pinned_defects. Qed.
Print Assumptions C18_pinned_defects_refuted.

(* Non-vacuity: a read with selector for alarmListData as the model sees it after
   the wire — the JSON tree, the recognised function with its payload type, the
   partial filter with the selector, no delete filter — accepted strictly. *)
Example C18_nonvacuous :
  let o := row_by_name "Alarm" "alarmListData" 1 1 in
  match snd (step init o) with
  | [OJson j; OData fn 6 _ (VStruct [VNil]);
     OFilter 0 true fn' _ (-1) (VStruct [VInt 7; VStr "s"]) VNil;
     OFilter 1 false (-1) (-1) (-1) VNil VNil] =>
      json_eqb j (JObj [("function", JStr "");
                        ("filter", JArr [JObj [("cmdControl", JObj [("partial", JObj [])]);
                                               ("alarmListDataSelectors",
                                                JObj [("alarmId", JNum 7); ("scopeType", JStr "s")])]]);
                        ("alarmListData", JObj [])]%string) &&
      Z.eqb fn fn' && Z.eqb fn (fn_index "alarmListData")
  | _ => false
  end = true /\
  snd (mon minit o (snd (step init o))) = [].
Proof. split; vm_compute; reflexivity. Qed.
