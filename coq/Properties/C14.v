(* C14 — Response and result callbacks fire exactly once for the right message.
   Property theorems only; proofs in Proofs/CallbackProofs.v.  Model: Model/Dispatch.v
   (FeatureLocal.AddResponseCallback / processResponseMsgCallbacks / AddResultCallback /
   processResultCallbacks / processResult / processReply and NodeManagement.HandleMessage with
   fix-C14-nodemanagement-reply-callbacks; tied to the code by the correspondence harness
   cmd/c14 + harness/dispatch); the property is the trace monitor Spec/CallbackSpec.v with its
   own flat registries, which also judges the implementation's traces. *)
From Verif Require Import Base.Prelude Model.Dispatch Spec.CallbackSpec Proofs.CallbackProofs.

(* For every history of callback registrations (any number of callbacks per counter, counters,
   features, node management included) interleaved with any inbound datagrams from any peers
   (replies and results with matching, non-matching, repeated and missing references, accepted
   and rejected replies, unknown destinations, unannounced sources) and all other operations,
   every step of the model's trace satisfies every clause of the monitor:
   - a registration succeeds iff the same callback is not pending for that counter on that
     feature, and is refused on a feature that does not exist;
   - the invocations of a step are exactly (as a multiset): for an accepted reply or a result
     that arrives for feature F with reference r, each callback pending for (F, r) once, with
     r, the message's data and the source remote feature, and for a result additionally each
     result callback registered on F once (as often as it was registered); nothing otherwise;
   - delivered response callbacks are used up.
   Registration and delivery are each one critical section under muxResponseCB, so "for all
   interleavings of a registration with an arrival" is the quantification over both orders in
   the operation list.  Nothing is excused. *)
Theorem C14_trace_accepted : forall ops, accepted_trace (judge minit (snd (run init ops))) = true.
Proof. exact run_accepted. Qed.
Print Assumptions C14_trace_accepted.

(* registering the same callback twice for one counter is refused the second time and changes nothing *)
Theorem C14_duplicate_refused : forall ops e f c cb lf,
  find_lfeat (fst (run init ops)) e (Some f) = Some lf ->
  step (fst (step (fst (run init ops)) (AddRespCb e f c cb))) (AddRespCb e f c cb) =
    (fst (step (fst (run init ops)) (AddRespCb e f c cb)), [ORetB false]).
Proof. intros ops e f c cb lf H. exact (duplicate_refused _ e f c cb lf H). Qed.
Print Assumptions C14_duplicate_refused.

(* exactly once: a delivery uses the callbacks up — nothing stays pending for that feature and
   reference, so a repeated message with the same reference invokes no response callback *)
Theorem C14_used_up : forall ops pe en rf lf d r data res,
  find_peer (fst (run init ops)) (p_ski pe) = Some pe ->
  remote_feature pe (d_src d) = Some (en, rf) ->
  local_feature (fst (run init ops)) (d_dst d) = Some lf ->
  delivers (fst (run init ops)) pe en rf lf d = Some (r, data, res) ->
  view_r (fst (step (fst (run init ops)) (Inbound (p_ski pe) d))) (lf_ent lf) (lf_id lf) r = [].
Proof. intros ops. exact (used_up (fst (run init ops))). Qed.
Print Assumptions C14_used_up.

(* Registrations concurrent with arrivals, and overlapping arrivals.  The operation ParArrive
   (the same result or reply arrives on several connections at once, racing with one
   registration for its reference, and once more afterwards) is part of the histories of
   C14_trace_accepted; the model runs its events in one fixed order.  On the code, lookup + spawn +
   delete of the callbacks of a counter is one critical section (FeatureLocal.muxResponseCB), and so
   is a registration, so a real execution is SOME order of these events.  For every order the
   multiset of invocations (peer blanked) is the same: each callback pending before or registered
   during the operation exactly once, each result callback once per delivering arrival, and
   nothing stays pending for the counter.  Conditions: result or data reply, the racing
   registrations are of distinct callbacks not pending for that counter, the closing arrival
   delivers (otherwise the outcome legitimately depends on the order). *)
Theorem C14_par_any_interleaving : forall s d lf r l l' pf,
  quiet_body (d_body d) = true -> d_ref d = Some r -> local_feature s (d_dst d) = Some lf ->
  del s d lf pf = true ->
  NoDup (regs l) -> (forall cb, In cb (regs l) -> ~ In cb (view_r s (lf_ent lf) (lf_id lf) r)) ->
  Permutation.Permutation l l' ->
  Permutation.Permutation (map blank (inv (snd (run_evs repaired s d (l ++ [EArr pf])))))
                          (map blank (inv (snd (run_evs repaired s d (l' ++ [EArr pf]))))) /\
  view_r (fst (run_evs repaired s d (l ++ [EArr pf]))) (lf_ent lf) (lf_id lf) r = [] /\
  view_r (fst (run_evs repaired s d (l' ++ [EArr pf]))) (lf_ent lf) (lf_id lf) r = [].
Proof. exact par_any_interleaving. Qed.
Print Assumptions C14_par_any_interleaving.

(* what the operation reports is what any interleaving of its arrivals and its registration reports *)
Theorem C14_par_operation_any_interleaving : forall s ps d late pf lf r l',
  quiet_body (d_body d) = true -> d_ref d = Some r -> local_feature s (d_dst d) = Some lf ->
  del s d lf pf = true ->
  (forall cb, late = Some cb -> ~ In cb (view_r s (lf_ent lf) (lf_id lf) r)) ->
  Permutation.Permutation (map EArr ps ++ late_evs late) l' ->
  Permutation.Permutation (inv (snd (step s (ParArrive ps d late pf))))
                          (map blank (inv (snd (run_evs repaired s d (l' ++ [EArr pf]))))).
Proof. exact par_op_any_interleaving. Qed.
Print Assumptions C14_par_operation_any_interleaving.

(* The same callback registered for the same counter from k goroutines at once (operation ParRegister, part of
   the histories of C14_trace_accepted).  AddResponseCallback — duplicate scan and append — is one critical
   section, so the k calls take their turn in some order; being identical, every order is the same sequence,
   and its outcome is: the first call behaves like a single registration (accepted unless the callback is
   pending already), every further call is refused, and the state is that of the single registration — so the
   one reply or result that references the counter invokes the callback exactly once. *)
Theorem C14_par_register_any_order : forall (x : ev) k l,
  Permutation.Permutation (repeat x k) l -> l = repeat x k.
Proof. exact regs_any_order. Qed.
Print Assumptions C14_par_register_any_order.

Theorem C14_par_register_outcome : forall s e f c cb n lf,
  find_lfeat s e (Some f) = Some lf ->
  step s (ParRegister e f c cb (N.of_nat (S n))) =
    (fst (step s (AddRespCb e f c cb)), snd (step s (AddRespCb e f c cb)) ++ repeat (ORetB false) n).
Proof.
  intros s e f c cb n lf H. change (step s (ParRegister e f c cb (N.of_nat (S n)))) with (run_regs s e f c cb (N.to_nat (N.of_nat (S n)))).
  rewrite Nnat.Nat2N.id. exact (par_register_outcome s e f c cb n lf H).
Qed.
Print Assumptions C14_par_register_outcome.

(* ---- the pinned tree: a response callback on node management is never invoked for a reply ---- *)
Definition a (d : option N) (e : list N) (f : N) : faddr := {| fa_dev := d; fa_ent := e; fa_feat := Some f |}.
Definition tree (d : N) : disc_msg :=
  {| dm_dev := Some d;
     dm_ents := [ {| de_addr := [0%N]; de_dev := None; de_state := None |}; {| de_addr := [1%N]; de_dev := None; de_state := None |} ];
     dm_feats := [ {| df_ent := [0%N]; df_id := 0; df_type := T_NODEMGMT; df_role := RSpecial |};
                   {| df_ent := [1%N]; df_id := 1; df_type := T_LOADCONTROL; df_role := RServer |} ] |}.
Definition c14_witness : list op :=
  [ Connect 1; AddRespCb [0%N] 0 1 0;
    Inbound 1 {| d_src := a None [0%N] 0; d_dst := a (Some 0%N) [0%N] 0; d_ctr := 1; d_ref := Some 1%N; d_ack := false;
                 d_body := BCmd CReply (PDiscovery (tree 1)); d_fct := 0; d_sel := 0 |} ].
Theorem C14_pinned_nodemanagement_reply_refuted :
  exists ops, accepted_trace (judge minit (snd (run_pinned init ops))) = false.
Proof. exists c14_witness. vm_compute. reflexivity. Qed.
Print Assumptions C14_pinned_nodemanagement_reply_refuted.

(* ---- non-vacuity ---- *)
Definition dg (src dst : faddr) (ctr : N) (ref : option N) (b : body) : dgram :=
  {| d_src := src; d_dst := dst; d_ctr := ctr; d_ref := ref; d_ack := false; d_body := b; d_fct := 0; d_sel := 0 |}.
Definition cl : faddr := a (Some 0%N) [1%N] 1.     (* local LoadControl client [1]:1 *)
Definition nm : faddr := a (Some 0%N) [0%N] 0.
Definition r1 (d : N) : faddr := a (Some d) [1%N] 1.
Definition c14_example : list op :=
  [ AddLocalEntity [1%N]; AddLocalFeature [1%N] T_LOADCONTROL RClient;
    Connect 1; Inbound 1 (dg (a None [0%N] 0) nm 1 (Some 1%N) (BCmd CReply (PDiscovery (tree 1))));
    Connect 2; Inbound 2 (dg (a None [0%N] 0) nm 1 (Some 1%N) (BCmd CReply (PDiscovery (tree 2))));
    AddRespCb [1%N] 1 7 0; AddRespCb [1%N] 1 7 1; AddRespCb [1%N] 1 7 0;      (* the third is refused *)
    AddRespCb [1%N] 1 8 2; AddResultCb [1%N] 1 3; AddRespCb [0%N] 0 7 4;
    Inbound 1 (dg (r1 1) cl 20 (Some 9%N) (BCmd CReply (PData 14 5)));          (* another reference: nobody *)
    Inbound 1 (dg (r1 1) cl 21 (Some 7%N) (BCmd CReply (PData 17 5)));          (* rejected reply: nobody *)
    Inbound 1 (dg (r1 1) cl 22 None (BCmd CReply (PData 14 5)));                (* no reference: nobody *)
    Inbound 2 (dg (r1 2) cl 23 (Some 7%N) (BCmd CReply (PData 14 55)));         (* callbacks 0 and 1, once *)
    Inbound 2 (dg (r1 2) cl 24 (Some 7%N) (BCmd CReply (PData 14 56)));         (* repeated: nobody *)
    Inbound 1 (dg (r1 1) cl 25 (Some 8%N) (BResult 3));                         (* callback 2 and result callback 3 *)
    Inbound 1 (dg (r1 1) cl 26 (Some 8%N) (BResult 0));                         (* only the result callback *)
    Inbound 1 (dg (r1 1) cl 27 None (BResult 0));                               (* no reference: nobody *)
    Inbound 2 (dg (a (Some 2%N) [0%N] 0) nm 28 (Some 7%N) (BCmd CReply (PUseCase 9)));    (* node management: callback 4 *)
    AddRespCb [1%N] 1 30 5; AddRespCb [1%N] 1 30 6;
    (* a result referencing 30 on both connections at once, racing with the registration of callback 7 *)
    ParArrive [1%N; 2%N] (dg (a None [1%N] 1) cl 29 (Some 30%N) (BResult 0)) (Some 7%N) 2;
    AddRespCb [1%N] 1 40 0; AddRespCb [1%N] 1 41 1;
    (* the results for 40 and 41 back to back: each callback with its own reference, the result callback twice *)
    SeqArrive [ (1%N, dg (r1 1) cl 31 (Some 40%N) (BResult 0)); (2%N, dg (r1 2) cl 32 (Some 41%N) (BResult 5)) ];
    (* callback 5 registered for counter 50 from three goroutines at once: one accepted, two refused, one invocation *)
    ParRegister [1%N] 1 50 5 3;
    Inbound 1 (dg (r1 1) cl 33 (Some 50%N) (BCmd CReply (PData 14 8))) ].
Example C14_nonvacuous :
  map snd (skipn 6 (snd (run init c14_example))) =
    [ [ORetB true]; [ORetB true]; [ORetB false]; [ORetB true]; []; [ORetB true];
      []; [OResult 1 21 E_GENERAL cl (r1 1)]; [];
      [OInvoke 0 [1%N] 1 7 2 [1%N] 1 55; OInvoke 1 [1%N] 1 7 2 [1%N] 1 55];
      [];
      [OInvoke 2 [1%N] 1 8 1 [1%N] 1 3; OInvoke 3 [1%N] 1 8 1 [1%N] 1 3];
      [OInvoke 3 [1%N] 1 8 1 [1%N] 1 0];
      [];
      [OInvoke 4 [0%N] 0 7 2 [0%N] 0 9];
      [ORetB true]; [ORetB true];
      [OInvoke 5 [1%N] 1 30 0 [1%N] 1 0; OInvoke 6 [1%N] 1 30 0 [1%N] 1 0; OInvoke 3 [1%N] 1 30 0 [1%N] 1 0;
       OInvoke 3 [1%N] 1 30 0 [1%N] 1 0; ORetB true; OInvoke 7 [1%N] 1 30 0 [1%N] 1 0; OInvoke 3 [1%N] 1 30 0 [1%N] 1 0];
      [ORetB true]; [ORetB true];
      [OInvoke 0 [1%N] 1 40 1 [1%N] 1 0; OInvoke 3 [1%N] 1 40 1 [1%N] 1 0;
       OInvoke 1 [1%N] 1 41 2 [1%N] 1 5; OInvoke 3 [1%N] 1 41 2 [1%N] 1 5];
      [ORetB true; ORetB false; ORetB false];
      [OInvoke 5 [1%N] 1 50 1 [1%N] 1 8] ] /\
  accepted_trace (judge minit (snd (run init c14_example))) = true.
Proof. vm_compute. split; reflexivity. Qed.
