(* C08 — Subscriptions: exact registry and exactly-once notification fan-out.
   Property theorems only; proofs in Proofs/C08Proofs.v.  Model: Model/Stack.v (tied to
   the code by the correspondence harness cmd/c08 + harness/stack); the property is the
   trace monitor Spec/C08Spec.v, which also judges the implementation's traces. *)
From Verif Require Import Base.Prelude Model.Stack Spec.C08Spec Proofs.C08Proofs.
From Verif Require Import Model.StackX Spec.StackXSpec.

(* For every history of operations (local tree construction, connects, discovery replies
   and notifications, subscribe / unsubscribe / bind / unbind calls by any peers, local
   data changes, remote writes, disconnects, listings ...) every step of the model's trace
   satisfies every clause of the monitor: a subscription request is answered according to
   the grant rule (server feature exists with server/special role and requested type or
   Generic, client feature exists on that peer with client/special role and matching type,
   pair not subscribed yet) with exactly one add event; a delete removes exactly the
   addressed pair OF THE CALLING CONNECTION and fails if that connection holds none (whatever
   device address the call names, and whatever other peers announce); a data change sends exactly one
   notification per currently subscribed remote feature and nothing else; a listing is
   exactly the peer's entries with pairwise distinct ids; no stray notification or
   subscription event on any other operation.  Nothing is excused. *)
Theorem C08_trace_accepted : forall ops, accepted (judge minit (snd (run init ops))) = true.
Proof. exact run_accepted. Qed.
Print Assumptions C08_trace_accepted.

(* The same for histories in which a teardown of peer p (disconnect, entity-removing discovery
   notification or reply) is overlapped by a subscribe / bind / delete call of another peer q
   (Model/StackX.v [During]: the call arrives while the removal cascade runs, waits for the registry
   mutex and is applied afterwards; its observations are judged as the call following the teardown),
   and for histories in which a DELETE call of p is overlapped in the same way: the call of q arrives
   while the delete sits between its filter and its store, inside the registry's critical section. *)
Theorem C08_overlap_trace_accepted : forall xops, xaccepted (xjudge mon minit (snd (xrun init xops))) = true.
Proof. exact xrun_accepted. Qed.
Print Assumptions C08_overlap_trace_accepted.

Theorem C08_ids_distinct : forall ops, NoDup (map e_id (subs (fst (run init ops)))).
Proof. exact ids_distinct. Qed.
Print Assumptions C08_ids_distinct.

(* every registry entry belongs to a connected peer and to an entity of its current tree:
   nothing survives the disappearance of its owner *)
Theorem C08_entries_owned : forall ops e, In e (subs (fst (run init ops))) ->
  exists pe en, find_peer (fst (run init ops)) (e_ski e) = Some pe /\ find_rent pe (fa_ent (e_cli e)) = Some en.
Proof. exact entries_owned. Qed.
Print Assumptions C08_entries_owned.

(* Non-vacuity: a concrete history in which two peers with identical numbering subscribe
   to the same server feature (one duplicate is refused), a data change fans out to both,
   one unsubscribes, and the next change reaches only the other. *)
Definition a (d : option N) (e : list N) (f : N) : faddr := {| fa_dev := d; fa_ent := e; fa_feat := Some f |}.
Definition tree (d : N) : disc_msg :=
  {| dm_dev := Some d;
     dm_ents := [ {| de_addr := [0%N]; de_dev := None; de_state := None |}; {| de_addr := [1%N]; de_dev := None; de_state := None |} ];
     dm_feats := [ {| df_ent := [0%N]; df_id := 0; df_type := T_NODEMGMT; df_role := RSpecial |};
                   {| df_ent := [1%N]; df_id := 1; df_type := 1; df_role := RClient |} ] |}.
Definition call (d : N) : reg_call := {| rc_cli := a (Some d) [1%N] 1; rc_srv := a (Some 0%N) [1%N] 1; rc_type := Some 1%N |}.
Definition c08_example : list op :=
  [ AddLocalEntity [1%N]; AddLocalFeature [1%N] 1 RServer; AddFunction [1%N] 1 1 true true;
    Connect 1; DiscoveryReply 1 (tree 1); Connect 2; DiscoveryReply 2 (tree 2);
    SubCall 1 11 true (call 1); SubCall 2 21 false (call 2); SubCall 1 12 true (call 1);
    SetData [1%N] 1 1 77; SubDelete 1 13 true (call 1); SetData [1%N] 1 1 78; ListSubs 2 ].
Example C08_nonvacuous :
  map snd (skipn 10 (snd (run init c08_example))) =
    [ [ONotify 1 (a (Some 0%N) [1%N] 1) (a (Some 1%N) [1%N] 1) 1 77; ONotify 2 (a (Some 0%N) [1%N] 1) (a (Some 2%N) [1%N] 1) 1 77];
      [OEvent EvSub ChRemove 1 (Some [1%N]) (Some (a (Some 1%N) [1%N] 1)) (Some (a (Some 0%N) [1%N] 1));
       OResult 1 13 false (a (Some 0%N) [0%N] 0) (a (Some 1%N) [0%N] 0)];
      [ONotify 2 (a (Some 0%N) [1%N] 1) (a (Some 2%N) [1%N] 1) 1 78];
      [OEntry 2 (a (Some 0%N) [1%N] 1) (a (Some 2%N) [1%N] 1)] ] /\
  accepted (judge minit (snd (run init c08_example))) = true.
Proof. vm_compute. split; reflexivity. Qed.

(* By-connection delete: peers 1 and 2 announce THE SAME device address (tree 1) and subscribe the
   same pair; peer 2 deletes: exactly its own entry goes (one removal event for connection 2), a
   data change still reaches peer 1, peer 1's listing still shows its entry, and a repeated delete
   by peer 2 is refused without touching it. *)
Definition c08_twins : list op :=
  [ AddLocalEntity [1%N]; AddLocalFeature [1%N] 1 RServer; AddFunction [1%N] 1 1 true true;
    Connect 1; DiscoveryReply 1 (tree 1); Connect 2; DiscoveryReply 2 (tree 1);
    SubCall 1 11 false (call 1); SubCall 2 21 false (call 1);
    SubDelete 2 22 true (call 1); SetData [1%N] 1 1 77; ListSubs 1; ListSubs 2;
    SubDelete 2 23 true (call 1); ListSubs 1 ].
Example C08_delete_by_connection :
  map snd (skipn 9 (snd (run init c08_twins))) =
    [ [OEvent EvSub ChRemove 2 (Some [1%N]) (Some (a (Some 1%N) [1%N] 1)) (Some (a (Some 0%N) [1%N] 1));
       OResult 2 22 false (a (Some 0%N) [0%N] 0) (a (Some 1%N) [0%N] 0)];
      [ONotify 1 (a (Some 0%N) [1%N] 1) (a (Some 1%N) [1%N] 1) 1 77];
      [OEntry 1 (a (Some 0%N) [1%N] 1) (a (Some 1%N) [1%N] 1)];
      [];
      [OResult 2 23 true (a (Some 0%N) [0%N] 0) (a (Some 1%N) [0%N] 0)];
      [OEntry 1 (a (Some 0%N) [1%N] 1) (a (Some 1%N) [1%N] 1)] ] /\
  accepted (judge minit (snd (run init c08_twins))) = true.
Proof. vm_compute. split; reflexivity. Qed.

(* A delete call of peer 1 overlapped by a subscribe call of peer 2 (the delete sits between its
   filter and its store when the call arrives): both take effect - peer 1's entry is gone, peer 2's
   acknowledged subscription is listed. *)
Definition c08_delete_overlap : list xop :=
  map Base [ AddLocalEntity [1%N]; AddLocalFeature [1%N] 1 RServer; AddFunction [1%N] 1 1 true true;
             Connect 1; DiscoveryReply 1 (tree 1); Connect 2; DiscoveryReply 2 (tree 2); SubCall 1 11 false (call 1) ] ++
  [ During (SubDelete 1 12 true (call 1)) (SubCall 2 21 true (call 2)); Base (ListSubs 1); Base (ListSubs 2) ].
Example C08_delete_overlap_nonvacuous :
  map snd (skipn 8 (snd (xrun init c08_delete_overlap))) =
    [ [OEvent EvSub ChRemove 1 (Some [1%N]) (Some (a (Some 1%N) [1%N] 1)) (Some (a (Some 0%N) [1%N] 1));
       OResult 1 12 false (a (Some 0%N) [0%N] 0) (a (Some 1%N) [0%N] 0);
       OEvent EvSub ChAdd 2 (Some [1%N]) (Some (a (Some 2%N) [1%N] 1)) (Some (a (Some 0%N) [1%N] 1));
       OResult 2 21 false (a (Some 0%N) [0%N] 0) (a (Some 2%N) [0%N] 0)];
      [];
      [OEntry 2 (a (Some 0%N) [1%N] 1) (a (Some 2%N) [1%N] 1)] ] /\
  xaccepted (xjudge mon minit (snd (xrun init c08_delete_overlap))) = true.
Proof. vm_compute. split; reflexivity. Qed.
