(* C05 — no inbound byte sequence can crash or wedge the stack.
   Property theorems only; proofs are in Proofs/RobustProofs.v.  The model is
   Model/Robust.v (tied to spine/device_remote.go, device_local.go, feature_local.go,
   nodemanagement*.go, subscription_manager.go, binding_manager.go, model/update.go by the
   correspondence harness cmd/c05), the property is the trace monitor Spec/RobustSpec.v (the
   same extracted monitor judges the implementation's traces).

   Level: the proof starts at the decoded datagram (every pointer an option, every slice a
   list); bytes -> JSON tree (encoding/json) is trusted and exercised by the noise stream of
   the harness; termination is by construction (structural recursion, no fuel); blocking on
   locks is C17's part. *)
From Verif Require Import Base.Prelude Model.Robust Spec.RobustSpec Proofs.RobustProofs.

(* ------------------------------------------------------------------ the repaired tree *)

(* Every history of connects, disconnects, ARBITRARY inbound datagrams (and undecodable
   payloads) and probes: each step of the model's trace satisfies every clause of the monitor
   (no panic; every probe from a connected peer answered by exactly the discovery reply).
   Nothing is excused. *)
Theorem C05_trace_accepted : forall ops,
  accepted (judge minit sinit (snd (run init ops))) = true.
Proof. exact run_accepted. Qed.
Print Assumptions C05_trace_accepted.

(* For every state (a fortiori every reachable one), every connection and EVERY datagram of
   the model's type the repaired ProcessCmd returns: no Panic.  No well-formedness hypothesis. *)
Theorem C05_total_all_states : forall s pe d, exists s' o, process_cmd true s pe d = Ok (s', o).
Proof. intros. destruct (process_cmd_ok s pe d) as [[s' o] H]. eauto. Qed.
Print Assumptions C05_total_all_states.

Theorem C05_total : forall ops p d,
  exists s' o, step_res true (fst (run init ops)) (Inbound p d) = Ok (s', o).
Proof. exact total_reachable. Qed.
Print Assumptions C05_total.

(* After any inbound history a valid detailed-discovery read from ANY connected peer is answered
   by exactly one reply (discovery data, the read's counter), nothing else is written and the
   state does not change.  The only hypothesis is that the peer is connected: the repaired tree
   keeps entity [0] / NodeManagement feature 0 of every connected peer whatever it announces. *)
Theorem C05_still_served : forall ops p c,
  let s := fst (run init ops) in
  (exists pe, find_peer s p = Some pe) ->
  step s (Probe p c) = (s, [Out (OReply p F_DISC (Some c))]).
Proof. exact still_served. Qed.
Print Assumptions C05_still_served.

(* the invariant behind it *)
Theorem C05_node_management_kept : forall ops, exists m, rel (fst (run init ops)) m.
Proof. intro ops. exact (run_rel ops init minit rel_init). Qed.
Print Assumptions C05_node_management_kept.

(* ------------------------------------------------------------------ the tree without the C05 repairs *)
Definition A (d : N) (e : list N) (f : N) : faddr := {| fa_dev := Some d; fa_ent := Some e; fa_feat := Some f |}.
Definition H (src dst : option faddr) (ctr ref : option N) (k : option cls) : header :=
  {| h_src := src; h_dst := dst; h_ctr := ctr; h_ref := ref; h_ack := None; h_cls := k |}.
Definition NMH (p : N) (ctr : option N) (k : cls) : header := H (Some (A p [0%N] 0)) (Some (A 0 [0%N] 0)) ctr None (Some k).
Definition DG (h : header) (c : cmd) : option dgram := Some {| dg_hd := h; dg_cmd := Some c |}.

Definition c_of_disc (fl : list filt) (d : disc) : cmd :=
  {| c_filters := fl; c_data := Some F_DISC; c_nitems := 0; c_ids := []; c_result := None; c_disc := Some d;
     c_subreq := None; c_subdel := None; c_subdata := false; c_bindreq := None; c_binddel := None;
     c_binddata := false; c_usecase := false; c_destlist := false |}.
Definition c_of_subreq (r : option regreq) : cmd :=
  {| c_filters := []; c_data := Some F_SUBREQ; c_nitems := 0; c_ids := []; c_result := None; c_disc := None;
     c_subreq := Some r; c_subdel := None; c_subdata := false; c_bindreq := None; c_binddel := None;
     c_binddata := false; c_usecase := false; c_destlist := false |}.
Definition c_of_subdel (r : option regdel) : cmd :=
  {| c_filters := []; c_data := Some F_SUBDEL; c_nitems := 0; c_ids := []; c_result := None; c_disc := None;
     c_subreq := None; c_subdel := Some r; c_subdata := false; c_bindreq := None; c_binddel := None;
     c_binddata := false; c_usecase := false; c_destlist := false |}.
Definition c_of_bindreq (r : option regreq) : cmd :=
  {| c_filters := []; c_data := Some F_BINDREQ; c_nitems := 0; c_ids := []; c_result := None; c_disc := None;
     c_subreq := None; c_subdel := None; c_subdata := false; c_bindreq := Some r; c_binddel := None;
     c_binddata := false; c_usecase := false; c_destlist := false |}.
Definition c_of_binddel (r : option regdel) : cmd :=
  {| c_filters := []; c_data := Some F_BINDDEL; c_nitems := 0; c_ids := []; c_result := None; c_disc := None;
     c_subreq := None; c_subdel := None; c_subdata := false; c_bindreq := None; c_binddel := Some r;
     c_binddata := false; c_usecase := false; c_destlist := false |}.
Definition c_of_list (fl : list filt) (ids : list (option N)) : cmd :=
  {| c_filters := fl; c_data := Some F_CONS; c_nitems := N.of_nat (length ids); c_ids := ids; c_result := None;
     c_disc := None; c_subreq := None; c_subdel := None; c_subdata := false; c_bindreq := None; c_binddel := None;
     c_binddata := false; c_usecase := false; c_destlist := false |}.

Definition FD (e : list N) (f t : N) (r : role) : option featdesc :=
  Some {| fd_addr := Some (A 1 e f); fd_type := Some t; fd_role := Some r; fd_fns := [(true, true)] |}.
Definition ED (e : list N) (st : option estate) : option entdesc :=
  Some {| ed_addr := Some {| ea_dev := Some 1%N; ea_ent := Some e |}; ed_type := Some 1%N; ed_state := st |}.
Definition tree1 : disc :=
  {| d_devinfo := Some (Some (Some 1%N));
     d_ents := [ED [0%N] None; ED [1%N] None];
     d_feats := [FD [0%N] 0 T_NODEMGMT RSpecial; FD [1%N] 1 T_LOADCONTROL RClient; FD [1%N] 2 T_LOADCONTROL RServer] |}.
Definition discovered : list op := [Connect 1; Inbound 1 (DG (NMH 1 (Some 1%N) CReply) (c_of_disc [] tree1))].
Definition partial_f : filt := {| f_ctrl := Some (true, false); f_sel := None; f_elems := None; f_fsel := false; f_felems := false |}.
Definition foreign_f : filt := {| f_ctrl := Some (true, false); f_sel := None; f_elems := None; f_fsel := true; f_felems := false |}.
Definition lsrv : faddr := A 0 [1%N] 1.
Definition rcli : faddr := A 1 [1%N] 1.

(* (site, history whose last input panics there) for the unrepaired reading *)
Definition witnesses : list (N * list op) := [
  (S_LFBA, [Connect 1; Inbound 1 (DG (H (Some (A 1 [0%N] 0)) None (Some 1%N) None (Some CRead)) (c_of_disc [] tree1))]);
  (S_PROCESSCMD, [Connect 1; Inbound 1 (DG (H None (Some (A 0 [0%N] 0)) (Some 1%N) None (Some CRead)) (c_of_disc [] tree1))]);
  (S_EXTRACT, [Connect 1; Inbound 1 (DG (NMH 1 (Some 1%N) CRead)
                 (c_of_disc [ {| f_ctrl := None; f_sel := None; f_elems := None; f_fsel := false; f_felems := false |} ] tree1))]);
  (S_PRINT, [Connect 1; Inbound 1 (DG (NMH 1 (Some 1%N) CReply) (c_of_disc [] tree1))]);
  (S_PRINT, [Connect 1; Inbound 1 (DG (NMH 1 None CRead) (c_of_disc [] tree1))]);        (* the reply to a read without counter *)
  (S_SUBREQ, [Connect 1; Inbound 1 (DG (NMH 1 (Some 1%N) CCall) (c_of_subreq None))]);
  (S_SUBDEL, [Connect 1; Inbound 1 (DG (NMH 1 (Some 1%N) CCall) (c_of_subdel None))]);
  (S_BINDREQ, [Connect 1; Inbound 1 (DG (NMH 1 (Some 1%N) CCall) (c_of_bindreq None))]);
  (S_BINDDEL, [Connect 1; Inbound 1 (DG (NMH 1 (Some 1%N) CCall) (c_of_binddel None))]);
  (S_ADDSUB, [Connect 1; Inbound 1 (DG (NMH 1 (Some 1%N) CCall)
                (c_of_subreq (Some {| rq_cli := Some rcli; rq_srv := Some lsrv; rq_type := None |})))]);
  (S_ADDSUB, [Connect 1; Inbound 1 (DG (NMH 1 (Some 1%N) CCall)      (* valid call before discovery: error text *)
                (c_of_subreq (Some {| rq_cli := Some rcli; rq_srv := Some lsrv; rq_type := Some T_LOADCONTROL |})))]);
  (S_REMSUB, [Connect 1; Inbound 1 (DG (NMH 1 (Some 1%N) CCall)
                (c_of_subdel (Some {| rd_cli := None; rd_srv := Some lsrv |})))]);
  (S_ADDBIND, [Connect 1; Inbound 1 (DG (NMH 1 (Some 1%N) CCall)
                (c_of_bindreq (Some {| rq_cli := Some rcli; rq_srv := Some lsrv; rq_type := Some T_LOADCONTROL |})))]);
  (S_REMBIND, [Connect 1; Inbound 1 (DG (NMH 1 (Some 1%N) CCall)
                (c_of_binddel (Some {| rd_cli := None; rd_srv := Some lsrv |})))]);
  (S_RFBA, [Connect 1; Inbound 1 (DG (NMH 1 (Some 1%N) CCall)
                (c_of_subreq (Some {| rq_cli := None; rq_srv := Some lsrv; rq_type := Some T_LOADCONTROL |})))]);
  (S_LFBA, [Connect 1; Inbound 1 (DG (NMH 1 (Some 1%N) CCall)
                (c_of_subreq (Some {| rq_cli := Some rcli; rq_srv := None; rq_type := Some T_LOADCONTROL |})))]);
  (S_REPLYDISC, [Connect 1; Inbound 1 (DG (H (Some (A 1 [0%N] 0)) (Some (A 0 [0%N] 0)) (Some 1%N) (Some 1%N) (Some CReply))
                (c_of_disc [] {| d_devinfo := None; d_ents := d_ents tree1; d_feats := d_feats tree1 |}))]);
  (S_ADDENT, [Connect 1; Inbound 1 (DG (H (Some (A 1 [0%N] 0)) (Some (A 0 [0%N] 0)) (Some 1%N) (Some 1%N) (Some CReply))
                (c_of_disc [] {| d_devinfo := d_devinfo tree1;
                                 d_ents := [Some {| ed_addr := Some {| ea_dev := None; ea_ent := Some [1%N] |}; ed_type := None; ed_state := None |}];
                                 d_feats := [] |}))]);
  (S_ADDENT, [Connect 1; Inbound 1 (DG (H (Some (A 1 [0%N] 0)) (Some (A 0 [0%N] 0)) (Some 1%N) (Some 1%N) (Some CReply))
                (c_of_disc [] {| d_devinfo := d_devinfo tree1; d_ents := d_ents tree1; d_feats := [None] |}))]);
  (S_NEWENTITY, [Connect 1; Inbound 1 (DG (H (Some (A 1 [0%N] 0)) (Some (A 0 [0%N] 0)) (Some 1%N) (Some 1%N) (Some CReply))
                (c_of_disc [] {| d_devinfo := d_devinfo tree1;
                                 d_ents := [Some {| ed_addr := Some {| ea_dev := None; ea_ent := Some [] |}; ed_type := Some 1%N; ed_state := None |}];
                                 d_feats := [] |}))]);
  (S_UNMARSHAL, [Connect 1; Inbound 1 (DG (H (Some (A 1 [0%N] 0)) (Some (A 0 [0%N] 0)) (Some 1%N) (Some 1%N) (Some CReply))
                (c_of_disc [] {| d_devinfo := d_devinfo tree1; d_ents := d_ents tree1;
                                 d_feats := [Some {| fd_addr := Some (A 1 [1%N] 1); fd_type := Some T_LOADCONTROL; fd_role := None; fd_fns := [] |}] |}))]);
  (S_SETOPS, [Connect 1; Inbound 1 (DG (H (Some (A 1 [0%N] 0)) (Some (A 0 [0%N] 0)) (Some 1%N) (Some 1%N) (Some CReply))
                (c_of_disc [] {| d_devinfo := d_devinfo tree1; d_ents := d_ents tree1;
                                 d_feats := [Some {| fd_addr := Some (A 1 [1%N] 1); fd_type := Some T_LOADCONTROL; fd_role := Some RClient; fd_fns := [(false, true)] |}] |}))]);
  (S_FACTORY, [Connect 1; Inbound 1 (DG (H (Some (A 1 [0%N] 0)) (Some (A 0 [0%N] 0)) (Some 1%N) (Some 1%N) (Some CReply))
                (c_of_disc [] {| d_devinfo := d_devinfo tree1; d_ents := d_ents tree1;
                                 d_feats := [Some {| fd_addr := Some (A 1 [1%N] 1); fd_type := Some 0%N; fd_role := Some RClient; fd_fns := [] |}] |}))]);
  (S_UPDATELIST, [Connect 1;
                  Inbound 1 (DG (H (Some (A 1 [0%N] 0)) (Some (A 0 [0%N] 0)) (Some 1%N) (Some 1%N) (Some CReply)) (c_of_disc [] tree1));
                  Inbound 1 (DG (H (Some (A 1 [1%N] 2)) (Some (A 0 [1%N] 2)) (Some 2%N) None (Some CNotify))
                               (c_of_list [ {| f_ctrl := Some (true, false); f_sel := Some (Some 1%N); f_elems := None; f_fsel := false; f_felems := false |} ] []))]);
  (S_SELMATCH, [Connect 1;
                Inbound 1 (DG (H (Some (A 1 [0%N] 0)) (Some (A 0 [0%N] 0)) (Some 1%N) (Some 1%N) (Some CReply)) (c_of_disc [] tree1));
                Inbound 1 (DG (NMH 1 (Some 2%N) CCall)
                             (c_of_bindreq (Some {| rq_cli := Some rcli; rq_srv := Some lsrv; rq_type := Some T_LOADCONTROL |})));
                Inbound 1 (DG (H (Some rcli) (Some lsrv) (Some 3%N) None (Some CWrite)) (c_of_list [] [None]));
                Inbound 1 (DG (H (Some rcli) (Some lsrv) (Some 4%N) None (Some CWrite))
                             (c_of_list [ {| f_ctrl := Some (true, false); f_sel := Some (Some 1%N); f_elems := None; f_fsel := false; f_felems := false |} ] [Some 1%N]))])
].

Definition last_obs (fx : bool) (ops : list op) : list obs :=
  match rev (snd (run_fx fx init ops)) with (_, o) :: _ => o | [] => [] end.

(* the unrepaired reading panics at the named site on every witness ... *)
Theorem C05_total_refuted :
  forallb (fun w => match last_obs false (snd w) with
                    | [OPanic s] => N.eqb s (fst w)
                    | _ => false
                    end) witnesses = true.
Proof. vm_compute. reflexivity. Qed.
Print Assumptions C05_total_refuted.

(* ... so the full statement is false of it (monitor clause "panic") ... *)
Theorem C05_total_refuted_monitor :
  forallb (fun w => negb (strictly_accepted (judge minit sinit (snd (run_fx false init (snd w)))))) witnesses = true.
Proof. vm_compute. reflexivity. Qed.
Print Assumptions C05_total_refuted_monitor.

(* ... and the repaired reading handles the very same histories without panic *)
Theorem C05_witnesses_repaired :
  forallb (fun w => strictly_accepted (judge minit sinit (snd (run init (snd w))))) witnesses = true.
Proof. vm_compute. reflexivity. Qed.
Print Assumptions C05_witnesses_repaired.

(* Self lock-out without a panic: a partial discovery notification {[0] added} without feature
   information (or {[0] removed}, or a full notification / reply not listing [0]) makes the
   unrepaired code drop the peer's own NodeManagement feature; its valid discovery read is then
   discarded as "invalid remote feature address". *)
Definition ED0 (st : option estate) : option entdesc := ED [0%N] st.
Definition lockout_add : list op :=
  [Connect 1; Connect 2;
   Inbound 1 (DG (NMH 1 (Some 1%N) CNotify)
                 (c_of_disc [partial_f] {| d_devinfo := d_devinfo tree1; d_ents := [ED0 (Some EAdded)]; d_feats := [] |}));
   Probe 1 7; Probe 2 8].
Definition lockout_remove : list op :=
  [Connect 1;
   Inbound 1 (DG (NMH 1 (Some 1%N) CNotify)
                 (c_of_disc [partial_f] {| d_devinfo := d_devinfo tree1; d_ents := [ED0 (Some ERemoved)]; d_feats := [] |}));
   Probe 1 7].

Theorem C05_still_served_refuted :
  map snd (snd (run_fx false init lockout_add)) = [[]; []; []; []; [Out (OReply 2 F_DISC (Some 8%N))]] /\
  strictly_accepted (judge minit sinit (snd (run_fx false init lockout_add))) = false /\
  strictly_accepted (judge minit sinit (snd (run_fx false init lockout_remove))) = false.
Proof. vm_compute. repeat split; reflexivity. Qed.
Print Assumptions C05_still_served_refuted.

(* the same histories on the repaired reading: the sender is still served *)
Example C05_lockout_repaired :
  map snd (snd (run init lockout_add)) =
    [[]; []; []; [Out (OReply 1 F_DISC (Some 7%N))]; [Out (OReply 2 F_DISC (Some 8%N))]] /\
  strictly_accepted (judge minit sinit (snd (run init lockout_remove))) = true.
Proof. vm_compute. split; reflexivity. Qed.

(* Non-vacuity: discovery, subscription, binding, a remote write that fans out to the subscriber,
   a malformed write, probes; the monitor accepts every step strictly. *)
Example C05_nonvacuous :
  let ops := discovered ++
    [Inbound 1 (DG (NMH 1 (Some 2%N) CCall) (c_of_subreq (Some {| rq_cli := Some rcli; rq_srv := Some lsrv; rq_type := Some T_LOADCONTROL |})));
     Inbound 1 (DG (NMH 1 (Some 3%N) CCall) (c_of_bindreq (Some {| rq_cli := Some rcli; rq_srv := Some lsrv; rq_type := Some T_LOADCONTROL |})));
     Inbound 1 (DG (H (Some rcli) (Some lsrv) (Some 4%N) None (Some CWrite)) (c_of_list [] [Some 1%N]));
     Inbound 1 (DG (H (Some rcli) (Some lsrv) None None (Some CWrite))
                  (c_of_list [ {| f_ctrl := None; f_sel := Some None; f_elems := None; f_fsel := false; f_felems := false |} ] []));
     Probe 1 9] in
  map snd (snd (run init ops)) =
    [[]; []; []; []; [Out (ONotify 1 F_CONS)]; [Out (ONotify 1 F_CONS)]; [Out (OReply 1 F_DISC (Some 9%N))]] /\
  strictly_accepted (judge minit sinit (snd (run init ops))) = true.
Proof. vm_compute. split; reflexivity. Qed.

(* Filters carrying the selector of ANOTHER function: a failed partial notify (foreign selector, no item) is
   answered with an error result (and re-read), a partial write with a foreign selector addresses every item. *)
Example C05_foreign_selectors :
  let ops := discovered ++
    [Inbound 1 (DG (H (Some (A 1 [1%N] 2)) (Some (A 0 [1%N] 2)) (Some 2%N) None (Some CNotify)) (c_of_list [foreign_f] []));
     Inbound 1 (DG (NMH 1 (Some 3%N) CCall) (c_of_bindreq (Some {| rq_cli := Some rcli; rq_srv := Some lsrv; rq_type := Some T_LOADCONTROL |})));
     Inbound 1 (DG (H (Some rcli) (Some lsrv) (Some 4%N) None (Some CWrite)) (c_of_list [foreign_f] [Some 9%N]));
     Inbound 1 (DG (H (Some rcli) (Some lsrv) (Some 5%N) None (Some CWrite)) (c_of_list [partial_f] [Some 1%N]))] in
  map snd (snd (run init ops)) =
    [[]; []; [Out (OResult 1 E_GENERAL (Some 2%N))]; []; []; [Out (OResult 1 E_GENERAL (Some 5%N))]] /\
  strictly_accepted (judge minit sinit (snd (run init ops))) = true /\
  strictly_accepted (judge minit sinit (snd (run_fx false init ops))) = false.
Proof. vm_compute. repeat split; reflexivity. Qed.
