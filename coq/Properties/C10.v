(* C10 — teardown of one peer or entity never leaks into another.
   Property theorems only; proofs in Proofs/C10Events.v, C10Core.v, C10Client.v, C10Proofs.v.
   Model: Model/Stack.v (tied to the code by the correspondence harness cmd/c10 +
   harness/stack); the property is the trace monitor Spec/C10Spec.v, which also judges the
   implementation's traces.  Pending write approvals are not part of this model: the
   approval timers of a disconnected peer are the business of the approval model (C12). *)
From Verif Require Import Base.Prelude Model.Stack Spec.StackObs Spec.C10Spec
  Proofs.StackLemmas Proofs.StackInv Proofs.C10Events Proofs.C10Core Proofs.C10Client Proofs.C10Proofs.
From Verif Require Import Model.StackX Spec.StackXSpec.

(* For every history of operations (local tree construction, connects and reconnects, discovery
   replies and partial notifications adding and removing entities, subscribe / unsubscribe /
   bind / unbind calls by any peers, local subscribe / bind requests, local data changes,
   remote writes, disconnects, listings, bookkeeping queries, Resolve) every step of the
   model's trace satisfies every clause of the monitor that the scope does not excuse:
     - removing connection p (Disconnect, or Connect over a connection that is still there)
       publishes exactly one removal event per subscription and binding of p and one for the
       device, and nothing else; an entity-removed notification for entities of p publishes
       exactly one removal event per subscription and binding of (p, entity); so does a
       discovery reply for the entities it no longer lists;
     - from then on exactly those entries are missing: every peer's listing is exactly what it
       obtained and still owns, a data change is notified exactly once per remaining
       subscription, Resolve(p) fails by SKI and by address;
     - no datagram is ever written to a connection that is not there;
     - the client-side bookkeeping answers exactly for the requests written to connections and
       entities that are still there [excused once device addresses stop identifying
       connections: recorded finding client-bookkeeping-keyed-by-device-address]. *)
Theorem C10_teardown_trace_accepted_partial : forall ops,
  accepted (judge minit sinit (snd (run init ops))) = true.
Proof. exact run_accepted. Qed.
Print Assumptions C10_teardown_trace_accepted_partial.

(* Whatever the device addresses: no clause other than the client-bookkeeping clause is ever
   violated (teardown events, registries, fan-out, Resolve, silence hold in full). *)
Theorem C10_registry_teardown_full : forall ops,
  only_client (judge minit sinit (snd (run init ops))) = true.
Proof. exact run_only_client. Qed.
Print Assumptions C10_registry_teardown_full.

(* As long as the scope predicate has not fired nothing at all is violated. *)
Theorem C10_strict_while_addresses_identify_connections : forall ops,
  oos (scope_run sinit ops) = false -> strictly_accepted (judge minit sinit (snd (run init ops))) = true.
Proof. exact run_strict_in_scope. Qed.
Print Assumptions C10_strict_while_addresses_identify_connections.

(* The full statement (nothing excused) is false of the faithful model: a local client feature
   subscribes to d1:[1]:1 on connection 1; connection 2 announces the same device address d1;
   removing connection 2 removes the bookkeeping of the request written to connection 1
   (CleanRemoteDeviceCaches matches by device address). *)
Definition a (d : option N) (e : list N) (f : N) : faddr := {| fa_dev := d; fa_ent := e; fa_feat := Some f |}.
Definition tree (d : N) : disc_msg :=
  {| dm_dev := Some d;
     dm_ents := [ {| de_addr := [0%N]; de_dev := None; de_state := None |}; {| de_addr := [1%N]; de_dev := None; de_state := None |} ];
     dm_feats := [ {| df_ent := [0%N]; df_id := 0; df_type := T_NODEMGMT; df_role := RSpecial |};
                   {| df_ent := [1%N]; df_id := 1; df_type := 1; df_role := RClient |} ] |}.
Definition c10_witness : list op :=
  [ AddLocalEntity [1%N]; AddLocalFeature [1%N] 1 RClient;
    Connect 1; DiscoveryReply 1 (tree 1); LocalSubscribe [1%N] 1 (a (Some 1%N) [1%N] 1);
    Connect 2; DiscoveryReply 2 (tree 1);
    Disconnect 2; HasLocalSub [1%N] 1 (a (Some 1%N) [1%N] 1) ].
Theorem C10_client_bookkeeping_full_refuted :
  exists ops, strictly_accepted (judge minit sinit (snd (run init ops))) = false.
Proof. exists c10_witness. vm_compute. reflexivity. Qed.
Print Assumptions C10_client_bookkeeping_full_refuted.

(* ---------- explicit corollaries: removing connection p from any reachable state ---------- *)

(* exactly the entries of p disappear (ids of the others untouched), p's tree is gone, the local
   tree is untouched, and the only bookkeeping removed names p's announced device address *)
Theorem C10_device_teardown_exact : forall ops p,
  let s := fst (run init ops) in let s' := fst (step s (Disconnect p)) in
  subs s' = filter (fun x => negb (N.eqb (e_ski x) p)) (subs s) /\
  binds s' = filter (fun x => negb (N.eqb (e_ski x) p)) (binds s) /\
  next_sub s' = next_sub s /\ next_bind s' = next_bind s /\
  find_peer s' p = None /\ lents s' = lents s /\
  lfeats s' = match find_peer s p with
              | Some pe => match p_addr pe with
                           | Some d => map (clean_f (keep_dev d)) (lfeats s)
                           | None => lfeats s
                           end
              | None => lfeats s
              end.
Proof. exact device_teardown_exact. Qed.
Print Assumptions C10_device_teardown_exact.

(* frame: every other peer — whatever its entity / feature numbers and device address — keeps its
   tree and all of its subscriptions and bindings *)
Theorem C10_device_teardown_frame : forall ops p q, q <> p ->
  let s := fst (run init ops) in view (fst (step s (Disconnect p))) q = view s q.
Proof. exact device_teardown_frame. Qed.
Print Assumptions C10_device_teardown_frame.

(* ... and continues to be served: of what a data change sends, exactly the notifications to p go *)
Theorem C10_device_teardown_served : forall ops p sf fn v,
  let s := fst (run init ops) in
  notify_subscribers (fst (step s (Disconnect p))) sf fn v =
  filter (fun o => match dgram_to o with Some k => negb (N.eqb k p) | None => true end) (notify_subscribers s sf fn v).
Proof. exact device_teardown_served. Qed.
Print Assumptions C10_device_teardown_served.

(* the removed device no longer resolves: not by SKI, and by address only if ANOTHER connection
   announces that address *)
Theorem C10_device_unresolvable : forall ops p,
  let s := fst (run init ops) in let s' := fst (step s (Disconnect p)) in
  find_peer s' p = None /\
  forall d, peer_by_addr s' d = find (fun x => eqb_optN (p_addr x) (Some d)) (filter (fun x => negb (N.eqb (p_ski x) p)) (peers s)).
Proof. exact device_teardown_unresolvable. Qed.
Print Assumptions C10_device_unresolvable.

(* no datagram is written to the removed connection: not by the teardown and not by any later
   operation of any peer, until SKI p connects again *)
Theorem C10_silent_after_disconnect : forall ops p ops', never_connects p ops' ->
  let s' := fst (step (fst (run init ops)) (Disconnect p)) in
  forall o out x, In (o, out) ((Disconnect p, snd (step (fst (run init ops)) (Disconnect p))) :: snd (run s' ops')) ->
                  In x out -> dgram_to x <> Some p.
Proof. exact silent_after_disconnect. Qed.
Print Assumptions C10_silent_after_disconnect.

(* ---------- explicit corollary: entities of peer p announced as removed ---------- *)

(* exactly the subscriptions and bindings of (p, removed entity) disappear; every other peer -
   including one whose entity carries the same number - keeps its tree and all of its entries *)
Theorem C10_entity_teardown_exact : forall ops p ctr ack dm,
  let s := fst (run init ops) in
  let s' := fst (step s (DiscoveryNotify p ctr ack dm)) in
  let gone := gone_of (snd (step s (DiscoveryNotify p ctr ack dm))) in
  subs s' = filter (fun x => negb (N.eqb (e_ski x) p && existsb (eqb_eaddr (fa_ent (e_cli x))) gone)) (subs s) /\
  binds s' = filter (fun x => negb (N.eqb (e_ski x) p && existsb (eqb_eaddr (fa_ent (e_cli x))) gone)) (binds s) /\
  next_sub s' = next_sub s /\ next_bind s' = next_bind s /\
  forall q, q <> p -> view s' q = view s q.
Proof. exact entity_teardown_exact. Qed.
Print Assumptions C10_entity_teardown_exact.

(* ---------- explicit corollary: a discovery reply that no longer lists entities ---------- *)

(* a further discovery reply of p removes exactly the entries of (p, entity it no longer lists),
   completes the device part of the client address of p's entries made through its node-management
   feature before the first reply ([completed]), and leaves every other peer alone *)
Theorem C10_reply_teardown_exact : forall ops p m,
  let s := fst (run init ops) in
  let s' := fst (step s (DiscoveryReply p m)) in
  let gone := gone_of (snd (step s (DiscoveryReply p m))) in
  subs s' = filter (fun x => negb (N.eqb (e_ski x) p && existsb (eqb_eaddr (fa_ent (e_cli x))) gone)) (completed s p m (subs s)) /\
  binds s' = filter (fun x => negb (N.eqb (e_ski x) p && existsb (eqb_eaddr (fa_ent (e_cli x))) gone)) (completed s p m (binds s)) /\
  next_sub s' = next_sub s /\ next_bind s' = next_bind s /\
  forall q, q <> p -> view s' q = view s q.
Proof. exact reply_teardown_exact. Qed.
Print Assumptions C10_reply_teardown_exact.

(* Regression (repaired by bbf4b62, formerly witness (iii) of the recorded finding): connection 2
   has not announced a device address, announces entity [1] under connection 1's address d1 and
   then announces it removed; the bookkeeping of the request written to connection 1 stays, and
   every step is strictly accepted. *)
Definition notif (d : N) (st : estate) : disc_msg :=
  {| dm_dev := Some d; dm_ents := [ {| de_addr := [1%N]; de_dev := None; de_state := Some st |} ];
     dm_feats := match st with SAdded => [ {| df_ent := [1%N]; df_id := 1; df_type := 1; df_role := RClient |} ] | SRemoved => [] end |}.
Definition c10_foreign_address : list op :=
  [ AddLocalEntity [1%N]; AddLocalFeature [1%N] 1 RClient;
    Connect 1; DiscoveryReply 1 (tree 1); LocalSubscribe [1%N] 1 (a (Some 1%N) [1%N] 1);
    Connect 2; DiscoveryNotify 2 201 false (notif 1 SAdded); DiscoveryNotify 2 202 false (notif 1 SRemoved);
    HasLocalSub [1%N] 1 (a (Some 1%N) [1%N] 1) ].
Example C10_entity_under_foreign_address_repaired :
  map snd (skipn 8 (snd (run init c10_foreign_address))) = [ [ORetB true] ] /\
  strictly_accepted (judge minit sinit (snd (run init c10_foreign_address))) = true.
Proof. vm_compute. split; reflexivity. Qed.

(* Withdrawn requests (FeatureLocal.RemoveRemoteSubscription / RemoveRemoteBinding): a local client
   feature subscribes and binds to d1:[1]:1, withdraws the subscription (a delete call goes to
   connection 1, the subscription is forgotten, the binding stays), then the binding; every step is
   strictly accepted. *)
Definition c10_withdraw : list op :=
  [ AddLocalEntity [1%N]; AddLocalFeature [1%N] 1 RClient;
    Connect 1; DiscoveryReply 1 (tree 1);
    LocalSubscribe [1%N] 1 (a (Some 1%N) [1%N] 1); LocalBind [1%N] 1 (a (Some 1%N) [1%N] 1);
    LocalUnsubscribe [1%N] 1 (a (Some 1%N) [1%N] 1);
    HasLocalSub [1%N] 1 (a (Some 1%N) [1%N] 1); HasLocalBind [1%N] 1 (a (Some 1%N) [1%N] 1);
    LocalUnbind [1%N] 1 (a (Some 1%N) [1%N] 1); HasLocalBind [1%N] 1 (a (Some 1%N) [1%N] 1) ].
Example C10_withdrawn_requests :
  map snd (skipn 6 (snd (run init c10_withdraw))) =
    [ [OCall 1 3 (a (Some 0%N) [0%N] 0) (a (Some 1%N) [0%N] 0); ORetB true]; [ORetB false]; [ORetB true];
      [OCall 1 4 (a (Some 0%N) [0%N] 0) (a (Some 1%N) [0%N] 0); ORetB true]; [ORetB false] ] /\
  strictly_accepted (judge minit sinit (snd (run init c10_withdraw))) = true.
Proof. vm_compute. split; reflexivity. Qed.

(* An entity announced again WITHOUT its features keeps its registry entries (AddEntityAndFeatures
   empties the feature list, the registries are not touched) and the teardown still removes them:
   connection 1 subscribes and binds from entity [1], announces [1] again with no feature
   information, its listing still shows the subscription; the disconnect publishes one removal event
   per entry (their client-feature part is empty: the feature is no longer in the tree), the listings
   are empty afterwards; every step is strictly accepted. *)
Definition bare_again (d : N) : disc_msg :=
  {| dm_dev := Some d; dm_ents := [ {| de_addr := [1%N]; de_dev := None; de_state := Some SAdded |} ]; dm_feats := [] |}.
Definition rcall : reg_call := {| rc_cli := a (Some 1%N) [1%N] 1; rc_srv := a (Some 0%N) [1%N] 1; rc_type := Some 1%N |}.
Definition c10_reannounce : list op :=
  [ AddLocalEntity [1%N]; AddLocalFeature [1%N] 1 RServer;
    Connect 1; DiscoveryReply 1 (tree 1); SubCall 1 101 false rcall; BindCall 1 102 false rcall;
    DiscoveryNotify 1 103 false (bare_again 1); ListSubs 1; Disconnect 1; ListSubs 1; ListBinds 1 ].
Example C10_reannounced_entity_torn_down :
  map (fun x => length (snd x)) (skipn 7 (snd (run init c10_reannounce))) = [1; 3; 0; 0]%nat /\
  filter (fun o => match o with OEvent EvSub ChRemove _ _ _ _ | OEvent EvBind ChRemove _ _ _ _ => true | _ => false end)
         (snd (nth 8 (snd (run init c10_reannounce)) (Disconnect 1, []))) =
    [ OEvent EvSub ChRemove 1 (Some [1%N]) None (Some (a (Some 0%N) [1%N] 1));
      OEvent EvBind ChRemove 1 (Some [1%N]) None (Some (a (Some 0%N) [1%N] 1)) ] /\
  strictly_accepted (judge minit sinit (snd (run init c10_reannounce))) = true.
Proof. vm_compute. repeat split; reflexivity. Qed.

(* ---------- "... including while messages of other peers are being processed" ---------- *)

(* Histories may contain [During a b] (Model/StackX.v): while the teardown a of peer p runs
   (Disconnect p, or a discovery notification / reply of p that removes entities), the subscribe /
   bind / unsubscribe / unbind call b of another peer q is delivered on q's connection.  The
   registries hold their mutex across a whole Remove...ForEntity, so the call waits and takes effect
   afterwards: the model is the teardown followed by the call (overlap_is_sequential), and every
   clause is judged on the observations split into the teardown's and the call's.  In particular
   the entry q obtained with a success result is in q's next listing and is served by the next
   data change; a teardown that writes back a stale snapshot of the registry violates
   listing-after-teardown / fan-out-after-teardown. *)
Theorem C10_overlap_trace_accepted_partial : forall xops,
  accepted (xjudge10 minit sinit (snd (xrun init xops))) = true.
Proof. exact xrun_accepted. Qed.
Print Assumptions C10_overlap_trace_accepted_partial.

Theorem C10_overlap_registry_teardown_full : forall xops,
  only_client (xjudge10 minit sinit (snd (xrun init xops))) = true.
Proof. exact xrun_only_client. Qed.
Print Assumptions C10_overlap_registry_teardown_full.

(* Non-vacuity of the overlap: peer 2's subscription arrives during the removal of peer 1 (which has
   a subscription): both the removal of peer 1's entry and the grant to peer 2 are observed, peer
   2's listing shows its entry, the next data change reaches peer 2 only. *)
Definition scall (d : N) : reg_call := {| rc_cli := a (Some d) [1%N] 1; rc_srv := a (Some 0%N) [1%N] 1; rc_type := Some 1%N |}.
Definition c10_overlap_example : list xop :=
  map Base [ AddLocalEntity [1%N]; AddLocalFeature [1%N] 1 RServer; AddFunction [1%N] 1 1 true true;
             Connect 1; DiscoveryReply 1 (tree 1); Connect 2; DiscoveryReply 2 (tree 2); SubCall 1 11 false (scall 1) ] ++
  [ During (Disconnect 1) (SubCall 2 21 true (scall 2)); Base (ListSubs 2); Base (SetData [1%N] 1 1 77) ].
Example C10_overlap_nonvacuous :
  map snd (skipn 8 (snd (xrun init c10_overlap_example))) =
    [ [OEvent EvSub ChRemove 1 (Some [1%N]) (Some (a (Some 1%N) [1%N] 1)) (Some (a (Some 0%N) [1%N] 1));
       OEvent EvDevice ChRemove 1 None None None;
       OEvent EvSub ChAdd 2 (Some [1%N]) (Some (a (Some 2%N) [1%N] 1)) (Some (a (Some 0%N) [1%N] 1));
       OResult 2 21 false (a (Some 0%N) [0%N] 0) (a (Some 2%N) [0%N] 0)];
      [OEntry 2 (a (Some 0%N) [1%N] 1) (a (Some 2%N) [1%N] 1)];
      [ONotify 2 (a (Some 0%N) [1%N] 1) (a (Some 2%N) [1%N] 1) 1 77] ] /\
  strictly_accepted (xjudge10 minit sinit (snd (xrun init c10_overlap_example))) = true.
Proof. vm_compute. split; reflexivity. Qed.

(* Non-vacuity: two peers with identical entity / feature numbers subscribe and bind; peer 1 is
   removed: two removal events + the device event, peer 2's listing and service are untouched,
   peer 1 no longer resolves; every step strictly accepted. *)
Definition call (d : N) (srv : N) : reg_call := {| rc_cli := a (Some d) [1%N] 1; rc_srv := a (Some 0%N) [1%N] srv; rc_type := Some 1%N |}.
Definition c10_example : list op :=
  [ AddLocalEntity [1%N]; AddLocalFeature [1%N] 1 RServer; AddFunction [1%N] 1 1 true true;
    Connect 1; DiscoveryReply 1 (tree 1); Connect 2; DiscoveryReply 2 (tree 2);
    SubCall 1 11 false (call 1 1); SubCall 2 21 false (call 2 1); BindCall 1 12 false (call 1 1);
    Disconnect 1; ListSubs 2; ListSubs 1; SetData [1%N] 1 1 77; Resolve 1 (Some 1%N); Resolve 2 (Some 2%N) ].
Example C10_nonvacuous :
  map snd (skipn 10 (snd (run init c10_example))) =
    [ [OEvent EvSub ChRemove 1 (Some [1%N]) (Some (a (Some 1%N) [1%N] 1)) (Some (a (Some 0%N) [1%N] 1));
       OEvent EvBind ChRemove 1 (Some [1%N]) (Some (a (Some 1%N) [1%N] 1)) (Some (a (Some 0%N) [1%N] 1));
       OEvent EvDevice ChRemove 1 None None None];
      [OEntry 2 (a (Some 0%N) [1%N] 1) (a (Some 2%N) [1%N] 1)];
      [];
      [ONotify 2 (a (Some 0%N) [1%N] 1) (a (Some 2%N) [1%N] 1) 1 77];
      [ORetB false; ORetB false];
      [ORetB true; ORetB true] ] /\
  strictly_accepted (judge minit sinit (snd (run init c10_example))) = true.
Proof. vm_compute. split; reflexivity. Qed.

(* The second kind of overlap (Model/StackX.v round_overlap): peers 2, 3, 1 subscribe in that order;
   the notification round of a data change is held in its write to peer 2 while peer 3 is
   disconnected: all three subscribers of the list the round took are written to (what goes to the
   removed peer 3 itself is not prescribed, the harness reports it in canonical form), peer 3's
   entry is removed with its event, and the next data change reaches peers 2 and 1 only. *)
Definition c10_round_example : list xop :=
  map Base [ AddLocalEntity [1%N]; AddLocalFeature [1%N] 1 RServer; AddFunction [1%N] 1 1 true true;
             Connect 1; DiscoveryReply 1 (tree 1); Connect 2; DiscoveryReply 2 (tree 2); Connect 3; DiscoveryReply 3 (tree 3);
             SubCall 2 21 false (scall 2); SubCall 3 31 false (scall 3); SubCall 1 11 false (scall 1) ] ++
  [ During (SetData [1%N] 1 1 77) (Disconnect 3); Base (SetData [1%N] 1 1 78) ].
Example C10_round_overlap_nonvacuous :
  map snd (skipn 12 (snd (xrun init c10_round_example))) =
    [ [ONotify 2 (a (Some 0%N) [1%N] 1) (a (Some 2%N) [1%N] 1) 1 77;
       ONotify 3 (a (Some 0%N) [1%N] 1) (a (Some 3%N) [1%N] 1) 1 77;
       ONotify 1 (a (Some 0%N) [1%N] 1) (a (Some 1%N) [1%N] 1) 1 77;
       OEvent EvSub ChRemove 3 (Some [1%N]) (Some (a (Some 3%N) [1%N] 1)) (Some (a (Some 0%N) [1%N] 1));
       OEvent EvDevice ChRemove 3 None None None];
      [ONotify 2 (a (Some 0%N) [1%N] 1) (a (Some 2%N) [1%N] 1) 1 78;
       ONotify 1 (a (Some 0%N) [1%N] 1) (a (Some 1%N) [1%N] 1) 1 78] ] /\
  only_client (xjudge10 minit sinit (snd (xrun init c10_round_example))) = true /\
  accepted (xjudge10 minit sinit (snd (xrun init c10_round_example))) = true.
Proof. vm_compute. repeat split; reflexivity. Qed.
