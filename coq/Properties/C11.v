(* C11 — Data handed to the application is a stable snapshot; non-persisting and failed
   updates leave the store unchanged.
   Property theorems only; proofs are in Proofs/SnapProofs.v (on top of the program logic
   Proofs/SliceLogic.v).  The model is Model/SnapStore.v over the memory model Model/Slices.v
   (backing arrays, outer structs, the stored pointer; every memory change is an explicit
   effect), tied to spine/function_data.go, model/update.go, model/collection_operations.go
   and the FeatureLocal / FeatureRemote paths by the correspondence harness cmd/c11; the
   property is the trace monitor Spec/SnapSpec.v (the same extracted monitor judges the
   implementation's traces).

   All theorems hold for EVERY growth policy of append ([grow] is universally quantified)
   and every setting of the value-level engine switches ([quirks] travel in Init), for the
   repaired FunctionData.UpdateData ([repaired ops]: every Init selects fixed = true,
   patches/fix-C11-functiondata-update-on-copy.diff).  The pinned code is the same model
   with fixed = false; it is refuted below.

   Scope note: the operations Keep / Ext of the model (runner family 5: the four EntityLocal
   use-case operations against retained DataCopy results of nodeManagementUseCaseData) are NOT
   transcriptions of code: the model's step for them touches nothing, so the theorems below say
   nothing about that code.  They exist so that the extracted monitor can judge the
   implementation's observations of those operations (clause handed-out-data-changed), a runtime
   oracle only. *)
From Coq Require Import String.
From Verif Require Import Base.Prelude Model.Schema Model.Slices Model.SnapStore Spec.SnapSpec
  Proofs.SliceLogic Proofs.SnapProofs Gen.GenSchemas Gen.GenUpdateWiring.

(* Every history: no object handed out earlier (DataCopy result, data returned by UpdateData,
   event payload) is ever reported changed; an update without persistence and an update
   reported as failed leave the data read back afterwards equal to the data read back before. *)
Theorem C11_trace_accepted : forall grow ops, repaired ops = true ->
  accepted (judge minit sinit (snd (run grow init ops))) = true.
Proof. exact run_accepted. Qed.
Print Assumptions C11_trace_accepted.

(* Clause 1 on the state: after any history every object handed out has the value recorded
   when it was handed out ... *)
Theorem C11_snapshot_stable : forall grow ops, repaired ops = true ->
  Forall (fun hv => val (cur (fst (run grow init ops))) (fst hv) = snd hv)
         (handed (fst (run grow init ops))).
Proof. exact handed_stable. Qed.
Print Assumptions C11_snapshot_stable.

(* ... in the form of the design: what a prefix of the history handed out is still held, with
   the value it had at the end of the prefix, after any continuation (full, partial, selector,
   delete, identifier-less updates; local, write, reply, notify; persisting or not;
   succeeding, failing or panicking) *)
Theorem C11_snapshot_stable_later : forall grow ops1 ops2,
  repaired (ops1 ++ ops2) = true -> no_init ops2 = true ->
  forall hv, In hv (handed (fst (run grow init ops1))) ->
  In hv (handed (fst (run grow init (ops1 ++ ops2)))) /\
  val (cur (fst (run grow init (ops1 ++ ops2)))) (fst hv) = snd hv.
Proof. exact handed_stable_later. Qed.
Print Assumptions C11_snapshot_stable_later.

(* Clause 2 on the state: in every reachable state an update requested without persistence, or
   answered with an error, leaves the stored data (nil, or the value of the stored list) as it was *)
Theorem C11_no_persist : forall grow ops remote persist rb wire u c,
  repaired ops = true ->
  let s := fst (run grow init ops) in
  In (Res c) (snd (step grow s (Update remote persist rb wire u))) ->
  persist = false \/ c = 1%N ->
  sval (cur (fst (step grow s (Update remote persist rb wire u)))) = sval (cur s).
Proof.
  intros grow ops remote persist rb wire u c Hrep s Hin Hcase.
  destruct (run_inv grow ops init Inv_init eq_refl Hrep) as [HI Hfx].
  exact (update_keeps_store grow s remote persist rb wire u HI Hfx c Hin Hcase).
Qed.
Print Assumptions C11_no_persist.

(* Concurrency: a reader holds no lock, so it may run between any two memory effects of an
   operation.  At every such point (every prefix of the operation's effect sequence, in every
   reachable state) every object handed out before still reads as at hand-out ... *)
Theorem C11_concurrent_reader : forall grow ops o k,
  repaired ops = true ->
  let s := fst (run grow init ops) in
  Forall (fun hv => val (replay (firstn k (step_effects grow s o)) (cur s)) (fst hv) = snd hv) (handed s).
Proof.
  intros grow ops o k Hrep s.
  destruct (run_inv grow ops init Inv_init eq_refl Hrep) as [HI Hfx].
  exact (concurrent_reader grow s o HI Hfx k).
Qed.
Print Assumptions C11_concurrent_reader.

(* ... and no effect of the operation writes a backing array or an outer struct that such an
   object occupies (no read/write conflict between the reader and the update, at the level of
   the model's memory cells) *)
Theorem C11_no_write_reaches_handed : forall grow ops o e hv,
  repaired ops = true ->
  let s := fst (run grow init ops) in
  In e (step_effects grow s o) -> In hv (handed s) -> ~ touches (cur s) e (fst hv).
Proof.
  intros grow ops o e hv Hrep s He Hhv.
  destruct (run_inv grow ops init Inv_init eq_refl Hrep) as [HI Hfx].
  exact (no_write_reaches_handed grow s o HI Hfx e hv He Hhv).
Qed.
Print Assumptions C11_no_write_reaches_handed.

(* the memory after an operation is the replay of its effect list: the statements about
   effect sequences are statements about the model's step *)
Theorem C11_effects_are_the_step : forall A (p : prog A) m a m' l,
  exec p m = (a, m', l) -> m' = replay l m.
Proof. exact exec_replay. Qed.
Print Assumptions C11_effects_are_the_step.

(* The per-type UpdateList methods (regenerated from model/*_additions.go on every run) all have
   the one shape the model's [per_type] transcribes: existing data = the assigned field = the
   field read from the new data, delegating to the generic UpdateList, the only assignment being
   `if success && persist { r.F = data }`; the result is returned (three types return `persist`
   instead, i.e. hand no data back: families 1 and 4 of the model; that mis-wiring is C02's subject). *)
Definition wiring_ok (w : wiring) : bool :=
  w_guard w && w_generic w && String.eqb (w_existing w) (w_assigned w) &&
  String.eqb (w_read w) (w_assigned w) && String.eqb (w_asserted w) (w_recv w) &&
  (String.eqb (w_returned w) "data" || String.eqb (w_returned w) "persist").
Theorem C11_wiring_uniform : forall w, In w all_wirings -> wiring_ok w = true.
Proof. apply forallb_forall. vm_compute. reflexivity. Qed.
Print Assumptions C11_wiring_uniform.

(* ---- the pinned code (fixed = false) violates both sentences ---- *)
Definition cell3 (a b c : Z) : cell := [of_z a; of_z b; of_z c].
Definition full_upd (wire : N) (l : list cell) : op :=
  Update false true true wire {| u_new := l; u_fp := None; u_fd := None |}.
Definition sel_upd (remote persist : bool) (wire : N) (k : Z) (l : list cell) : op :=
  Update remote persist true wire {| u_new := l; u_fp := Some {| f_sel := Some [of_z k]; f_elems := None |}; u_fd := None |}.
Definition partial_upd (wire : N) (l : list cell) : op :=
  Update false true true wire {| u_new := l; u_fp := Some {| f_sel := None; f_elems := None |}; u_fd := None |}.

(* type 1 = billConstraintsListData (three numeric fields, identifier = field 0, selector on it).
   A FeatureRemote: full update, DataCopy, then a selector update WITHOUT persistence: the
   stored data and the copy taken before show the new value. *)
Definition c11_witness_selector (fx : bool) : list op :=
  [Init 1 2 fx no_quirks; full_upd 0 [cell3 2 1 1; cell3 3 1 1]; Snapshot; sel_upd false false 0 3 [cell3 0 5 0]].
Theorem C11_pinned_refuted : exists ops,
  strictly_accepted (judge minit sinit (snd (run go_grow init ops))) = false.
Proof. exists (c11_witness_selector false). vm_compute. reflexivity. Qed.
Print Assumptions C11_pinned_refuted.

(* a full notify followed by a partial notify: the payload of the first data-change event is
   the very object the store holds, the second update assigns its list field *)
Definition c11_witness_payload (fx : bool) : list op :=
  [Init 1 2 fx no_quirks; full_upd 1 [cell3 2 1 1]; partial_upd 1 [cell3 3 7 7]].
Theorem C11_pinned_payload_refuted :
  strictly_accepted (judge minit sinit (snd (run go_grow init (c11_witness_payload false)))) = false.
Proof. vm_compute. reflexivity. Qed.
Print Assumptions C11_pinned_payload_refuted.

(* a non-persisting update on an empty store turns nil into an empty data object *)
Definition c11_witness_nil (fx : bool) : list op :=
  [Init 1 2 fx no_quirks; Snapshot; Update false false true 0 {| u_new := [cell3 2 1 1]; u_fp := None; u_fd := None |}].
Theorem C11_pinned_nil_refuted :
  strictly_accepted (judge minit sinit (snd (run go_grow init (c11_witness_nil false)))) = false.
Proof. vm_compute. reflexivity. Qed.
Print Assumptions C11_pinned_nil_refuted.

(* the same defect when the store is NOT read back in between (rb = false: no DataCopy after the
   update): the judgement waits for the next read-back; a persisted partial update, then a
   selector update without persistence, both unobserved, then DataCopy *)
Definition quiet (o : op) : op :=
  match o with Update r p _ w u => Update r p false w u | _ => o end.
Definition c11_witness_unobserved (fx : bool) : list op :=
  [Init 1 2 fx no_quirks; full_upd 0 [cell3 2 1 1; cell3 3 1 1]; Snapshot;
   quiet (sel_upd false false 0 3 [cell3 0 5 0]); Snapshot].
Theorem C11_pinned_unobserved_refuted :
  strictly_accepted (judge minit sinit (snd (run go_grow init (c11_witness_unobserved false)))) = false /\
  strictly_accepted (judge minit sinit (snd (run go_grow init (c11_witness_unobserved true)))) = true.
Proof. vm_compute. split; reflexivity. Qed.
Print Assumptions C11_pinned_unobserved_refuted.

(* the same histories on the repaired code, every step strictly accepted; the observations show
   what is shared without harm: the DataCopy result (object 2) lives in the array of the stored
   payload (object 1), the selector update returns a list in an array of its own (object 4) *)
Example C11_witnesses_repaired :
  map (fun x => map print_obs (snd x)) (snd (run go_grow init (c11_witness_selector true))) =
    [[]; [[10; 0]; [15; 1; 1; 1; 2; 3; 2; 1; 1; 3; 1; 1]; [15; 0; 2; 1; 2; 3; 2; 1; 1; 3; 1; 1]];
     [[15; 0; 3; 1; 2; 3; 2; 1; 1; 3; 1; 1]];
     [[10; 0]; [15; 1; 0; 4; 2; 3; 2; 1; 1; 3; 5; 1]; [15; 0; 5; 1; 2; 3; 2; 1; 1; 3; 1; 1]]] /\
  strictly_accepted (judge minit sinit (snd (run go_grow init (c11_witness_selector true)))) = true /\
  strictly_accepted (judge minit sinit (snd (run go_grow init (c11_witness_payload true)))) = true /\
  strictly_accepted (judge minit sinit (snd (run go_grow init (c11_witness_nil true)))) = true.
Proof. vm_compute. repeat split; reflexivity. Qed.

(* Non-vacuity: a FeatureLocal history on billConstraintsListData: full update, a partial update
   that merges, appends and sorts, an identifier-less update of all items, a delete by selector;
   the objects handed out along the way all keep their values. *)
Example C11_nonvacuous :
  let ops := [Init 1 3 true no_quirks;
              full_upd 0 [cell3 3 1 1; cell3 2 1 1];
              partial_upd 0 [cell3 4 2 2; cell3 1 9 9];
              partial_upd 0 [cell3 0 6 0];
              Update false true true 0 {| u_new := []; u_fp := None; u_fd := Some {| f_sel := Some [of_z 3]; f_elems := None |} |};
              Snapshot] in
  map (fun x => store_of (snd x)) (snd (run go_grow init ops)) =
    [[]; [Some [cell3 3 1 1; cell3 2 1 1]];
     [Some [cell3 1 9 9; cell3 2 1 1; cell3 3 1 1; cell3 4 2 2]];
     [Some [cell3 1 6 9; cell3 2 6 1; cell3 3 6 1; cell3 4 6 2]];
     [Some [cell3 1 6 9; cell3 2 6 1; cell3 4 6 2]];
     [Some [cell3 1 6 9; cell3 2 6 1; cell3 4 6 2]]] /\
  strictly_accepted (judge minit sinit (snd (run go_grow init ops))) = true.
Proof. vm_compute. split; reflexivity. Qed.
