(* C13 — Outbound message identity: unique counters and sound request de-duplication.
   Property theorems only; proofs are in Proofs/SenderProofs.v.  The model is
   Model/Sender.v (tied to spine/send.go by the correspondence harness cmd/c13),
   the property is the trace monitor Spec/SenderSpec.v (the same extracted
   monitor judges the implementation's traces). *)
From Coq Require Import Sorting.Permutation.
From Verif Require Import Base.Prelude Gen.GenConsts Model.Sender Spec.SenderSpec Proofs.SenderProofs.
From Coq Require Import Sorting.Sorted.

(* Every history: each step of the model's trace satisfies every clause of the
   monitor that the scope predicate does not excuse.  Clauses: unique counters,
   increasing counters, a request is withheld only for an identical unanswered
   request whose counter is returned (so a response re-enables sending and a
   different request is never withheld), the right datagram is written and the
   written counter returned, each of the last [notify_cache_size] notifications
   is retrievable [excused after lookup-then-notify], a retrieved datagram is
   the one sent under that counter. *)
Theorem C13_trace_accepted_partial : forall ops,
  accepted (judge minit sinit (snd (run init ops))) = true.
Proof. exact run_accepted. Qed.
Print Assumptions C13_trace_accepted_partial.

(* The full statement (nothing excused) is false of the faithful model: after
   100 notifications, looking up the first and sending one more notification
   evicts the second although it is among the last 100. *)
Definition c13_witness : list op :=
  map Notify (repeat 7%N notify_cache_size) ++ [Lookup 1; Notify 8; Lookup 2].
Theorem C13_full_refuted : exists ops, strictly_accepted (judge minit sinit (snd (run init ops))) = false.
Proof. exists c13_witness. vm_compute. reflexivity. Qed.
Print Assumptions C13_full_refuted.

(* without any lookup before a notification nothing is excused at all *)
Theorem C13_counters_unique : forall ops, NoDup (written (snd (run init ops))).
Proof. exact written_nodup. Qed.
Print Assumptions C13_counters_unique.

Theorem C13_counters_increase : forall ops, StronglySorted N.lt (written (snd (run init ops))).
Proof. exact written_increasing. Qed.
Print Assumptions C13_counters_increase.

Theorem C13_request_memory_bounded : forall ops,
  (length (reqs (fst (run init ops))) <= S request_cache_limit)%nat.
Proof. exact reqs_bounded. Qed.
Print Assumptions C13_request_memory_bounded.

(* "Under any concurrent use": overlapping calls are the operation [Burst ks]; each call takes its
   counter in one atomic step (atomic.AddUint64 in getMsgCounter), so an interleaving of the calls
   is an order of these steps.  Every such order writes the same counters and reaches the same
   state as the burst; with C13_counters_unique (whose histories contain bursts) no two datagrams
   of a connection share a counter under any interleaving.  The runner executes a burst as that
   many goroutines released together on the real Sender. *)
Theorem C13_burst_any_interleaving : forall s ks ks', Permutation ks ks' ->
  written_of (snd (step s (Burst ks))) = written (snd (run s (map Other ks'))) /\
  fst (step s (Burst ks)) = fst (run s (map Other ks')).
Proof. exact burst_any_interleaving. Qed.
Print Assumptions C13_burst_any_interleaving.

(* A repetition of an unanswered request overlapped by other calls ([DupBurst h ks]): wherever the
   repetition falls among the overlapping calls (after any prefix ks1 of any order of them) it is
   withheld with the unanswered request's counter, takes no counter and leaves the state alone; so
   the burst's counters are those of the burst without it.  The runner releases the repetition and the
   calls together on the real Sender. *)
Theorem C13_withheld_request_commutes : forall s h c ks1 ks2,
  find_hash h (reqs s) = Some c ->
  step (fst (run s (map Other ks1))) (Request h) = (fst (run s (map Other ks1)), [RetCtr c]) /\
  fst (run (fst (run s (map Other ks1))) (map Other ks2)) = fst (run s (map Other (ks1 ++ ks2))).
Proof. exact dupburst_any_position. Qed.
Print Assumptions C13_withheld_request_commutes.

Theorem C13_dupburst_is_burst_plus_withheld : forall s h ks c,
  find_hash h (reqs s) = Some c ->
  step s (Request h) = (s, [RetCtr c]) /\
  step s (DupBurst h ks) = (fst (step s (Burst ks)), RetCtr c :: snd (step s (Burst ks))).
Proof. exact dupburst_withheld. Qed.
Print Assumptions C13_dupburst_is_burst_plus_withheld.

(* A response processed while another request is inside the connection writer ([RespDuring h r], the
   reader goroutine of a fast peer): when the request is not withheld the remembered requests are
   those of "answer r, then request h" - the answered request is forgotten although the write of the
   new one was under way, so asking it again sends it again (the monitor's withheld clause). *)
Theorem C13_response_during_request : forall s h r,
  find_hash h (reqs s) = None ->
  fst (step s (RespDuring h r)) = fst (step (fst (step s (Response (Some r)))) (Request h)) /\
  snd (step s (RespDuring h r)) = snd (step (fst (step s (Response (Some r)))) (Request h)).
Proof. exact respduring_is_response_then_request. Qed.
Print Assumptions C13_response_during_request.

(* Non-vacuity: a history that withholds a duplicate, re-enables it by a response,
   and retrieves a notification, with the monitor accepting every step strictly. *)
Example C13_nonvacuous :
  let ops := [Request 3; Request 3; Response (Some 1%N); Request 3; Notify 9; Lookup 3; Other 2; Burst [4; 3; 2]%N; DupBurst 3 [2; 4]%N; RespDuring 5 2; Request 3] in
  map snd (snd (run init ops)) =
    [[Written 1 0 3; RetCtr 1]; [RetCtr 1]; []; [Written 2 0 3; RetCtr 2];
     [Written 3 1 9; RetCtr 3]; [Found 9]; [Written 4 2 0]; [Written 5 4 0; Written 6 3 0; Written 7 2 0];
     [RetCtr 2; Written 8 2 0; Written 9 4 0]; [Written 10 0 5; RetCtr 10]; [Written 11 0 3; RetCtr 11]]%N /\
  strictly_accepted (judge minit sinit (snd (run init ops))) = true.
Proof. vm_compute. split; reflexivity. Qed.
