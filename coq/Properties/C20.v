(* C20 — The use-case registry reflects exactly what the application declared.
   Property theorems only; proofs are in Proofs/UseCaseProofs.v.  The model is
   Model/UseCase.v (the REPAIRED code: the copy-modify-store cycle of the EntityLocal
   use-case operations runs under one mutex; tied to spine/entity_local.go and the
   model/*_additions.go helpers by the correspondence harness cmd/c20), the property is
   the trace monitor Spec/UseCaseSpec.v (the same extracted monitor judges the
   implementation's traces).  Schedules are part of the operation list: every mutating
   operation is Begin t (lock, copy) / End t (modify, store, unlock), so "forall ops" is
   "for all histories and all interleavings". *)
From Verif Require Import Base.Prelude Model.UseCase Spec.UseCaseSpec Proofs.UseCaseProofs.

(* Every history, every schedule: after every completed operation the function data
   denotes the specification map (REGISTRY) and the entries of the other entities are
   untouched (ISOLATION); HasUseCaseSupport answers "the key is in the map" (HAS); the
   reply to a peer's read denotes the map (READ).  Nothing is excused. *)
Theorem C20_trace_accepted : forall ops,
  accepted (judge minit sinit (snd (run init ops))) = true.
Proof. exact run_accepted. Qed.
Print Assumptions C20_trace_accepted.

(* supported  <->  added and not removed since; the stored values are the last given
   (the specification map keeps the support record last given for the key) *)
Theorem C20_registry : forall ops e a n,
  info_has e a n (data_list (store (fst (run init ops)))) = true <->
  reg_lookup (e, a, n) (m_reg (mrun minit (snd (run init ops)))) <> None.
Proof. exact has_iff_spec. Qed.
Print Assumptions C20_registry.

Theorem C20_registry_values : forall ops k,
  listed (data_list (store (fst (run init ops)))) k = reg_lookup k (m_reg (mrun minit (snd (run init ops)))).
Proof. exact registry_is_spec. Qed.
Print Assumptions C20_registry_values.

(* an operation on one entity leaves every key of every other entity as it was *)
Theorem C20_isolation : forall d u k,
  key_ent k <> ent_of u -> listed (data_list (apply_uop d u)) k = listed (data_list d) k.
Proof. exact apply_isolated. Qed.
Print Assumptions C20_isolation.

(* no lost update: for all schedules the registry is the sequential specification of the
   completed operations in their completion order (which contains every completed operation) *)
Theorem C20_sched_no_lost_update : forall ops k,
  listed (data_list (store (fst (run init ops)))) k =
  reg_lookup k (seq_spec (m_log (mrun minit (snd (run init ops))))).
Proof. exact no_lost_update. Qed.
Print Assumptions C20_sched_no_lost_update.

(* mutual exclusion: the snapshot a thread works on is the current data *)
Theorem C20_snapshot_current : forall ops t u d,
  hold (fst (run init ops)) = Some (t, u, d) -> d = store (fst (run init ops)).
Proof. exact snapshot_current. Qed.
Print Assumptions C20_snapshot_current.

(* The pinned code (no mutex around the cycle) loses updates: two goroutines adding a use
   case to different entities, both copying before either stores. *)
Definition sup1 : support := {| s_name := 1; s_ver := 1; s_sub := 1; s_avail := true; s_scen := [1; 2]%N |}.
Definition c20_witness : list op :=
  [Begin 1 (UAdd 1 1 sup1); Begin 2 (UAdd 2 1 sup1); End 1; End 2].
Theorem C20_pinned_lost_update_refuted :
  exists ops, strictly_accepted (judge minit sinit (snd (run_pinned pinit ops))) = false.
Proof. exists c20_witness. vm_compute. reflexivity. Qed.
Print Assumptions C20_pinned_lost_update_refuted.

(* Two operations released together and left to run freely ([Par2 u1 u2], no parking at the hook):
   with the mutex one cycle follows the other, in an order the scheduler chooses.  For operations on
   different entities both serialisations give the same specification map and list every key with
   the same value, in every reachable state - so the model's composition in the order given and the
   monitor's map stand for both, and the runner compares the data up to the order of its entries. *)
Theorem C20_free_running_spec_commutes : forall r u1 u2 k, ent_of u1 <> ent_of u2 ->
  reg_lookup k (spec_apply (spec_apply r u1) u2) = reg_lookup k (spec_apply (spec_apply r u2) u1).
Proof. exact spec_commutes. Qed.
Print Assumptions C20_free_running_spec_commutes.

Theorem C20_free_running_data_commutes : forall ops u1 u2 k, ent_of u1 <> ent_of u2 ->
  let l := data_list (store (fst (run init ops))) in
  listed (apply_list (apply_list l u1) u2) k = listed (apply_list (apply_list l u2) u1) k.
Proof. exact par2_commutes_reachable. Qed.
Print Assumptions C20_free_running_data_commutes.

(* without the mutex the freely running pair loses an update: the monitor rejects the pinned trace *)
Theorem C20_pinned_free_running_refuted :
  strictly_accepted (judge minit sinit (snd (run_pinned pinit [Par2 (UAdd 1 1 sup1) (UAdd 2 1 sup1)]))) = false.
Proof. vm_compute. reflexivity. Qed.
Print Assumptions C20_pinned_free_running_refuted.

Example C20_free_running_repaired :
  map snd (snd (run init [Par2 (UAdd 1 1 sup1) (UAdd 2 1 sup1); Read])) =
    [[Done; RInfo 1 1; RSup sup1; RInfo 2 1; RSup sup1; REnd]; [RInfo 1 1; RSup sup1; RInfo 2 1; RSup sup1; REnd]]%N /\
  strictly_accepted (judge minit sinit (snd (run init [Par2 (UAdd 1 1 sup1) (UAdd 2 1 sup1); Read]))) = true.
Proof. vm_compute. split; reflexivity. Qed.

(* the same schedule on the repaired code: the second Begin blocks until the first End *)
Example C20_witness_repaired :
  map snd (snd (run init c20_witness)) =
    [[Parked]; [Blocked];
     [Done; Acquired 2; RInfo 1 1; RSup sup1; REnd];
     [Done; RInfo 1 1; RSup sup1; RInfo 2 1; RSup sup1; REnd]]%N /\
  strictly_accepted (judge minit sinit (snd (run init c20_witness))) = true.
Proof. vm_compute. split; reflexivity. Qed.

(* Non-vacuity: re-add overwrites, set-availability, removal of an unknown name, removal of
   an actor's last use case drops the entry, RemoveEntity clears one entity only. *)
Example C20_nonvacuous :
  let s2 := {| s_name := 1; s_ver := 2; s_sub := 1; s_avail := false; s_scen := [3]%N |} in
  let ops := [Begin 0 (UAdd 1 1 sup1); End 0; Begin 0 (UAdd 2 2 sup1); End 0;
              Begin 0 (UAdd 1 1 s2); End 0; Has 1 1 1; Has 1 2 1;
              Begin 0 (USetAvail 1 1 1 true); End 0;
              Begin 0 (URemove 1 1 7); End 0;
              Begin 0 (URemove 1 1 1); End 0; Has 1 1 1;
              Begin 0 (URemoveEntity 2); End 0; Read] in
  map snd (snd (run init ops)) =
    [[Parked]; [Done; RInfo 1 1; RSup sup1; REnd];
     [Parked]; [Done; RInfo 1 1; RSup sup1; RInfo 2 2; RSup sup1; REnd];
     [Parked]; [Done; RInfo 1 1; RSup s2; RInfo 2 2; RSup sup1; REnd];
     [HasR true]; [HasR false];
     [Parked]; [Done; RInfo 1 1; RSup (with_avail s2 true); RInfo 2 2; RSup sup1; REnd];
     [Parked]; [Done; RInfo 1 1; RSup (with_avail s2 true); RInfo 2 2; RSup sup1; REnd];
     [Parked]; [Done; RInfo 2 2; RSup sup1; REnd]; [HasR false];
     [Parked]; [Done; REnd]; [REnd]]%N /\
  strictly_accepted (judge minit sinit (snd (run init ops))) = true.
Proof. vm_compute. split; reflexivity. Qed.
