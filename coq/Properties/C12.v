(* C12 — Write approval: unanimous, timely, exactly one outcome per write.
   Property theorems only; proofs are in Proofs/ApprovalProofs.v and Proofs/ApprovalOutcome.v.
   The model is Model/Approval.v ([step]: the REPAIRED FeatureLocal — tally map created only
   when missing, timer.Stop() honoured, CleanWriteApprovalCaches stops the timers, an expired
   timer answers only for a still pending write; [step_pinned]: the code as pinned), tied to
   spine/feature_local.go by the correspondence harness cmd/c12; the property is the trace
   monitor Spec/ApprovalSpec.v (the same extracted monitor judges the implementation's traces).

   The schedule is part of the operation list: Arrive / Lookup (first critical section of
   ApproveOrDenyWrite) / Commit (the rest of it) / Expire (the timeout elapses, Stop() turns
   false) / Fire (the timer body runs) / Clean (RemoveRemoteDevice), so "forall ops" is "for
   all numbers of callbacks, all sets of pending writes from any peers, all verdicts and ALL
   interleavings of verdicts, timeouts and connection removals". *)
From Verif Require Import Base.Prelude Model.Approval Spec.ApprovalSpec.
From Verif Require Import Proofs.ApprovalLists Proofs.ApprovalProofs Proofs.ApprovalOutcome.

(* Every history, every schedule: every step of the repaired model satisfies every clause of
   the monitor — presented once to every callback; never a second outcome; applied only when
   every callback delivered an approval; an approval / denial completing before the timeout
   takes effect; the timeout yields the error result unless the write has its outcome; nothing
   for a removed connection; the data is the write applied last.  Nothing is excused. *)
Theorem C12_trace_accepted : forall ops,
  accepted (judge minit sinit (snd (run init ops))) = true.
Proof. exact run_accepted. Qed.
Print Assumptions C12_trace_accepted.

Theorem C12_trace_strictly_accepted : forall ops,
  strictly_accepted (judge minit sinit (snd (run init ops))) = true.
Proof. exact run_strictly_accepted. Qed.
Print Assumptions C12_trace_strictly_accepted.

(* Exactly one outcome, part 1 (for all schedules): the number of outcomes of a write — applied,
   or an error result — in the trace is 0 or 1, and it is 1 exactly when the monitor has
   recorded the outcome. *)
Theorem C12_at_most_one_outcome : forall ops w,
  (outcomes w (snd (run init ops)) <= 1)%nat.
Proof. exact run_at_most_one. Qed.
Print Assumptions C12_at_most_one_outcome.

(* ... and the same for ANY trace the monitor accepts, in particular the implementation's:
   the oracle used by the harness enforces "at most one outcome" by itself. *)
Theorem C12_monitor_enforces_one_outcome : forall tr,
  strictly_accepted (judge minit sinit tr) = true ->
  forall w, (outcomes w tr <= 1)%nat.
Proof. exact accepted_at_most_one. Qed.
Print Assumptions C12_monitor_enforces_one_outcome.

(* Exactly one outcome, part 2: once the timer of a write of a connected peer is settled
   (stopped, or its body has run) the write has exactly one outcome ... *)
Theorem C12_settled_exactly_one : forall ops w,
  arrived w (dz (fst (run init ops))) = true ->
  gone (fst w) (dz (fst (run init ops))) = false ->
  settled (fst (run init ops)) w = true ->
  outcomes w (snd (run init ops)) = 1%nat.
Proof. exact run_settled_one. Qed.
Print Assumptions C12_settled_exactly_one.

(* ... part 3: and from every reachable state the timeout settles it: after [Expire; Fire]
   the timer of an arrived write is no longer live (so no write stays without outcome for ever). *)
Theorem C12_timeout_settles : forall ops p c,
  arrived (p, c) (dz (fst (run init ops))) = true ->
  settled (fst (run init (ops ++ [Expire p c; Fire p c]))) (p, c) = true.
Proof. exact run_timeout_settles. Qed.
Print Assumptions C12_timeout_settles.

(* The approval clause of C10: once a peer's connection has been removed nothing is addressed
   to it any more — no result, no application of its writes, no presentation, no pending entry —
   whatever is scheduled afterwards (late verdicts, expired timers, ...). *)
Theorem C12_no_outcome_after_cleanup : forall ops1 ops2 p,
  gone p (dz (fst (run init ops1))) = true ->
  forall o, In o (flat_map snd (snd (run (fst (run init ops1)) ops2))) -> obs_peer o <> Some p.
Proof. exact run_quiet_after_cleanup. Qed.
Print Assumptions C12_no_outcome_after_cleanup.

(* ... and its bookkeeping is gone: a pending entry always belongs to a connected peer, to a
   write that has no outcome yet, and its timer is still running or expiring. *)
Theorem C12_pending_is_live : forall ops w,
  wmem w (pending (fst (run init ops))) = true ->
  gone (fst w) (dz (fst (run init ops))) = false /\
  outcomes w (snd (run init ops)) = 0%nat /\
  (wassoc w (timers (fst (run init ops))) = Some TRun \/ wassoc w (timers (fst (run init ops))) = Some TExp).
Proof. exact run_pending_live. Qed.
Print Assumptions C12_pending_is_live.

(* Unanimity, explicit: a write is applied only if every registered callback called
   ApproveOrDenyWrite with an approval for it ... *)
Theorem C12_applied_only_unanimous : forall ops p c,
  d_ncb (dz (fst (run init ops))) <> 0%nat ->
  In (Applied p c) (flat_map snd (snd (run init ops))) ->
  forall cb, (cb < d_ncb (dz (fst (run init ops))))%nat -> In (Lookup p c (N.of_nat cb) true) ops.
Proof. exact run_applied_unanimous. Qed.
Print Assumptions C12_applied_only_unanimous.

(* ... and the same on ANY trace the monitor accepts (the implementation's included). *)
Theorem C12_monitor_enforces_unanimity : forall tr,
  strictly_accepted (judge minit sinit tr) = true ->
  forall p c, In (Applied p c) (flat_map snd tr) ->
  d_ncb (m_d (mrun minit tr)) <> 0%nat ->
  forall cb, (cb < d_ncb (m_d (mrun minit tr)))%nat -> In (Lookup p c (N.of_nat cb) true) (map fst tr).
Proof. intros tr H p c Hin. exact (accepted_applied_unanimous tr H p c Hin). Qed.
Print Assumptions C12_monitor_enforces_unanimity.

(* The data is the write applied last: it changes only with an Applied observation. *)
Theorem C12_data_is_last_applied : forall ops,
  data (fst (run init ops)) = last_applied (snd (run init ops)).
Proof. exact run_data_last_applied. Qed.
Print Assumptions C12_data_is_last_applied.

(* ---- the pinned code is refuted: three defects, each with its schedule ---- *)

(* (1) two callbacks, writes 10 and 11 of one peer pending together, approvals 10a 11a 10b 11b:
   writeApprovalReceived[ski] is re-created whenever the counter has no entry, the tallies wipe
   each other, both unanimously approved writes time out. *)
Definition c12_witness_tally : list op :=
  [AddCb; AddCb; Arrive 0 10 true 1; Arrive 0 11 true 2;
   Lookup 0 10 0 true; Commit 0 10 0; Lookup 0 11 0 true; Commit 0 11 0;
   Lookup 0 10 1 true; Commit 0 10 1; Lookup 0 11 1 true; Commit 0 11 1;
   Expire 0 10; Fire 0 10; Expire 0 11; Fire 0 11; Probe].
Theorem C12_pinned_tally_reset_refuted :
  exists ops, strictly_accepted (judge minit sinit (snd (run_pinned init ops))) = false.
Proof. exists c12_witness_tally. vm_compute. reflexivity. Qed.
Print Assumptions C12_pinned_tally_reset_refuted.

(* (2) the verdict is looked up, the timer fires and sends the error result, the verdict commits:
   timer.Stop()'s result is ignored, the write is applied and acknowledged — two outcomes. *)
Definition c12_witness_late : list op :=
  [AddCb; Arrive 0 10 true 1; Lookup 0 10 0 true; Expire 0 10; Fire 0 10; Commit 0 10 0; Probe].
Theorem C12_pinned_two_outcomes_refuted :
  exists ops, map fst (judge minit sinit (snd (run_pinned init ops))) = [[]; []; []; []; []; [CL_TWICE]; []].
Proof. exists c12_witness_late. vm_compute. reflexivity. Qed.
Print Assumptions C12_pinned_two_outcomes_refuted.

(* (3) the connection is removed while a write is pending: CleanWriteApprovalCaches forgets the
   timer without stopping it; it fires and writes an error result to the removed connection. *)
Definition c12_witness_cleanup : list op :=
  [AddCb; Arrive 0 10 true 1; Clean 0; Expire 0 10; Fire 0 10].
Theorem C12_pinned_result_after_cleanup_refuted :
  exists ops, map fst (judge minit sinit (snd (run_pinned init ops))) = [[]; []; []; []; [CL_CLEANUP]].
Proof. exists c12_witness_cleanup. vm_compute. reflexivity. Qed.
Print Assumptions C12_pinned_result_after_cleanup_refuted.

(* Each of the four repairs is needed: with any single one left out a schedule is rejected
   (tally reset; late verdict after the timeout, two racing denials; a verdict looked up before
   and committed after the removal of the connection stops the forgotten timer and applies the
   write; a timer that expired before the removal answers after it). *)
Definition all_but (k : nat) : fixes :=
  {| f_tally := negb (Nat.eqb k 0); f_stop := negb (Nat.eqb k 1); f_clean := negb (Nat.eqb k 2); f_body := negb (Nat.eqb k 3) |}.
Definition rejected (f : fixes) (ops : list op) : bool :=
  negb (strictly_accepted (judge minit sinit (snd (run_gen f init ops)))).
Theorem C12_every_repair_needed :
  rejected (all_but 0) c12_witness_tally = true /\
  rejected (all_but 1) c12_witness_late = true /\
  rejected (all_but 1) [AddCb; AddCb; Arrive 0 10 true 0; Lookup 0 10 0 false; Lookup 0 10 1 false; Commit 0 10 0; Commit 0 10 1] = true /\
  rejected (all_but 2) [AddCb; Arrive 0 10 true 0; Lookup 0 10 0 true; Clean 0; Commit 0 10 0] = true /\
  rejected (all_but 3) [AddCb; Arrive 0 10 true 1; Expire 0 10; Clean 0; Fire 0 10] = true.
Proof. vm_compute. repeat split; reflexivity. Qed.
Print Assumptions C12_every_repair_needed.

(* the same schedules on the repaired code *)
Example C12_witnesses_repaired :
  map snd (snd (run init c12_witness_tally)) =
    [[]; []; [Presented 0 0 10; Presented 1 0 10]; [Presented 0 0 11; Presented 1 0 11];
     [Parked]; [Returned]; [Parked]; [Returned];
     [Parked]; [Result 0 10 0; Applied 0 10; Returned]; [Parked]; [Result 0 11 0; Applied 0 11; Returned];
     [NoTimer]; [Skipped]; [NoTimer]; [Skipped]; [DataIs 0 11]]%N /\
  map snd (snd (run init c12_witness_late)) =
    [[]; [Presented 0 0 10]; [Parked]; [TimerFired]; [Result 0 10 1]; [Returned]; [DataNone]]%N /\
  map snd (snd (run init c12_witness_cleanup)) =
    [[]; [Presented 0 0 10]; [PendingLeft 0 0]; [NoTimer]; [Skipped]]%N.
Proof. vm_compute. repeat split; reflexivity. Qed.

(* Non-vacuity: three callbacks, three writes of two peers pending together; write (0,1) is
   approved by all (applied at the last approval, acknowledged), write (1,1) gets one denial
   (error 7, later approvals have no effect), write (0,2) gets two approvals and times out
   (error 1; the third approval arrives after the timeout and has no effect); the removed peer 1
   is silent afterwards.  The monitor accepts every step strictly. *)
Example C12_nonvacuous :
  let ops := [AddCb; AddCb; AddCb; Arrive 0 1 true 2; Arrive 1 1 false 3; Arrive 0 2 true 1;
              Lookup 0 1 2 true; Lookup 1 1 0 true; Lookup 0 2 1 true; Commit 0 2 1; Commit 0 1 2;
              Lookup 0 1 0 true; Commit 1 1 0; Commit 0 1 0;
              Lookup 1 1 1 false; Lookup 0 1 1 true; Commit 0 1 1; Commit 1 1 1;
              Lookup 1 1 2 true; Commit 1 1 2; Lookup 0 2 0 true; Commit 0 2 0;
              Expire 0 2; Fire 0 2; Lookup 0 2 2 true; Commit 0 2 2;
              Clean 1; Expire 0 1; Fire 0 1; Expire 1 1; Fire 1 1; Probe] in
  map snd (snd (run init ops)) =
    [[]; []; []; [Presented 0 0 1; Presented 1 0 1; Presented 2 0 1];
     [Presented 0 1 1; Presented 1 1 1; Presented 2 1 1]; [Presented 0 0 2; Presented 1 0 2; Presented 2 0 2];
     [Parked]; [Parked]; [Parked]; [Returned]; [Returned];
     [Parked]; [Returned]; [Returned];
     [Parked]; [Parked]; [Result 0 1 0; Applied 0 1; Returned]; [Result 1 1 7; Returned];
     [Returned]; [Skipped]; [Parked]; [Returned];
     [TimerFired]; [Result 0 2 1]; [Returned]; [Skipped];
     [PendingLeft 1 0]; [NoTimer]; [Skipped]; [NoTimer]; [Skipped];
     [TallyEntry 0 2 2; DataIs 0 1]]%N /\
  strictly_accepted (judge minit sinit (snd (run init ops))) = true.
Proof. vm_compute. split; reflexivity. Qed.

(* A call into the stack that never returns (observation [Stuck], produced only by the watchdog of
   the runner, never by the model) is rejected by the monitor whatever the operation: a verdict
   whose ApproveOrDenyWrite blocks for ever leaves its write — and every write whose verdicts
   queue behind it — without outcome. *)
Example C12_stuck_call_rejected :
  map fst (judge minit sinit [(AddCb, []); (Arrive 0 1 true 0, [Presented 0 0 1]);
                              (Lookup 0 1 0 true, [Parked]); (Commit 0 1 0, [Stuck 3])]) =
  [[]; []; []; [CL_STUCK; CL_SHAPE]].
Proof. vm_compute. reflexivity. Qed.

(* Likewise a call into the stack that panics (observation [Panicked], produced only by the
   runner's recover): the message handling died, the write it carried has no outcome. *)
Example C12_panicking_call_rejected :
  map fst (judge minit sinit [(AddCb, []); (Arrive 0 1 true 0, [Presented 0 0 1]); (Clean 0, [PendingLeft 0 0]);
                              (Arrive 4 2 true 0, [Panicked 1])]) =
  [[]; []; []; [CL_PANIC; CL_PRESENT]].
Proof. vm_compute. reflexivity. Qed.
