(* C17 — Concurrent use is free of data races and deadlocks.
   Property theorems only; the abstract lock machine is Model/LockOrder.v, the proofs are in
   Proofs/LockOrderProofs.v, the tables come from the static lock analysis of the current
   source (Gen/GenLocks.v, regenerated on every run by harness/cmd/gen/locks.go).

   What is proved: two general theorems about the lock machine (all thread counts, all
   schedules) and their instantiation with the generated tables, the discipline premises
   being discharged by computation on the tables.  What ties a real execution to the
   machine - that every nested acquisition is an edge of [edges] ([covered_by]) and that
   every access is an instance of a row of [accesses] made under the locks the row lists
   ([conforms]) - is the static analysis and is an assumption here (level "other"); the
   -race workload of the check searches for a concrete execution that falsifies it. *)
From Verif Require Import Base.Prelude Gen.GenLocks Model.LockOrder Proofs.LockOrderProofs.
From Coq Require Import String.

Definition T : tables := mkTables GenLocks.classes GenLocks.fields GenLocks.accesses GenLocks.excused_pairs.
Definition rank : cls -> nat := rank_of GenLocks.rank_table.

(* ---------------- the two general theorems ---------------- *)

(* (1) If every nested acquisition respects a strict order on lock classes (so no thread
   re-acquires a class it holds), no reachable state contains a circular wait - including
   the writer-preference waits of RWMutex. *)
Theorem C17_lock_order_implies_no_circular_wait :
  forall (rk : cls -> nat) tr, valid tr -> disciplined rk tr -> forall n, ~ circular_wait (st_at tr n).
Proof. exact no_circular_wait. Qed.
Print Assumptions C17_lock_order_implies_no_circular_wait.

(* ... hence from every waiting thread the waits-for chain ends in a thread that nobody
   blocks: it is running, or it waits for a lock that can be granted now *)
Theorem C17_lock_order_implies_some_thread_can_move :
  forall (rk : cls -> nat) tr B, (forall c, (rk c <= B)%nat) -> valid tr -> disciplined rk tr ->
  forall n t, is_waiting (st_at tr n) t ->
  exists t', wait_path0 (st_at tr n) t t' /\ blockers (st_at tr n) t' = [] /\
             (forall l m, In (t', l, m) (waiting (st_at tr n)) -> enabled (st_at tr n) (t', Acq l m)).
Proof.
  intros rk tr B HB Hv Hd n t Hw.
  destruct (some_thread_can_move rk tr B HB Hv Hd n t Hw) as (t' & Hp & Hb).
  exists t'. split; [exact Hp | split; [exact Hb |]].
  intros l m Hin.
  exact (unblocked_enabled rk _ _ _ _ (disciplined_below_wanted rk tr Hv Hd n) Hin Hb).
Qed.
Print Assumptions C17_lock_order_implies_some_thread_can_move.

(* (2) If every conflicting pair of accesses is made under a common lock held in conflicting
   modes, or one of the two is made before the object is published, then any two conflicting
   accesses of any execution are ordered by a release/acquire (or publish/obtain) chain:
   there is no data race in the model's sense.  (Two atomic accesses never conflict.) *)
Theorem C17_lockset_implies_happens_before :
  forall tr, valid tr -> pub_protocol tr ->
  (forall i j, conflicting tr i j -> protected tr i j) ->
  forall i j, conflicting tr i j -> hb tr i j.
Proof. intros tr Hv Hp Hall i j Hc. apply protected_ordered; auto. Qed.
Print Assumptions C17_lockset_implies_happens_before.

(* ---------------- instantiation with the generated tables ---------------- *)

(* the translator met no code shape it cannot analyse (otherwise the tables are not an
   over-approximation and nothing below may be relied on) *)
Theorem C17_analysis_supported : GenLocks.unsupported = [].
Proof. reflexivity. Qed.

(* no lock-order edge is exempted on this tree; an exemption would have to come with its own
   instance-level order and a restated theorem *)
Theorem C17_no_exempt_edges : GenLocks.exempt_edges = [].
Proof. reflexivity. Qed.

(* the rank certificate emitted by the translator is checked here: every nested acquisition
   of the table goes to a strictly higher rank (no cycle, no self edge) *)
Theorem C17_lock_order_certificate : edges_ok GenLocks.rank_table GenLocks.edges = true.
Proof. vm_compute. reflexivity. Qed.

Theorem C17_no_deadlock :
  forall tr, valid tr -> covered_by GenLocks.edges tr -> forall n, ~ circular_wait (st_at tr n).
Proof.
  intros tr Hv Hc. apply (no_circular_wait rank); [exact Hv |].
  exact (edges_ok_disciplined _ _ _ C17_lock_order_certificate Hc).
Qed.
Print Assumptions C17_no_deadlock.

Theorem C17_some_thread_can_move :
  forall tr, valid tr -> covered_by GenLocks.edges tr ->
  forall n t, is_waiting (st_at tr n) t ->
  exists t', wait_path0 (st_at tr n) t t' /\ blockers (st_at tr n) t' = [].
Proof.
  intros tr Hv Hc. apply (some_thread_can_move rank tr (rank_bound GenLocks.rank_table)).
  - intros c. apply rank_of_bound.
  - exact Hv.
  - exact (edges_ok_disciplined _ _ _ C17_lock_order_certificate Hc).
Qed.
Print Assumptions C17_some_thread_can_move.

(* the lockset table: every pair of rows that can conflict has a common usable guard held in
   conflicting modes, or one row is before publication - except the pairs recorded in
   KNOWN_FINDINGS.txt (and props/C17.exemptions.json), listed in GenLocks.excused_pairs *)
Theorem C17_lockset_table_partial : table_ok T = true.
Proof. vm_compute. reflexivity. Qed.

Theorem C17_no_race_partial :
  forall kind tr, valid tr -> pub_protocol tr -> conforms T kind tr ->
  forall i j, conflicting tr i j -> ~ excused_at T tr i j -> hb tr i j.
Proof. intros kind tr. apply table_race_free. exact C17_lockset_table_partial. Qed.
Print Assumptions C17_no_race_partial.

(* the full statement (nothing excused) is false of this tree: the recorded findings are
   real inconsistencies of the table, e.g. DeviceRemote.UpdateDevice writes Device.address
   under no lock while Device.Address reads it *)
Theorem C17_full_refuted : table_strictly_ok T = false.
Proof. vm_compute. reflexivity. Qed.
Print Assumptions C17_full_refuted.

(* ---------------- non-vacuity ---------------- *)

(* a disciplined execution: two threads nest A(1) then B(2) on object 7; it is valid, and the
   second thread is blocked exactly by the first *)
Definition A : lock := (7, 1)%N.
Definition B : lock := (7, 2)%N.
Definition ex_ok : list event :=
  [(1, Req A MW); (1, Acq A MW); (2, Req A MW); (1, Req B MW); (1, Acq B MW);
   (1, Acc (7, 5) true false false 0); (1, Rel B MW); (1, Rel A MW); (2, Acq A MW);
   (2, Acc (7, 5) false false false 0); (2, Rel A MW)]%N.
Example C17_nonvacuous_valid :
  validb ex_ok = true /\ blockers (st_at ex_ok 5) 2%N = [1%N] /\ blockers (st_at ex_ok 5) 1%N = [].
Proof. vm_compute. repeat split; reflexivity. Qed.

(* the write at index 5 and the read at index 9 are ordered (theorem 2 applies: both under A) *)
Example C17_nonvacuous_ordered : hb ex_ok 5 9.
Proof.
  eapply hb_trans; [eapply hb_po with (i := 5%nat) (j := 7%nat) (t := 1%N); [lia | reflexivity | reflexivity] |].
  eapply hb_trans; [eapply hb_lock with (i := 7%nat) (j := 8%nat); [lia | reflexivity | reflexivity | left; reflexivity] |].
  eapply hb_po with (i := 8%nat) (j := 9%nat) (t := 2%N); [lia | reflexivity | reflexivity].
Qed.

(* an undisciplined execution (inverted nesting) is a valid execution of the machine and ends
   in a circular wait: the machine can deadlock, the theorem is not vacuous *)
Definition ex_deadlock : list event :=
  [(1, Req A MW); (1, Acq A MW); (2, Req B MW); (2, Acq B MW); (1, Req B MW); (2, Req A MW)]%N.
Example C17_nonvacuous_deadlock :
  valid ex_deadlock /\ circular_wait (run ex_deadlock).
Proof.
  split.
  - apply validb_sound. vm_compute. reflexivity.
  - exists 1%N. apply wp_step with (t1 := 2%N); [| apply wp_one]; vm_compute; left; reflexivity.
Qed.

(* a reader that waits behind a pending writer (RWMutex writer preference) is part of the
   waits-for relation: thread 3 is blocked by the waiting writer 2 *)
Example C17_nonvacuous_writer_preference :
  let tr := [(1, Req A MR); (1, Acq A MR); (2, Req A MW); (3, Req A MR)]%N in
  validb tr = true /\ blockers (run tr) 3%N = [2%N] /\ blockers (run tr) 2%N = [1%N].
Proof. vm_compute. repeat split; reflexivity. Qed.
