(* C02 — Replicated data follows the restricted-function-exchange rules.
   Property theorems only; proofs are in Proofs/UpdateBasics.v, UpdateRefine.v,
   UpdateStep.v, UpdateRun.v.  The model is Model/Update.v (the generic update engine
   model/update.go + collection_operations.go, with
   patches/fix-C02-selector-update-all-matches.diff) under Model/FunctionStore.v
   (spine/function_data.go with patches/fix-C11-functiondata-update-on-copy.diff, and the
   per-type UpdateList wiring with patches/fix-C02-identification-updatelist-returns-data.diff),
   tied to the code by the correspondence harness cmd/c02 for every registered list type;
   the property is the monitor Spec/UpdateSpec.v (the same extracted monitor judges the
   implementation's traces); the schemas and the UpdateList wiring are regenerated from
   /repo into Gen/GenSchemas.v, Gen/GenUpdateWiring.v, Gen/GenSchemaNames.v on every run. *)
From Coq Require Import String List ZArith NArith Bool Sorting.Sorted.
From Verif Require Import Base.Prelude Model.Schema Model.Update Model.FunctionStore Spec.UpdateSpec.
From Verif Require Import Proofs.UpdateBasics Proofs.UpdateRefine Proofs.UpdateStep Proofs.UpdateRun Proofs.UpdateHist.
From Verif Require Import Gen.GenSchemas Gen.GenUpdateWiring Gen.GenSchemaNames.

(* Every history of Init / Update (any API family: local, reply, notify; full, partial,
   selector, delete shapes and their combinations; persisted or not; failing, panicking) /
   Snapshot: at every step the data the store returns is the fold of the rules over the
   applied updates (same_map), holds one item per identifier, is ordered by numeric
   identifier, and re-applying the previous simple update changed nothing — for every
   clause the scope does not excuse.  An update that is not applied (rejected with an
   error, panicking, not persisted — local, reply / notify, or a refused remote write) is
   skipped by the fold: the data must be exactly what it was.  An accepted remote write is
   judged by C04; here the fold re-starts from the data it leaves.  Excused: everything after
   an ill-formed update list or write until the next well-formed full update, and every type
   whose schema is not well-formed (none with an identifier on this tree). *)
Theorem C02_trace_accepted_partial : forall ops,
  accepted (judge minit sinit (snd (run init ops))) = true.
Proof. exact run_accepted. Qed.
Print Assumptions C02_trace_accepted_partial.

(* ---- the unscoped statement is false of the faithful model, as it is of the code ---- *)

Definition it3 (a b c : option N) : item := [a; b; c].
Definition full_upd (l : list item) : op := Update false true false {| u_new := l; u_fp := None; u_fd := None |}.
Definition part_upd (l : list item) : op :=
  Update false true false {| u_new := l; u_fp := Some {| f_sel := None; f_elems := None |}; u_fd := None |}.

Definition violates (c : Z) (ops : list op) : bool :=
  existsb (fun ve => memZ c (fst ve)) (judge minit sinit (snd (run init ops))).

(* type 1 = billConstraintsListData: three numeric fields, identifier = field 0 *)
Definition c02_witness_verbatim : list op :=
  [Init 1 false; full_upd [it3 (Some 3) (Some 0) None; it3 (Some 1) None None; it3 (Some 2) None None; it3 (Some 1) (Some 7) None]]%N.
Definition c02_witness_repeated : list op :=
  [Init 1 false; full_upd [it3 (Some 1) (Some 0) None];
   part_upd [it3 (Some 5) (Some 1) None; it3 (Some 5) None (Some 2)];
   part_upd [it3 (Some 5) (Some 1) None; it3 (Some 5) None (Some 2)]]%N.

Theorem C02_full_refuted : exists ops, strictly_accepted (judge minit sinit (snd (run init ops))) = false.
Proof. exists c02_witness_verbatim. vm_compute. reflexivity. Qed.
Print Assumptions C02_full_refuted.

(* a full update is stored verbatim: [3,1,2,1] keeps both items 1 and stays unordered *)
Theorem C02_unique_refuted : exists ops, violates CL_UNIQUE ops = true.
Proof. exists c02_witness_verbatim. vm_compute. reflexivity. Qed.
Theorem C02_order_refuted : exists ops, violates CL_ORDER ops = true.
Proof. exists c02_witness_verbatim. vm_compute. reflexivity. Qed.
(* a partial update repeating a new identifier appends both copies; the store is then not
   the fold of the rules, and the second application rewrites both copies *)
Theorem C02_fold_refuted : exists ops, violates CL_FOLD ops = true.
Proof. exists c02_witness_repeated. vm_compute. reflexivity. Qed.
Theorem C02_idempotence_refuted : exists ops, violates CL_IDEM ops = true.
Proof. exists c02_witness_repeated. vm_compute. reflexivity. Qed.
Print Assumptions C02_idempotence_refuted.

(* ---- the explicit statements a reader expects ---- *)

(* One update.  For a well-formed schema, a store that is the abstract store [m] read as
   a list (complete, pairwise distinct, ordered identifiers) and a well-formed local
   update: the engine reports success and the resulting list is again such a store, for
   the abstract store given by the rules (delete filter, then selector / identifier-less /
   merge-by-identifier). *)
Theorem C02_refines_rules : forall sch l m u d ok,
  wf_schema sch = true -> Inv sch l m -> wf_update sch false u = true ->
  update_list sch false l (u_new u) (u_fp u) (u_fd u) = Ok (d, ok) ->
  ok = true /\ Inv sch d (spec_apply sch false u m).
Proof. intros sch l m u d ok Hwf. exact (update_refines sch Hwf l m u d ok). Qed.
Print Assumptions C02_refines_rules.

(* Histories: the fold of the engine over any list of well-formed updates, from the empty
   store, is the fold of the rules. *)
Fixpoint run_updates (sch : schema) (l : list item) (us : list upd) : option (list item) :=
  match us with
  | [] => Some l
  | u :: r => match update_list sch false l (u_new u) (u_fp u) (u_fd u) with
              | Ok (d, _) => run_updates sch d r
              | Panic => None
              end
  end.

Definition fold_spec (sch : schema) (us : list upd) (m : amap) : amap :=
  fold_left (fun m u => spec_apply sch false u m) us m.

Lemma run_updates_fold sch (Hwf : wf_schema sch = true) : forall us l m d,
  Inv sch l m -> Forall (fun u => wf_update sch false u = true) us ->
  run_updates sch l us = Some d -> Inv sch d (fold_spec sch us m).
Proof.
  induction us as [|u r IH]; intros l m d HI Hus H.
  - cbn in H. inversion H. subst. exact HI.
  - inversion Hus as [|? ? Hu Hr]. subst. cbn [run_updates] in H.
    destruct (update_list sch false l (u_new u) (u_fp u) (u_fd u)) as [[d0 ok]|] eqn:E; [|discriminate].
    destruct (update_refines sch Hwf l m u d0 ok HI Hu E) as [_ HI0].
    exact (IH d0 _ d HI0 Hr H).
Qed.

Theorem C02_fold : forall sch us d,
  wf_schema sch = true -> Forall (fun u => wf_update sch false u = true) us ->
  run_updates sch [] us = Some d ->
  same_map sch d (fold_spec sch us []) = true /\
  NoDup (keys_of sch d) /\ Forall (fun x => exists k, key_of sch x = Some k) d /\
  Sorted (le_items sch) d.
Proof.
  intros sch us d Hwf Hus H. pose proof (run_updates_fold sch Hwf us [] [] d (Inv_nil sch) Hus H) as HI.
  split; [apply (Inv_same_map sch); exact HI|]. destruct HI as [[_ [Hc Hnd]] [Ho _]].
  split; [exact Hnd|]. split; [exact Hc|]. apply ordered_Sorted. exact Ho.
Qed.
Print Assumptions C02_fold.

(* Shape after one update, stated on its own. *)
Theorem C02_shape : forall sch l m u d ok,
  wf_schema sch = true -> Inv sch l m -> wf_update sch false u = true ->
  update_list sch false l (u_new u) (u_fp u) (u_fd u) = Ok (d, ok) ->
  NoDup (keys_of sch d) /\ Sorted (le_items sch) d.
Proof.
  intros sch l m u d ok Hwf HI Hu H. destruct (update_refines sch Hwf l m u d ok HI Hu H) as [_ [[_ [_ Hnd]] [Ho _]]].
  split; [exact Hnd | apply ordered_Sorted; exact Ho].
Qed.
Print Assumptions C02_shape.

(* Applying the same update a second time changes nothing ([simple]: not a delete filter
   combined with data — there the rules themselves are not idempotent: delete item 1,
   then add item 1 with field a; the second application deletes what the first added and
   adds it again, which coincides, but "delete the items with a=1, set a:=1 on item 2"
   does not). *)
Theorem C02_idempotent : forall sch l m u d ok d' ok',
  wf_schema sch = true -> Inv sch l m -> wf_update sch false u = true -> simple u = true ->
  update_list sch false l (u_new u) (u_fp u) (u_fd u) = Ok (d, ok) ->
  update_list sch false d (u_new u) (u_fp u) (u_fd u) = Ok (d', ok') ->
  d' = d.
Proof. intros sch l m u d ok d' ok' Hwf. exact (update_idempotent sch Hwf l m u d ok d' ok'). Qed.
Print Assumptions C02_idempotent.

(* A full update: the list becomes the data; the shape clauses hold iff the list itself
   is well-formed and ordered (which is why the scope asks for it). *)
Theorem C02_full_update : forall sch l,
  wf_schema sch = true -> wf_items sch l = true -> ordered sch l = true -> Inv sch l (of_list sch l).
Proof. intros sch l Hwf Hi Ho. apply (Inv_of_list sch); [apply (wf_items_lwf sch); exact Hi | exact Ho]. Qed.
Print Assumptions C02_full_update.

(* ---- every registered list type: the generated tables ---- *)

Open Scope string_scope.

(* the per-type UpdateList method delegates to the generic engine with its own list field
   as existing data, reads the same field of the asserted argument, assigns the result to
   that field under `success && persist` only, and returns the result *)
Definition wired_ok (w : wiring) : bool :=
  String.eqb (w_recv w) (w_asserted w) && String.eqb (w_read w) (w_existing w) &&
  String.eqb (w_existing w) (w_assigned w) && String.eqb (w_returned w) "data" && w_guard w && w_generic w.

(* every registered list type has such a method for its list field *)
Definition registered_wired (n : string * string * string * string * list string) : bool :=
  let '(_, lt, lf, _, _) := n in
  existsb (fun w => String.eqb (w_recv w) lt && String.eqb (w_read w) lf) all_wirings.

Theorem C02_all_types :
  forallb (fun s => wf_schema s || Nat.eqb (length (s_keys s)) 0) all_schemas = true /\
  forallb wired_ok all_wirings = true /\
  forallb registered_wired schema_go_names = true /\
  length schema_go_names = length all_schemas.
Proof. vm_compute. repeat split; reflexivity. Qed.
Print Assumptions C02_all_types.

Close Scope string_scope.

Theorem C02_all_types_in : forall s, In s all_schemas -> s_keys s <> [] -> wf_schema s = true.
Proof.
  intros s Hin Hk. destruct C02_all_types as [H _]. rewrite forallb_forall in H. specialize (H s Hin).
  apply orb_true_iff in H. destruct H as [H|H]; [exact H|]. apply Nat.eqb_eq in H. destruct (s_keys s); [contradiction | discriminate].
Qed.
Print Assumptions C02_all_types_in.

(* ---- non-vacuity: a history of all shapes, in scope at every step (nothing excused),
   strictly accepted, with the expected data ---- *)
Definition sel1 (v : N) : option flt := Some {| f_sel := Some [Some v]; f_elems := None |}.
Example C02_nonvacuous :
  let ops := [Init 1 false;
              full_upd [it3 (Some 1) (Some 10) None; it3 (Some 3) None (Some 30)];                    (* full *)
              part_upd [it3 (Some 2) (Some 20) None; it3 (Some 3) (Some 31) None];                   (* merge by identifier *)
              part_upd [it3 (Some 2) (Some 20) None; it3 (Some 3) (Some 31) None];                   (* again: no change *)
              part_upd [it3 None None (Some 5)];                                                     (* no identifier: all items *)
              Update false true false {| u_new := [it3 None (Some 9) None]; u_fp := sel1 2; u_fd := None |};   (* selector *)
              Update false true false {| u_new := []; u_fp := None;
                                         u_fd := Some {| f_sel := Some [Some 3]; f_elems := Some [false; true; false] |} |}; (* delete fields *)
              Update false true false {| u_new := [it3 (Some 4) None None]; u_fp := Some {| f_sel := None; f_elems := None |};
                                         u_fd := sel1 1 |};                                          (* delete item + merge *)
              Snapshot]%N in
  let tr := snd (run init ops) in
  strictly_accepted (judge minit sinit tr) = true /\
  forallb (fun ve => match snd ve with [] => true | _ => false end) (judge minit sinit tr) = true /\
  store (fst (run init ops)) =
    Some [it3 (Some 2) (Some 9) (Some 5); it3 (Some 3) None (Some 5); it3 (Some 4) None None]%N.
Proof. vm_compute. repeat split; reflexivity. Qed.

(* The two former panic sites of the engine (repaired with C05, /repo 306e400 and db846a9), as the
   model now transcribes them: a partial update with a selector but no data item is answered with an
   error and leaves the data as it was; an item without a value for the selected field does not match
   (the update goes on to the items that do). *)
Example C02_former_panic_sites :
  map snd (snd (run init
    [Init 1 false;
     full_upd [it3 (Some 1) (Some 10) None];
     Update false true false {| u_new := []; u_fp := sel1 1; u_fd := None |};
     full_upd [it3 None (Some 5) None; it3 (Some 2) None None];
     Update false true false {| u_new := [it3 None (Some 9) None]; u_fp := sel1 2; u_fd := None |}]%N)) =
  [[];
   [Res 0; Ret [it3 (Some 1) (Some 10) None]; Store (Some [it3 (Some 1) (Some 10) None])];
   [Res 1; Store (Some [it3 (Some 1) (Some 10) None])];
   [Res 0; Ret [it3 None (Some 5) None; it3 (Some 2) None None]; Store (Some [it3 None (Some 5) None; it3 (Some 2) None None])];
   [Res 0; Ret [it3 None (Some 5) None; it3 (Some 2) (Some 9) None]; Store (Some [it3 None (Some 5) None; it3 (Some 2) (Some 9) None])]]%N.
Proof. vm_compute. reflexivity. Qed.
