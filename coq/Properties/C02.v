(* C02 — placeholder while the machinery is being built; replaced by the theorems. *)
From Verif Require Import Base.Prelude Model.Schema Model.Update Model.FunctionStore Spec.UpdateSpec.
