(* C01 — Every inbound request gets exactly the one correctly addressed response.
   Property theorems only; proofs in Proofs/ResponseProofs.v.  Model: Model/Dispatch.v
   (DeviceLocal.ProcessCmd, FeatureLocal.HandleMessage, NodeManagement.HandleMessage,
   Sender.Reply / result; tied to the code by the correspondence harness cmd/c01 +
   harness/dispatch); the property is the table [prescribed] and the trace monitor of
   Spec/ResponseSpec.v, which also judges the implementation's traces. *)
From Verif Require Import Base.Prelude Model.Dispatch Spec.ResponseSpec Proofs.ResponseProofs.

(* For every history (local tree construction, data changes, connects and disconnects of any
   peers, any inbound datagrams: discovery, subscription and binding calls, reads, replies,
   notifications, writes, results, callback registrations) every step of the model's trace
   satisfies every clause of the monitor: for a well-formed datagram from an announced feature
   of a connected peer the replies and results written are exactly the prescribed ones (kind,
   number, order, data token), all to that peer, each referencing the request's counter,
   addressed to the request's source and naming the addressed feature with the local device
   address as source; never a result in answer to a result; no reply or result on any
   operation that is not an inbound datagram.  Nothing is excused. *)
Theorem C01_trace_accepted : forall ops, accepted_trace (judge minit (snd (run init ops))) = true.
Proof. exact run_accepted. Qed.
Print Assumptions C01_trace_accepted.

(* The same in explicit form (DESIGN.md C01): in every reachable state [s], for every
   well-formed datagram [d] whose source a connected peer [p] has announced, the replies and
   results among the datagrams written while processing [d] are exactly [prescribed], every
   one of them is written to [p], references d's counter, is addressed to d's source and has
   the addressed feature with the local device address as its source; a result gets none. *)
Theorem C01_exact_responses : forall ops p d pe en rf,
  find_peer (fst (run init ops)) p = Some pe ->
  remote_feature pe (d_src d) = Some (en, rf) ->
  wf_dgram d = true ->
  map resp_of (responses_to (fst (run init ops)) p d) = prescribed (fst (run init ops)) pe en rf d /\
  Forall (well_addressed p d) (responses_to (fst (run init ops)) p d) /\
  (is_result_body (d_body d) = true -> responses_to (fst (run init ops)) p d = []).
Proof. exact exact_responses. Qed.
Print Assumptions C01_exact_responses.

(* nobody else: no reply or result is written to another peer *)
Theorem C01_no_other_peer : forall ops p d pe en rf q o,
  find_peer (fst (run init ops)) p = Some pe ->
  remote_feature pe (d_src d) = Some (en, rf) ->
  wf_dgram d = true ->
  In o (responses_to (fst (run init ops)) p d) -> q <> p -> o_peer o <> q.
Proof.
  intros ops p d pe en rf q o Hp Hs Hw Hin Hq.
  destruct (exact_responses ops p d pe en rf Hp Hs Hw) as [_ [Hall _]].
  rewrite Forall_forall in Hall. destruct (Hall o Hin) as [Hpeer _]. congruence.
Qed.
Print Assumptions C01_no_other_peer.

(* ---- the pinned tree (before the two fix: commits) violates the property ---- *)
Definition a (d : option N) (e : list N) (f : N) : faddr := {| fa_dev := d; fa_ent := e; fa_feat := Some f |}.

(* a result addressed to an unknown local feature is answered with a result *)
Definition c01_witness_result : list op :=
  [ Connect 1;
    Inbound 1 {| d_src := a None [0%N] 0; d_dst := a (Some 0%N) [9%N] 9; d_ctr := 5; d_ref := Some 3%N;
                 d_ack := false; d_body := BResult 1; d_fct := 0; d_sel := 0 |} ].
Theorem C01_pinned_result_for_result_refuted :
  exists ops, accepted_trace (judge minit (snd (run_pinned init ops))) = false.
Proof. exists c01_witness_result. vm_compute. reflexivity. Qed.
Print Assumptions C01_pinned_result_for_result_refuted.

(* the error result for an unknown destination copies the request's destination device:
   a read that omits the device part is answered from a source without device address *)
Definition c01_witness_source : list op :=
  [ Connect 1;
    Inbound 1 {| d_src := a None [0%N] 0; d_dst := a None [7%N] 7; d_ctr := 6; d_ref := None;
                 d_ack := false; d_body := BCmd CRead (PData 14 0); d_fct := 0; d_sel := 0 |} ].
Theorem C01_pinned_unknown_destination_source_refuted :
  exists ops, accepted_trace (judge minit (snd (run_pinned init ops))) = false.
Proof. exists c01_witness_source. vm_compute. reflexivity. Qed.
Print Assumptions C01_pinned_unknown_destination_source_refuted.

Example C01_pinned_witnesses_observed :
  map snd (snd (run_pinned init c01_witness_result)) =
    [ []; [OResult 1 5 E_DESTUNKNOWN (a (Some 0%N) [9%N] 9) (a None [0%N] 0)] ] /\
  map snd (snd (run_pinned init c01_witness_source)) =
    [ []; [OResult 1 6 E_DESTUNKNOWN (a None [7%N] 7) (a None [0%N] 0)] ] /\
  map snd (snd (run init c01_witness_result)) = [ []; [] ] /\
  map snd (snd (run init c01_witness_source)) =
    [ []; [OResult 1 6 E_DESTUNKNOWN (a (Some 0%N) [7%N] 7) (a None [0%N] 0)] ].
Proof. vm_compute. repeat split; reflexivity. Qed.

(* ---- non-vacuity: one history through the rows of the table ---- *)
Definition tree (d : N) : disc_msg :=
  {| dm_dev := Some d;
     dm_ents := [ {| de_addr := [0%N]; de_dev := None; de_state := None |}; {| de_addr := [1%N]; de_dev := None; de_state := None |} ];
     dm_feats := [ {| df_ent := [0%N]; df_id := 0; df_type := T_NODEMGMT; df_role := RSpecial |};
                   {| df_ent := [1%N]; df_id := 1; df_type := T_LOADCONTROL; df_role := RClient |} ] |}.
Definition dg (src dst : faddr) (ctr : N) (ack : bool) (b : body) : dgram :=
  {| d_src := src; d_dst := dst; d_ctr := ctr; d_ref := None; d_ack := ack; d_body := b; d_fct := 0; d_sel := 0 |}.
Definition lc : faddr := a (Some 0%N) [1%N] 1.     (* local LoadControl server [1]:1 *)
Definition cl : faddr := a (Some 0%N) [1%N] 2.     (* local LoadControl client [1]:2 *)
Definition nm : faddr := a (Some 0%N) [0%N] 0.
Definition r1 (d : N) : faddr := a (Some d) [1%N] 1.
Definition rnm (d : N) : faddr := a (Some d) [0%N] 0.
Definition call (d : N) : reg_call := {| rc_cli := r1 d; rc_srv := lc; rc_type := T_LOADCONTROL |}.
Definition c01_example : list op :=
  [ AddLocalEntity [1%N]; AddLocalFeature [1%N] T_LOADCONTROL RServer; AddLocalFeature [1%N] T_LOADCONTROL RClient;
    AddFunction [1%N] 1 14 true true; SetData [1%N] 1 14 55;
    Connect 1; Inbound 1 {| d_src := a None [0%N] 0; d_dst := nm; d_ctr := 1; d_ref := Some 1%N; d_ack := false;
                           d_body := BCmd CReply (PDiscovery (tree 1)); d_fct := 0; d_sel := 0 |};
    Connect 2; Inbound 2 {| d_src := a None [0%N] 0; d_dst := nm; d_ctr := 1; d_ref := Some 1%N; d_ack := false;
                           d_body := BCmd CReply (PDiscovery (tree 2)); d_fct := 0; d_sel := 0 |};
    Inbound 1 (dg (r1 1) lc 10 false (BCmd CRead (PData 14 0)));        (* read of a server feature: reply with the data *)
    Inbound 2 (dg (r1 2) cl 11 false (BCmd CRead (PData 14 0)));        (* read of a client feature: error *)
    Inbound 1 (dg (r1 1) lc 12 true (BCmd CWrite (PData 14 66)));       (* write without binding: error *)
    Inbound 1 (dg (rnm 1) nm 13 true (BCmd CCall (PBindReq (call 1)))); (* binding call with ack: success *)
    Inbound 1 (dg (r1 1) lc 14 true (BCmd CWrite (PData 14 66)));       (* write with binding and ack: success *)
    Inbound 2 (dg (r1 2) lc 15 false (BCmd CWrite (PData 14 67)));      (* the other peer, same numbering: error *)
    Inbound 1 (dg (r1 1) lc 16 false (BCmd CRead (PData 14 0)));        (* the written data *)
    Inbound 2 (dg (r1 2) cl 17 true (BCmd CNotify (PData 14 9)));       (* notify with ack: success *)
    Inbound 2 (dg (r1 2) cl 18 false (BCmd CNotify (PData 17 9)));      (* a function the sender's type lacks: error *)
    Inbound 2 (dg (r1 2) (a None [7%N] 7) 19 false (BCmd CRead (PData 14 0)));   (* unknown destination: error, local device *)
    Inbound 2 (dg (r1 2) (a None [7%N] 7) 20 true (BResult 0));         (* result to an unknown destination: nothing *)
    Inbound 2 (dg (a (Some 2%N) [5%N] 5) lc 21 true (BCmd CRead (PData 14 0)));  (* unannounced source: dropped *)
    (* a read restricted by a selector as this stack sends it (function element present but empty): one reply, full data *)
    Inbound 1 {| d_src := r1 1; d_dst := lc; d_ctr := 22; d_ref := None; d_ack := false;
                 d_body := BCmd CRead (PData 14 0); d_fct := 2; d_sel := 1 |};
    (* a notify whose function element names another function: dispatch is on the data element *)
    Inbound 2 {| d_src := r1 2; d_dst := cl; d_ctr := 23; d_ref := None; d_ack := true;
                 d_body := BCmd CNotify (PData 14 9); d_fct := 3; d_sel := 0 |} ].
(* nested local entities: the child [1,1] is created before its parent [1]; both have a feature 1.  A read
   of [1]/1 is answered by the parent's feature, after RemoveEntity [1] by one error result with the local
   device address (the address is a proper prefix of the child's, it resolves to nothing), [1,1]/1 keeps
   answering *)
Definition c01_nested : list op :=
  [ AddLocalEntity [1%N; 1%N]; AddLocalFeature [1%N; 1%N] T_LOADCONTROL RServer; AddFunction [1%N; 1%N] 1 14 true false;
    SetData [1%N; 1%N] 1 14 500;
    AddLocalEntity [1%N]; AddLocalFeature [1%N] T_LOADCONTROL RServer; AddFunction [1%N] 1 14 true false; SetData [1%N] 1 14 100;
    Connect 1; Inbound 1 {| d_src := a None [0%N] 0; d_dst := nm; d_ctr := 1; d_ref := Some 1%N; d_ack := false;
                           d_body := BCmd CReply (PDiscovery (tree 1)); d_fct := 0; d_sel := 0 |};
    Inbound 1 (dg (r1 1) (a None [1%N] 1) 2 false (BCmd CRead (PData 14 0)));
    RemoveLocalEntity [1%N];
    Inbound 1 (dg (r1 1) (a None [1%N] 1) 3 false (BCmd CRead (PData 14 0)));
    Inbound 1 (dg (r1 1) (a None [1%N; 1%N] 1) 4 false (BCmd CRead (PData 14 0))) ].
Example C01_nested_entities :
  map snd (skipn 10 (snd (run init c01_nested))) =
    [ [OReply 1 2 (a (Some 0%N) [1%N] 1) (r1 1) 14 100];
      [];
      [OResult 1 3 E_DESTUNKNOWN (a (Some 0%N) [1%N] 1) (r1 1)];
      [OReply 1 4 (a (Some 0%N) [1%N; 1%N] 1) (r1 1) 14 500] ] /\
  accepted_trace (judge minit (snd (run init c01_nested))) = true.
Proof. vm_compute. split; reflexivity. Qed.

Example C01_nonvacuous :
  map snd (skipn 9 (snd (run init c01_example))) =
    [ [OReply 1 10 lc (r1 1) 14 55];
      [OResult 2 11 E_REJECTED cl (r1 2)];
      [OResult 1 12 E_GENERAL lc (r1 1)];
      [OResult 1 13 0 nm (rnm 1)];
      [OResult 1 14 0 lc (r1 1)];
      [OResult 2 15 E_GENERAL lc (r1 2)];
      [OReply 1 16 lc (r1 1) 14 66];
      [OResult 2 17 0 cl (r1 2)];
      [OResult 2 18 E_GENERAL cl (r1 2)];
      [OResult 2 19 E_DESTUNKNOWN (a (Some 0%N) [7%N] 7) (r1 2)];
      [];
      [];
      [OReply 1 22 lc (r1 1) 14 66];
      [OResult 2 23 0 cl (r1 2)] ] /\
  accepted_trace (judge minit (snd (run init c01_example))) = true.
Proof. vm_compute. split; reflexivity. Qed.
