(* C07 — The local device tree is announced faithfully and addressed uniquely.
   Property theorems only; proofs are in Proofs/TreeProofs.v.  The model is
   Model/LocalTree.v (the REPAIRED code: GetOrAddFeature looks again under the entity
   lock before it creates; tied to spine/device_local.go, entity_local.go, entity.go,
   feature_local.go, operations.go, nodemanagement_detaileddiscovery.go by the
   correspondence harness cmd/c07), the property is the trace monitor Spec/TreeSpec.v
   (the same extracted monitor judges the implementation's traces).  Schedules are part
   of the operation list: a concurrent GetOrAddFeature is GLookup t / GCreate t, a discovery
   read that overlaps other calls is ReadBegin t p / ReadEnd t (the entity list is taken,
   then the reply is built from it: the two critical sections of the handler), so
   "forall ops" is "for all histories and all interleavings" of reads with entity, feature
   and function additions and removals and with GetOrAddFeature steps.  Feature creation
   overlapping on one entity object without hooks is [Burst e calls], see
   C07_burst_any_interleaving. *)
From Verif Require Import Base.Prelude Model.LocalTree Spec.TreeSpec Proofs.TreeProofs.
Require Import Coq.Sorting.Permutation.

(* Every history, every schedule: every discovery reply is exactly render(current tree)
   -- for a read that overlaps other calls: it lists exactly the entities that were
   members at a moment during the call (its ReadBegin), each described as it is when the
   reply is built -- (REPLY), every announced address resolves to that feature (RESOLVE), AddEntity /
   RemoveEntity send exactly one partial notification per subscription entry on node
   management with the right content and nothing else (NOTIFY), no feature id is handed
   out twice within an entity (FRESH), GetOrAddFeature returns the one feature of the
   type and role and never creates a second one (SAME).  Nothing is excused. *)
Theorem C07_trace_accepted : forall ops,
  accepted (judge minit sinit (snd (run init ops))) = true.
Proof. exact run_accepted. Qed.
Print Assumptions C07_trace_accepted.

(* every feature of a member entity is what FeatureByAddress returns for its address *)
Theorem C07_resolves : forall ops e f,
  let s := fst (run init ops) in
  In e (members s) -> In f (feats_of s e) -> resolve s e (f_id f) = Some f.
Proof. exact resolves. Qed.
Print Assumptions C07_resolves.

(* feature ids within an entity object are pairwise different and below its generator *)
Theorem C07_ids_unique : forall ops e o,
  let s := fst (run init ops) in
  assoc_N e (objs s) = Some o ->
  NoDup (map f_id (e_feats o)) /\ forall f, In f (e_feats o) -> (f_id f < ctr_of (ctrs s) e)%N.
Proof. exact ids_unique. Qed.
Print Assumptions C07_ids_unique.

(* no (entity, feature id) is handed out twice over a whole history, also after removals
   (ids of dropped duplicate features and of bare NextFeatureId calls included) *)
Theorem C07_ids_never_reused : forall ops, NoDup (m_ids (mrun minit (snd (run init ops)))).
Proof. exact handed_nodup. Qed.
Print Assumptions C07_ids_never_reused.

(* for all schedules: no entity ever holds two features of one type and role (hence "the"
   feature GetOrAddFeature returns, clause SAME of the accepted trace, is one and the same) *)
Theorem C07_get_or_add_sched : forall ops e o,
  assoc_N e (objs (fst (run init ops))) = Some o -> NoDup (map tr_of (e_feats o)).
Proof. exact type_role_unique. Qed.
Print Assumptions C07_get_or_add_sched.

(* Overlapping feature creation on one entity object.  [Burst e calls] is that many goroutines
   released together (NextFeatureId alone, NewFeatureLocal(NextFeatureId) + AddFeature,
   GetOrAddFeature; pairwise different (type, role)); the runner executes it with real
   parallelism and without hooks.  Every call takes its id in one atomic step, so an
   interleaving is an order of the calls: ANY permutation calls' of the calls, run one after
   the other as ordinary operations, takes exactly the ids the burst takes (the same list
   next, next+1, ...: no duplicate, nothing below the generator's position before the
   burst) and leaves the same feature id generators.  With C07_trace_accepted (whose
   histories contain bursts: clause FRESH judges every id of a burst against the others and
   against everything handed out before) and C07_ids_never_reused no two features of an
   entity share a number under any interleaving of concurrent creation. *)
Theorem C07_burst_any_interleaving : forall ops e calls calls',
  let s := fst (run init ops) in
  assoc_N e (objs s) <> None -> burst_wf calls = true -> Permutation calls calls' ->
  consumed (snd (step s (Burst e calls))) = consumed (concat (map snd (snd (run s (map (bcall_op e) calls'))))) /\
  ctrs (fst (step s (Burst e calls))) = ctrs (fst (run s (map (bcall_op e) calls'))) /\
  NoDup (consumed (snd (step s (Burst e calls)))) /\
  (forall id, In id (consumed (snd (step s (Burst e calls)))) -> (ctr_of (ctrs s) e <= id)%N).
Proof. exact burst_any_interleaving_reachable. Qed.
Print Assumptions C07_burst_any_interleaving.

(* Non-vacuity of the bursts: five overlapping calls on entity 1 (GetOrAddFeature of the
   existing (4, 2) takes no id, the other four take 2 3 4 5), a burst naming (5, 1) twice is
   refused, a burst on a missing entity object, a burst whose AddFeature is dropped as a
   duplicate (its id 6 is consumed all the same), then the read announces 1 2 4 5 -- unique,
   resolving -- and the generator continues at 8. *)
Example C07_nonvacuous_burst :
  let ops := [NewEntity 1 5; AddFeature 1 4 2 0 []; AddEntity 1;
              Burst 1 [BAdd 5 2; BNext; BGet 4 2; BGet 6 1; BAdd 7 1];
              Burst 1 [BAdd 5 1; BGet 5 1]; Burst 9 [BNext]; Burst 1 [BAdd 4 2; BNext]; Read 0; NextId 1] in
  map snd (snd (run init ops)) =
    [[Created]; [FeatId 1]; [];
     [FeatId 2; FeatId 3; GRet 1 false; GRet 4 true; FeatId 5];
     [BadBurst]; [NoEntity]; [FeatId 6; FeatId 7];
     [RBegin 0 true; REnt 0 1 0; REnt 1 5 0;
      RFeat 0 0 1 3 0 0 1 3; RFn 1 true false false false; RFn 2 true false false false; RFn 3 true false false false;
      RFn 4 false false false false; RFn 5 false false false false; RFn 6 true false false false;
      RFn 7 false false false false; RFn 8 false false false false; RFn 9 true false false false;
      RFeat 0 1 2 2 0 1 2 2; RFn 10 true false false false;
      RFeat 1 1 4 2 0 1 4 2; RFeat 1 2 5 2 0 2 5 2; RFeat 1 4 6 1 1 4 6 1; RFeat 1 5 7 1 0 5 7 1; REnd];
     [FeatId 8]]%N /\
  strictly_accepted (judge minit sinit (snd (run init ops))) = true.
Proof. vm_compute. split; reflexivity. Qed.

(* a burst handing out one number twice (what a NextFeatureId that is not one atomic step
   produces) is rejected by the monitor: FRESH *)
Example C07_burst_duplicate_rejected :
  snd (mon minit (Burst 0 [BNext; BNext]) [FeatId 2; FeatId 2]%N) = [CL_FRESH] /\
  snd (mon minit (Burst 0 [BNext; BNext]) [FeatId 2; FeatId 3]%N) = [].
Proof. vm_compute. split; reflexivity. Qed.

(* Snapshot semantics of the two-step read, explicitly: after any history ops1, a read begun
   on a free thread t and ended after ANY operations ops2 of other threads (entities,
   features, functions added and removed, GetOrAddFeature steps, other reads begun and
   ended) replies with exactly the entities that were members at its ReadBegin, in that
   order, each with the type, features and operations it has at ReadEnd. *)
Theorem C07_read_snapshot : forall ops1 t p ops2,
  let s1 := fst (run init ops1) in
  let s2 := fst (run init (ops1 ++ ReadBegin t p :: ops2)) in
  assoc_N t (rds s1) = None -> ~ In (ReadEnd t) ops2 ->
  snd (step s2 (ReadEnd t)) = render_reply_of s2 p (members s1).
Proof. exact read_snapshot. Qed.
Print Assumptions C07_read_snapshot.

(* the uninterrupted read is ReadBegin; ReadEnd on a free thread: same reply, same state *)
Theorem C07_read_atomic : forall s t p,
  assoc_N t (rds s) = None ->
  let sb := fst (step s (ReadBegin t p)) in
  snd (step s (ReadBegin t p)) = [Parked] /\
  snd (step sb (ReadEnd t)) = snd (step s (Read p)) /\ fst (step sb (ReadEnd t)) = s.
Proof. exact read_atomic. Qed.
Print Assumptions C07_read_atomic.

(* RemoveEntity compacting the backing array in place (slices.DeleteFunc) while
   DeviceLocal.Entities() hands out the slice itself: a read that took its list before the
   removal walks the shifted array, skips the entity after the removed one and panics on
   the zeroed tail -- no reply.  The monitor rejects it (REPLY). *)
Definition c07_inplace_witness : list op :=
  [NewEntity 1 2; NewEntity 2 3; AddEntity 1; AddEntity 2; ReadBegin 0 0; RemoveEntity 1; ReadEnd 0].
Theorem C07_inplace_remove_refuted :
  exists ops, strictly_accepted (judge minit sinit (snd (run_inplace init ops))) = false.
Proof. exists c07_inplace_witness. vm_compute. reflexivity. Qed.
Print Assumptions C07_inplace_remove_refuted.

Example C07_inplace_witness_outputs :
  map snd (snd (run_inplace init c07_inplace_witness)) = [[Created]; [Created]; []; []; [Parked]; []; [ReadPanicked]] /\
  judge minit sinit (snd (run_inplace init c07_inplace_witness)) =
    [([], []); ([], []); ([], []); ([], []); ([], []); ([], []); ([CL_REPLY], [])] /\
  nth 6 (map snd (snd (run init c07_inplace_witness))) [] =
    [RBegin 0 true; REnt 0 1 0; REnt 1 2 0; REnt 2 3 0;
     RFeat 0 0 1 3 0 0 1 3; RFn 1 true false false false; RFn 2 true false false false; RFn 3 true false false false;
     RFn 4 false false false false; RFn 5 false false false false; RFn 6 true false false false;
     RFn 7 false false false false; RFn 8 false false false false; RFn 9 true false false false;
     RFeat 0 1 2 2 0 1 2 2; RFn 10 true false false false; REnd]%N.
Proof. vm_compute. repeat split; reflexivity. Qed.

(* The pinned GetOrAddFeature (no second look under the lock): two goroutines both miss,
   both create; they obtain different features and the entity holds two of one type and role. *)
Definition c07_witness : list op :=
  [NewEntity 1 2; GLookup 1 1 4 1; GLookup 2 1 4 1; GCreate 1; GCreate 2; Read 0].
Theorem C07_pinned_get_or_add_refuted :
  exists ops, strictly_accepted (judge minit sinit (snd (run_pinned init ops))) = false.
Proof. exists c07_witness. vm_compute. reflexivity. Qed.
Print Assumptions C07_pinned_get_or_add_refuted.

Example C07_witness_outputs :
  map snd (snd (run_pinned init (firstn 5 c07_witness))) = [[Created]; [Miss]; [Miss]; [GRet 1 true]; [GRet 2 true]]%N /\
  map snd (snd (run init (firstn 5 c07_witness))) = [[Created]; [Miss]; [Miss]; [GRet 1 true]; [GRet 1 false]]%N.
Proof. vm_compute. split; reflexivity. Qed.

(* Non-vacuity: a server feature with functions, a duplicate (type, role) dropped but its id
   consumed, a client feature ignoring functions, a peer subscribed with two features gets two
   notifications, another peer one, reads before and after, removal notification without features;
   a read of peer 1 begun before RemoveEntity 1 and ended after it still lists entity 1 with its
   features (whose addresses do not resolve any more: 0 0 0), a second ReadEnd finds no thread. *)
Example C07_nonvacuous :
  let ops := [NewEntity 1 5; AddFeature 1 4 2 3 [(11, true, true, true); (12, true, false, false)]%N;
              AddFeature 1 4 2 0 []; AddFeature 1 5 1 0 [(13, true, true, true)]%N;
              Subscribe 0 0; Subscribe 0 2; Subscribe 1 1; Subscribe 1 1; AddEntity 1; AddEntity 1;
              GetOrAdd 1 4 2; GetOrAdd 1 6 2; AddFunction 1 4 15 true false false; Read 2;
              ReadBegin 5 1; RemoveEntity 1; Unsubscribe 0 0; NextId 1; ReadEnd 5; ReadEnd 5] in
  let feats1 := [RFeat 1 1 4 2 4 1 4 2; RFn 11 true false true true; RFn 12 true false false false;
                 RFeat 1 3 5 1 0 3 5 1]%N in
  map snd (snd (run init ops)) =
    [[Created]; [FeatId 1]; [FeatId 2]; [FeatId 3];
     [SubRes true]; [SubRes true]; [SubRes true]; [SubRes false];
     ([NBegin 0 0 true; REnt 1 5 1] ++ feats1 ++ [REnd] ++ [NBegin 0 2 true; REnt 1 5 1] ++ feats1 ++ [REnd] ++
      [NBegin 1 1 true; REnt 1 5 1] ++ feats1 ++ [REnd])%N;
     [AlreadyMember]; [GRet 1 false]; [GRet 4 true]; [OkDone];
     ([RBegin 2 true; REnt 0 1 0; REnt 1 5 0;
       RFeat 0 0 1 3 0 0 1 3; RFn 1 true false false false; RFn 2 true false false false; RFn 3 true false false false;
       RFn 4 false false false false; RFn 5 false false false false; RFn 6 true false false false;
       RFn 7 false false false false; RFn 8 false false false false; RFn 9 true false false false;
       RFeat 0 1 2 2 0 1 2 2; RFn 10 true false false false] ++ feats1 ++
      [RFeat 1 4 6 2 1 4 6 2; RFn 15 true false false false; REnd])%N;
     [Parked];
     [NBegin 0 0 true; REnt 1 5 2; REnd; NBegin 0 2 true; REnt 1 5 2; REnd; NBegin 1 1 true; REnt 1 5 2; REnd]%N;
     [SubRes true]; [FeatId 5];
     [RBegin 1 true; REnt 0 1 0; REnt 1 5 0;
      RFeat 0 0 1 3 0 0 1 3; RFn 1 true false false false; RFn 2 true false false false; RFn 3 true false false false;
      RFn 4 false false false false; RFn 5 false false false false; RFn 6 true false false false;
      RFn 7 false false false false; RFn 8 false false false false; RFn 9 true false false false;
      RFeat 0 1 2 2 0 1 2 2; RFn 10 true false false false;
      RFeat 1 1 4 2 4 0 0 0; RFn 11 true false true true; RFn 12 true false false false;
      RFeat 1 3 5 1 0 0 0 0; RFeat 1 4 6 2 1 0 0 0; RFn 15 true false false false; REnd]%N;
     [NoThread]]%N /\
  strictly_accepted (judge minit sinit (snd (run init ops))) = true.
Proof. vm_compute. split; reflexivity. Qed.

(* Non-vacuity of the overlapped reads: thread 7 (peer 1) takes [0;1;2]; a second ReadBegin on
   the busy thread is refused; then entity 1 is removed, entity 2 gets a feature, a feature of
   entity 1 gets a function, entity 3 is added, thread 8 (peer 2) takes [0;2;3], entity 1 is added
   again.  ReadEnd 7 lists 0, 1, 2 -- not 3 -- with the feature and the function added meanwhile
   (entity 1 is a member again: its address resolves); entity 2 is removed; ReadEnd 8 lists
   0, 2, 3 with entity 2's feature not resolving; the final uninterrupted read lists 0, 3, 1. *)
Example C07_nonvacuous_overlapped_reads :
  let ops := [NewEntity 1 5; NewEntity 2 3; NewEntity 3 4; AddFeature 1 4 2 0 [(11, true, false, false)]%N;
              AddEntity 1; AddEntity 2; ReadBegin 7 1; ReadBegin 7 2; RemoveEntity 1; AddFeature 2 5 2 0 [];
              AddFunction 1 1 12 true true false; AddEntity 3; ReadBegin 8 2; AddEntity 1; ReadEnd 7;
              RemoveEntity 2; ReadEnd 8; ReadEnd 7; Read 0] in
  let e0 := [RFeat 0 0 1 3 0 0 1 3; RFn 1 true false false false; RFn 2 true false false false; RFn 3 true false false false;
             RFn 4 false false false false; RFn 5 false false false false; RFn 6 true false false false;
             RFn 7 false false false false; RFn 8 false false false false; RFn 9 true false false false;
             RFeat 0 1 2 2 0 1 2 2; RFn 10 true false false false]%N in
  map snd (snd (run init ops)) =
    [[Created]; [Created]; [Created]; [FeatId 1]; []; []; [Parked]; [BusyT]; []; [FeatId 1]; [OkDone]; []; [Parked]; [];
     ([RBegin 1 true; REnt 0 1 0; REnt 1 5 0; REnt 2 3 0] ++ e0 ++
      [RFeat 1 1 4 2 0 1 4 2; RFn 11 true false false false; RFn 12 true false true false; RFeat 2 1 5 2 0 1 5 2; REnd])%N;
     [];
     ([RBegin 2 true; REnt 0 1 0; REnt 2 3 0; REnt 3 4 0] ++ e0 ++ [RFeat 2 1 5 2 0 0 0 0; REnd])%N;
     [NoThread];
     ([RBegin 0 true; REnt 0 1 0; REnt 3 4 0; REnt 1 5 0] ++ e0 ++
      [RFeat 1 1 4 2 0 1 4 2; RFn 11 true false false false; RFn 12 true false true false; REnd])%N]%N /\
  strictly_accepted (judge minit sinit (snd (run init ops))) = true.
Proof. vm_compute. split; reflexivity. Qed.

(* ---- a notification write stalled inside a connection (During) ----
   AddEntity / RemoveEntity change the entity list under the device lock, release it, and only then
   send the notifications, from data fixed before the first write (the rendered entity, the list of
   subscription entries).  [During add e q i]: the first write to peer q is held inside the
   connection writer while [i] -- another peer's discovery read, or a peer's disconnect and
   reconnect -- runs to completion; the runner executes exactly that on the real code and reports
   Blocked when [i] returned only after the write had been released (clause STALL; an [i] that never
   returns is the harness's implementation-never-returned).  The model is the sequential composition,
   whatever peer is stalled: *)
Theorem C07_during_is_sequence : forall s add e q i,
  fst (step s (During add e q i)) = fst (run s [ent_op add e; inner_op i]) /\
  exists n, snd (step s (During add e q i)) = Len n :: concat (map snd (snd (run s [ent_op add e; inner_op i]))).
Proof.
  intros s add e q i. unfold run, step. cbn [run_gen step_gen].
  assert (H1 : step_gen true false s (ent_op add e) = step_base true false s (ent_op add e)) by (destruct add; reflexivity).
  rewrite H1. destruct (step_base true false s (ent_op add e)) as [s1 o1].
  assert (H2 : step_gen true false s1 (inner_op i) = step_base true false s1 (inner_op i)) by (destruct i; reflexivity).
  rewrite H2. destruct (step_base true false s1 (inner_op i)) as [s2 o2]. cbn.
  split; [reflexivity|]. eexists. rewrite app_nil_r. reflexivity.
Qed.
Print Assumptions C07_during_is_sequence.

(* the stalled write commutes with what overlaps it: the notifications are exactly those of the plain
   entity operation from the state before -- a peer that disconnects meanwhile still gets the one
   decided before its disconnect, and none of its subscription entries is left afterwards --, and
   which peer is stalled makes no difference *)
Theorem C07_during_notifications : forall s add e q i,
  exists n rest, snd (step s (During add e q i)) = Len n :: rest /\
    firstn (N.to_nat n) rest = snd (step s (ent_op add e)) /\
    skipn (N.to_nat n) rest = snd (step (fst (step s (ent_op add e))) (inner_op i)).
Proof.
  intros s add e q i. unfold step. cbn [step_gen].
  assert (H1 : step_gen true false s (ent_op add e) = step_base true false s (ent_op add e)) by (destruct add; reflexivity).
  rewrite H1. destruct (step_base true false s (ent_op add e)) as [s1 o1]. cbn [fst snd].
  assert (H2 : step_gen true false s1 (inner_op i) = step_base true false s1 (inner_op i)) by (destruct i; reflexivity).
  rewrite H2. destruct (step_base true false s1 (inner_op i)) as [s2 o2]. cbn [fst snd].
  eexists. eexists. split; [reflexivity|]. rewrite Nat2N.id. split.
  - rewrite firstn_app, firstn_all, Nat.sub_diag. simpl. apply app_nil_r.
  - rewrite skipn_app, skipn_all, Nat.sub_diag. reflexivity.
Qed.
Print Assumptions C07_during_notifications.

Theorem C07_during_any_stalled_peer : forall s add e q q' i,
  step s (During add e q i) = step s (During add e q' i).
Proof. reflexivity. Qed.

Theorem C07_during_reconnect_subs : forall s add e q p x,
  In x (subs (fst (step s (During add e q (IReconnect p))))) -> fst x <> p.
Proof.
  intros s add e q p x. unfold step. cbn [step_gen].
  destruct (step_base true false s (ent_op add e)) as [s1 o1]. cbn. intros H.
  apply filter_In in H. destruct H as [_ H]. apply negb_true_iff in H. apply N.eqb_neq in H. exact H.
Qed.
Print Assumptions C07_during_reconnect_subs.

(* Non-vacuity: peers 0 and 1 subscribed; entity 1 is added with the write to peer 0 stalled while
   peer 2 reads (the reply already lists entity 1); it is removed with the write to peer 1 stalled
   while peer 0 disconnects (peer 0 still gets its removal notification); added again: only peer 1
   is notified; a During on a missing entity object.  The monitor rejects a Blocked observation. *)
Example C07_nonvacuous_during :
  let ops := [NewEntity 1 5; AddFeature 1 4 2 0 []; Subscribe 0 0; Subscribe 1 1;
              During true 1 0 (IRead 2); During false 1 1 (IReconnect 0); During true 1 0 (IRead 1);
              Reconnect 1; During false 1 2 (IReconnect 2); During true 7 0 (IRead 0)] in
  let e0 := [RFeat 0 0 1 3 0 0 1 3; RFn 1 true false false false; RFn 2 true false false false; RFn 3 true false false false;
             RFn 4 false false false false; RFn 5 false false false false; RFn 6 true false false false;
             RFn 7 false false false false; RFn 8 false false false false; RFn 9 true false false false;
             RFeat 0 1 2 2 0 1 2 2; RFn 10 true false false false]%N in
  skipn 4 (map snd (snd (run init ops))) =
    [([Len 8; NBegin 0 0 true; REnt 1 5 1; RFeat 1 1 4 2 0 1 4 2; REnd; NBegin 1 1 true; REnt 1 5 1; RFeat 1 1 4 2 0 1 4 2; REnd;
       RBegin 2 true; REnt 0 1 0; REnt 1 5 0] ++ e0 ++ [RFeat 1 1 4 2 0 1 4 2; REnd])%N;
     [Len 6; NBegin 0 0 true; REnt 1 5 2; REnd; NBegin 1 1 true; REnt 1 5 2; REnd; OkDone]%N;
     ([Len 4; NBegin 1 1 true; REnt 1 5 1; RFeat 1 1 4 2 0 1 4 2; REnd; RBegin 1 true; REnt 0 1 0; REnt 1 5 0] ++ e0 ++
      [RFeat 1 1 4 2 0 1 4 2; REnd])%N;
     [OkDone]; [Len 0; OkDone];
     ([Len 1; NoEntity; RBegin 0 true; REnt 0 1 0] ++ e0 ++ [REnd])%N] /\
  strictly_accepted (judge minit sinit (snd (run init ops))) = true /\
  snd (mon minit (During true 1 0 (IRead 2)) [Len 1; NoEntity; Blocked]%N) = [CL_STALL; CL_REPLY].
Proof. vm_compute. repeat split; reflexivity. Qed.

(* ---- descriptions changed after the announcement (SetDescr) ----
   SetDescriptionString on an existing feature, at any point of the history: the tree has the new
   text, hence every later reply and "added" notification must carry it (REPLY / NOTIFY of
   C07_trace_accepted, whose histories contain SetDescr anywhere -- between two reads, between
   RemoveEntity and AddEntity, while reads are pending, on entity 0). *)
Lemma find_id_upd id g l :
  (forall f, f_id (g f) = f_id f) -> find_id id (feats_upd_id id g l) = option_map g (find_id id l).
Proof.
  intros Hg. unfold find_id. induction l as [|f l IH]; simpl; [reflexivity|].
  destruct (N.eqb (f_id f) id) eqn:E; simpl.
  - rewrite Hg, E. reflexivity.
  - rewrite E. exact IH.
Qed.

Theorem C07_setdescr_effect : forall s e fid d o f0,
  assoc_N e (objs s) = Some o -> find_id fid (e_feats o) = Some f0 ->
  snd (step s (SetDescr e fid d)) = [OkDone] /\
  find_id fid (feats_of (fst (step s (SetDescr e fid d))) e) = Some (with_desc f0 (N.succ d)).
Proof.
  intros s e fid d o f0 Ho Hf. unfold step, step_gen, step_base. rewrite Ho, Hf. split; [reflexivity|].
  unfold feats_of. simpl. rewrite assoc_upd_feats, N.eqb_refl, Ho. simpl.
  rewrite find_id_upd by reflexivity. rewrite Hf. reflexivity.
Qed.
Print Assumptions C07_setdescr_effect.

(* Non-vacuity: description 3 set before the first announcement (code 4 in the "added" notification and
   in the read), changed to 7 between two reads (the second read says 8), changed to 2 between
   RemoveEntity and AddEntity (the re-announcement says 3), unknown feature / entity object, and the
   device classification feature of entity 0 (code 6 in the last read).  Shown: per operation the
   (entity, feature, description) of every announced feature. *)
Example C07_nonvacuous_setdescr :
  let ops := [NewEntity 1 5; AddFeature 1 4 2 0 [(11, true, false, false)]%N; Subscribe 0 0; SetDescr 1 1 3; AddEntity 1; Read 1;
              SetDescr 1 1 7; Read 1; RemoveEntity 1; SetDescr 1 1 2; AddEntity 1; SetDescr 1 9 2; SetDescr 4 1 2;
              SetDescr 0 1 5; Read 2] in
  let proj := fun o => match o with RFeat e id _ _ d _ _ _ => [(e, id, d)] | OkDone => [(9, 9, 9)] | _ => [] end%N in
  skipn 3 (map (fun x => flat_map proj (snd x)) (snd (run init ops))) =
    [[(9, 9, 9)]; [(1, 1, 4)]; [(0, 0, 0); (0, 1, 0); (1, 1, 4)]; [(9, 9, 9)]; [(0, 0, 0); (0, 1, 0); (1, 1, 8)]; [];
     [(9, 9, 9)]; [(1, 1, 3)]; []; []; [(9, 9, 9)]; [(0, 0, 0); (0, 1, 6); (1, 1, 3)]]%N /\
  strictly_accepted (judge minit sinit (snd (run init ops))) = true /\
  (* an implementation still announcing the old text after SetDescr is rejected: REPLY *)
  snd (mon (mrun minit (snd (run init (firstn 7 ops)))) (Read 1)
           (nth 5 (map snd (snd (run init ops))) [])) = [CL_REPLY].
Proof. vm_compute. repeat split; reflexivity. Qed.
