(* placeholder while the correspondence is being established *)
From Verif Require Import Base.Prelude Model.LocalTree Spec.TreeSpec.
Example C07_placeholder : strictly_accepted (judge minit sinit (snd (run init [Read 0]))) = true.
Proof. vm_compute. reflexivity. Qed.
