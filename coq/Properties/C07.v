(* C07 — The local device tree is announced faithfully and addressed uniquely.
   Property theorems only; proofs are in Proofs/TreeProofs.v.  The model is
   Model/LocalTree.v (the REPAIRED code: GetOrAddFeature looks again under the entity
   lock before it creates; tied to spine/device_local.go, entity_local.go, entity.go,
   feature_local.go, operations.go, nodemanagement_detaileddiscovery.go by the
   correspondence harness cmd/c07), the property is the trace monitor Spec/TreeSpec.v
   (the same extracted monitor judges the implementation's traces).  Schedules are part
   of the operation list: a concurrent GetOrAddFeature is GLookup t / GCreate t, so
   "forall ops" is "for all histories and all interleavings". *)
From Verif Require Import Base.Prelude Model.LocalTree Spec.TreeSpec Proofs.TreeProofs.

(* Every history, every schedule: every discovery reply is exactly render(current tree)
   (REPLY), every announced address resolves to that feature (RESOLVE), AddEntity /
   RemoveEntity send exactly one partial notification per subscription entry on node
   management with the right content and nothing else (NOTIFY), no feature id is handed
   out twice within an entity (FRESH), GetOrAddFeature returns the one feature of the
   type and role and never creates a second one (SAME).  Nothing is excused. *)
Theorem C07_trace_accepted : forall ops,
  accepted (judge minit sinit (snd (run init ops))) = true.
Proof. exact run_accepted. Qed.
Print Assumptions C07_trace_accepted.

(* every feature of a member entity is what FeatureByAddress returns for its address *)
Theorem C07_resolves : forall ops e f,
  let s := fst (run init ops) in
  In e (members s) -> In f (feats_of s e) -> resolve s e (f_id f) = Some f.
Proof. exact resolves. Qed.
Print Assumptions C07_resolves.

(* feature ids within an entity object are pairwise different and below its generator *)
Theorem C07_ids_unique : forall ops e o,
  let s := fst (run init ops) in
  assoc_N e (objs s) = Some o ->
  NoDup (map f_id (e_feats o)) /\ forall f, In f (e_feats o) -> (f_id f < ctr_of (ctrs s) e)%N.
Proof. exact ids_unique. Qed.
Print Assumptions C07_ids_unique.

(* no (entity, feature id) is handed out twice over a whole history, also after removals
   (ids of dropped duplicate features and of bare NextFeatureId calls included) *)
Theorem C07_ids_never_reused : forall ops, NoDup (m_ids (mrun minit (snd (run init ops)))).
Proof. exact handed_nodup. Qed.
Print Assumptions C07_ids_never_reused.

(* for all schedules: no entity ever holds two features of one type and role (hence "the"
   feature GetOrAddFeature returns, clause SAME of the accepted trace, is one and the same) *)
Theorem C07_get_or_add_sched : forall ops e o,
  assoc_N e (objs (fst (run init ops))) = Some o -> NoDup (map tr_of (e_feats o)).
Proof. exact type_role_unique. Qed.
Print Assumptions C07_get_or_add_sched.

(* The pinned GetOrAddFeature (no second look under the lock): two goroutines both miss,
   both create; they obtain different features and the entity holds two of one type and role. *)
Definition c07_witness : list op :=
  [NewEntity 1 2; GLookup 1 1 4 1; GLookup 2 1 4 1; GCreate 1; GCreate 2; Read 0].
Theorem C07_pinned_get_or_add_refuted :
  exists ops, strictly_accepted (judge minit sinit (snd (run_pinned init ops))) = false.
Proof. exists c07_witness. vm_compute. reflexivity. Qed.
Print Assumptions C07_pinned_get_or_add_refuted.

Example C07_witness_outputs :
  map snd (snd (run_pinned init (firstn 5 c07_witness))) = [[Created]; [Miss]; [Miss]; [GRet 1 true]; [GRet 2 true]]%N /\
  map snd (snd (run init (firstn 5 c07_witness))) = [[Created]; [Miss]; [Miss]; [GRet 1 true]; [GRet 1 false]]%N.
Proof. vm_compute. split; reflexivity. Qed.

(* Non-vacuity: a server feature with functions, a duplicate (type, role) dropped but its id
   consumed, a client feature ignoring functions, a peer subscribed with two features gets two
   notifications, another peer one, reads before and after, removal notification without features. *)
Example C07_nonvacuous :
  let ops := [NewEntity 1 5; AddFeature 1 4 2 3 [(11, true, true, true); (12, true, false, false)]%N;
              AddFeature 1 4 2 0 []; AddFeature 1 5 1 0 [(13, true, true, true)]%N;
              Subscribe 0 0; Subscribe 0 2; Subscribe 1 1; Subscribe 1 1; AddEntity 1; AddEntity 1;
              GetOrAdd 1 4 2; GetOrAdd 1 6 2; AddFunction 1 4 15 true false false; Read 2;
              RemoveEntity 1; Unsubscribe 0 0; NextId 1] in
  let feats1 := [RFeat 1 1 4 2 4 1 4 2; RFn 11 true false true true; RFn 12 true false false false;
                 RFeat 1 3 5 1 0 3 5 1]%N in
  map snd (snd (run init ops)) =
    [[Created]; [FeatId 1]; [FeatId 2]; [FeatId 3];
     [SubRes true]; [SubRes true]; [SubRes true]; [SubRes false];
     ([NBegin 0 0 true; REnt 1 5 1] ++ feats1 ++ [REnd] ++ [NBegin 0 2 true; REnt 1 5 1] ++ feats1 ++ [REnd] ++
      [NBegin 1 1 true; REnt 1 5 1] ++ feats1 ++ [REnd])%N;
     [AlreadyMember]; [GRet 1 false]; [GRet 4 true]; [OkDone];
     ([RBegin 2 true; REnt 0 1 0; REnt 1 5 0;
       RFeat 0 0 1 3 0 0 1 3; RFn 1 true false false false; RFn 2 true false false false; RFn 3 true false false false;
       RFn 4 false false false false; RFn 5 false false false false; RFn 6 true false false false;
       RFn 7 false false false false; RFn 8 false false false false; RFn 9 true false false false;
       RFeat 0 1 2 2 0 1 2 2; RFn 10 true false false false] ++ feats1 ++
      [RFeat 1 4 6 2 1 4 6 2; RFn 15 true false false false; REnd])%N;
     [NBegin 0 0 true; REnt 1 5 2; REnd; NBegin 0 2 true; REnt 1 5 2; REnd; NBegin 1 1 true; REnt 1 5 2; REnd]%N;
     [SubRes true]; [FeatId 5]]%N /\
  strictly_accepted (judge minit sinit (snd (run init ops))) = true.
Proof. vm_compute. split; reflexivity. Qed.
