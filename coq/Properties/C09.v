(* C09 — Bindings: exact registry, at most one binding per server feature.
   Property theorems only; proofs in Proofs/C09Proofs.v (sequential behaviour, Model/Stack.v),
   Proofs/BindSchedProofs.v (two-step AddBinding under all schedules, Model/BindSched.v) and
   Proofs/C09MachineProofs.v (their product, the machine the driver runs).  The models are
   tied to the code by the correspondence harness cmd/c09 (+ harness/stack); the property is
   the pair of trace monitors Spec/C09Spec.v / Spec/BindSchedSpec.v, which also judge the
   implementation's traces. *)
From Verif Require Model.StackX Spec.StackXSpec.
From Verif Require Import Base.Prelude.
From Verif Require Import Model.Stack Spec.StackObs Spec.BindReg Spec.C09Spec Proofs.BindRegProofs Proofs.C09Proofs.
From Verif Require Model.BindSched Spec.BindSchedSpec Proofs.BindSchedProofs.
From Verif Require Model.C09Machine Spec.C09MachineSpec Proofs.C09MachineProofs.

(* For every history of operations (local tree construction, connects, discovery replies and
   notifications, bind / unbind / subscribe / unsubscribe calls by any peers, data changes,
   remote writes, disconnects, listings ...) every step of the model's trace satisfies every
   clause of the monitor: a binding request is answered according to the grant rule (server
   feature exists with server/special role and requested type or Generic, client feature
   exists on that peer with client/special role and matching type, the server feature has no
   binding yet) with exactly one add event; a delete succeeds exactly when it names the
   sender's own announced feature (device defaulted to the sender's), a server feature with
   a server role and a bound pair, removes exactly that pair with exactly one remove event
   and otherwise changes nothing; a listing is exactly the peer's bindings with pairwise
   distinct ids; no binding event on any other operation.  Nothing is excused. *)
Theorem C09_trace_accepted : forall ops, accepted (judge minit (snd (run init ops))) = true.
Proof. exact run_accepted. Qed.
Print Assumptions C09_trace_accepted.

(* at no time does a local server feature have more than one binding (sequential histories) *)
(* The same for histories in which a teardown of peer p is overlapped by a bind / unbind /
   subscribe / unsubscribe call of another peer q (Model/StackX.v [During]) - or a delete call of p
   is, the call of q arriving between the delete's filter and its store; the product machine
   the driver runs (C09_machine_accepted) contains these operations as well. *)
Theorem C09_overlap_trace_accepted : forall xops,
  StackXSpec.xaccepted (StackXSpec.xjudge mon minit (snd (StackX.xrun init xops))) = true.
Proof. exact xrun_accepted. Qed.
Print Assumptions C09_overlap_trace_accepted.

Theorem C09_at_most_one : forall ops sf, (length (bindings_on (fst (run init ops)) sf) <= 1)%nat.
Proof. exact at_most_one. Qed.
Print Assumptions C09_at_most_one.

Theorem C09_ids_distinct : forall ops, NoDup (map e_id (binds (fst (run init ops)))).
Proof. exact ids_distinct. Qed.
Print Assumptions C09_ids_distinct.

(* every binding belongs to a connected peer and to an entity of its current tree *)
Theorem C09_entries_owned : forall ops e, In e (binds (fst (run init ops))) ->
  exists pe en, find_peer (fst (run init ops)) (e_ski e) = Some pe /\ find_rent pe (fa_ent (e_cli e)) = Some en.
Proof. exact entries_owned. Qed.
Print Assumptions C09_entries_owned.

(* a delete leaves every other binding in place: in any state, the registry after a delete call
   is the registry before, or the registry before minus the entries OF THE CALLING CONNECTION on
   the addressed (client address, server feature) pair ([hit_e (p_ski pe) ...]: since the
   by-connection repair of RemoveBinding an entry of another peer is never removed, whatever
   address the call names, also when both peers announce the same device address or none) *)
Theorem C09_delete_exact : forall s p ctr ack c,
  let s1 := fst (step s (BindDelete p ctr ack c)) in
  binds s1 = binds s \/
  exists pe sf, sender_known s p = Some pe /\ local_feature s (rc_srv c) = Some sf /\
    binds s1 = filter (fun x => negb (hit_e (p_ski pe) (default_dev pe (rc_cli c)) sf x)) (binds s).
Proof. exact delete_exact. Qed.
Print Assumptions C09_delete_exact.

(* ---- interleavings: AddBinding as two atomic steps, the schedule is part of [ops] ---- *)

(* for every schedule of any number of concurrent requests (and deletes, listings) the
   repaired code answers every request by the grant rule at the moment it completes *)
Theorem C09_sched_accepted : forall ops,
  BindSchedSpec.accepted (BindSchedSpec.judge BindSchedSpec.minit (snd (BindSched.run BindSched.init ops))) = true.
Proof. exact BindSchedProofs.sched_accepted. Qed.
Print Assumptions C09_sched_accepted.

Theorem C09_at_most_one_sched : forall ops f,
  (length (BindSched.on_feat (fst (BindSched.run BindSched.init ops)) f) <= 1)%nat.
Proof. exact BindSchedProofs.sched_at_most_one. Qed.
Print Assumptions C09_at_most_one_sched.

(* the code as pinned (check and insertion in two critical sections): the schedule
   [T1.check; T2.check; T1.insert; T2.insert] leaves two bindings on one server feature *)
Theorem C09_pinned_refuted :
  exists ops f, length (BindSched.on_feat (fst (BindSched.run_pinned BindSched.init ops)) f) = 2%nat /\
                BindSchedSpec.accepted (BindSchedSpec.judge BindSchedSpec.minit (snd (BindSched.run_pinned BindSched.init ops))) = false.
Proof.
  exists BindSchedProofs.witness, 1%N. split; [exact BindSchedProofs.pinned_two_bindings | exact BindSchedProofs.pinned_rejected].
Qed.
Print Assumptions C09_pinned_refuted.

(* free-running overlap: [Race n q1 q2] = n rounds of two requests of different peers for one
   server feature running through the whole of AddBinding at the same time (no parking), the
   bindings granted in a round deleted again.  The model is the sequential composition; which
   request goes first is irrelevant (same state, same peer-blanked observation), the registry
   is unchanged afterwards, and one round equals "request; request; delete the winner" in both
   orders (BindSchedProofs.race_round_sequential, by computation on two registries and six
   request pairs).  C09_sched_accepted / C09_at_most_one_sched above quantify over histories
   containing Race as well. *)
Theorem C09_race_order_irrelevant : forall s n q1 q2,
  BindSched.step s (BindSched.Race n q1 q2) = BindSched.step s (BindSched.Race n q2 q1).
Proof. exact BindSchedProofs.race_order_irrelevant. Qed.
Print Assumptions C09_race_order_irrelevant.

Theorem C09_race_keeps_registry : forall s n q1 q2,
  BindSched.binds (fst (BindSched.step s (BindSched.Race n q1 q2))) = BindSched.binds s.
Proof. exact BindSchedProofs.race_keeps_registry. Qed.
Print Assumptions C09_race_keeps_registry.

(* one round of a race on an unbound feature IS the sequential composition "request 1; request 2;
   delete pair 1; delete pair 2" (Begin/End of any free thread id), for every state, and
   therefore the same in both orders *)
Theorem C09_race_round_sequential : forall s t q1 q2,
  BindSched.is_parked s t = false -> BindSched.race_ok q1 q2 = true -> BindSched.bound s (BindSched.q_srv q1) = false ->
  BindSchedProofs.seq_state s t q1 q2 = fst (BindSched.step s (BindSched.Race 1 q1 q2)) /\
  BindSchedProofs.seq_state s t q1 q2 = BindSchedProofs.seq_state s t q2 q1.
Proof.
  intros s t q1 q2 H1 H2 H3. split;
    [exact (BindSchedProofs.race_round_general s t q1 q2 H1 H2 H3) | exact (BindSchedProofs.race_round_both_orders s t q1 q2 H1 H2 H3)].
Qed.
Print Assumptions C09_race_round_sequential.

(* the machine the driver runs (product of the two models, judged by both monitors) *)
Theorem C09_machine_accepted : forall ops,
  C09MachineSpec.accepted (C09MachineSpec.cjudge C09MachineSpec.cminit (snd (C09Machine.crun C09Machine.cinit ops))) = true.
Proof. exact C09MachineProofs.machine_accepted. Qed.
Print Assumptions C09_machine_accepted.

(* Non-vacuity: two peers with identical numbering.  Peer 1 binds c1->s1; peer 2's request for
   the bound s1 is refused; peer 1 binds c2->s2; a request with the wrong type is refused;
   peer 1 deletes c1->s1 and keeps c2->s2; now peer 2 gets s1; peer 1's repeated delete is
   refused and peer 2's binding stays. *)
Definition a (d : option N) (e : list N) (f : N) : faddr := {| fa_dev := d; fa_ent := e; fa_feat := Some f |}.
Definition tree (d : N) : disc_msg :=
  {| dm_dev := Some d;
     dm_ents := [ {| de_addr := [0%N]; de_dev := None; de_state := None |}; {| de_addr := [1%N]; de_dev := None; de_state := None |} ];
     dm_feats := [ {| df_ent := [0%N]; df_id := 0; df_type := T_NODEMGMT; df_role := RSpecial |};
                   {| df_ent := [1%N]; df_id := 1; df_type := 1; df_role := RClient |};
                   {| df_ent := [1%N]; df_id := 2; df_type := 2; df_role := RClient |} ] |}.
Definition call (d f sf t : N) : reg_call := {| rc_cli := a (Some d) [1%N] f; rc_srv := a (Some 0%N) [1%N] sf; rc_type := Some t |}.
Definition c09_example : list op :=
  [ AddLocalEntity [1%N]; AddLocalFeature [1%N] 1 RServer; AddLocalFeature [1%N] 2 RServer;
    Connect 1; DiscoveryReply 1 (tree 1); Connect 2; DiscoveryReply 2 (tree 2);
    BindCall 1 11 true (call 1 1 1 1); BindCall 2 21 true (call 2 1 1 1); BindCall 1 12 true (call 1 2 2 2);
    BindCall 1 13 true (call 1 2 1 2);
    BindDelete 1 14 true (call 1 1 1 1); ListBinds 1; BindCall 2 22 true (call 2 1 1 1);
    BindDelete 1 15 true (call 1 1 1 1); ListBinds 2 ].
Example C09_nonvacuous :
  map (fun x => (results (snd x), filter (fun o => match o with OEntry _ _ _ => true | _ => false end) (snd x)))
      (skipn 7 (snd (run init c09_example))) =
    [ ([(1, 11, false)], []); ([(2, 21, true)], []); ([(1, 12, false)], []); ([(1, 13, true)], []);
      ([(1, 14, false)], []); ([], [OEntry 2 (a (Some 0%N) [1%N] 2) (a (Some 1%N) [1%N] 2)]);
      ([(2, 22, false)], []); ([(1, 15, true)], []);
      ([], [OEntry 3 (a (Some 0%N) [1%N] 1) (a (Some 2%N) [1%N] 1)]) ]%N /\
  accepted (judge minit (snd (run init c09_example))) = true.
Proof. vm_compute. split; reflexivity. Qed.

(* By-connection delete: peers 1 and 2 announce THE SAME device address; peer 2 binds c1->s1; peer
   1's delete of exactly that (address-equal) pair is refused and peer 2's binding stays listed;
   peer 2's own delete succeeds. *)
Definition c09_twins : list op :=
  [ AddLocalEntity [1%N]; AddLocalFeature [1%N] 1 RServer;
    Connect 1; DiscoveryReply 1 (tree 1); Connect 2; DiscoveryReply 2 (tree 1);
    BindCall 2 21 true (call 1 1 1 1); BindDelete 1 11 true (call 1 1 1 1); ListBinds 2;
    BindDelete 2 22 true (call 1 1 1 1); ListBinds 2 ].
Example C09_delete_by_connection :
  map (fun x => (results (snd x), filter (fun o => match o with OEntry _ _ _ => true | _ => false end) (snd x)))
      (skipn 6 (snd (run init c09_twins))) =
    [ ([(2, 21, false)], []); ([(1, 11, true)], []);
      ([], [OEntry 1 (a (Some 0%N) [1%N] 1) (a (Some 1%N) [1%N] 1)]);
      ([(2, 22, false)], []); ([], []) ]%N /\
  accepted (judge minit (snd (run init c09_twins))) = true.
Proof. vm_compute. split; reflexivity. Qed.
