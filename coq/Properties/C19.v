(* C19 — Numeric and temporal conversions are exact within their declared precision.
   Property theorems only; proofs are in Proofs/ScaledProofs.v (Flocq binary64 + Reals),
   Proofs/PeriodProofs.v, Proofs/TimeFmtProofs.v (Z arithmetic) and Proofs/ConvProofs.v.
   The model is Model/Conv.v (Scaled.v, Period.v, TimeFmt.v), tied to
   model/commondatatypes_additions.go (with patches/fix-C19-scaled-round.diff) and to
   rickb777/date/period by the correspondence harness cmd/c19; the property is the
   monitor Spec/ConvSpec.v (the same extracted monitor judges the implementation). *)
From Coq Require Import ZArith Reals List Bool Lia Lra.
From Flocq Require Import Core BinarySingleNaN.
From Verif Require Import Base.Prelude Model.Scaled Model.Period Model.TimeFmt Model.Conv Spec.ConvSpec.
From Verif Require Import Proofs.ScaledProofs Proofs.PeriodProofs Proofs.TimeFmtProofs Proofs.ConvProofs.

(* Every list of conversion inputs: each result of the model satisfies every clause of
   the monitor that the scope predicate does not excuse.  Clauses: a decimal k*10^-d
   (d <= 4, |k| < 10^15) is represented exactly and read back closer than half a unit of
   its last place; a finite float of magnitude below 10^14 comes back within 0.0001
   [excused above 10^11]; a multiple of 100 ms is read back exactly [excused from 3277
   days]; a whole-second instant of the years 0..9999 is read back exactly; a relative
   end is read back as the remaining duration to the second [excused from 3277 days]. *)
Theorem C19_trace_accepted_partial : forall ops,
  accepted (judge minit sinit (snd (run init ops))) = true.
Proof. exact run_accepted. Qed.
Print Assumptions C19_trace_accepted_partial.

(* The full statement (nothing excused) is false of the model, as it is of the code:
   71473741656405.6 comes back one ulp (0.0156) away, and 3277 days is written as
   P8Y11M20D, which reads back 6h6m18s short. *)
Definition c19_witness : list op :=
  [OScaled (b64_of_wire 0 4574319466009958 (-6)); ODuration (3277 * NS_DAY)].
Theorem C19_full_refuted : exists ops, strictly_accepted (judge minit sinit (snd (run init ops))) = false.
Proof. exists c19_witness. vm_compute. reflexivity. Qed.
Print Assumptions C19_full_refuted.

(* ---- scaled numbers, in real-number terms ---- *)

(* A decimal with at most four fractional digits: the (number, scale) pair denotes it
   exactly and GetValue returns a float64 closer to it than half a unit of its last
   decimal place.  [dec k d] is the float64 nearest to k*10^-d (Go: the literal). *)
Theorem C19_decimal_roundtrip : forall k d, (0 <= d <= 4)%Z -> (Z.abs k < 10 ^ 15)%Z ->
  let '(n, s) := new_scaled (dec k d) in
  ((s <= 0)%Z /\ (n * 10 ^ d = k * 10 ^ (- s))%Z) /\
  is_finite (get_value n s) = true /\
  (Rabs (B2R (get_value n s) - IZR k / IZR (10 ^ d)) < / 2 * / IZR (10 ^ d))%R.
Proof. exact decimal_roundtrip. Qed.
Print Assumptions C19_decimal_roundtrip.

(* The same statement is false of the pinned tree (math.Trunc): 0.29 -> (28, -2).
   Repaired by patches/fix-C19-scaled-round.diff; the witness stays in the corpus. *)
Theorem C19_pinned_truncation_refuted :
  exists k d, (0 <= d <= 4)%Z /\ (Z.abs k < 10 ^ 15)%Z /\
    let '(n, s) := new_scaled_pinned (dec k d) in (n * 10 ^ d <> k * 10 ^ (- s))%Z.
Proof. exists 29%Z, 2%Z. vm_compute. repeat split; discriminate. Qed.
Print Assumptions C19_pinned_truncation_refuted.

(* Any finite float64: within 0.0001 — proved for |v| <= 10^11. *)
Theorem C19_any_float_partial : forall v : b64, is_finite v = true -> (Rabs (B2R v) <= IZR (10 ^ 11))%R ->
  let '(n, s) := new_scaled v in
  is_finite (get_value n s) = true /\ (Rabs (B2R (get_value n s) - B2R v) <= / 10000)%R.
Proof. exact scaled_near. Qed.
Print Assumptions C19_any_float_partial.

(* The statement of the property text (|v| < 10^14) is false; what is missing between
   10^11 and 10^14 is not a proof but a different algorithm (recorded finding
   scaled-error-exceeds-1e-4). *)
Definition C19_any_float_full : Prop :=
  forall v : b64, is_finite v = true -> (Rabs (B2R v) < IZR (10 ^ 14))%R ->
  let '(n, s) := new_scaled v in (Rabs (B2R (get_value n s) - B2R v) <= / 10000)%R.
Theorem C19_any_float_full_refuted : ~ C19_any_float_full.
Proof.
  intros H. specialize (H (b64_of_wire 0 4574319466009958 (-6)) eq_refl).
  assert (E : new_scaled (b64_of_wire 0 4574319466009958 (-6)) = (714737416564056, -1)%Z) by (vm_compute; reflexivity).
  rewrite E in H.
  assert (Ev : B2R (b64_of_wire 0 4574319466009958 (-6)) = (4574319466009958 / 64)%R).
  { replace (b64_of_wire 0 4574319466009958 (-6)) with (@B754_finite prec emax false 4574319466009958 (-6) eq_refl).
    - unfold B2R, F2R. simpl. lra.
    - apply B2SF_inj. vm_compute. reflexivity. }
  assert (Er : B2R (get_value 714737416564056 (-1)) = (4574319466009959 / 64)%R).
  { replace (get_value 714737416564056 (-1)) with (@B754_finite prec emax false 4574319466009959 (-6) eq_refl).
    - unfold B2R, F2R. simpl. lra.
    - apply B2SF_inj. vm_compute. reflexivity. }
  rewrite Ev, Er in H.
  assert (Hb : (Rabs (4574319466009958 / 64) < IZR (10 ^ 14))%R).
  { rewrite Rabs_pos_eq by lra. change (IZR (10 ^ 14)) with 100000000000000%R. lra. }
  specialize (H Hb).
  replace (4574319466009959 / 64 - 4574319466009958 / 64)%R with (/ 64)%R in H by lra.
  rewrite Rabs_pos_eq in H by lra. lra.
Qed.
Print Assumptions C19_any_float_full_refuted.

(* ---- durations ---- *)

(* every multiple of 100 ms below 3277 days survives NewDurationType / GetTimeDuration *)
Theorem C19_duration : forall ns, Z.rem ns NS_100MS = 0 -> Z.abs ns < 3277 * (24 * NS_HOUR) ->
  get_duration (new_duration ns) = Some ns.
Proof. exact duration_roundtrip. Qed.
Print Assumptions C19_duration.

(* from 3277 days on it does not (recorded finding duration-roundtrip-inexact), and some
   day counts are written as text that cannot be read at all *)
Theorem C19_duration_beyond_refuted :
  get_duration (new_duration (3277 * (24 * NS_HOUR))) = Some (3277 * (24 * NS_HOUR) - 21978 * NS_SECOND) /\
  get_duration (new_duration (37620 * (24 * NS_HOUR))) = None.
Proof. vm_compute. split; reflexivity. Qed.
Print Assumptions C19_duration_beyond_refuted.

(* ---- instants ---- *)

(* the calendar of the model is a bijection on all days, not only the years 0..9999 *)
Theorem C19_calendar_roundtrip : forall z,
  let '(y, m, d) := civil_from_days z in days_from_civil y m d = z.
Proof. exact civil_roundtrip. Qed.
Print Assumptions C19_calendar_roundtrip.

Theorem C19_instant : forall sec, UNIX_YEAR_0 <= sec < UNIX_YEAR_10000 ->
  get_time (new_datetime sec 0) = Some sec.
Proof. exact instant_roundtrip. Qed.
Print Assumptions C19_instant.

(* ---- relative end of a time period ---- *)

(* json.Unmarshal at clock t0 of a relative end [dur], json.Marshal at clock t1: the
   relative end written is a whole number of seconds within one second of dur - (t1 - t0) *)
Theorem C19_relative_end : forall dur t0 t1,
  Z.rem dur NS_100MS = 0 -> Z.abs dur + Z.abs (t1 - t0) + NS_SECOND < DUR_LIMIT ->
  end_in_range (t0 + dur) = true ->
  exists e t r, snd (step tt (ORelEnd 0 dur t0 t1)) = [RelEnd e t (Some r)] /\
    Z.rem r NS_SECOND = 0 /\ Z.abs (r - (dur - (t1 - t0))) <= NS_SECOND.
Proof. exact relative_end_json. Qed.
Print Assumptions C19_relative_end.

(* NewTimePeriodTypeWithRelativeEndTime(dur) at t0, GetDuration() at t1: any duration *)
Theorem C19_relative_end_direct : forall variant dur t0 t1, variant <> 0 -> end_in_range (t0 + dur) = true ->
  exists e r, snd (step tt (ORelEnd variant dur t0 t1)) = [RelDirect e r] /\
    Z.rem r NS_SECOND = 0 /\ Z.abs (r - (dur - (t1 - t0))) <= NS_SECOND.
Proof. exact relative_end_direct. Qed.
Print Assumptions C19_relative_end_direct.

(* Non-vacuity: one input of each kind with the exact observations, strictly accepted:
   0.29 -> (29,-2) -> 0.29; 1h0m0.5s -> PT1H0.5S -> the same; 2024-02-29T12:00:00Z;
   a relative end of 90.5 s stored at ...:00.6 and read 30.2 s later -> PT1M. *)
Example C19_nonvacuous :
  let ops := [ODecimal 29 2; ODuration 3600500000000; OInstant 1709208000 0;
              ORelEnd 0 90500000000 1709208000600000000 1709208030800000000] in
  map (fun x => map print_obs (snd x)) (snd (run init ops)) =
    [[[1] ++ wire_of_b64 (dec 29 2) ++ [29; -2] ++ wire_of_b64 (dec 29 2)];
     [[2] ++ ptext_wire {| t_neg := false; t_y := 0; t_mo := 0; t_w := 0; t_d := 0; t_h := 10; t_mi := 0; t_s := 5 |} ++ zopt (Some 3600500000000)];
     [[3] ++ dtext_wire {| d_y := 2024; d_mo := 2; d_d := 29; d_h := 12; d_mi := 0; d_s := 0 |} ++ zopt (Some 1709208000)];
     [[4] ++ dtext_wire {| d_y := 2024; d_mo := 2; d_d := 29; d_h := 12; d_mi := 1; d_s := 31 |}
          ++ ptext_wire {| t_neg := false; t_y := 0; t_mo := 0; t_w := 0; t_d := 0; t_h := 0; t_mi := 10; t_s := 0 |} ++ zopt (Some 60000000000)]] /\
  strictly_accepted (judge minit sinit (snd (run init ops))) = true.
Proof. vm_compute. split; reflexivity. Qed.
