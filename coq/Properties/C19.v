(* C19 — placeholder while the pipeline is brought up (replaced below). *)
From Verif Require Import Base.Prelude Model.Scaled Model.Conv Spec.ConvSpec.
Example C19_pinned_truncation_witness :
  new_scaled_pinned (dec 29 2) = (28, -2) /\ new_scaled (dec 29 2) = (29, -2).
Proof. vm_compute. split; reflexivity. Qed.
Print Assumptions C19_pinned_truncation_witness.
