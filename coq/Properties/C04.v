(* C04 — Write-protected elements; remote writes are all-or-nothing.
   Property theorems only; proofs are in Proofs/WriteProofs.v and Proofs/WriteRun.v (on top
   of the C02 development).  The model is Model/Update.v with remoteWrite = true
   (model/update.go + collection_operations.go with patches/fix-C04-merge-addressed-items-only.diff,
   fix-C04-keep-writecheck-flag.diff, fix-C04-delete-addressed-items-only.diff,
   fix-C02-selector-update-all-matches.diff) under Model/FunctionStore.v
   (spine/function_data.go with patches/fix-C11-functiondata-update-on-copy.diff), tied to the
   code by the correspondence harness cmd/c04 (FunctionData.UpdateData and the FeatureLocal write
   path of a bound peer); the property is the monitor Spec/WriteSpec.v (the same extracted
   monitor judges the implementation's traces). *)
From Coq Require Import List ZArith NArith Bool.
From Verif Require Import Base.Prelude Model.Schema Model.Update Model.FunctionStore Model.WriteStore Spec.UpdateSpec Spec.WriteSpec.
From Verif Require Import Proofs.UpdateBasics Proofs.UpdateRefine Proofs.UpdateStep Proofs.UpdateRun Proofs.WriteProofs Proofs.WriteRun Proofs.WriteOverlap.
From Verif Require Import Gen.GenSchemas.

(* Every history of Init / Update (local set-up updates and remote writes of every shape:
   full, partial with identifiers, partial without identifiers, selector, delete with
   selector and/or elements, delete combined with partial; accepted, rejected, panicking) /
   Snapshot: at every remote write, with [pre] the data before and [post] the data after,
     PROTECTED   every element of pre whose flag is not true is in post as it was,
     FLAG        every element of post has the flag of the element of pre with its identifier,
     UNADDRESSED every element of pre the write does not address is in post as it was,
     ACCEPT      success only if every addressed element is changeable; an error only if an
                 addressed element is not changeable or the write names an unknown identifier,
     ERR         an error (or a panic) leaves post = pre,
     OK          success leaves post = the write applied to pre (all of its changes)
   — for every clause the scope does not excuse.  Excused: PROTECTED, FLAG and ACCEPT at a
   full (filter-less) remote write (recorded finding); everything once the data or a write is
   ill-formed (C02's recorded findings) until a well-formed full local update.
   Histories may also contain [Overlap w l]: the remote write w released together with a local
   update l of the same function on another goroutine (Model/WriteStore.v).  For the pairs that
   commute (identified partial updates naming disjoint identifiers, C04_overlap_commutes) the
   answer to the write obeys ACCEPT and the data afterwards is what the two updates give one after
   the other (OVERLAP): neither is lost or undone, the write changed nothing it does not address
   although the application changed other elements at the same time. *)
Theorem C04_trace_accepted_partial : forall ops,
  accepted (wojudge wminit wsinit (snd (wrun init ops))) = true.
Proof. exact worun_accepted. Qed.
Print Assumptions C04_trace_accepted_partial.

(* the same for histories without overlapping updates, as first stated *)
Theorem C04_sequential_trace_accepted_partial : forall ops,
  accepted (wjudge wminit wsinit (snd (run init ops))) = true.
Proof. exact wrun_accepted. Qed.
Print Assumptions C04_sequential_trace_accepted_partial.

(* The overlapped pair commutes: whichever of the two takes effect first, the write gets the same
   answer, the local update succeeds, and the resulting data hold the same element under every
   identifier (both lists are well-formed and ordered). *)
Theorem C04_overlap_commutes : forall s w l, insc s -> overlap_ok (sch s) w l = true ->
  let '(a, cw, cl) := write_then_local s w l in
  let '(b, cw', cl') := local_then_write s w l in
  cw = cw' /\ cl = Res 0 /\ cl' = Res 0 /\ insc a /\ insc b /\
  forall k, lfind (sch s) k (storel a) = lfind (sch s) k (storel b).
Proof. exact overlap_commutes. Qed.
Print Assumptions C04_overlap_commutes.

(* ---- the unscoped statement is false of the faithful model, as it is of the code ---- *)

(* type 6 = deviceConfigurationKeyValueListData: fields (keyId, value, isValueChangeable),
   identifier = field 0, flag = field 2 (value number 1 = true, 0 = false) *)
Definition kv (id v : N) (flag : option N) : item := [Some id; Some v; flag].
Definition local_full (l : list item) : op := Update false true false {| u_new := l; u_fp := None; u_fd := None |}.
Definition remote (l : list item) (fp fd : option flt) : op := Update true true true {| u_new := l; u_fp := fp; u_fd := fd |}.
Definition partial : option flt := Some {| f_sel := None; f_elems := None |}.
Definition selk (v : N) : option flt := Some {| f_sel := Some [Some v]; f_elems := None |}.

Definition wviolates (c : Z) (ops : list op) : bool :=
  existsb (fun ve => memZ c (fst ve)) (wjudge wminit wsinit (snd (run init ops))).

(* a full remote write replaces the protected element 1 and its flag, and is accepted *)
Definition c04_witness_full : list op :=
  [Init 6 false; local_full [kv 1 5 (Some 0); kv 2 6 (Some 1)]; remote [kv 1 7 (Some 1); kv 2 8 (Some 1)] None None]%N.

Theorem C04_full_refuted : exists ops, strictly_accepted (wjudge wminit wsinit (snd (run init ops))) = false.
Proof. exists c04_witness_full. vm_compute. reflexivity. Qed.
Print Assumptions C04_full_refuted.
Theorem C04_protected_refuted : exists ops, wviolates CL_PROTECTED ops = true.
Proof. exists c04_witness_full. vm_compute. reflexivity. Qed.
Theorem C04_flag_refuted : exists ops, wviolates CL_FLAG ops = true.
Proof. exists c04_witness_full. vm_compute. reflexivity. Qed.
Theorem C04_accept_refuted : exists ops, wviolates CL_ACCEPT ops = true.
Proof. exists c04_witness_full. vm_compute. reflexivity. Qed.
Print Assumptions C04_accept_refuted.

(* ---- the explicit statements a reader expects (one remote write that is not a full write) ---- *)

Section OneWrite.
  Variables (sch : schema) (l : list item) (u : upd).
  Hypothesis Hwf : wf_schema sch = true.
  Hypothesis Hl : lwf sch l.                       (* complete, pairwise distinct identifiers *)
  Hypothesis Ho : ordered sch l = true.
  Hypothesis Hu : wf_update sch false u = true.   (* the write is well-formed (as in C02) *)

  (* The engine accepts the write iff every element it addresses is changeable and (identified
     writes) every identifier it names exists; an accepted write yields exactly the write
     specification: delete filter, then selector / identifier-less / by-identifier data, every
     flag kept. *)
  Theorem C04_write_is_spec : forall d ok,
    update_list sch true l (u_new u) (u_fp u) (u_fd u) = Ok (d, ok) ->
    let l2 := if okdel sch (u_fd u) l then spec_del sch (u_fd u) l else l in
    ok = okdel sch (u_fd u) l && (okdat sch (u_fp u) (u_new u) l2 && negb (nu sch (u_fp u) (u_new u) l2)) /\
    (ok = true -> d = spec_write sch false u l).
  Proof. intros d ok. exact (remote_write sch Hwf l u d ok Hl Ho Hu). Qed.

  (* clause 1: protected elements survive unchanged, no flag changes *)
  Theorem C04_protected : forall d,
    update_list sch true l (u_new u) (u_fp u) (u_fd u) = Ok (d, true) ->
    (forall y, In y l -> changeable sch y = false -> In y d) /\
    (forall z, In z d -> exists y, In y l /\ key_of sch z = key_of sch y /\ eqb_flag sch y z = true).
  Proof.
    intros d H. destruct (remote_write sch Hwf l u d true Hl Ho Hu H) as [Hok Hd]. cbv zeta in Hok. rewrite (Hd eq_refl).
    symmetry in Hok. apply andb_true_iff in Hok. destruct Hok as [Hk1 Hk2]. rewrite Hk1 in Hk2. apply andb_true_iff in Hk2. destruct Hk2 as [Hk2 _].
    split.
    - intros y Hy Hc. apply (K1 sch l u y Hy). apply (K2 sch l u y Hk1 Hk2 Hy Hc).
    - intros z Hz. apply (K3 sch Hwf l u Hl Ho Hu z Hz).
  Qed.

  (* clause 2, first half: elements the write does not address do not change *)
  Theorem C04_unaddressed_unchanged : forall d,
    update_list sch true l (u_new u) (u_fp u) (u_fd u) = Ok (d, true) ->
    forall y, In y l -> addressed sch false u y = false -> In y d.
  Proof.
    intros d H y Hy Ha. destruct (remote_write sch Hwf l u d true Hl Ho Hu H) as [_ Hd]. rewrite (Hd eq_refl). apply (K1 sch l u y Hy Ha).
  Qed.

  (* clause 2, second half: acceptance is decided by the addressed elements — accepted only if
     all of them are changeable, rejected only because one of them is not or because an
     identifier the write names does not exist *)
  Theorem C04_acceptance_by_addressed : forall d ok,
    update_list sch true l (u_new u) (u_fp u) (u_fd u) = Ok (d, ok) ->
    (ok = true -> forall y, In y l -> addressed sch false u y = true -> changeable sch y = true) /\
    (ok = false -> (exists y, In y l /\ addressed sch false u y = true /\ changeable sch y = false) \/
                   names_unknown sch u (spec_del sch (u_fd u) l) = true).
  Proof.
    intros d ok H. destruct (remote_write sch Hwf l u d ok Hl Ho Hu H) as [Hok _]. cbv zeta in Hok. split.
    - intros ->. symmetry in Hok. apply andb_true_iff in Hok. destruct Hok as [Hk1 Hk2]. rewrite Hk1 in Hk2. apply andb_true_iff in Hk2. destruct Hk2 as [Hk2 _].
      intros y Hy Ha. destruct (changeable sch y) eqn:Ec; [reflexivity|]. rewrite (K2 sch l u y Hk1 Hk2 Hy Ec) in Ha. discriminate.
    - intros ->. symmetry in Hok. pose proof (K4 sch Hwf l u Hl Hu Hok) as HK. apply orb_true_iff in HK. destruct HK as [HK|HK]; [left | right; exact HK].
      apply existsb_exists in HK. destruct HK as [y [Hy Hp]]. apply andb_true_iff in Hp. destruct Hp as [Ha Hc]. apply negb_true_iff in Hc.
      exists y. auto.
  Qed.
End OneWrite.
Print Assumptions C04_write_is_spec.
Print Assumptions C04_protected.
Print Assumptions C04_unaddressed_unchanged.
Print Assumptions C04_acceptance_by_addressed.

(* Clause 1 and the first half of clause 2 do not depend on the stored list being well-formed: a remote
   write that takes the Merge / SortData path of the engine (partial write with identifiers, delete-only
   write, their combination), if accepted, keeps every element that is protected or that it does not
   address — also when the stored list repeats an identifier or holds elements without identifier (set
   up by the application, or by a peer's selector write whose data rewrites an identifier). *)
Theorem C04_kept_on_any_list : forall sch l u d,
  wf_schema sch = true -> weak_shape sch u = true ->
  update_list sch true l (u_new u) (u_fp u) (u_fd u) = Ok (d, true) ->
  forall y, In y l -> (changeable sch y = false \/ addressed sch false u y = false) -> In y d.
Proof. intros sch l u d Hwf. exact (weak_write sch Hwf l u d). Qed.
Print Assumptions C04_kept_on_any_list.

(* clause 3 at the level of the store (FunctionData.UpdateData with the update-on-copy repair):
   a write that is not answered with success leaves the store exactly as it was; a write answered
   with success stores the engine's result (which is [spec_write] by C04_write_is_spec) *)
Theorem C04_error_leaves_data : forall s u s1 c rest,
  negb (direct s) && is_full true u = false ->
  update_data s true true u = (s1, Res c :: rest) -> c <> 0%N -> s1 = s.
Proof.
  intros s u s1 c rest Hf H Hc. unfold update_data in H. rewrite Hf in H.
  destruct (update_list (sch s) true _ (u_new u) (u_fp u) (u_fd u)) as [[d [|]]|]; inversion H; subst; [contradiction | reflexivity | reflexivity].
Qed.
Print Assumptions C04_error_leaves_data.

Theorem C04_success_applies_all : forall s u s1 rest,
  negb (direct s) && is_full true u = false ->
  wf_schema (sch s) = true -> lwf (sch s) (storel s) -> ordered (sch s) (storel s) = true -> wf_update (sch s) false u = true ->
  update_data s true true u = (s1, Res 0 :: rest) ->
  store s1 = Some (spec_write (sch s) false u (storel s)).
Proof.
  intros s u s1 rest Hf Hwf Hl Ho Hu H. unfold update_data in H. rewrite Hf in H.
  change (match store s with Some l => l | None => [] end) with (storel s) in H.
  destruct (update_list (sch s) true (storel s) (u_new u) (u_fp u) (u_fd u)) as [[d [|]]|] eqn:E; inversion H; subst.
  destruct (remote_write (sch s) Hwf _ u d true Hl Ho Hu E) as [_ Hd]. rewrite (Hd eq_refl). reflexivity.
Qed.
Print Assumptions C04_success_applies_all.

(* the three types with a flag on this tree have well-formed schemas with exactly one boolean flag field *)
Theorem C04_flagged_types :
  map (fun p => fst p) (filter (fun p => negb (Nat.eqb (length (s_wc (snd p))) 0)) (combine (seq 0 (length all_schemas)) all_schemas)) = [6; 26; 57]%nat /\
  forallb (fun s => wf_schema s || Nat.eqb (length (s_keys s)) 0) all_schemas = true.
Proof. vm_compute. split; reflexivity. Qed.
Print Assumptions C04_flagged_types.

(* ---- non-vacuity: protected, changeable and flag-less elements; every write shape; accepted
   and rejected writes; in scope at every step (nothing excused), strictly accepted ---- *)
Example C04_nonvacuous :
  let ops := [Init 6 false;
              local_full [kv 1 10 (Some 0); kv 2 20 (Some 1); kv 3 30 None; kv 4 40 (Some 1)];
              remote [kv 2 21 (Some 0)] partial None;                     (* by identifier: accepted, flag kept *)
              remote [kv 1 11 None] partial None;                         (* names protected 1: rejected *)
              remote [kv 2 22 None; kv 5 50 None] partial None;           (* names unknown 5: rejected, 2 untouched *)
              remote [[None; Some 23; None]] (selk 2) None;               (* selector: accepted *)
              remote [[None; Some 33; None]] (selk 3) None;               (* selector on flag-less 3: rejected *)
              remote [[None; Some 99; None]] partial None;                (* no identifier = all elements: rejected *)
              remote [] None (selk 4);                                    (* delete changeable 4: accepted *)
              remote [] None (selk 1);                                    (* delete protected 1: rejected *)
              remote [] None (Some {| f_sel := Some [Some 2]; f_elems := Some [false; true; true] |}); (* clear value (and flag: kept) of 2 *)
              Snapshot]%N in
  let tr := snd (run init ops) in
  strictly_accepted (wjudge wminit wsinit tr) = true /\
  strictly_accepted (wojudge wminit wsinit (snd (wrun init (map Seq ops)))) = true /\
  forallb (fun ve => match snd ve with [] => true | _ => false end) (wjudge wminit wsinit tr) = true /\
  map (fun oo => match snd oo with Res c :: _ => Some c | _ => None end) tr =
    [None; Some 0; Some 0; Some 1; Some 1; Some 0; Some 1; Some 1; Some 0; Some 1; Some 0; None]%N /\
  store (fst (run init ops)) = Some [kv 1 10 (Some 0); [Some 2; None; Some 1]; kv 3 30 None]%N.
Proof. vm_compute. repeat split; reflexivity. Qed.

(* non-vacuity of the overlap operation: a write to changeable element 2 overlapped by a local
   update of element 4 and a new element 5 (accepted, both visible), then a write to protected
   element 1 overlapped by a local update of element 2 (rejected, the local update visible); in
   scope, nothing excused, strictly accepted *)
Definition local_part (l : list item) : upd := {| u_new := l; u_fp := partial; u_fd := None |}.
Example C04_overlap_nonvacuous :
  let ops := [Seq (Init 6 false);
              Seq (local_full [kv 1 10 (Some 0); kv 2 20 (Some 1); kv 4 40 (Some 1)]);
              Overlap (local_part [kv 2 21 None]) (local_part [kv 4 41 None; kv 5 50 (Some 1)]);
              Overlap (local_part [kv 1 11 None]) (local_part [kv 2 22 None])]%N in
  let tr := snd (wrun init ops) in
  strictly_accepted (wojudge wminit wsinit tr) = true /\
  forallb (fun ve => match snd ve with [] => true | _ => false end) (wojudge wminit wsinit tr) = true /\
  map (fun oo => match snd oo with Res c :: Res c' :: _ => Some (c, c') | _ => None end) tr =
    [None; None; Some (0, 0); Some (1, 0)]%N /\
  store (fst (wrun init ops)) = Some [kv 1 10 (Some 0); kv 2 22 (Some 1); kv 4 41 (Some 1); kv 5 50 (Some 1)]%N.
Proof. vm_compute. repeat split; reflexivity. Qed.
