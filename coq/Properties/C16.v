(* C16 — Heartbeat: monotone, periodic, stoppable.
   Property theorems only; proofs are in Proofs/HeartbeatProofs.v.  The model is Model/Heartbeat.v
   (the repaired HeartbeatManager as atomic steps between the yield hooks, tied to
   spine/heartbeat_manager.go by the correspondence harness cmd/c16), the property is the trace
   monitor Spec/HeartbeatSpec.v (the same extracted monitor judges the implementation's traces).

   Runtime, not proved (measured by the harness with tolerances): the wall-clock period of the
   ticker, "current" timestamps, the start of goroutines, which ready branch select takes. *)
From Verif Require Import Base.Prelude Gen.GenConsts Model.Heartbeat Spec.HeartbeatSpec Proofs.HeartbeatProofs.

(* The period of the ticker for an announced timeout t (milliseconds in the model, nanoseconds
   in the code): positive and never above the announced timeout, including the "minus two
   seconds above two seconds" rule. *)
Theorem C16_period : forall t, 0 < t -> 0 < period t <= t.
Proof. exact period_bounds. Qed.
Print Assumptions C16_period.

Theorem C16_period_ns : forall d, 0 < d -> 0 < period_ns d <= d.
Proof. exact period_ns_bounds. Qed.
Print Assumptions C16_period_ns.

Theorem C16_period_rule : forall t,
  (heartbeat_threshold_ms < t -> period t = t - heartbeat_subtract_ms) /\
  (t <= heartbeat_threshold_ms -> period t = t) /\
  period_ns (t * 1000000) = period t * 1000000.
Proof. intros t. split; [apply period_above|split; [apply period_upto|apply period_ns_ms]]. Qed.
Print Assumptions C16_period_rule.

(* threshold and subtrahend are regenerated from spine/heartbeat_manager.go on every run
   (Gen/GenConsts.v); on this tree: "minus 2 s above 2 s".  The bounds above are re-proved for
   whatever the source says now: a subtrahend above the threshold breaks [consts_ok]. *)
Example C16_period_constants_on_this_tree : heartbeat_threshold_ms = 2000 /\ heartbeat_subtract_ms = 2000.
Proof. split; reflexivity. Qed.

(* Every history and every interleaving (the schedule is part of [ops]: Call / Resume / Tick):
   the monitor accepts every step with nothing excused — no panic, strictly increasing
   counters, one notify per refresh exactly when the peer is subscribed, never a second stream
   started while one is running, a stopped stream never refreshes again (the monitor would
   tolerate one in-flight refresh; at the model's granularity the check of the stop channel and
   the refresh are one step under c.mux), the running stream refreshes at every tick,
   IsHeartbeatRunning is exact when no other call is in progress, the data is the last refresh. *)
Theorem C16_sched_accepted : forall ops,
  strictly_accepted (judge minit sinit (snd (run init ops))) = true.
Proof. exact run_strict. Qed.
Print Assumptions C16_sched_accepted.

Theorem C16_trace_accepted : forall ops,
  accepted (judge minit sinit (snd (run init ops))) = true.
Proof. exact run_accepted. Qed.
Print Assumptions C16_trace_accepted.

(* Start and stop may be called from any goroutines in any order without panicking or getting stuck: no step of any
   history under any schedule observes a panic (close of a closed or nil channel, nil feature) or a Stuck call or stream. *)
Theorem C16_no_panic : forall ops,
  forallb (fun x => negb (has_panic (snd x))) (snd (run init ops)) = true.
Proof. exact run_no_panic. Qed.
Print Assumptions C16_no_panic.

(* Starting again never produces two concurrent streams: in every reachable state at most one
   stream has an open stop channel, and it is the channel the manager holds (so StopHeartbeat
   reaches it: no unstoppable stream). *)
Theorem C16_one_live_stream : forall ops,
  let s := fst (run init ops) in
  forall g1 g2, In g1 (streams s) -> In g2 (streams s) ->
    memN g1 (closed s) = false -> memN g2 (closed s) = false -> g1 = g2 /\ cur s = Some g1.
Proof. exact one_live_stream. Qed.
Print Assumptions C16_one_live_stream.

(* Stoppable: in every reachable state in which no call is parked, a StopHeartbeat or a
   RemoveEntity run to completion leaves nothing running and leaves counter and data alone; and
   while nothing is running a tick of any stream exits or is not realisable, so the data stays
   unchanged until the next start. *)
Theorem C16_stop_then_silence : forall ops t c g,
  let s := fst (run init ops) in
  hold s = None -> (c = CStop \/ c = CRemoveEntity) ->
  let s2 := fst (step_resume (fst (step_call s t c)) t) in
  running s2 = false /\ counter s2 = counter s /\ data s2 = data s /\
  (forall s3, SI s3 -> running s3 = false ->
     snd (step_tick s3 g) = [Exited] \/ snd (step_tick s3 g) = [NotRunnable]).
Proof.
  intros ops t c g s Hh Hc. pose proof (stop_completes s t c (run_si ops) Hh Hc) as [H1 [_ [H2 H3]]].
  repeat split; auto. intros s3 H3' Hr. apply tick_when_stopped; assumption.
Qed.
Print Assumptions C16_stop_then_silence.

(* ---- the code as found ([run_pinned]): the schedule theorem is false of it ---- *)

(* two stops pass the running check before either closes: the second close panics *)
Definition c16_w_double_close : list op :=
  [Call 0 CAddFn; Resume 0; Call 1 CStop; Call 2 CStop; Resume 1; Resume 2].
(* two overlapping starts: the first stream's channel is overwritten, two streams run, one cannot be stopped *)
Definition c16_w_two_streams : list op :=
  [Call 0 CAddFn; Resume 0; Call 1 CStop; Resume 1; Call 1 CStart; Call 2 CStart; Resume 1; Resume 2;
   Tick 1; Tick 1; Call 3 CStop; Resume 3; Tick 1; Tick 1].
(* StartHeartbeat before any feature: the stream dereferences the nil feature at its first tick *)
Definition c16_w_no_feature : list op := [Call 0 CStart; Resume 0; Tick 0].
(* select takes the ticker although the stream was stopped: refreshes after the stop returned *)
Definition c16_w_stale_tick : list op :=
  [Call 0 CAddFn; Resume 0; Call 1 CStop; Resume 1; Tick 0; Tick 0].

Theorem C16_pinned_refuted :
  violated (judge minit sinit (snd (run_pinned pinit c16_w_double_close))) = [CL_PANIC] /\
  violated (judge minit sinit (snd (run_pinned pinit c16_w_two_streams))) = [CL_STREAMS; CL_STREAMS; CL_SILENCE] /\
  violated (judge minit sinit (snd (run_pinned pinit c16_w_no_feature))) = [CL_PANIC] /\
  violated (judge minit sinit (snd (run_pinned pinit c16_w_stale_tick))) = [CL_SILENCE].
Proof. vm_compute. repeat split; reflexivity. Qed.
Print Assumptions C16_pinned_refuted.

Theorem C16_pinned_sched_refuted :
  exists ops, strictly_accepted (judge minit sinit (snd (run_pinned pinit ops))) = false.
Proof. exists c16_w_double_close. vm_compute. reflexivity. Qed.
Print Assumptions C16_pinned_sched_refuted.

(* what the pinned witnesses observe, step by step (compared with the unrepaired code by the runner) *)
Example C16_pinned_double_close_trace :
  map snd (snd (run_pinned pinit c16_w_double_close)) =
    [[Refreshed 1 0 true 100; Parked 2]; [Started 0; Done]; [Parked 1]; [Parked 1]; [Done]; [Panic 1]]%N.
Proof. vm_compute. reflexivity. Qed.

(* the same schedules on the repaired model: the second stop blocks and finds nothing to close, the
   second start waits and then stops the first start's stream *)
Example C16_repaired_witness_traces :
  map snd (snd (run init c16_w_double_close)) =
    [[Refreshed 1 0 true 100; Parked 2]; [Started 0; Done]; [Parked 1]; [Blocked]; [Done; Acquired 2; Done];
     [NotRunnable]]%N /\
  map snd (snd (run init (firstn 9 c16_w_two_streams))) =
    [[Refreshed 1 0 true 100; Parked 2]; [Started 0; Done]; [Parked 1]; [Done]; [Parked 2]; [Blocked];
     [Started 1; Done; Acquired 2; Parked 1]; [Parked 2]; [Exited]]%N /\
  map snd (snd (run init c16_w_no_feature)) = [[ErrNoFeature]; [NotRunnable]; [NotRunnable]].
Proof. vm_compute. repeat split; reflexivity. Qed.

(* Non-vacuity: a history with a subscribed peer, ticks, a real-time run, a blocked IsHeartbeatRunning,
   a restart, RemoveEntity and a later start; every step accepted strictly. *)
Example C16_nonvacuous :
  let ops := [Setup 300; Sub; Call 0 CAddFn; Resume 0; Call 1 CIsRunning; Tick 0; Run 0 3; Call 1 CStop;
              Call 2 CIsRunning; Resume 1; Tick 0; Read; Call 1 CStart; Resume 1; Tick 1;
              Call 1 CRemoveEntity; Resume 1; Tick 1; Read] in
  map snd (snd (run init ops)) =
    [[Ready]; [SubR true]; [Refreshed 1 1 true 300; Parked 2]; [Started 0; Done]; [RetB true];
     [Refreshed 2 1 true 300];
     [Refreshed 3 1 true 300; Refreshed 4 1 true 300; Refreshed 5 1 true 300; Timing 300 0];
     [Parked 1]; [Blocked]; [Done; Acquired 2; RetB false]; [Exited]; [Data (Some 5%N)];
     [Parked 2]; [Started 1; Done]; [Refreshed 6 1 true 300]; [Parked 1]; [Done]; [Exited];
     [Data (Some 6%N)]]%N /\
  strictly_accepted (judge minit sinit (snd (run init ops))) = true.
Proof. vm_compute. split; reflexivity. Qed.

(* Rapid restarts (operation Burst: k StartHeartbeat calls with nobody parked in between, then n refreshes of
   whatever runs): the sequential composition of k starts leaves exactly one stream, the last one; the k-1
   earlier streams exit at their next tick; the schedule theorem above covers Burst for every k, n and state. *)
Example C16_burst_trace :
  let ops := [Setup 100; Sub; Call 0 CAddFn; Resume 0; Burst 0 3 4; Tick 0; Tick 2; Tick 3; Call 1 CStop; Resume 1;
              Tick 3; Read; Burst 1 2 2; Call 0 CIsRunning] in
  map snd (snd (run init ops)) =
    [[Ready]; [SubR true]; [Refreshed 1 1 true 100; Parked 2]; [Started 0; Done];
     [Bursted 3 1 false 5 4 true]; [Exited]; [Exited]; [Refreshed 6 1 true 100]; [Parked 1]; [Done];
     [Exited]; [Data (Some 6%N)]; [Bursted 5 1 false 8 2 true]; [RetB true]]%N /\
  strictly_accepted (judge minit sinit (snd (run init ops))) = true.
Proof. vm_compute. split; reflexivity. Qed.

(* Configured timeouts that are not multiples of 100 ms: the announced timeout is the configured one truncated
   to tenths of a second (DurationType text), and the ticker is derived from the announced text, so the period
   never exceeds what is announced — in particular 2.05 s is announced as 2 s and then runs every 2 s (2 s is
   not above the threshold), 190 ms is announced and run as 100 ms. *)
Theorem C16_period_of_configured : forall t, 100 <= t ->
  0 < period (announced t) <= announced t /\ announced t <= t /\ t - announced t < 100.
Proof.
  intros t H. pose proof (announced_bounds t H) as [[H1 H2] [_ H3]].
  split; [apply period_bounds; lia|]. split; assumption.
Qed.
Print Assumptions C16_period_of_configured.

Example C16_period_near_threshold :
  period (announced 2050) = 2000 /\ period (announced 2090) = 2000 /\ period (announced 2100) = 100 /\
  period (announced 190) = 100 /\ period (announced 4050) = 2000.
Proof. vm_compute. repeat split; reflexivity. Qed.

(* First use of a fresh entity's heartbeat (operation First, exercised by the runner with the two calls released
   together on fresh entities): AddFunctionType(heartbeat) and the entity's first other access compose
   sequentially, in either order, to the same situation — a running heartbeat that IsHeartbeatRunning reports,
   that one StopHeartbeat stops, and whose data then stays the last refresh.  (With StartHeartbeat as the other
   access: refused before the feature exists, a restart after it; either way one running stream.) *)
Definition c16_after_first_use (first : list op) : list op :=
  first ++ [Call 2 CIsRunning; Tick 0; Tick 1; Call 2 CStop; Resume 2; Call 2 CIsRunning; Tick 0; Tick 1; Read].

Definition c16_first_use_ok (first : list op) : bool :=
  let ops := c16_after_first_use first in
  let tr := map snd (snd (run init ops)) in
  let n := length first in
  (* right after the first use: running, and the one live stream refreshes *)
  match skipn n tr with
  | [RetB true] :: rest =>
      existsb (fun o => match o with [Refreshed 2 _ _ _] => true | _ => false end) (firstn 2 rest) &&
      (* after the stop: not running, no refresh any more, the data is the last refresh *)
      match skipn 4 rest with
      | [[RetB false]; t0; t1; [Data (Some 2%N)]] =>
          forallb (fun o => match o with [Exited] | [NotRunnable] => true | _ => false end) [t0; t1]
      | _ => false
      end
  | _ => false
  end && negb (running (fst (run init ops))) && strictly_accepted (judge minit sinit (snd (run init ops))).

Example C16_first_use_orders :
  c16_first_use_ok [Call 0 CAddFn; Resume 0; Call 1 CIsRunning] = true /\
  c16_first_use_ok [Call 1 CIsRunning; Call 0 CAddFn; Resume 0] = true /\
  c16_first_use_ok [Call 0 CAddFn; Resume 0; Call 1 CStart; Resume 1; Resume 1] = true /\
  c16_first_use_ok [Call 1 CStart; Call 0 CAddFn; Resume 0] = true.
Proof. vm_compute. repeat split; reflexivity. Qed.
