(* C06 — The remote device tree converges to what the peer announced.
   Property theorems only; proofs are in Proofs/DiscoveryProofs.v.  The model is
   Model/Discovery.v (tied to spine/nodemanagement_detaileddiscovery.go and
   spine/device_remote.go, with patches/fix-C06-*.diff applied, by the correspondence
   harness cmd/c06); the property is Spec/DiscoverySpec.v: [apply ideal] says what
   an announcement does to the previous tree, the trace monitor [mon] (the same
   extracted monitor judges the implementation's traces) compares everything the API
   reports after each operation with it. *)
From Verif Require Import Base.Prelude Model.Discovery Spec.DiscoverySpec Proofs.DiscoveryProofs.
Open Scope N_scope.

(* Refinement, all histories: the transcription of the Go code — the per-entry
   loop of processNotifyDetailedDiscoveryData over the diff that
   provideDetailedDiscoveryDiffForFullNotify builds, AddEntityAndFeatures,
   RemoveEntityByAddress, the three-part cascade, the removal loop of the reply —
   computes, state and every output, what the declarative [spec_step recorded]
   says (announcements applied in order; [recorded] = the two recorded findings). *)
Theorem C06_refinement : forall ops, run init ops = spec_run recorded init ops.
Proof. intros ops. apply run_refines. apply Inv_init. Qed.
Print Assumptions C06_refinement.

(* Every history: each step of the model's trace satisfies every clause of the
   monitor that the scope does not excuse. *)
Theorem C06_trace_accepted_partial : forall ops,
  accepted (judge minit sinit (snd (run init ops))) = true.
Proof. exact run_accepted. Qed.
Print Assumptions C06_trace_accepted_partial.

(* ... and the only clauses ever violated are "entity type kept" and "full
   notification ignores a known entity": entity addresses, entity events, the
   cascade on the registries, other peers and the registry calls are exact on
   every history, without any excuse. *)
Theorem C06_addresses_events_cascade_never_violated : forall ops,
  Forall (fun ve => forall c, In c (fst ve) -> c = CL_TYPE \/ c = CL_CONTENT)
         (judge minit sinit (snd (run init ops))).
Proof.
  intros ops. eapply Forall_impl; [|apply (judge_only_excusable ops init [] Inv_init)].
  intros ve H c Hc. apply excusable_cases. apply H. exact Hc.
Qed.
Print Assumptions C06_addresses_events_cascade_never_violated.

(* One accepted message, spelled out (state reached by any history; the message
   comes from a peer whose NodeManagement feature resolves).  With
   (t', changes) = apply ideal k (previous tree) m:
   - converges: the reported entity addresses are those of t' (and the reported tree
     is exactly [apply recorded]: C06_refinement);
   - events: exactly one entity event per change, in order (after the device event of a reply);
   - cascade: the registries afterwards hold exactly the previous entries (plus the
     stack's own NodeManagement subscription after a reply) that do not belong to an
     entity of this peer that disappeared — nothing else is removed, nothing is kept;
   - other peers are untouched. *)
Theorem C06_message_exact : forall ops p k m pr,
  let s := fst (run init ops) in
  get_peer s p = Some pr -> source_resolves (p_tree pr) = true ->
  let s' := fst (step s (Msg p k m)) in
  let tc := apply ideal k (p_tree pr) m in
  exists pr',
    get_peer s' p = Some pr' /\
    p_tree pr' = fst (apply recorded k (p_tree pr) m) /\
    map e_addr (p_tree pr') = map e_addr (fst tc) /\
    p_known pr' = (p_known pr || is_reply k)%bool /\
    snd (step s (Msg p k m)) = OSnap s' :: (if is_reply k then [EvDevice p] else []) ++ map (ev_of p) (snd tc) /\
    (forall x, In x (s_reg s') <->
               (In x (s_reg s) \/ (k = KReply /\ x = nm_entry p)) /\
               ~ (r_peer x = p /\ In (r_addr x) (gone (snd tc)))) /\
    (forall q, q <> p -> get_peer s' q = get_peer s q).
Proof. intros ops p k m pr s. apply message_step_exact. apply Inv_run. apply Inv_init. Qed.
Print Assumptions C06_message_exact.

(* The recorded finding "a full notification ignores what it says about known entities"
   is confined to full notifications: on a reply or a partial notification the content
   clause (descriptions, features, roles, operations) is never excused, whatever happened before. *)
Theorem C06_content_excused_only_on_full : forall sc p k m,
  k <> KFull -> ~ In CL_CONTENT (excuses (scope sc (Msg p k m))).
Proof.
  intros sc p k m Hk H. unfold excuses, scope in H. cbn [sc_ex] in H. apply filter_In in H. destruct H as [H _].
  exact (content_excused_only_on_full (sc_st sc) p k m Hk H).
Qed.
Print Assumptions C06_content_excused_only_on_full.

(* "Exactly one event for each entity that actually appeared or disappeared": a change is
   recorded by [apply] only where membership of the address flips (by construction of
   [announce] / [retract]); globally, for every address, the number of appeared-events
   minus the number of disappeared-events of one message is (is in the new tree) -
   (was in the previous tree) — together with C06_message_exact (events = the changes). *)
Theorem C06_events_balance : forall k t m a,
  (b2n (known a t) + cnt (is_app a) (snd (apply ideal k t m)) =
   b2n (known a (fst (apply ideal k t m))) + cnt (is_dis a) (snd (apply ideal k t m)))%nat.
Proof. intros k t m a. exact (balanced_apply ideal k t m a). Qed.
Print Assumptions C06_events_balance.

(* A datagram whose source (feature 0 of entity [0]) does not resolve in the remote
   device is dropped by the dispatcher: nothing changes, nothing is published. *)
Theorem C06_message_dropped : forall ops p k m,
  let s := fst (run init ops) in
  (get_peer s p = None \/ exists pr, get_peer s p = Some pr /\ source_resolves (p_tree pr) = false) ->
  step s (Msg p k m) = (s, [OSnap s]).
Proof. intros ops p k m s. apply message_dropped. apply Inv_run. apply Inv_init. Qed.
Print Assumptions C06_message_dropped.

(* Another peer's subscription / binding request call that is delivered (on a second
   goroutine) while this peer's entities are being removed: the registries serialise it
   after the cascade, so the operation is the message followed by the call — afterwards
   the registries are the cascade's result plus the other peer's entry, and the monitor's
   cascade clause ("... and nothing else") judges the implementation on exactly that. *)
Theorem C06_call_during_removal_is_sequential : forall s p k m p' kd a fid,
  p <> p' -> kd = K_SUB \/ kd = K_BIND ->
  step s (MsgDuring p k m p' kd a fid) =
  (let '(s1, out1) := step s (Msg p k m) in
   let '(s2, out2) := step s1 (RegAdd p' kd a fid) in
   (s2, OSnap s2 :: tl out1 ++ tl out2)).
Proof.
  intros s p k m p' kd a fid Hp Hk. cbn [step]. unfold call_after.
  apply N.eqb_neq in Hp. rewrite Hp. cbn [orb].
  assert (E : negb (N.eqb kd K_SUB || N.eqb kd K_BIND) = false) by (destruct Hk as [-> | ->]; reflexivity).
  rewrite E. destruct (handle_msg s p k m) as [s1 evs]. destruct (reg_add s1 p' kd a fid) as [s2 ok]. reflexivity.
Qed.
Print Assumptions C06_call_during_removal_is_sequential.

(* every reachable tree has one entity per address *)
Theorem C06_addresses_unique : forall ops, unique_addresses (fst (run init ops)).
Proof. intros ops. apply unique_run; [apply Inv_init|apply unique_init]. Qed.
Print Assumptions C06_addresses_unique.

(* ---- the full statement (nothing excused) is false of the faithful model *)

Definition e_ (a : addr) (ty : N) (s : option N) : ment := {| me_addr := a; me_type := ty; me_descr := None; me_state := s |}.
Definition f_ (a : addr) (id ro : N) : mfeat :=
  {| mf_ent := a; mf_id := id; mf_type := 2; mf_role := ro; mf_descr := None; mf_ops := [(2, Some 4)] |}.
Definition nm_ : mfeat := {| mf_ent := [0]; mf_id := 0; mf_type := 0; mf_role := 2; mf_descr := None; mf_ops := [] |}.
Definition reply01 : dmsg :=
  {| d_devinfo := true; d_ents := [e_ [0] 0 None; e_ [1] 1 None]; d_feats := [nm_; f_ [1] 1 0] |}.

(* a known address announced with another entity type keeps its old type *)
Definition c06_witness_type : list op :=
  [Msg 0 KReply reply01;
   Msg 0 KPartial {| d_devinfo := true; d_ents := [e_ [1] 3 (Some ST_ADDED)]; d_feats := [f_ [1] 1 0] |}].
(* a full notification announcing a second feature for the known entity [1] is ignored for [1] *)
Definition c06_witness_full : list op :=
  [Msg 0 KReply reply01;
   Msg 0 KFull {| d_devinfo := true; d_ents := [e_ [0] 0 None; e_ [1] 1 None; e_ [2] 2 None];
                  d_feats := [nm_; f_ [1] 1 0; f_ [1] 2 1; f_ [2] 1 1] |}].

Theorem C06_full_refuted :
  (exists ops, strictly_accepted (judge minit sinit (snd (run init ops))) = false) /\
  map fst (judge minit sinit (snd (run init c06_witness_type))) = [[]; [CL_TYPE]] /\
  map fst (judge minit sinit (snd (run init c06_witness_full))) = [[]; [CL_CONTENT]].
Proof. split; [exists c06_witness_type|split]; vm_compute; reflexivity. Qed.
Print Assumptions C06_full_refuted.

(* ---- the pinned loops (before patches/fix-C06-notify-entry-own-state.diff):
   {[2] added, [1] removed} on {[0],[1]} leaves {[0]} and publishes add [2], remove [2],
   remove [1]; the repaired loop leaves {[0],[2]} and publishes add [2], remove [1]. *)
Definition mixed_ : dmsg :=
  {| d_devinfo := true; d_ents := [e_ [2] 2 (Some ST_ADDED); e_ [1] 1 (Some ST_REMOVED)]; d_feats := [f_ [2] 1 0] |}.

Theorem C06_pinned_mixed_refuted :
  let t := p_tree (s0 (fst (run init [Msg 0 KReply reply01]))) in
  map e_addr t = [[0]; [1]] /\
  (let '(t', _, evs) := process_entries_pinned 0 true t [] (d_ents mixed_) (d_ents mixed_) (d_feats mixed_) in
   map e_addr t' = [[0]] /\ evs = [EvEntity 0 true [2]; EvEntity 0 false [2]; EvEntity 0 false [1]]) /\
  (let '(t', _, evs) := process_entries 0 true t [] (d_ents mixed_) (d_feats mixed_) in
   map e_addr t' = [[0]; [2]] /\ evs = [EvEntity 0 true [2]; EvEntity 0 false [1]]).
Proof. vm_compute. repeat split; reflexivity. Qed.
Print Assumptions C06_pinned_mixed_refuted.

(* Non-vacuity: two peers with the same entity addresses, peer 0's entity [1] holds a
   subscription, a binding and is subscribed to by the local client, peer 1's entity [1]
   holds a subscription; one notification of peer 0 adds [2] and [1,1] and removes [1]:
   tree, events and registries are exact, the monitor accepts every step strictly. *)
Example C06_nonvacuous :
  let reply1 := {| d_devinfo := true; d_ents := [e_ [0] 0 None; e_ [1] 1 None]; d_feats := [nm_; f_ [1] 1 0] |} in
  let note := {| d_devinfo := false;
                 d_ents := [e_ [2] 2 (Some ST_ADDED); e_ [1] 1 (Some ST_REMOVED); e_ [1;1] 3 (Some ST_ADDED); e_ [3] 4 (Some ST_REMOVED)];
                 d_feats := [f_ [2] 1 1; f_ [1;1] 1 0; f_ [1;1] 2 1] |} in
  let ops := [Msg 0 KReply reply01; Msg 1 KReply reply1;
              RegAdd 0 K_SUB [1] 1; RegAdd 0 K_BIND [1] 1; RegAdd 0 K_CSUB [1] 1; RegAdd 1 K_SUB [1] 1;
              Msg 0 KPartial note] in
  let s := fst (run init ops) in
  map e_addr (p_tree (s0 s)) = [[0]; [2]; [1;1]] /\
  map e_addr (p_tree (s1 s)) = [[0]; [1]] /\
  s_reg s = [{| r_peer := 1; r_kind := K_SUB; r_addr := [1]; r_fid := 1 |}; nm_entry 0; nm_entry 1] /\
  tl (snd (step (fst (run init (removelast ops))) (Msg 0 KPartial note))) =
    [EvEntity 0 true [2]; EvEntity 0 false [1]; EvEntity 0 true [1;1]] /\
  strictly_accepted (judge minit sinit (snd (run init ops))) = true.
Proof. vm_compute. repeat split; reflexivity. Qed.
