(* C03 — a remote write takes effect only with binding and write permission.
   Property theorems only; proofs in Proofs/C03Proofs.v (+ Proofs/BindRegProofs.v,
   Proofs/StackInv.v).  Model: Model/Stack.v (tied to the code by the correspondence harness
   cmd/c03 + harness/stack); the property is the trace monitor Spec/C03Spec.v, which also
   judges the implementation's traces. *)
From Verif Require Import Base.Prelude Model.Stack Spec.StackObs Spec.BindReg Spec.C03Spec
  Proofs.BindRegProofs Proofs.C03Proofs.
From Verif Require Import Model.StackX Spec.StackXSpec.

(* For every history of operations (local tree construction with read-only and writable
   functions, connects, discovery replies and notifications, bind / unbind calls, local data
   changes, writes by any peers, disconnects, reconnects, reads ...) every step of the
   model's trace satisfies every clause of the monitor:
   - a write whose function is not announced writable on the addressed feature, or whose
     writer (announced address) holds no binding to it in the registry of observed grants
     minus observed revocations (unbind, disconnect, entity removal), is answered by exactly
     one error result, notifies nobody and publishes no data-change event;
   - a write by a feature that is not announced by a connected peer causes nothing at all;
   - an authorised write of a function the feature type supports is accepted (exactly one
     data-change event naming writer and feature, success result iff requested);
   - every ReadData returns the value produced by local SetData and authorised writes only.
   Nothing is excused. *)
Theorem C03_trace_accepted : forall ops, accepted (judge minit (snd (run init ops))) = true.
Proof. exact run_accepted. Qed.
Print Assumptions C03_trace_accepted.

(* The same for histories in which a teardown of peer p is overlapped by a bind / unbind /
   subscribe / unsubscribe call of another peer q (Model/StackX.v [During]). *)
Theorem C03_overlap_trace_accepted : forall xops, xaccepted (xjudge mon minit (snd (xrun init xops))) = true.
Proof. exact xrun_accepted. Qed.
Print Assumptions C03_overlap_trace_accepted.

(* authorisation follows the binding registry immediately: after every history the binding test
   of the write gate equals the test against the monitor's registry, which is a function of
   the observed grants and revocations only *)
Theorem C03_follows_registry : forall ops lf writer,
  has_binding (fst (run init ops)) lf writer = bound (auth (mfinal minit (snd (run init ops)))) lf writer.
Proof. exact gate_follows_registry. Qed.
Print Assumptions C03_follows_registry.

(* the gate in any state: an unauthorised write of an announced writer leaves the whole state
   (data, registries, trees) unchanged and yields exactly one error result, nothing else *)
Theorem C03_gate : forall s p ctr ack src dst fn v pe en rf lf,
  find_peer s p = Some pe -> remote_feature pe src = Some (en, rf) -> local_feature s dst = Some lf ->
  writable lf fn && has_binding s lf (rf_addr en rf) = false ->
  step s (Write p ctr ack src dst fn v) = (s, [result_to p ctr true src dst (Some LOCAL_DEV)]).
Proof. exact gate_closed. Qed.
Print Assumptions C03_gate.

(* a write changes local data only if the function is writable and the writer is bound *)
Theorem C03_only_if : forall s p ctr ack src dst fn v,
  lfeats (fst (step s (Write p ctr ack src dst fn v))) <> lfeats s ->
  exists pe en rf lf, find_peer s p = Some pe /\ remote_feature pe src = Some (en, rf) /\ local_feature s dst = Some lf /\
                      writable lf fn = true /\ has_binding s lf (rf_addr en rf) = true.
Proof. exact data_change_authorised. Qed.
Print Assumptions C03_only_if.

Theorem C03_unannounced_writer : forall s p ctr ack src dst fn v,
  (forall pe, find_peer s p = Some pe -> remote_feature pe src = None) ->
  step s (Write p ctr ack src dst fn v) = (s, []).
Proof. exact unannounced_dropped. Qed.
Print Assumptions C03_unannounced_writer.

(* the identification of features by address, made explicit: if the client addresses in the
   registry determine their connection (connected peers announce distinct device addresses),
   the gate's test "an entry with the writer's address exists on the feature" is the test "the
   writer's connection holds that entry" *)
Theorem C03_by_connection : forall s lf writer p,
  (forall x, In x (binds s) -> e_cli x = writer -> e_ski x = p) ->
  has_binding s lf writer =
  existsb (fun x => same_srv x lf && N.eqb (e_ski x) p && eqb_faddr (e_cli x) writer) (binds s).
Proof. exact gate_by_connection. Qed.
Print Assumptions C03_by_connection.

(* Non-vacuity: two peers with identical numbering, one writable (1) and one read-only (2)
   function.  Unbound write refused; after the grant accepted (data 71); the other peer and the
   read-only function refused (data stays 71); refused again after unbind; accepted after a new
   grant; silent after the writer's entity was removed; peer 2 binds and writes (77), silent
   after its disconnect. *)
Definition a (d : option N) (e : list N) (f : N) : faddr := {| fa_dev := d; fa_ent := e; fa_feat := Some f |}.
Definition tree (d : N) : disc_msg :=
  {| dm_dev := Some d;
     dm_ents := [ {| de_addr := [0%N]; de_dev := None; de_state := None |}; {| de_addr := [1%N]; de_dev := None; de_state := None |} ];
     dm_feats := [ {| df_ent := [0%N]; df_id := 0; df_type := T_NODEMGMT; df_role := RSpecial |};
                   {| df_ent := [1%N]; df_id := 1; df_type := 1; df_role := RClient |} ] |}.
Definition gone : disc_msg :=
  {| dm_dev := Some 1%N; dm_ents := [ {| de_addr := [1%N]; de_dev := None; de_state := Some SRemoved |} ]; dm_feats := [] |}.
Definition call (d : N) : reg_call := {| rc_cli := a (Some d) [1%N] 1; rc_srv := a (Some 0%N) [1%N] 1; rc_type := Some 1%N |}.
Definition wr (p ctr v : N) (fn : N) : op := Write p ctr true (a (Some p) [1%N] 1) (a (Some 0%N) [1%N] 1) fn v.
Definition c03_example : list op :=
  [ AddLocalEntity [1%N]; AddLocalFeature [1%N] 1 RServer; AddFunction [1%N] 1 1 true true; AddFunction [1%N] 1 2 true false;
    Connect 1; DiscoveryReply 1 (tree 1); Connect 2; DiscoveryReply 2 (tree 2);
    SetData [1%N] 1 1 5;
    wr 1 11 70 1; ReadData [1%N] 1 1;
    BindCall 1 12 true (call 1);
    wr 1 13 71 1; ReadData [1%N] 1 1;
    wr 2 21 72 1; wr 1 14 73 2; ReadData [1%N] 1 1;
    BindDelete 1 15 true (call 1); wr 1 16 74 1;
    BindCall 1 17 true (call 1); wr 1 18 75 1; DiscoveryNotify 1 19 false gone; wr 1 20 76 1;
    BindCall 2 22 true (call 2); wr 2 23 77 1; Disconnect 2; wr 2 24 78 1; ReadData [1%N] 1 1 ].
Example C03_nonvacuous :
  map (fun x => (results (snd x), existsb is_ev_data (snd x), filter (fun o => match o with ORetN _ => true | _ => false end) (snd x)))
      (skipn 9 (snd (run init c03_example))) =
    [ ([(1, 11, true)], false, []); ([], false, [ORetN 5]);
      ([(1, 12, false)], false, []); ([(1, 13, false)], true, []); ([], false, [ORetN 71]);
      ([(2, 21, true)], false, []); ([(1, 14, true)], false, []); ([], false, [ORetN 71]);
      ([(1, 15, false)], false, []); ([(1, 16, true)], false, []);
      ([(1, 17, false)], false, []); ([(1, 18, false)], true, []); ([], false, []); ([], false, []);
      ([(2, 22, false)], false, []); ([(2, 23, false)], true, []); ([], false, []); ([], false, []);
      ([], false, [ORetN 77]) ]%N /\
  accepted (judge minit (snd (run init c03_example))) = true.
Proof. vm_compute. split; reflexivity. Qed.
