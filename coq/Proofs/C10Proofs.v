(* C10 — teardown of one peer or entity never leaks into another: the theorems over all
   histories of Model/Stack.v, assembled from Proofs/C10Core.v (registries, connection set,
   teardown events, silence, listings, fan-out, Resolve — unconditional) and
   Proofs/C10Client.v (client-side bookkeeping — while device addresses identify
   connections), and the explicit frame corollaries. *)
From Verif Require Import Base.Prelude Model.Stack Spec.StackObs Spec.C10Spec
  Proofs.StackLemmas Proofs.StackInv Proofs.C10Events Proofs.C10Core Proofs.C10Client.
From Verif Require Import Model.StackX Spec.StackXSpec Proofs.StackXProofs.

(* ================================================================ monitor + scope along a run *)
Record Full (s : st) (m : mst) (sc : sst) : Prop := {
  f_inv : Inv s m;
  f_sw : sw sc = s;
  f_client : oos sc = false -> CInv s (cref m)
}.

Lemma full_init : Full init minit sinit.
Proof. constructor; [exact inv_init | reflexivity | intros _; exact cinv_init]. Qed.

Lemma client_part_only m o out : forall c, In c (client_part m o out) -> c = CL_CLIENT.
Proof.
  destruct o; cbn [client_part]; try (intros x []); unfold check; destruct (answers _ _);
    intros x []; auto; contradiction.
Qed.

Lemma full_step s m sc o : Full s m sc ->
  let '(m1, v) := mon m o (snd (step s o)) in
  Full (fst (step s o)) m1 (scope sc o) /\
  (oos (scope sc o) = false -> v = []) /\ (forall c, In c v -> c = CL_CLIENT).
Proof.
  intros [I Hsw Hc]. pose proof (core_step s m o I) as Hcore.
  pose proof (client_step s m o I) as Hcl.
  destruct (mon m o (snd (step s o))) as [m1 v] eqn:Em. destruct Hcore as [I1 Hv].
  assert (Hsc : oos (scope sc o) = false ->
                oos sc = false /\ addr_event s o = false /\ addr_ok (fst (step s o)) = true).
  { unfold scope. simpl. rewrite Hsw. intros H. apply orb_false_iff in H. destruct H as [H H3].
    apply orb_false_iff in H. destruct H as [H1 H2]. apply negb_false_iff in H3. auto. }
  split; [|split].
  - constructor; [exact I1 | unfold scope; simpl; rewrite Hsw; reflexivity|].
    intros H. destruct (Hsc H) as [H1 [H2 H3]]. destruct (Hcl (Hc H1) H2 H3) as [C1 _].
    simpl in C1. exact C1.
  - intros H. destruct (Hsc H) as [H1 [H2 H3]]. destruct (Hcl (Hc H1) H2 H3) as [_ E]. rewrite Hv. exact E.
  - rewrite Hv. apply client_part_only.
Qed.

Lemma excused_client v : (forall c, In c v -> c = CL_CLIENT) -> excused v [CL_CLIENT] = true.
Proof.
  intros H. unfold excused. apply forallb_forall. intros c Hc. rewrite (H c Hc). reflexivity.
Qed.

Theorem run_accepted_from ops : forall s m sc, Full s m sc -> accepted (judge m sc (snd (run s ops))) = true.
Proof.
  induction ops as [|o ops IH]; intros s m sc F; [reflexivity|].
  simpl. pose proof (full_step s m sc o F) as Hs.
  destruct (step s o) as [s1 out]. destruct (run s1 ops) as [s2 tr] eqn:Er. simpl in *.
  destruct (mon m o out) as [m1 v]. destruct Hs as [F1 [Hin Hout]]. simpl.
  specialize (IH s1 m1 (scope sc o) F1). rewrite Er in IH. simpl in IH. unfold accepted in *. simpl. rewrite IH, andb_true_r.
  unfold excuses. destruct (oos (scope sc o)) eqn:E.
  - apply excused_client. exact Hout.
  - rewrite (Hin E). reflexivity.
Qed.

Theorem run_accepted ops : accepted (judge minit sinit (snd (run init ops))) = true.
Proof. apply run_accepted_from. exact full_init. Qed.

(* nothing but the client-bookkeeping clause is ever violated, in or out of scope *)
Definition only_client (j : list (verdict * list Z)) : bool :=
  forallb (fun ve => forallb (Z.eqb CL_CLIENT) (fst ve)) j.

Theorem run_only_client_from ops : forall s m sc, Full s m sc -> only_client (judge m sc (snd (run s ops))) = true.
Proof.
  induction ops as [|o ops IH]; intros s m sc F; [reflexivity|].
  simpl. pose proof (full_step s m sc o F) as Hs.
  destruct (step s o) as [s1 out]. destruct (run s1 ops) as [s2 tr] eqn:Er. simpl in *.
  destruct (mon m o out) as [m1 v]. destruct Hs as [F1 [_ Hout]]. simpl.
  specialize (IH s1 m1 (scope sc o) F1). rewrite Er in IH. simpl in IH. unfold only_client in *. simpl. rewrite IH, andb_true_r.
  apply forallb_forall. intros c Hc. rewrite (Hout c Hc). reflexivity.
Qed.

Theorem run_only_client ops : only_client (judge minit sinit (snd (run init ops))) = true.
Proof. apply run_only_client_from. exact full_init. Qed.

(* while device addresses identify connections nothing at all is violated *)
Definition scope_run (sc : sst) (ops : list op) : sst := fold_left scope ops sc.

Lemma oos_mono ops : forall sc, oos sc = true -> oos (scope_run sc ops) = true.
Proof.
  induction ops as [|o ops IH]; intros sc H; [exact H|]. simpl. apply IH. unfold scope. simpl. rewrite H. reflexivity.
Qed.

Theorem run_strict_in_scope_from ops : forall s m sc, Full s m sc ->
  oos (scope_run sc ops) = false -> strictly_accepted (judge m sc (snd (run s ops))) = true.
Proof.
  induction ops as [|o ops IH]; intros s m sc F Hfin; [reflexivity|].
  simpl in Hfin. simpl. pose proof (full_step s m sc o F) as Hs.
  destruct (step s o) as [s1 out]. destruct (run s1 ops) as [s2 tr] eqn:Er. simpl in *.
  destruct (mon m o out) as [m1 v]. destruct Hs as [F1 [Hin _]]. simpl.
  specialize (IH s1 m1 (scope sc o) F1 Hfin). rewrite Er in IH. simpl in IH. unfold strictly_accepted in *. simpl. rewrite IH, andb_true_r.
  destruct (oos (scope sc o)) eqn:E; [rewrite (oos_mono ops _ E) in Hfin; discriminate|].
  rewrite (Hin E). reflexivity.
Qed.

Theorem run_strict_in_scope ops :
  oos (scope_run sinit ops) = false -> strictly_accepted (judge minit sinit (snd (run init ops))) = true.
Proof. apply run_strict_in_scope_from. exact full_init. Qed.

(* ================================================================ reachable states *)
Lemma run_full ops : forall s m sc, Full s m sc -> exists m' sc', Full (fst (run s ops)) m' sc'.
Proof.
  induction ops as [|o ops IH]; intros s m sc F; [exists m, sc; exact F|].
  simpl. pose proof (full_step s m sc o F) as Hs.
  destruct (step s o) as [s1 out]. simpl in Hs. destruct (mon m o out) as [m1 v]. destruct Hs as [F1 _].
  destruct (IH s1 m1 (scope sc o) F1) as [m' [sc' F']]. destruct (run s1 ops) as [s2 tr]. exists m', sc'. exact F'.
Qed.

Lemma reachable_inv ops : exists m, Inv (fst (run init ops)) m.
Proof. destruct (run_full ops init minit sinit full_init) as [m [sc F]]. exists m. exact (f_inv _ _ _ F). Qed.

Lemma reachable_regok ops : RegOK (fst (run init ops)).
Proof. exact (si_ok _ (sinv_run ops init sinv_init)). Qed.

(* ================================================================ explicit corollaries: removing a connection *)
Definition entries_of (q : N) (l : list entry) : list entry := filter (fun x => N.eqb (e_ski x) q) l.

(* everything the stack holds for peer q: its tree, its subscriptions and bindings (with ids) *)
Definition view (s : st) (q : N) : option peer * list entry * list entry :=
  (find_peer s q, entries_of q (subs s), entries_of q (binds s)).

Lemma entries_of_not_of p q l : q <> p -> entries_of q (not_of p l) = entries_of q l.
Proof.
  intros Hq. unfold entries_of, not_of. rewrite filter_filter. apply filter_ext'. intros x.
  destruct (N.eqb_spec (e_ski x) p) as [E|E]; simpl; [|reflexivity].
  destruct (N.eqb_spec (e_ski x) q); [congruence | reflexivity].
Qed.

Lemma entries_of_drop p g q l : q <> p -> entries_of q (drop p g l) = entries_of q l.
Proof.
  intros Hq. unfold entries_of, drop. rewrite filter_filter. apply filter_ext'. intros x.
  destruct (N.eqb_spec (e_ski x) p) as [E|E]; simpl; [|reflexivity].
  destruct (N.eqb_spec (e_ski x) q); [congruence | apply andb_false_r].
Qed.

Theorem device_teardown_exact ops p :
  let s := fst (run init ops) in let s' := fst (step s (Disconnect p)) in
  subs s' = filter (fun x => negb (N.eqb (e_ski x) p)) (subs s) /\
  binds s' = filter (fun x => negb (N.eqb (e_ski x) p)) (binds s) /\
  next_sub s' = next_sub s /\ next_bind s' = next_bind s /\
  find_peer s' p = None /\ lents s' = lents s /\
  lfeats s' = match find_peer s p with
              | Some pe => match p_addr pe with
                           | Some d => map (clean_f (keep_dev d)) (lfeats s)
                           | None => lfeats s
                           end
              | None => lfeats s
              end.
Proof.
  intros s s'. pose proof (disconnect_spec s p (reachable_regok ops)) as Hd.
  pose proof (disconnect_lfeats s p) as Hl.
  unfold s'. cbn [step]. destruct (disconnect s p) as [s0 evs]. cbn [fst] in *.
  destruct Hd as [[H1 H2 H3 H4] [_ [Hnone [_ [_ [_ Hle]]]]]]. repeat split; assumption.
Qed.

Theorem device_teardown_frame ops p q : q <> p ->
  let s := fst (run init ops) in view (fst (step s (Disconnect p))) q = view s q.
Proof.
  intros Hq s. pose proof (disconnect_spec s p (reachable_regok ops)) as Hd.
  cbn [step]. destruct (disconnect s p) as [s0 evs]. cbn [fst].
  destruct Hd as [[H1 _ H3 _] [_ [_ [Hother _]]]].
  unfold view. rewrite H1, H3, (Hother q Hq), !entries_of_not_of by exact Hq. reflexivity.
Qed.

(* removing connection p removes, from what any data change sends, exactly the notifications to p *)
Theorem device_teardown_served ops p sf fn v :
  let s := fst (run init ops) in
  notify_subscribers (fst (step s (Disconnect p))) sf fn v =
  filter (fun o => match dgram_to o with Some k => negb (N.eqb k p) | None => true end) (notify_subscribers s sf fn v).
Proof.
  intros s. pose proof (disconnect_spec s p (reachable_regok ops)) as Hd.
  cbn [step]. destruct (disconnect s p) as [s0 evs]. cbn [fst].
  destruct Hd as [[H1 _ _ _] _]. unfold notify_subscribers. rewrite H1. unfold not_of.
  rewrite filter_map_comm. simpl. f_equal. rewrite !filter_filter. apply filter_ext'. intros x. apply andb_comm.
Qed.

(* the removed device resolves neither by SKI nor — unless another connection announces the same
   address — by address *)
Theorem device_teardown_unresolvable ops p :
  let s := fst (run init ops) in let s' := fst (step s (Disconnect p)) in
  find_peer s' p = None /\
  forall d, peer_by_addr s' d = find (fun x => eqb_optN (p_addr x) (Some d)) (filter (fun x => negb (N.eqb (p_ski x) p)) (peers s)).
Proof.
  intros s s'. split; [exact (proj1 (proj2 (proj2 (proj2 (proj2 (device_teardown_exact ops p))))))|].
  intros d. unfold s', peer_by_addr. cbn [step]. unfold disconnect.
  destruct (find_peer s p) as [pe|] eqn:Ep.
  - rewrite remove_all_unfold.
    pose proof (fold_F1 pe (p_ents pe) s [] quiet_evs_nil) as H1.
    destruct (fold_left (F1 pe) (p_ents pe) (s, [])) as [s1 ev1].
    destruct H1 as [_ [Hp1 [_ [_ Hq1]]]].
    pose proof (fold_F2 pe (p_ents pe) s1 ev1 Hq1) as H2.
    destruct (fold_left (F2 pe) (p_ents pe) (s1, ev1)) as [s2 ev2].
    destruct H2 as [_ [Hp2 _]]. cbn [fst].
    match goal with |- context [clean_device_caches ?s3 ?a] => destruct (clean_device_caches_frame s3 a) as [_ [Hp4 _]] end.
    rewrite Hp4. simpl peers. rewrite Hp2, Hp1. reflexivity.
  - cbn [fst]. f_equal. symmetry. apply filter_all. intros x Hx.
    unfold find_peer in Ep. pose proof (find_none _ _ Ep x Hx) as Hn. simpl in Hn. rewrite Hn. reflexivity.
Qed.

(* ================================================================ no datagram to a removed connection *)
Lemma isconn_step s m o q : Inv s m ->
  isconn (fst (step s o)) q =
  match o with
  | Connect p => N.eqb q p || isconn s q
  | Disconnect p => negb (N.eqb q p) && isconn s q
  | _ => isconn s q
  end.
Proof.
  intros I. pose proof (core_step s m o I) as H.
  destruct (mon m o (snd (step s o))) as [m1 v] eqn:Em. destruct H as [I1 _].
  rewrite <- (inv_conn _ _ I1 q), <- (inv_conn _ _ I q).
  destruct o; cbn [mon] in Em; try (inversion Em; subst m1; reflexivity).
  - inversion Em; subst m1. cbn [conn set_accounts].
    change (memN q (p :: without p (conn m))) with (N.eqb q p || memN q (without p (conn m))).
    rewrite memN_without. destruct (N.eqb q p); reflexivity.
  - destruct (step (w m) (Write p ctr ack src dst fn v0)). inversion Em; subst m1. reflexivity.
  - inversion Em; subst m1. cbn [conn set_accounts]. apply memN_without.
Qed.

Definition never_connects (p : N) (ops : list op) : Prop := forall o, In o ops -> o <> Connect p.

Lemma silent_while_gone ops p : forall s m, Inv s m -> isconn s p = false -> never_connects p ops ->
  forall o out x, In (o, out) (snd (run s ops)) -> In x out -> dgram_to x <> Some p.
Proof.
  induction ops as [|o0 ops IH]; intros s m I Hp Hn o out x Hin Hx; [destruct Hin|].
  simpl in Hin. pose proof (out_connected s o0 (si_ok _ (inv_s _ _ I))) as Hout.
  pose proof (isconn_step s m o0 p I) as Hc. pose proof (core_step s m o0 I) as Hcore.
  destruct (step s o0) as [s1 out0]. cbn [fst snd] in *. destruct (mon m o0 out0) as [m1 v]. destruct Hcore as [I1 _].
  destruct (run s1 ops) as [s2 tr] eqn:Er. simpl in *.
  destruct Hin as [Heq|Hin].
  - inversion Heq; subst. intros Hd. specialize (Hout x p Hx Hd). congruence.
  - assert (Hp1 : isconn s1 p = false).
    { rewrite Hc. destruct o0; try exact Hp.
      - destruct (N.eqb_spec p p0) as [E|E]; [subst; exfalso; apply (Hn (Connect p0)); [now left | reflexivity] | exact Hp].
      - rewrite Hp. apply andb_false_r. }
    assert (Hn1 : never_connects p ops) by (intros o' Ho'; apply Hn; now right).
    specialize (IH s1 m1 I1 Hp1 Hn1 o out x). rewrite Er in IH. exact (IH Hin Hx).
Qed.

Theorem silent_after_disconnect ops p ops' : never_connects p ops' ->
  let s' := fst (step (fst (run init ops)) (Disconnect p)) in
  forall o out x, In (o, out) ((Disconnect p, snd (step (fst (run init ops)) (Disconnect p))) :: snd (run s' ops')) ->
                  In x out -> dgram_to x <> Some p.
Proof.
  intros Hn s' o out x Hin Hx. destruct (reachable_inv ops) as [m I].
  set (s := fst (run init ops)) in *.
  pose proof (core_step s m (Disconnect p) I) as Hcore.
  destruct (mon m (Disconnect p) (snd (step s (Disconnect p)))) as [m1 v]. destruct Hcore as [I1 _].
  destruct Hin as [Heq|Hin].
  - inversion Heq; subst. destruct (disconnect_events s p (si_ok _ (inv_s _ _ I))) as [EV [He [Hall _]]].
    cbn [step] in Hx. rewrite He in Hx. intros Hd.
    apply in_app_or in Hx. destruct Hx as [Hx|[<-|[]]]; [|discriminate].
    rewrite Forall_forall in Hall. specialize (Hall x Hx). destruct x; discriminate.
  - apply (silent_while_gone ops' p s' m1 I1) with (o := o) (out := out); try assumption.
    unfold s'. rewrite (isconn_step s m (Disconnect p) p I), N.eqb_refl. reflexivity.
Qed.

(* ================================================================ explicit corollaries: an entity announced as removed *)
Lemma set_peer_others s pe q : q <> p_ski pe -> find_peer (set_peer s pe) q = find_peer s q.
Proof.
  intros Hq. rewrite find_peer_set_peer. destruct (find_peer s q); [|reflexivity].
  destruct (N.eqb_spec q (p_ski pe)); [contradiction | reflexivity].
Qed.

Lemma peers_others s s1 q : peers s1 = peers s -> find_peer s1 q = find_peer s q.
Proof. unfold find_peer. intros ->. reflexivity. Qed.

Lemma remove_entity_others s p a s' evs : remove_entity s p a = (s', evs) ->
  forall q, q <> p -> find_peer s' q = find_peer s q.
Proof.
  intros H q Hq. rewrite remove_entity_unfold in H.
  destruct (find_peer s p) as [pe|] eqn:Ep; [|inversion H; subst; reflexivity].
  destruct (find_rent pe a) as [en|]; [|inversion H; subst; reflexivity].
  cbv zeta in H.
  set (pe1 := {| p_ski := p_ski pe; p_addr := p_addr pe;
                 p_ents := filter (fun x => negb (eqb_eaddr (re_addr x) a)) (p_ents pe) |}) in *.
  pose proof (remove_for_entity_spec (set_peer s pe1) pe1 en) as Hr.
  destruct (remove_for_entity (set_peer s pe1) pe1 en) as [s2 evs1].
  destruct Hr as [_ [Hp2 _]].
  destruct (clean_entity_caches_frame s2 (p_addr pe) a) as [_ Hp3].
  injection H as H1 H2. subst s' evs.
  rewrite (peers_others _ _ q Hp3), (peers_others _ _ q Hp2).
  apply set_peer_others. simpl. rewrite (find_peer_ski _ _ _ Ep). exact Hq.
Qed.

Lemma remove_unlisted_others listed es : forall s p s' evs, remove_unlisted s p listed es = (s', evs) ->
  forall q, q <> p -> find_peer s' q = find_peer s q.
Proof.
  induction es as [|a r IH]; intros s p s' evs H q Hq.
  - simpl in H. inversion H; subst. reflexivity.
  - simpl in H. destruct (existsb (eqb_eaddr a) listed || eqb_eaddr a [0%N]); [exact (IH _ _ _ _ H q Hq)|].
    destruct (remove_entity s p a) as [s1 evs1] eqn:E1.
    destruct (remove_unlisted s1 p listed r) as [s2 evs2] eqn:E2.
    injection H as H1 H2. subst s' evs.
    rewrite (IH _ _ _ _ E2 q Hq). exact (remove_entity_others _ _ _ _ _ E1 q Hq).
Qed.

Lemma notify_entries_others l : forall s p m s' evs err, notify_entries s p m l = (s', evs, err) ->
  forall q, q <> p -> find_peer s' q = find_peer s q.
Proof.
  induction l as [|de r IH]; intros s p m s' evs err H q Hq.
  - simpl in H. inversion H; subst. reflexivity.
  - rewrite notify_entries_cons in H. destruct (de_state de) as [[|]|]; [| |inversion H; subst; reflexivity].
    + destruct (find_peer s p) as [pe|] eqn:Ep; [|inversion H; subst; reflexivity].
      destruct (check_entity pe de); cbn [negb] in H; [|inversion H; subst; reflexivity].
      pose proof (add_entities_ski pe m [de]) as Hski.
      destruct (add_entities pe m [de]) as [pe1 created]. simpl fst in Hski.
      destruct (notify_entries (set_peer s pe1) p m r) as [[s2 evs2] err2] eqn:Er.
      injection H as H1 H2 H3. subst s' evs err.
      rewrite (IH _ _ _ _ _ _ Er q Hq). apply set_peer_others. rewrite Hski, (find_peer_ski _ _ _ Ep). exact Hq.
    + destruct (find_peer s p) as [pe|] eqn:Ep; [|inversion H; subst; reflexivity].
      destruct (check_removed pe de); cbn [negb] in H; [|inversion H; subst; reflexivity].
      destruct (remove_entity s p (de_addr de)) as [s1 evs1] eqn:E1.
      destruct (notify_entries s1 p m r) as [[s2 evs2] err2] eqn:Er.
      injection H as H1 H2 H3. subst s' evs err.
      rewrite (IH _ _ _ _ _ _ Er q Hq). exact (remove_entity_others _ _ _ _ _ E1 q Hq).
Qed.

(* a discovery notification of peer p removes exactly the entries of (p, e) for the entities e it
   reports as removed, and leaves every other peer's tree and entries alone *)
Theorem entity_teardown_exact ops p ctr ack dm :
  let s := fst (run init ops) in
  let s' := fst (step s (DiscoveryNotify p ctr ack dm)) in
  let gone := gone_of (snd (step s (DiscoveryNotify p ctr ack dm))) in
  subs s' = filter (fun x => negb (N.eqb (e_ski x) p && existsb (eqb_eaddr (fa_ent (e_cli x))) gone)) (subs s) /\
  binds s' = filter (fun x => negb (N.eqb (e_ski x) p && existsb (eqb_eaddr (fa_ent (e_cli x))) gone)) (binds s) /\
  next_sub s' = next_sub s /\ next_bind s' = next_bind s /\
  forall q, q <> p -> view s' q = view s q.
Proof.
  intros s s' gone. pose proof (reachable_regok ops) as Hok. fold s in Hok.
  assert (H : regs_eq s s' (drop p gone) (drop p gone) /\ forall q, q <> p -> find_peer s' q = find_peer s q).
  { unfold s', gone. cbn [step]. unfold with_source.
    destruct (find_peer s p) as [pe|] eqn:Ep; [|simpl; split; [apply regs_eq_refl | reflexivity]].
    destruct (remote_feature pe (nm_addr None)); [|simpl; split; [apply regs_eq_refl | reflexivity]].
    destruct (dm_ents dm) as [|d0 dr] eqn:Edm.
    - cbn [fst snd].
      replace (gone_of (call_result p ctr ack true (nm_addr (p_addr pe)) (nm_addr (Some LOCAL_DEV)))) with (@nil eaddr)
        by (unfold call_result; reflexivity).
      split; [apply regs_eq_refl | reflexivity].
    - rewrite <- Edm. destruct (notify_entries s p dm (dm_ents dm)) as [[s1 evs] err] eqn:En.
      destruct (notify_entries_spec _ _ _ _ _ _ _ Hok En) as [_ [Hr _]]. cbn [fst snd].
      rewrite gone_of_app.
      replace (gone_of (call_result p ctr ack err (nm_addr (p_addr pe)) (nm_addr (Some LOCAL_DEV)))) with (@nil eaddr)
        by (unfold call_result; destruct err; [|destruct ack]; reflexivity).
      rewrite app_nil_r. split; [exact Hr | exact (notify_entries_others _ _ _ _ _ _ _ En)]. }
  destruct H as [[H1 H2 H3 H4] Hother].
  split; [exact H1|]. split; [exact H3|]. split; [exact H2|]. split; [exact H4|].
  intros q Hq. unfold view. rewrite H1, H3, (Hother q Hq), !entries_of_drop by exact Hq. reflexivity.
Qed.

(* ================================================================ explicit corollary: a discovery reply that no longer lists entities *)
Lemma handle_device_added_others s1 p pe pe1 l0 q :
  p_ski pe1 = p -> q <> p -> find_peer (handle_device_added s1 p pe pe1 l0) q = find_peer s1 q.
Proof.
  intros Hski Hq. unfold handle_device_added.
  set (s1a := if reply_completes pe pe1 then _ else s1).
  assert (H1a : find_peer s1a q = find_peer s1 q).
  { unfold s1a. destruct (reply_completes pe pe1); [|reflexivity]. destruct l0; [reflexivity|].
    rewrite set_peer_others; [reflexivity | simpl; rewrite Hski; exact Hq]. }
  destruct (match remote_feature pe (nm_addr None) with Some (_, rf) => rf_dev rf | None => None end) as [d0|].
  - destruct (peer_by_addr s1a d0); exact H1a.
  - destruct (p_addr pe1) as [d1|]; [|exact H1a]. destruct (peer_by_addr s1a d1); exact H1a.
Qed.

Lemma entries_of_completed s p m q l : q <> p -> entries_of q (completed s p m l) = entries_of q l.
Proof.
  intros Hq. unfold completed. destruct (model_completion s p m) as [d|]; [|reflexivity].
  unfold entries_of, complete_nm_addr. induction l as [|x l IH]; simpl; [reflexivity|].
  destruct (complete_one_props p (Some d) x) as [_ [Hk _]]. rewrite Hk.
  destruct (N.eqb_spec (e_ski x) q) as [E|E]; [|exact IH].
  rewrite IH. f_equal. unfold complete_one.
  destruct (N.eqb_spec (e_ski x) p) as [E2|E2]; [congruence | reflexivity].
Qed.

(* a discovery reply of peer p removes exactly the entries of (p, e) for the entities e it no longer
   lists (reported by entity-removed events), completes the client address of p's entries made
   through its address-less node-management feature, and leaves every other peer alone *)
Theorem reply_teardown_exact ops p m :
  let s := fst (run init ops) in
  let s' := fst (step s (DiscoveryReply p m)) in
  let gone := gone_of (snd (step s (DiscoveryReply p m))) in
  subs s' = filter (fun x => negb (N.eqb (e_ski x) p && existsb (eqb_eaddr (fa_ent (e_cli x))) gone)) (completed s p m (subs s)) /\
  binds s' = filter (fun x => negb (N.eqb (e_ski x) p && existsb (eqb_eaddr (fa_ent (e_cli x))) gone)) (completed s p m (binds s)) /\
  next_sub s' = next_sub s /\ next_bind s' = next_bind s /\
  forall q, q <> p -> view s' q = view s q.
Proof.
  intros s s' gone. pose proof (reachable_regok ops) as Hok. fold s in Hok.
  destruct (reply_step_spec s p m Hok) as [_ [Hs [Hb [Hn [Hnb _]]]]]. fold s' in Hs, Hb, Hn, Hnb. fold gone in Hs, Hb.
  split; [exact Hs|]. split; [exact Hb|]. split; [exact Hn|]. split; [exact Hnb|].
  intros q Hq. unfold view. rewrite Hs, Hb, !entries_of_drop, !entries_of_completed by exact Hq.
  f_equal. f_equal. unfold s'. cbn [step]. unfold with_source.
  destruct (find_peer s p) as [pe|] eqn:Ep; [|reflexivity].
  destruct (remote_feature pe (nm_addr None)); [|reflexivity].
  set (pe0 := {| p_ski := p_ski pe; p_addr := match dm_dev m with Some d => Some d | None => p_addr pe end; p_ents := p_ents pe |}).
  pose proof (add_entities_ski pe0 m (dm_ents m)) as Hski.
  destruct (add_entities pe0 m (dm_ents m)) as [pe1 created]. simpl fst in Hski.
  assert (Hski1 : p_ski pe1 = p) by (rewrite Hski; simpl; exact (find_peer_ski _ _ _ Ep)).
  destruct (remove_unlisted _ p (map de_addr (dm_ents m)) (map re_addr (p_ents pe1))) as [s3 evs] eqn:Eu. cbn [fst].
  rewrite (remove_unlisted_others _ _ _ _ _ _ Eu q Hq), (handle_device_added_others _ _ _ _ _ q Hski1 Hq).
  apply set_peer_others. rewrite Hski1. exact Hq.
Qed.

(* ================================================================ teardown overlapped by another peer's registry call *)
Lemma oos_scope_mono sc o : oos sc = true -> oos (scope sc o) = true.
Proof. intros H. unfold scope. simpl. rewrite H. reflexivity. Qed.

Lemma xfull_step s m sc o : Full s m sc ->
  let '(m1, v) := xmon mon m o (snd (xstep s o)) in
  Full (fst (xstep s o)) m1 (xscope scope sc o) /\
  (oos (xscope scope sc o) = false -> v = []) /\ (forall c, In c v -> c = CL_CLIENT).
Proof.
  intros F. destruct o as [o|a b]; cbn [xstep xmon xscope]; [exact (full_step s m sc o F)|].
  destruct (xsplit a b) as [P|] eqn:Eo.
  2:{ split; [exact F|]. split; [reflexivity | intros c []]. }
  pose proof (xsplit_split s a b P Eo) as Hsp. cbv zeta in Hsp.
  pose proof (full_step s m sc a F) as H1.
  destruct (step s a) as [s1 o1]. cbn [fst snd] in *.
  pose proof (fun m1 (F1 : Full s1 m1 (scope sc a)) => full_step s1 m1 (scope sc a) b F1) as H2.
  destruct (step s1 b) as [s2 o2]. cbn [fst snd] in *.
  destruct Hsp as [Ha Hb]. rewrite Ha, Hb.
  destruct (mon m a o1) as [m1 v1]. destruct H1 as [F1 [Hin1 Hout1]]. specialize (H2 m1 F1).
  destruct (mon m1 b o2) as [m2 v2]. destruct H2 as [F2 [Hin2 Hout2]].
  split; [exact F2|]. split.
  - intros H. rewrite (Hin2 H).
    destruct (oos (scope sc a)) eqn:E; [rewrite (oos_scope_mono _ b E) in H; discriminate|].
    rewrite (Hin1 eq_refl). reflexivity.
  - intros c Hc. apply in_app_or in Hc. destruct Hc; auto.
Qed.

Theorem xrun_accepted_from ops : forall s m sc, Full s m sc -> accepted (xjudge10 m sc (snd (xrun s ops))) = true.
Proof.
  induction ops as [|o ops IH]; intros s m sc F; [reflexivity|].
  simpl. pose proof (xfull_step s m sc o F) as Hs.
  destruct (xstep s o) as [s1 out]. destruct (xrun s1 ops) as [s2 tr] eqn:Er. simpl in *.
  destruct (xmon mon m o out) as [m1 v]. destruct Hs as [F1 [Hin Hout]]. simpl.
  specialize (IH s1 m1 (xscope scope sc o) F1). rewrite Er in IH. simpl in IH. unfold accepted in *. simpl. rewrite IH, andb_true_r.
  unfold excuses. destruct (oos (xscope scope sc o)) eqn:E.
  - apply excused_client. exact Hout.
  - rewrite (Hin eq_refl). reflexivity.
Qed.

Theorem xrun_accepted ops : accepted (xjudge10 minit sinit (snd (xrun init ops))) = true.
Proof. apply xrun_accepted_from. exact full_init. Qed.

Theorem xrun_only_client_from ops : forall s m sc, Full s m sc -> only_client (xjudge10 m sc (snd (xrun s ops))) = true.
Proof.
  induction ops as [|o ops IH]; intros s m sc F; [reflexivity|].
  simpl. pose proof (xfull_step s m sc o F) as Hs.
  destruct (xstep s o) as [s1 out]. destruct (xrun s1 ops) as [s2 tr] eqn:Er. simpl in *.
  destruct (xmon mon m o out) as [m1 v]. destruct Hs as [F1 [_ Hout]]. simpl.
  specialize (IH s1 m1 (xscope scope sc o) F1). rewrite Er in IH. simpl in IH. unfold only_client in *. simpl. rewrite IH, andb_true_r.
  apply forallb_forall. intros c Hc. rewrite (Hout c Hc). reflexivity.
Qed.

Theorem xrun_only_client ops : only_client (xjudge10 minit sinit (snd (xrun init ops))) = true.
Proof. apply xrun_only_client_from. exact full_init. Qed.

(* the registries after an overlap: exactly p's entries are gone and q's call took effect as if it
   had come after the teardown - in particular an entry q obtained is there *)
Theorem overlap_is_sequential s a b p q ctr : overlap a b = Some (p, q, ctr) ->
  fst (xstep s (During a b)) = fst (step (fst (step s a)) b) /\
  snd (xstep s (During a b)) = snd (step s a) ++ snd (step (fst (step s a)) b).
Proof.
  intros Eo. cbn [xstep]. unfold xsplit. rewrite Eo. destruct (step s a) as [s1 o1]. cbn [fst snd].
  destruct (step s1 b) as [s2 o2]. split; reflexivity.
Qed.
