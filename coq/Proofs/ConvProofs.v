(* C19 — every step of the model is accepted by the monitor (outside the recorded
   scope exceptions): the bridge between the real-number theorems of ScaledProofs.v,
   the integer theorems of PeriodProofs.v / TimeFmtProofs.v and the boolean clauses
   of Spec/ConvSpec.v. *)
From Coq Require Import ZArith Reals List Bool Lia Lra Psatz.
From Flocq Require Import Core BinarySingleNaN.
From Verif Require Import Base.Prelude Model.Scaled Model.Period Model.TimeFmt Model.Conv Spec.ConvSpec.
From Verif Require Import Proofs.ScaledProofs Proofs.PeriodProofs Proofs.TimeFmtProofs.

(* ---- the fraction fnum/fden is the value of the float ---- *)
Lemma fden_pos : forall x, (0 < fden x)%Z.
Proof.
  intros [s|s| |s m e H]; simpl; try lia; try (apply Z.pow_pos_nonneg; lia).
Qed.

Lemma B2R_frac : forall x : b64, B2R x = (IZR (fnum x) / IZR (fden x))%R.
Proof.
  intros [s|s| |s m e H]; simpl fnum; simpl fden; try (simpl B2R; unfold Rdiv; rewrite Rmult_0_l; reflexivity).
  simpl B2R. unfold F2R. simpl Fnum. simpl Fexp.
  destruct (Z.le_gt_cases 0 e) as [He|He].
  - rewrite Z.max_l by lia. rewrite (Z.max_r (- e) 0) by lia. change (2 ^ 0)%Z with 1%Z.
    rewrite mult_IZR. rewrite <- (IZR_Zpower radix2 e He). change (Zpower radix2 e) with (2 ^ e)%Z.
    unfold Rdiv. rewrite Rinv_1. ring.
  - rewrite Z.max_r by lia. rewrite (Z.max_l (- e) 0) by lia. change (2 ^ 0)%Z with 1%Z.
    rewrite Z.mul_1_r.
    replace e with (- (- e))%Z at 1 by lia. rewrite bpow_opp.
    rewrite <- (IZR_Zpower radix2 (- e)) by lia. change (Zpower radix2 (- e)) with (2 ^ (- e))%Z.
    reflexivity.
Qed.

Open Scope R_scope.

Lemma frac_abs_le : forall n d c : Z, (0 < d)%Z -> (0 <= c)%Z ->
  Rabs (IZR n / IZR d) <= IZR c <-> (Z.abs n <= c * d)%Z.
Proof.
  intros n d c Hd Hc. assert (HdR : 0 < IZR d) by (apply IZR_lt; exact Hd).
  unfold Rdiv. rewrite Rabs_mult, (Rabs_pos_eq (/ IZR d)) by (left; apply Rinv_0_lt_compat; exact HdR).
  rewrite <- abs_IZR. split; intros H.
  - apply le_IZR. rewrite mult_IZR. apply Rmult_le_reg_r with (/ IZR d). apply Rinv_0_lt_compat; exact HdR.
    rewrite Rmult_assoc, Rinv_r, Rmult_1_r by lra. exact H.
  - apply IZR_le in H. rewrite mult_IZR in H. apply Rmult_le_reg_r with (IZR d). exact HdR.
    rewrite Rmult_assoc, Rinv_l, Rmult_1_r by lra. exact H.
Qed.

Lemma mag_le_real : forall (v : b64) p, (0 <= p)%Z -> mag_le v p = true -> Rabs (B2R v) <= IZR (10 ^ p).
Proof.
  intros v p Hp H. unfold mag_le in H. apply Z.leb_le in H.
  rewrite B2R_frac. apply frac_abs_le. apply fden_pos. apply Z.pow_nonneg; lia. exact H.
Qed.

Lemma near4_real : forall r v : b64, is_finite r = true -> Rabs (B2R r - B2R v) <= / 10000 -> near4 r v = true.
Proof.
  intros r v Fr H. unfold near4. rewrite Fr, andb_true_l. apply Z.leb_le.
  pose proof (fden_pos r) as Hr. pose proof (fden_pos v) as Hv.
  assert (HrR : 0 < IZR (fden r)) by (apply IZR_lt; exact Hr).
  assert (HvR : 0 < IZR (fden v)) by (apply IZR_lt; exact Hv).
  rewrite (B2R_frac r), (B2R_frac v) in H.
  replace (IZR (fnum r) / IZR (fden r) - IZR (fnum v) / IZR (fden v))
    with (IZR (fnum r * fden v - fnum v * fden r) / IZR (fden r * fden v)) in H
    by (rewrite minus_IZR, !mult_IZR; field; split; lra).
  apply le_IZR. rewrite !mult_IZR, abs_IZR.
  unfold Rdiv in H. rewrite Rabs_mult, Rabs_inv in H.
  rewrite (Rabs_pos_eq (IZR (fden r * fden v))) in H by (rewrite mult_IZR; apply Rmult_le_pos; lra).
  rewrite mult_IZR in H.
  assert (Hp : 0 < IZR (fden r) * IZR (fden v)) by (apply Rmult_lt_0_compat; lra).
  apply Rmult_le_compat_r with (r := IZR (fden r) * IZR (fden v)) in H. 2: lra.
  rewrite Rmult_assoc, Rinv_l, Rmult_1_r in H by lra.
  change (IZR (10 ^ 4)) with 10000.
  lra.
Qed.

Lemma back_close_real : forall (r : b64) k d, (0 <= d)%Z -> is_finite r = true ->
  Rabs (B2R r - IZR k / IZR (10 ^ d)) < / 2 * / IZR (10 ^ d) -> back_close r k d = true.
Proof.
  intros r k d Hd Fr H. unfold back_close. rewrite Fr, andb_true_l. apply Z.ltb_lt.
  pose proof (fden_pos r) as Hr. assert (HrR : 0 < IZR (fden r)) by (apply IZR_lt; exact Hr).
  pose proof (pow10_pos d Hd) as Hp.
  rewrite (B2R_frac r) in H.
  replace (IZR (fnum r) / IZR (fden r) - IZR k / IZR (10 ^ d))
    with (IZR (fnum r * 10 ^ d - k * fden r) * (/ IZR (fden r) * / IZR (10 ^ d))) in H
    by (rewrite minus_IZR, !mult_IZR; field; split; lra).
  rewrite Rabs_mult in H.
  assert (Hi : 0 < / IZR (fden r) * / IZR (10 ^ d)) by (apply Rmult_lt_0_compat; apply Rinv_0_lt_compat; lra).
  rewrite (Rabs_pos_eq (/ IZR (fden r) * / IZR (10 ^ d))) in H by lra.
  apply lt_IZR. rewrite mult_IZR, abs_IZR.
  apply Rmult_lt_compat_r with (r := IZR (fden r) * IZR (10 ^ d)) in H. 2: (apply Rmult_lt_0_compat; lra).
  replace (Rabs (IZR (fnum r * 10 ^ d - k * fden r)) * (/ IZR (fden r) * / IZR (10 ^ d)) * (IZR (fden r) * IZR (10 ^ d)))
    with (Rabs (IZR (fnum r * 10 ^ d - k * fden r))) in H by (field; split; lra).
  replace (/ 2 * / IZR (10 ^ d) * (IZR (fden r) * IZR (10 ^ d))) with (IZR (fden r) / 2) in H by (field; lra).
  lra.
Qed.
