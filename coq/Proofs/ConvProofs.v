(* C19 — every step of the model is accepted by the monitor (outside the recorded
   scope exceptions): the bridge between the real-number theorems of ScaledProofs.v,
   the integer theorems of PeriodProofs.v / TimeFmtProofs.v and the boolean clauses
   of Spec/ConvSpec.v. *)
From Coq Require Import ZArith Reals List Bool Lia Lra Psatz.
From Flocq Require Import Core BinarySingleNaN.
From Verif Require Import Base.Prelude Model.Scaled Model.Period Model.TimeFmt Model.Conv Spec.ConvSpec.
From Verif Require Import Proofs.ScaledProofs Proofs.PeriodProofs Proofs.TimeFmtProofs.

(* ---- the fraction fnum/fden is the value of the float ---- *)
Lemma fden_pos : forall x, (0 < fden x)%Z.
Proof.
  intros [s|s| |s m e H]; simpl; try lia; try (apply Z.pow_pos_nonneg; lia).
Qed.

Lemma B2R_frac : forall x : b64, B2R x = (IZR (fnum x) / IZR (fden x))%R.
Proof.
  intros [s|s| |s m e H]; simpl fnum; simpl fden; try (simpl B2R; unfold Rdiv; rewrite Rmult_0_l; reflexivity).
  simpl B2R. unfold F2R. simpl Fnum. simpl Fexp.
  destruct (Z.le_gt_cases 0 e) as [He|He].
  - rewrite Z.max_l by lia. rewrite (Z.max_r (- e) 0) by lia. change (2 ^ 0)%Z with 1%Z.
    rewrite mult_IZR. rewrite <- (IZR_Zpower radix2 e He). change (Zpower radix2 e) with (2 ^ e)%Z.
    unfold Rdiv. rewrite Rinv_1. ring.
  - rewrite Z.max_r by lia. rewrite (Z.max_l (- e) 0) by lia. change (2 ^ 0)%Z with 1%Z.
    rewrite Z.mul_1_r.
    replace e with (- (- e))%Z at 1 by lia. rewrite bpow_opp.
    rewrite <- (IZR_Zpower radix2 (- e)) by lia. change (Zpower radix2 (- e)) with (2 ^ (- e))%Z.
    reflexivity.
Qed.

Open Scope R_scope.

Lemma frac_abs_le : forall n d c : Z, (0 < d)%Z -> (0 <= c)%Z ->
  Rabs (IZR n / IZR d) <= IZR c <-> (Z.abs n <= c * d)%Z.
Proof.
  intros n d c Hd Hc. assert (HdR : 0 < IZR d) by (apply IZR_lt; exact Hd).
  unfold Rdiv. rewrite Rabs_mult, (Rabs_pos_eq (/ IZR d)) by (left; apply Rinv_0_lt_compat; exact HdR).
  rewrite <- abs_IZR. split; intros H.
  - apply le_IZR. rewrite mult_IZR. apply Rmult_le_reg_r with (/ IZR d). apply Rinv_0_lt_compat; exact HdR.
    rewrite Rmult_assoc, Rinv_r, Rmult_1_r by lra. exact H.
  - apply IZR_le in H. rewrite mult_IZR in H. apply Rmult_le_reg_r with (IZR d). exact HdR.
    rewrite Rmult_assoc, Rinv_l, Rmult_1_r by lra. exact H.
Qed.

Lemma mag_le_real : forall (v : b64) p, (0 <= p)%Z -> mag_le v p = true -> Rabs (B2R v) <= IZR (10 ^ p).
Proof.
  intros v p Hp H. unfold mag_le in H. apply Z.leb_le in H.
  rewrite B2R_frac. apply frac_abs_le. apply fden_pos. apply Z.pow_nonneg; lia. exact H.
Qed.

Lemma near4_real : forall r v : b64, is_finite r = true -> Rabs (B2R r - B2R v) <= / 10000 -> near4 r v = true.
Proof.
  intros r v Fr H. unfold near4. rewrite Fr, andb_true_l. apply Z.leb_le.
  pose proof (fden_pos r) as Hr. pose proof (fden_pos v) as Hv.
  assert (HrR : 0 < IZR (fden r)) by (apply IZR_lt; exact Hr).
  assert (HvR : 0 < IZR (fden v)) by (apply IZR_lt; exact Hv).
  rewrite (B2R_frac r), (B2R_frac v) in H.
  replace (IZR (fnum r) / IZR (fden r) - IZR (fnum v) / IZR (fden v))
    with (IZR (fnum r * fden v - fnum v * fden r) / IZR (fden r * fden v)) in H
    by (rewrite minus_IZR, !mult_IZR; field; split; lra).
  apply le_IZR. rewrite !mult_IZR, abs_IZR.
  unfold Rdiv in H. rewrite Rabs_mult, Rabs_inv in H.
  rewrite (Rabs_pos_eq (IZR (fden r * fden v))) in H by (rewrite mult_IZR; apply Rmult_le_pos; lra).
  rewrite mult_IZR in H.
  assert (Hp : 0 < IZR (fden r) * IZR (fden v)) by (apply Rmult_lt_0_compat; lra).
  apply Rmult_le_compat_r with (r := IZR (fden r) * IZR (fden v)) in H. 2: lra.
  rewrite Rmult_assoc, Rinv_l, Rmult_1_r in H by lra.
  change (IZR (10 ^ 4)) with 10000.
  lra.
Qed.

Lemma back_close_real : forall (r : b64) k d, (0 <= d)%Z -> is_finite r = true ->
  Rabs (B2R r - IZR k / IZR (10 ^ d)) < / 2 * / IZR (10 ^ d) -> back_close r k d = true.
Proof.
  intros r k d Hd Fr H. unfold back_close. rewrite Fr, andb_true_l. apply Z.ltb_lt.
  pose proof (fden_pos r) as Hr. assert (HrR : 0 < IZR (fden r)) by (apply IZR_lt; exact Hr).
  pose proof (pow10_pos d Hd) as Hp.
  rewrite (B2R_frac r) in H.
  replace (IZR (fnum r) / IZR (fden r) - IZR k / IZR (10 ^ d))
    with (IZR (fnum r * 10 ^ d - k * fden r) * (/ IZR (fden r) * / IZR (10 ^ d))) in H
    by (rewrite minus_IZR, !mult_IZR; field; split; lra).
  rewrite Rabs_mult in H.
  assert (Hi : 0 < / IZR (fden r) * / IZR (10 ^ d)) by (apply Rmult_lt_0_compat; apply Rinv_0_lt_compat; lra).
  rewrite (Rabs_pos_eq (/ IZR (fden r) * / IZR (10 ^ d))) in H by lra.
  apply lt_IZR. rewrite mult_IZR, abs_IZR.
  apply Rmult_lt_compat_r with (r := IZR (fden r) * IZR (10 ^ d)) in H. 2: (apply Rmult_lt_0_compat; lra).
  replace (Rabs (IZR (fnum r * 10 ^ d - k * fden r)) * (/ IZR (fden r) * / IZR (10 ^ d)) * (IZR (fden r) * IZR (10 ^ d)))
    with (Rabs (IZR (fnum r * 10 ^ d - k * fden r))) in H by (field; split; lra).
  replace (/ 2 * / IZR (10 ^ d) * (IZR (fden r) * IZR (10 ^ d))) with (IZR (fden r) / 2) in H by (field; lra).
  lra.
Qed.

Close Scope R_scope.

(* ---- scaled numbers ---- *)
Lemma check_near_cases : forall v r, check_near v r = [] \/ check_near v r = [CL_NEAR].
Proof.
  intros v r. unfold check_near. destruct (is_finite v && mag_below v 14); [destruct (near4 r v)|]; auto.
Qed.

Lemma excused_near : forall v r, excused (check_near v r) [CL_NEAR] = true.
Proof. intros v r. destruct (check_near_cases v r) as [-> | ->]; reflexivity. Qed.

Lemma check_near_ok : forall v : b64, (Rabs (B2R v) <= IZR (10 ^ 11))%R ->
  let '(n, s) := new_scaled v in check_near v (get_value n s) = [].
Proof.
  intros v HV. unfold check_near.
  destruct (is_finite v) eqn:Fv.
  - pose proof (scaled_near v Fv HV) as H. destruct (new_scaled v) as [n s]. destruct H as [H1 H2].
    rewrite (near4_real _ _ H1 H2). destruct (true && mag_below v 14); reflexivity.
  - destruct (new_scaled v) as [n s]. reflexivity.
Qed.

Lemma scaled_step_ok : forall v, excused (snd (mon tt (OScaled v) (snd (step tt (OScaled v))))) (excuses (scope [] (OScaled v))) = true.
Proof.
  intros v. unfold step, mon, scope, excuses. cbn [snd].
  destruct (mag_le v 11) eqn:Hm.
  - pose proof (check_near_ok v (mag_le_real v 11 ltac:(lia) Hm)) as H.
    destruct (new_scaled v) as [n s]. cbn [snd]. rewrite H. reflexivity.
  - destruct (new_scaled v) as [n s]. cbn [snd]. apply excused_near.
Qed.

Lemma dec_real : forall k d, (0 <= d)%Z -> (Z.abs k <= 10 ^ (11 + d))%Z -> (Rabs (B2R (dec k d)) <= IZR (10 ^ 11))%R.
Proof.
  intros k d Hd Hk.
  assert (Hp : (0 < 10 ^ d)%Z) by (apply Z.pow_pos_nonneg; lia).
  assert (Hq : (Rabs (IZR k / IZR (Zpos (pos10 d))) <= IZR (10 ^ 11))%R).
  { rewrite pos10_val by exact Hd. apply frac_abs_le. exact Hp. apply Z.pow_nonneg; lia.
    rewrite <- Z.pow_add_r by lia. exact Hk. }
  destruct (RNdiv_real k (pos10 d)) as [V1 _].
  { apply Rle_trans with (1 := Hq). apply IZR_le. vm_compute. discriminate. }
  unfold dec. rewrite V1.
  apply abs_round_le_generic; auto with typeclass_instances.
  apply format_small_int. vm_compute. discriminate.
Qed.

Lemma decimal_step_ok : forall k d,
  excused (snd (mon tt (ODecimal k d) (snd (step tt (ODecimal k d))))) (excuses (scope [] (ODecimal k d))) = true.
Proof.
  intros k d. unfold step, mon, scope, excuses. cbn [snd].
  (* the two decimal clauses *)
  assert (HD : dec_domain k d = true ->
    let '(n, s) := new_scaled (dec k d) in repr_exact n s k d = true /\ back_close (get_value n s) k d = true).
  { intros Hdom. unfold dec_domain in Hdom. apply andb_prop in Hdom. destruct Hdom as [Hdom H3].
    apply andb_prop in Hdom. destruct Hdom as [H1 H2].
    apply Z.leb_le in H1. apply Z.leb_le in H2. apply Z.ltb_lt in H3.
    pose proof (decimal_roundtrip k d (conj H1 H2) H3) as H. destruct (new_scaled (dec k d)) as [n s].
    destruct H as [[Ha Hb] [Hc He]]. split.
    - unfold repr_exact. apply andb_true_intro. split. apply Z.leb_le. exact Ha. apply Z.eqb_eq. exact Hb.
    - apply back_close_real; assumption. }
  destruct ((0 <=? d) && (Z.abs k <=? 10 ^ (11 + d)))%Z eqn:Hs.
  - apply andb_prop in Hs. destruct Hs as [Hs1 Hs2]. apply Z.leb_le in Hs1. apply Z.leb_le in Hs2.
    pose proof (check_near_ok (dec k d) (dec_real k d Hs1 Hs2)) as Hn.
    destruct (new_scaled (dec k d)) as [n s]. cbn [snd]. rewrite Hn.
    destruct (dec_domain k d); [|reflexivity]. destruct (HD eq_refl) as [-> ->]. reflexivity.
  - destruct (new_scaled (dec k d)) as [n s]. cbn [snd].
    destruct (dec_domain k d).
    + destruct (HD eq_refl) as [-> ->]. cbn [app]. apply excused_near.
    + cbn [app]. apply excused_near.
Qed.

(* ---- durations ---- *)
Lemma duration_step_ok : forall ns,
  excused (snd (mon tt (ODuration ns) (snd (step tt (ODuration ns))))) (excuses (scope [] (ODuration ns))) = true.
Proof.
  intros ns. unfold step, mon, scope, excuses. cbn [snd].
  destruct (Z.ltb_spec (Z.abs ns) DUR_LIMIT) as [Hl|Hl].
  - destruct (Z.eqb_spec (Z.rem ns NS_100MS) 0) as [Hr|Hr]; [|reflexivity].
    rewrite (duration_roundtrip ns Hr Hl). rewrite Z.eqb_refl. reflexivity.
  - destruct (Z.rem ns NS_100MS =? 0); [|reflexivity].
    destruct (get_duration (new_duration ns)) as [b|]; [destruct (b =? ns)|]; reflexivity.
Qed.

(* ---- instants ---- *)
Lemma instant_step_ok : forall sec nsec,
  excused (snd (mon tt (OInstant sec nsec) (snd (step tt (OInstant sec nsec))))) (excuses (scope [] (OInstant sec nsec))) = true.
Proof.
  intros sec nsec. unfold step, mon, scope, excuses. cbn [snd].
  destruct ((nsec =? 0) && (UNIX_YEAR_0 <=? sec) && (sec <? UNIX_YEAR_10000)) eqn:Hc; [|reflexivity].
  apply andb_prop in Hc. destruct Hc as [Hc H3]. apply andb_prop in Hc. destruct Hc as [H1 H2].
  apply Z.eqb_eq in H1. apply Z.leb_le in H2. apply Z.ltb_lt in H3. subst nsec.
  rewrite (instant_roundtrip sec (conj H2 H3)). rewrite Z.eqb_refl. reflexivity.
Qed.

(* ---- relative end of a time period ---- *)
Lemma remaining_ok_intro : forall dur t0 t1 es r,
  Z.abs (es * NS_SECOND - (t0 + dur)) * 2 <= NS_SECOND ->
  Z.rem r NS_SECOND = 0 -> Z.abs (r - (es * NS_SECOND - t1)) * 2 <= NS_SECOND ->
  remaining_ok dur t0 t1 r = true.
Proof.
  intros dur t0 t1 es r H1 H2 H3. unfold remaining_ok. rewrite H2, Z.eqb_refl. cbn [andb].
  apply Z.leb_le. unfold NS_SECOND in *. lia.
Qed.

Lemma relend_step_ok : forall variant dur t0 t1,
  excused (snd (mon tt (ORelEnd variant dur t0 t1) (snd (step tt (ORelEnd variant dur t0 t1)))))
          (excuses (scope [] (ORelEnd variant dur t0 t1))) = true.
Proof.
  intros variant dur t0 t1. unfold step, scope, excuses. cbn [snd].
  destruct (Z.eqb_spec variant 0) as [Hv|Hv].
  - subst variant. cbn [andb].
    destruct (Z.ltb_spec (Z.abs dur + Z.abs (t1 - t0) + NS_SECOND) DUR_LIMIT) as [Hl|Hl]; cbn [negb].
    + (* in range: everything is exact *)
      assert (Hl' : Z.abs dur < 3277 * (24 * NS_HOUR)) by (unfold DUR_LIMIT, NS_DAY, NS_SECOND in Hl; lia).
      rewrite (duration_truncates dur Hl').
      set (d' := Z.quot dur NS_100MS * NS_100MS).
      destruct (get_time (abs_end t0 d')) as [es|] eqn:Hg.
      * unfold mon. cbn [snd]. rewrite Z.eqb_refl. cbn [andb].
        destruct (Z.eqb_spec (Z.rem dur NS_100MS) 0) as [Hm|Hm]; cbn [andb]; [|reflexivity].
        destruct (end_in_range (t0 + dur)) eqn:He; [|reflexivity].
        assert (Ed : d' = dur).
        { unfold d'. pose proof (Z.quot_rem' dur NS_100MS). lia. }
        rewrite Ed in Hg.
        destruct (abs_end_readable t0 dur He) as [es' [Hg' Hb]]. rewrite Hg in Hg'. injection Hg' as <-.
        destruct (round_half_away_spec (es * NS_SECOND - t1)) as [R1 R2].
        set (r := round_half_away (es * NS_SECOND - t1) NS_SECOND) in *.
        assert (Hr100 : Z.rem r NS_100MS = 0).
        { pose proof (Z.quot_rem' r NS_SECOND) as Hq. rewrite R1 in Hq.
          replace r with (NS_100MS * (10 * Z.quot r NS_SECOND)) by (unfold NS_SECOND, NS_100MS in *; lia).
          rewrite Z.mul_comm. apply Z.rem_mul. unfold NS_100MS. lia. }
        assert (Hrl : Z.abs r < 3277 * (24 * NS_HOUR)).
        { unfold DUR_LIMIT, NS_DAY, NS_SECOND in *. lia. }
        rewrite (duration_roundtrip r Hr100 Hrl).
        rewrite (remaining_ok_intro dur t0 t1 es r Hb R1 R2). reflexivity.
      * unfold mon. cbn [snd]. rewrite Z.eqb_refl. cbn [andb].
        destruct (Z.eqb_spec (Z.rem dur NS_100MS) 0) as [Hm|Hm]; cbn [negb orb]; [|reflexivity].
        assert (Ed : d' = dur).
        { unfold d'. pose proof (Z.quot_rem' dur NS_100MS). lia. }
        rewrite Ed in Hg.
        destruct (end_in_range (t0 + dur)) eqn:He; [|reflexivity].
        destruct (abs_end_readable t0 dur He) as [es' [Hg' _]]. congruence.
    + (* beyond 3277 days: recorded finding, only the shape matters *)
      destruct (get_duration (new_duration dur)) as [d'|].
      * destruct (get_time (abs_end t0 d')) as [es|].
        -- unfold mon. cbn [snd]. rewrite Z.eqb_refl. cbn [andb].
           destruct ((Z.rem dur NS_100MS =? 0) && end_in_range (t0 + dur)); [|reflexivity].
           destruct (get_duration _) as [b|]; [destruct (remaining_ok dur t0 t1 b)|]; reflexivity.
        -- unfold mon. cbn [snd].
           destruct (_ || _); reflexivity.
      * unfold mon. cbn [snd]. destruct (_ || _); reflexivity.
  - (* NewTimePeriodTypeWithRelativeEndTime / GetDuration: no duration text involved *)
    cbn [andb].
    destruct (get_time (abs_end t0 dur)) as [es|] eqn:Hg.
    + unfold mon. cbn [snd]. replace (variant =? 0) with false by (symmetry; apply Z.eqb_neq; exact Hv).
      destruct (end_in_range (t0 + dur)) eqn:He; [|reflexivity].
      destruct (abs_end_readable t0 dur He) as [es' [Hg' Hb]]. rewrite Hg in Hg'. injection Hg' as <-.
      destruct (round_half_away_spec (es * NS_SECOND - t1)) as [R1 R2].
      rewrite (remaining_ok_intro dur t0 t1 es _ Hb R1 R2). reflexivity.
    + unfold mon. cbn [snd]. replace (variant =? 0) with false by (symmetry; apply Z.eqb_neq; exact Hv).
      cbn [andb orb].
      destruct (end_in_range (t0 + dur)) eqn:He; [|reflexivity].
      destruct (abs_end_readable t0 dur He) as [es' [Hg' _]]. congruence.
Qed.

(* ---- every step, every history ---- *)
Lemma step_ok : forall s o,
  excused (snd (mon tt o (snd (step tt o)))) (excuses (scope s o)) = true.
Proof.
  intros s o. replace (scope s o) with (scope [] o) by (destruct o; reflexivity).
  destruct o.
  - apply scaled_step_ok.
  - apply decimal_step_ok.
  - apply duration_step_ok.
  - apply instant_step_ok.
  - apply relend_step_ok.
Qed.

Lemma run_accepted_from : forall ops m s, accepted (judge m s (snd (run tt ops))) = true.
Proof.
  induction ops as [|o ops IH]; intros m s.
  - reflexivity.
  - cbn [run]. destruct (step tt o) as [s1 out] eqn:Es. destruct s1.
    specialize (IH tt (scope s o)).
    destruct (run tt ops) as [s2 tr]. cbn [snd judge] in *.
    destruct (mon m o out) as [m1 v] eqn:Em. destruct m, m1.
    unfold accepted in *. cbn [forallb fst snd].
    pose proof (step_ok s o) as H. rewrite Es in H. cbn [snd] in H. rewrite Em in H. cbn [snd] in H.
    rewrite H. cbn [andb]. exact IH.
Qed.

Theorem run_accepted : forall ops, accepted (judge minit sinit (snd (run init ops))) = true.
Proof. intros ops. apply run_accepted_from. Qed.

(* ---- explicit corollaries ---- *)

(* the relative end of a time period, as a statement about the observation *)
Lemma relative_end_json : forall dur t0 t1,
  Z.rem dur NS_100MS = 0 -> Z.abs dur + Z.abs (t1 - t0) + NS_SECOND < DUR_LIMIT ->
  end_in_range (t0 + dur) = true ->
  exists e t r, snd (step tt (ORelEnd 0 dur t0 t1)) = [RelEnd e t (Some r)] /\
    Z.rem r NS_SECOND = 0 /\ Z.abs (r - (dur - (t1 - t0))) <= NS_SECOND.
Proof.
  intros dur t0 t1 Hm Hl He. unfold step. cbn [snd]. rewrite Z.eqb_refl.
  assert (Hl' : Z.abs dur < 3277 * (24 * NS_HOUR)) by (unfold DUR_LIMIT, NS_DAY, NS_SECOND in Hl; lia).
  rewrite (duration_roundtrip dur Hm Hl').
  destruct (abs_end_readable t0 dur He) as [es [Hg Hb]]. rewrite Hg.
  destruct (round_half_away_spec (es * NS_SECOND - t1)) as [R1 R2].
  set (r := round_half_away (es * NS_SECOND - t1) NS_SECOND) in *.
  assert (Hr100 : Z.rem r NS_100MS = 0).
  { pose proof (Z.quot_rem' r NS_SECOND) as Hq. rewrite R1 in Hq.
    replace r with (NS_100MS * (10 * Z.quot r NS_SECOND)) by (unfold NS_SECOND, NS_100MS in *; lia).
    rewrite Z.mul_comm. apply Z.rem_mul. unfold NS_100MS. lia. }
  assert (Hrl : Z.abs r < 3277 * (24 * NS_HOUR)) by (unfold DUR_LIMIT, NS_DAY, NS_SECOND in *; lia).
  rewrite (duration_roundtrip r Hr100 Hrl).
  exists (abs_end t0 dur), (new_duration r), r. split. reflexivity. split. exact R1.
  unfold NS_SECOND in *. lia.
Qed.

Lemma relative_end_direct : forall variant dur t0 t1, variant <> 0 -> end_in_range (t0 + dur) = true ->
  exists e r, snd (step tt (ORelEnd variant dur t0 t1)) = [RelDirect e r] /\
    Z.rem r NS_SECOND = 0 /\ Z.abs (r - (dur - (t1 - t0))) <= NS_SECOND.
Proof.
  intros variant dur t0 t1 Hv He. unfold step. cbn [snd].
  replace (variant =? 0) with false by (symmetry; apply Z.eqb_neq; exact Hv).
  destruct (abs_end_readable t0 dur He) as [es [Hg Hb]]. rewrite Hg.
  destruct (round_half_away_spec (es * NS_SECOND - t1)) as [R1 R2].
  eexists _, _. split. reflexivity. split. exact R1. unfold NS_SECOND in *. lia.
Qed.
