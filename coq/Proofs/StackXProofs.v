(* The overlap layer (Model/StackX.v, Spec/StackXSpec.v): the observations of a teardown of peer p
   and of a registry call of peer q <> p are told apart by [of_call], so a monitor lifted with
   [xmon] sees exactly the teardown's observations and then the call's; every invariant-style
   step lemma of a monitor over Model/Stack.v lifts to the overlap operations. *)
From Verif Require Import Base.Prelude Model.Stack Model.StackX Spec.StackObs Spec.StackXSpec
  Proofs.StackLemmas Proofs.StackInv.

(* ---------- who an observation is about ---------- *)
Definition all_from (p : N) (l : list obs) : Prop := Forall (fun o => from_peer p o = true) l.

Lemma all_from_app p a b : all_from p a -> all_from p b -> all_from p (a ++ b).
Proof. intros A B. apply Forall_app. split; assumption. Qed.

Lemma all_from_nil p : all_from p [].
Proof. constructor. Qed.

Lemma from_peer_not_call p q ctr o : from_peer p o = true -> p <> q -> of_call q ctr o = false.
Proof.
  destruct o; simpl; try discriminate; intros H Hpq.
  - apply N.eqb_eq in H. subst. destruct (N.eqb_spec p q); [contradiction | reflexivity].
  - apply N.eqb_eq in H. subst. destruct k; try reflexivity; destruct (N.eqb_spec p q); try contradiction; reflexivity.
Qed.

Lemma removed_from k s pe en l : all_from (p_ski pe) (map (ev_removed k s pe en) l).
Proof. apply Forall_forall. intros o Ho. apply in_map_iff in Ho. destruct Ho as [x [<- _]]. simpl. apply N.eqb_refl. Qed.

Lemma added_from c pe l : all_from (p_ski pe) (map (ev_entity c pe) l).
Proof. apply Forall_forall. intros o Ho. apply in_map_iff in Ho. destruct Ho as [x [<- _]]. simpl. apply N.eqb_refl. Qed.

Lemma call_result_from p ctr ack err src dst : all_from p (call_result p ctr ack err src dst).
Proof. unfold call_result. destruct err; [|destruct ack]; repeat constructor; simpl; apply N.eqb_refl. Qed.

(* ---------- teardown operations of p produce observations about p only ---------- *)
Lemma fold_F1_from pe ents : forall sa ea, all_from (p_ski pe) ea ->
  all_from (p_ski pe) (snd (fold_left (F1 pe) ents (sa, ea))).
Proof.
  induction ents as [|en r IH]; intros sa ea H; simpl; [exact H|].
  apply IH. apply all_from_app; [exact H | apply removed_from].
Qed.

Lemma fold_F2_from pe ents : forall sa ea, all_from (p_ski pe) ea ->
  all_from (p_ski pe) (snd (fold_left (F2 pe) ents (sa, ea))).
Proof.
  induction ents as [|en r IH]; intros sa ea H; simpl; [exact H|].
  apply IH. apply all_from_app; [exact H | apply removed_from].
Qed.

Lemma disconnect_from s p : all_from p (snd (disconnect s p)).
Proof.
  unfold disconnect. destruct (find_peer s p) as [pe|] eqn:Ep.
  - rewrite remove_all_unfold. pose proof (find_peer_ski _ _ _ Ep) as Hski.
    pose proof (fold_F1_from pe (p_ents pe) s [] (all_from_nil _)) as H1.
    destruct (fold_left (F1 pe) (p_ents pe) (s, [])) as [s1 ev1]. simpl in H1.
    pose proof (fold_F2_from pe (p_ents pe) s1 ev1 H1) as H2.
    destruct (fold_left (F2 pe) (p_ents pe) (s1, ev1)) as [s2 ev2]. simpl in *.
    rewrite Hski in H2. apply all_from_app; [exact H2|]. repeat constructor. simpl. apply N.eqb_refl.
  - repeat constructor. simpl. apply N.eqb_refl.
Qed.

Lemma remove_entity_from s p a : all_from p (snd (remove_entity s p a)).
Proof.
  rewrite remove_entity_unfold. destruct (find_peer s p) as [pe|] eqn:Ep; [|constructor].
  destruct (find_rent pe a) as [en|]; [|constructor]. cbv zeta.
  pose proof (find_peer_ski _ _ _ Ep) as Hski.
  unfold remove_for_entity. simpl snd. constructor; [simpl; rewrite Hski; apply N.eqb_refl|].
  rewrite <- Hski. apply all_from_app; apply (removed_from _ _ {| p_ski := p_ski pe; p_addr := p_addr pe; p_ents := _ |}).
Qed.

Lemma remove_unlisted_from listed es : forall s p, all_from p (snd (remove_unlisted s p listed es)).
Proof.
  induction es as [|a r IH]; intros s p; simpl; [constructor|].
  destruct (existsb (eqb_eaddr a) listed || eqb_eaddr a [0%N]); [apply IH|].
  pose proof (remove_entity_from s p a) as H1. destruct (remove_entity s p a) as [s1 evs1].
  pose proof (IH s1 p) as H2. destruct (remove_unlisted s1 p listed r) as [s2 evs2]. simpl in *.
  apply all_from_app; assumption.
Qed.

Lemma notify_entries_from l : forall s p m, all_from p (snd (fst (notify_entries s p m l))).
Proof.
  induction l as [|de r IH]; intros s p m; [constructor|].
  rewrite notify_entries_cons. destruct (de_state de) as [[|]|]; [| |constructor].
  - destruct (find_peer s p) as [pe|] eqn:Ep; [|constructor].
    destruct (negb (check_entity pe de)); [constructor|].
    destruct (add_entities pe m [de]) as [pe1 created].
    pose proof (IH (set_peer s pe1) p m) as H2.
    destruct (notify_entries (set_peer s pe1) p m r) as [[s2 evs2] err2]. simpl in *.
    apply all_from_app; [|exact H2]. rewrite <- (find_peer_ski _ _ _ Ep). apply added_from.
  - destruct (find_peer s p) as [pe|] eqn:Ep; [|constructor].
    destruct (negb (check_removed pe de)); [constructor|].
    pose proof (remove_entity_from s p (de_addr de)) as H1.
    destruct (remove_entity s p (de_addr de)) as [s1 evs1].
    pose proof (IH s1 p m) as H2.
    destruct (notify_entries s1 p m r) as [[s2 evs2] err2]. simpl in *.
    apply all_from_app; assumption.
Qed.

(* ---------- a registry call of q produces exactly observations [of_call q ctr] ---------- *)
Definition all_call (q ctr : N) (l : list obs) : Prop := Forall (fun o => of_call q ctr o = true) l.

Lemma call_result_call q ctr ack err src dst : all_call q ctr (call_result q ctr ack err src dst).
Proof. unfold call_result. destruct err; [|destruct ack]; repeat constructor; simpl; rewrite !N.eqb_refl; reflexivity. Qed.

Lemma ev_reg_call k c pe en cli sf ctr : k = EvSub \/ k = EvBind -> of_call (p_ski pe) ctr (ev_reg k c (p_ski pe) en cli sf) = true.
Proof. intros [-> | ->]; simpl; apply N.eqb_refl. Qed.

Lemma registry_fun_call s pe c ctr :
  all_call (p_ski pe) ctr (snd (fst (add_subscription s pe c))) /\
  all_call (p_ski pe) ctr (snd (fst (remove_subscription s pe c))) /\
  all_call (p_ski pe) ctr (snd (fst (add_binding s pe c))) /\
  all_call (p_ski pe) ctr (snd (fst (remove_binding s pe c))).
Proof.
  assert (One : forall k ch en cli sf, k = EvSub \/ k = EvBind -> all_call (p_ski pe) ctr [ev_reg k ch (p_ski pe) en cli sf]).
  { intros. constructor; [apply ev_reg_call; assumption | constructor]. }
  repeat split.
  - unfold add_subscription.
    destruct (local_feature s (rc_srv c)) as [sf|]; [|constructor].
    destruct (rc_type c) as [t|]; [|constructor].
    destruct (negb (role_type_ok (lf_role sf) (lf_type sf) RServer t)); [constructor|].
    destruct (remote_feature pe (rc_cli c)) as [[en rf]|]; [|constructor].
    destruct (negb (role_type_ok (rf_role rf) (rf_type rf) RClient t)); [constructor|].
    cbv zeta. destruct (existsb _ (subs s)); simpl; [constructor | apply One; auto].
  - unfold remove_subscription.
    destruct (remote_feature pe (rc_cli c)) as [[en rf]|]; [|constructor].
    destruct (local_feature s (rc_srv c)) as [sf|]; [|constructor].
    cbv zeta. destruct (Nat.eqb _ _); simpl; [constructor | apply One; auto].
  - unfold add_binding.
    destruct (local_feature s (rc_srv c)) as [sf|]; [|constructor].
    destruct (rc_type c) as [t|]; [|constructor].
    destruct (negb (role_type_ok (lf_role sf) (lf_type sf) RServer t)); [constructor|].
    destruct (bindings_on s sf); [|constructor].
    destruct (remote_feature pe (rc_cli c)) as [[en rf]|]; [|constructor].
    destruct (negb (role_type_ok (rf_role rf) (rf_type rf) RClient t)); simpl; [constructor | apply One; auto].
  - unfold remove_binding.
    destruct (remote_feature pe (rc_cli c)) as [[en rf]|]; [|constructor].
    destruct (local_feature s (rc_srv c)) as [sf|]; [|constructor].
    destruct (negb (role_type_ok (lf_role sf) (lf_type sf) RServer (lf_type sf))); [constructor|].
    destruct (negb (has_binding s sf (rf_addr en rf))); [constructor|].
    cbv zeta. destruct (Nat.eqb _ _); simpl; [constructor | apply One; auto].
Qed.

Lemma registry_call_call s q ctr ack c (f : st -> peer -> reg_call -> st * list obs * bool) :
  (forall pe, all_call (p_ski pe) ctr (snd (fst (f s pe c)))) ->
  all_call q ctr (snd (registry_call s q ctr ack c f)).
Proof.
  intros Hf. unfold registry_call, with_source. destruct (find_peer s q) as [pe|] eqn:Ep; [|constructor].
  destruct (remote_feature pe (nm_addr None)); [|constructor].
  specialize (Hf pe). rewrite (find_peer_ski _ _ _ Ep) in Hf.
  destruct (f s pe c) as [[s1 evs] err]. simpl in *.
  apply Forall_app. split; [exact Hf | apply call_result_call].
Qed.

Lemma call_from s b q ctr : call_peer b = Some (q, ctr) -> all_call q ctr (snd (step s b)).
Proof.
  destruct b; simpl call_peer; try discriminate; intros H; inversion H; subst; cbn [step];
    apply registry_call_call; intros pe; apply registry_fun_call.
Qed.

(* what a call of p produced is about p: a delete call as the first half of an overlap *)
Lemma all_call_from p ctr l : all_call p ctr l -> all_from p l.
Proof.
  apply Forall_impl. intros o H. destruct o; simpl in *; try discriminate.
  - apply andb_true_iff in H. apply H.
  - destruct k; try discriminate; exact H.
Qed.

Lemma teardown_from s a p : td_peer a = Some p -> all_from p (snd (step s a)).
Proof.
  destruct a; simpl td_peer; try discriminate; intros H; inversion H; subst; cbn [step].
  - (* DiscoveryReply *)
    unfold with_source. destruct (find_peer s p) as [pe|] eqn:Ep; [|constructor].
    destruct (remote_feature pe (nm_addr None)); [|constructor].
    set (pe0 := {| p_ski := p_ski pe; p_addr := _; p_ents := p_ents pe |}).
    pose proof (add_entities_ski pe0 m (dm_ents m)) as Hski.
    destruct (add_entities pe0 m (dm_ents m)) as [pe1 created]. simpl fst in Hski.
    assert (Hski1 : p_ski pe1 = p) by (rewrite Hski; simpl; exact (find_peer_ski _ _ _ Ep)).
    match goal with |- context [remove_unlisted ?s2 p ?l ?es] =>
      pose proof (remove_unlisted_from l es s2 p) as H3; destruct (remove_unlisted s2 p l es) as [s3 evs] end.
    simpl in *. constructor; [simpl; apply N.eqb_refl|].
    apply all_from_app; [|exact H3]. rewrite <- Hski1. apply added_from.
  - (* DiscoveryNotify *)
    unfold with_source. destruct (find_peer s p) as [pe|]; [|constructor].
    destruct (remote_feature pe (nm_addr None)); [|constructor].
    destruct (dm_ents m) as [|d0 dr] eqn:Edm; [apply call_result_from|].
    rewrite <- Edm. pose proof (notify_entries_from (dm_ents m) s p m) as H1.
    destruct (notify_entries s p m (dm_ents m)) as [[s1 evs] err]. simpl in *.
    apply all_from_app; [exact H1 | apply call_result_from].
  - (* SubDelete *) apply (all_call_from p ctr), (call_from s (SubDelete p ctr ack c)); reflexivity.
  - (* BindDelete *) apply (all_call_from p ctr), (call_from s (BindDelete p ctr ack c)); reflexivity.
  - (* Disconnect *) apply disconnect_from.
Qed.

(* ---------- the split ---------- *)
Lemma split_overlap (P : obs -> bool) o1 o2 :
  Forall (fun o => P o = false) o1 -> Forall (fun o => P o = true) o2 ->
  filter (fun x => negb (P x)) (o1 ++ o2) = o1 /\ filter P (o1 ++ o2) = o2.
Proof.
  intros H1 H2. rewrite !filter_app. split.
  - rewrite (filter_all (fun x => negb (P x)) o1), (filter_none (fun x => negb (P x)) o2).
    + apply app_nil_r.
    + rewrite Forall_forall in H2. intros x Hx. rewrite (H2 x Hx). reflexivity.
    + rewrite Forall_forall in H1. intros x Hx. rewrite (H1 x Hx). reflexivity.
  - rewrite (filter_none P o1), (filter_all P o2).
    + reflexivity.
    + rewrite Forall_forall in H2. exact H2.
    + rewrite Forall_forall in H1. exact H1.
Qed.

Lemma overlap_split s a b p q ctr : overlap a b = Some (p, q, ctr) ->
  let o1 := snd (step s a) in let o2 := snd (step (fst (step s a)) b) in
  filter (fun x => negb (of_call q ctr x)) (o1 ++ o2) = o1 /\ filter (of_call q ctr) (o1 ++ o2) = o2.
Proof.
  unfold overlap. destruct (td_peer a) as [p'|] eqn:Ea; [|discriminate].
  destruct (call_peer b) as [[q' ctr']|] eqn:Eb; [|discriminate].
  destruct (N.eqb_spec p' q') as [E|E]; [discriminate|]. intros H. inversion H; subst.
  apply split_overlap.
  - pose proof (teardown_from s a p Ea) as H1. unfold all_from in H1. rewrite Forall_forall in *.
    intros o Ho. apply (from_peer_not_call p q ctr o (H1 o Ho) E).
  - apply (call_from _ b q ctr Eb).
Qed.

(* the round of a data change overlapped by a disconnect: notifications are about nobody, the
   teardown's observations are about p *)
Lemma setdata_not_from s e f fn v p : Forall (fun o => from_peer p o = false) (snd (step s (SetData e f fn v))).
Proof.
  cbn [step]. destruct (find_lfeat s e (Some f)) as [lf|]; [|repeat constructor].
  destruct (fn_registered (lf_type lf) fn); [|constructor]. cbn [snd]. unfold notify_subscribers.
  apply Forall_forall. intros o Ho. apply in_map_iff in Ho. destruct Ho as [x [<- _]]. reflexivity.
Qed.

Lemma xsplit_split s a b P : xsplit a b = Some P ->
  let o1 := snd (step s a) in let o2 := snd (step (fst (step s a)) b) in
  filter (fun x => negb (P x)) (o1 ++ o2) = o1 /\ filter P (o1 ++ o2) = o2.
Proof.
  unfold xsplit. destruct (overlap a b) as [[[p q] ctr]|] eqn:Eo.
  - intros H. inversion H; subst. exact (overlap_split s a b p q ctr Eo).
  - destruct (round_overlap a b) as [p|] eqn:Er; [|discriminate]. intros H. inversion H; subst.
    destruct a; try discriminate. destruct b; try discriminate. simpl in Er. inversion Er; subst.
    apply split_overlap; [apply setdata_not_from | apply disconnect_from].
Qed.

(* ---------- lifting a step lemma ---------- *)
Section LiftInv.
  Context {mst : Type}.
  Variable mon : mst -> op -> list obs -> mst * verdict.
  Variable Inv : st -> mst -> Prop.
  Hypothesis step_inv : forall s m o, Inv s m ->
    let '(m1, v) := mon m o (snd (step s o)) in v = [] /\ Inv (fst (step s o)) m1.

  Lemma xstep_inv s m o : Inv s m ->
    let '(m1, v) := xmon mon m o (snd (xstep s o)) in v = [] /\ Inv (fst (xstep s o)) m1.
  Proof.
    intros I. destruct o as [o|a b]; cbn [xstep xmon]; [exact (step_inv s m o I)|].
    destruct (xsplit a b) as [P|] eqn:Eo; [|split; [reflexivity | exact I]].
    pose proof (xsplit_split s a b P Eo) as Hsp. cbv zeta in Hsp.
    pose proof (step_inv s m a I) as H1.
    destruct (step s a) as [s1 o1]. cbn [fst snd] in *.
    pose proof (fun m1 (I1 : Inv s1 m1) => step_inv s1 m1 b I1) as H2.
    destruct (step s1 b) as [s2 o2]. cbn [fst snd] in *.
    destruct Hsp as [Ha Hb]. rewrite Ha, Hb.
    destruct (mon m a o1) as [m1 v1]. destruct H1 as [Hv1 I1]. specialize (H2 m1 I1).
    destruct (mon m1 b o2) as [m2 v2]. destruct H2 as [Hv2 I2]. subst. split; [reflexivity | exact I2].
  Qed.

  Theorem xrun_accepted_from ops : forall s m, Inv s m -> xaccepted (xjudge mon m (snd (xrun s ops))) = true.
  Proof.
    induction ops as [|o ops IH]; intros s m I; [reflexivity|].
    simpl. pose proof (xstep_inv s m o I) as Hs.
    destruct (xstep s o) as [s1 out]. destruct (xrun s1 ops) as [s2 tr] eqn:Er. simpl in *.
    destruct (xmon mon m o out) as [m1 v]. destruct Hs as [Hv I1]. subst v. simpl.
    specialize (IH s1 m1 I1). rewrite Er in IH. exact IH.
  Qed.
End LiftInv.

(* a run over base operations only is a run of Model/Stack.v *)
Lemma xrun_base ops : forall s, xrun s (map Base ops) =
  (fst (run s ops), map (fun x => (Base (fst x), snd x)) (snd (run s ops))).
Proof.
  induction ops as [|o ops IH]; intros s; [reflexivity|]. simpl.
  destruct (step s o) as [s1 out]. rewrite IH. destruct (run s1 ops) as [s2 tr]. reflexivity.
Qed.
