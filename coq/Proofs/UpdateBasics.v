(* C02/C04/C11 — basic lemmas about the update engine model (Model/Update.v) and
   the vocabulary of the specifications (Spec/UpdateSpec.v): fields, identifiers,
   overlay/clear, lookups, insertion sort. *)
From Verif Require Import Base.Prelude Model.Schema Model.Update Model.FunctionStore Spec.UpdateSpec.
From Coq Require Import Sorting.Sorted Sorting.Permutation.

(* ---------------------------------------------------------------- keys as lists of N *)

Lemma eqb_key_eq a b : eqb_key a b = true <-> a = b.
Proof.
  revert b. induction a as [|x a IH]; intros [|y b]; cbn [eqb_key]; split; intros H; try reflexivity; try discriminate.
  - apply andb_true_iff in H. destruct H as [H1 H2]. apply N.eqb_eq in H1. apply IH in H2. subst. reflexivity.
  - inversion H. subst. rewrite N.eqb_refl. cbn. apply IH. reflexivity.
Qed.

Lemma eqb_key_refl a : eqb_key a a = true.
Proof. apply eqb_key_eq. reflexivity. Qed.

Lemma eqb_key_neq a b : eqb_key a b = false <-> a <> b.
Proof.
  split.
  - intros H E. apply eqb_key_eq in E. congruence.
  - intros H. destruct (eqb_key a b) eqn:E; [|reflexivity]. apply eqb_key_eq in E. contradiction.
Qed.

Lemma eqb_key_sym a b : eqb_key a b = eqb_key b a.
Proof.
  destruct (eqb_key a b) eqn:E.
  - apply eqb_key_eq in E. subst. symmetry. apply eqb_key_refl.
  - symmetry. apply eqb_key_neq. apply eqb_key_neq in E. congruence.
Qed.

Lemma mem_key_In k l : mem_key k l = true <-> In k l.
Proof.
  unfold mem_key. rewrite existsb_exists. split.
  - intros [y [Hy He]]. apply eqb_key_eq in He. subst. exact Hy.
  - intros H. exists k. split; [exact H | apply eqb_key_refl].
Qed.

Lemma mem_key_false k l : mem_key k l = false <-> ~ In k l.
Proof.
  split.
  - intros H Hin. apply mem_key_In in Hin. congruence.
  - intros H. destruct (mem_key k l) eqn:E; [|reflexivity]. apply mem_key_In in E. contradiction.
Qed.

Lemma nodup_keys_NoDup l : nodup_keys l = true <-> NoDup l.
Proof.
  induction l as [|k r IH]; cbn [nodup_keys].
  - split; [constructor | reflexivity].
  - rewrite andb_true_iff, negb_true_iff, mem_key_false, IH. split.
    + intros [H1 H2]. constructor; assumption.
    + intros H. inversion H. subst. split; assumption.
Qed.

(* ---------------------------------------------------------------- fields *)

Lemma fld_nil i : fld [] i = None.
Proof. unfold fld. destruct i; reflexivity. Qed.

Lemma fld_cons_S x it i : fld (x :: it) (S i) = fld it i.
Proof. reflexivity. Qed.

Lemma fld_beyond it i : (length it <= i)%nat -> fld it i = None.
Proof. intros H. unfold fld. apply nth_overflow. exact H. Qed.

Lemma item_ext (a b : item) : length a = length b -> (forall i, fld a i = fld b i) -> a = b.
Proof.
  revert b. induction a as [|x a IH]; intros [|y b] Hl Hf; try reflexivity; try discriminate.
  f_equal.
  - exact (Hf O).
  - apply IH; [cbn in Hl; lia | intros i; exact (Hf (S i))].
Qed.

(* ---------------------------------------------------------------- overlay / copy_nonnil / update_fields *)

Lemma copy_nonnil_overlay src dst : copy_nonnil src dst = overlay src dst.
Proof.
  revert src. induction dst as [|d dr IH]; intros src; [reflexivity|].
  destruct src as [|s sr]; [reflexivity|]. cbn. rewrite IH. destruct s; reflexivity.
Qed.

Lemma overlay_length new old : length (overlay new old) = length old.
Proof.
  revert new. induction old as [|o r IH]; intros new; [reflexivity|].
  destruct new as [|n nr]; [reflexivity|]. cbn. rewrite IH. reflexivity.
Qed.

Lemma fld_overlay new old i :
  length new = length old ->
  fld (overlay new old) i = match fld new i with Some v => Some v | None => fld old i end.
Proof.
  revert new i. induction old as [|o r IH]; intros new i Hl.
  - destruct new; [|discriminate]. cbn [overlay]. rewrite !fld_nil. reflexivity.
  - destruct new as [|n nr]; [discriminate|]. cbn [overlay]. destruct i as [|i].
    + unfold fld. cbn. destruct n; reflexivity.
    + rewrite !fld_cons_S. apply IH. cbn in Hl. lia.
Qed.

Lemma overlay_idem new old : overlay new (overlay new old) = overlay new old.
Proof.
  revert new. induction old as [|o r IH]; intros new; [reflexivity|].
  destruct new as [|n nr]; [reflexivity|]. cbn. rewrite IH. destruct n; reflexivity.
Qed.

Lemma overlay_self x : overlay x x = x.
Proof. induction x as [|a r IH]; [reflexivity|]. cbn. rewrite IH. destruct a; reflexivity. Qed.

(* local (non remote) updateFields fills the nil fields of dst from src *)
Lemma update_fields_from_local sch i src dst :
  length src = length dst ->
  update_fields_from sch false i src dst = overlay dst src.
Proof.
  revert i src. induction dst as [|d dr IH]; intros i src Hl.
  - destruct src; [reflexivity | discriminate].
  - destruct src as [|s sr]; [discriminate|]. cbn [update_fields_from overlay hd tl].
    rewrite IH by (cbn in Hl; lia). cbn. destruct d; reflexivity.
Qed.

Lemma update_fields_local sch src dst :
  length src = length dst -> update_fields sch false src dst = overlay dst src.
Proof. apply update_fields_from_local. Qed.

Lemma update_fields_from_length sch remote i src dst :
  length (update_fields_from sch remote i src dst) = length dst.
Proof.
  revert i src. induction dst as [|d dr IH]; intros i src; [reflexivity|]. cbn. rewrite IH. reflexivity.
Qed.

(* apply_data for a local update is the overlay *)
Lemma overlay_nil_l old : overlay [] old = old.
Proof. destruct old; reflexivity. Qed.

Lemma overlay_fill new it : overlay (overlay new it) it = overlay new it.
Proof.
  revert new. induction it as [|o r IH]; intros new; [reflexivity|].
  destruct new as [|n nr].
  - rewrite overlay_nil_l. apply overlay_self.
  - cbn [overlay]. rewrite IH. destruct n, o; reflexivity.
Qed.

Lemma apply_data_local sch new it :
  apply_data sch false new it = overlay new it.
Proof.
  unfold apply_data, restore_wc. apply copy_nonnil_overlay.
Qed.

(* ---------------------------------------------------------------- clear *)

Lemma clear_length el it : length (clear el it) = length it.
Proof.
  revert el. induction it as [|x r IH]; intros el; [reflexivity|].
  destruct el as [|e er]; [reflexivity|]. cbn. rewrite IH. reflexivity.
Qed.

Lemma clear_idem el it : clear el (clear el it) = clear el it.
Proof.
  revert el. induction it as [|x r IH]; intros el; [reflexivity|].
  destruct el as [|e er]; [reflexivity|]. cbn. rewrite IH. destruct e; reflexivity.
Qed.

Lemma fld_clear el it i : nth i el false = false -> fld (clear el it) i = fld it i.
Proof.
  revert el i. induction it as [|x r IH]; intros el i H; [reflexivity|].
  destruct el as [|e er]; [reflexivity|]. cbn [clear]. destruct i as [|i].
  - cbn in H. subst e. reflexivity.
  - rewrite !fld_cons_S. apply IH. exact H.
Qed.

(* set_fld / remove_from: with the elements struct mirroring the item, RemoveElementFromItem is [clear] *)
Lemma set_fld_length it i v : length (set_fld it i v) = length it.
Proof.
  revert i. induction it as [|x r IH]; intros i; [destruct i; reflexivity|].
  destruct i; cbn; [reflexivity | rewrite IH; reflexivity].
Qed.

Lemma set_fld_app pre x r v : set_fld (pre ++ x :: r) (length pre) v = pre ++ v :: r.
Proof. induction pre as [|p pre IH]; [reflexivity|]. cbn. rewrite IH. reflexivity. Qed.

Fixpoint seq_opt (start n : nat) : list (option nat) :=
  match n with O => [] | S n' => Some start :: seq_opt (S start) n' end.

Lemma seq_is_seq_opt start l : seq_is start l = true -> l = seq_opt start (length l).
Proof.
  revert start. induction l as [|o r IH]; intros start H; [reflexivity|].
  cbn in H. destruct o as [i|]; [|discriminate]. apply andb_true_iff in H. destruct H as [H1 H2].
  apply Nat.eqb_eq in H1. subst i. cbn. f_equal. apply IH. exact H2.
Qed.

Lemma remove_from_seq n : forall pre el it,
  length el = n -> length it = n ->
  remove_from (seq_opt (length pre) n) el (pre ++ it) = pre ++ clear el it.
Proof.
  induction n as [|n IH]; intros pre el it Hel Hit.
  - destruct el; [|discriminate]. destruct it; [|discriminate]. reflexivity.
  - destruct el as [|e er]; [discriminate|]. destruct it as [|x r]; [discriminate|].
    cbn [seq_opt remove_from clear].
    assert (Hstep : (match e with true => set_fld (pre ++ x :: r) (length pre) None | false => pre ++ x :: r end)
                    = (pre ++ [if e then None else x]) ++ r).
    { destruct e; [rewrite set_fld_app|]; rewrite <- app_assoc; reflexivity. }
    replace (match Some (length pre), e with Some i, true => set_fld (pre ++ x :: r) i None | _, _ => pre ++ x :: r end)
      with ((pre ++ [if e then None else x]) ++ r) by (rewrite <- Hstep; destruct e; reflexivity).
    replace (S (length pre)) with (length (pre ++ [if e then None else x])) by (rewrite app_length; cbn; lia).
    rewrite IH by (cbn in Hel, Hit; lia). rewrite <- app_assoc. reflexivity.
Qed.

Section WithSchema.
  Variable sch : schema.

  Lemma remove_elems_clear m el it :
    s_elems sch = Some m -> Nat.eqb (length m) (s_nf sch) = true -> seq_is 0 m = true ->
    length el = length m -> length it = s_nf sch ->
    remove_elems sch el it = clear el it.
  Proof.
    intros Hm Hlen Hseq Hel Hit. unfold remove_elems. rewrite Hm, Hlen.
    apply Nat.eqb_eq in Hlen. rewrite (seq_is_seq_opt 0 m Hseq).
    exact (remove_from_seq (length m) [] el it Hel (eq_trans Hit (eq_sym Hlen))).
  Qed.

  (* ---------------------------------------------------------------- identifiers *)

  Lemma key_from_fld keys it k :
    key_from keys it = Some k -> forall i, In i keys -> exists v, fld it i = Some v.
  Proof.
    revert k. induction keys as [|j r IH]; intros k H i Hin; [contradiction|].
    cbn in H. destruct (fld it j) as [v|] eqn:Ej; [|discriminate].
    destruct (key_from r it) as [kr|] eqn:Er; [|discriminate].
    destruct Hin as [->|Hin]; [exists v; exact Ej | exact (IH kr eq_refl i Hin)].
  Qed.

  Lemma key_from_ext keys a b :
    (forall i, In i keys -> fld a i = fld b i) -> key_from keys a = key_from keys b.
  Proof.
    induction keys as [|j r IH]; intros H; [reflexivity|].
    cbn. rewrite (H j (or_introl eq_refl)). rewrite IH by (intros i Hi; apply H; right; exact Hi). reflexivity.
  Qed.

  Lemma key_of_ext a b :
    (forall i, In i (s_keys sch) -> fld a i = fld b i) -> key_of sch a = key_of sch b.
  Proof. apply key_from_ext. Qed.

  Lemma key_from_complete keys it :
    forallb (fun k => is_some (fld it k)) keys = true <-> exists k, key_from keys it = Some k.
  Proof.
    induction keys as [|j r IH]; cbn.
    - split; [intros _; exists []; reflexivity | reflexivity].
    - rewrite andb_true_iff, IH. split.
      + intros [H1 [kr Hk]]. destruct (fld it j) as [v|]; [|discriminate]. rewrite Hk. eexists. reflexivity.
      + intros [k Hk]. destruct (fld it j) as [v|]; [|discriminate].
        destruct (key_from r it) as [kr|]; [|discriminate]. split; [reflexivity | eexists; reflexivity].
  Qed.

  Lemma has_identifiers_key it : has_identifiers sch it = is_some (key_of sch it).
  Proof.
    unfold has_identifiers, key_of. destruct (key_from (s_keys sch) it) as [k|] eqn:E.
    - apply key_from_complete. exists k. exact E.
    - destruct (forallb _ _) eqn:F; [|reflexivity].
      apply key_from_complete in F. destruct F as [k Hk]. congruence.
  Qed.

  Lemma nkey_from_ext keys a b :
    (forall i, In i keys -> fld a i = fld b i) -> nkey_from sch keys a = nkey_from sch keys b.
  Proof.
    induction keys as [|j r IH]; intros H; [reflexivity|].
    cbn. rewrite (H j (or_introl eq_refl)). rewrite IH by (intros i Hi; apply H; right; exact Hi). reflexivity.
  Qed.

  Lemma nkey_ext a b :
    (forall i, In i (s_keys sch) -> fld a i = fld b i) -> nkey sch a = nkey sch b.
  Proof. apply nkey_from_ext. Qed.

  (* hashKey of an item with a complete identifier is that identifier, provided a
     struct identifier field can only be the last one (wf_schema) *)
  Lemma hash_from_key keys it k :
    forallb (fun i => key_kind_ok (kind_of sch i)) keys = true ->
    forallb (fun i => negb (kind_eqb (kind_of sch i) KStructHelper)) (removelast keys) = true ->
    key_from keys it = Some k -> hash_from sch keys it = k.
  Proof.
    revert k. induction keys as [|j r IH]; intros k Hk Hlast H.
    - cbn in H. inversion H. reflexivity.
    - cbn in H. destruct (fld it j) as [v|] eqn:Ej; [|discriminate].
      destruct (key_from r it) as [kr|] eqn:Er; [|discriminate]. inversion H. subst k. clear H.
      cbn [hash_from]. rewrite Ej. cbn in Hk. apply andb_true_iff in Hk. destruct Hk as [Hkj Hkr].
      destruct r as [|j2 r2].
      + cbn in Er. inversion Er. subst kr. destruct (kind_of sch j); try discriminate; reflexivity.
      + cbn [removelast] in Hlast. change (removelast (j :: j2 :: r2)) with (j :: removelast (j2 :: r2)) in Hlast.
        cbn [forallb] in Hlast. apply andb_true_iff in Hlast. destruct Hlast as [Hj Hl2].
        rewrite (IH kr Hkr Hl2 eq_refl).
        destruct (kind_of sch j); try discriminate; reflexivity.
  Qed.

  (* ---------------------------------------------------------------- the order *)

  Lemma lex_le_total a b : lex_le a b = false -> lex_le b a = true.
  Proof.
    revert b. induction a as [|x a IH]; intros b H; [discriminate|].
    destruct b as [|y b]; [reflexivity|]. cbn in *.
    destruct (N.eqb x y) eqn:E.
    - apply N.eqb_eq in E. subst. rewrite N.eqb_refl. apply IH. exact H.
    - rewrite N.eqb_sym, E. apply N.ltb_ge in H. apply N.ltb_lt. apply N.eqb_neq in E. lia.
  Qed.

  Lemma lex_le_refl a : lex_le a a = true.
  Proof. induction a as [|x a IH]; [reflexivity|]. cbn. rewrite N.eqb_refl. exact IH. Qed.

  Lemma lex_le_trans a b c : lex_le a b = true -> lex_le b c = true -> lex_le a c = true.
  Proof.
    revert b c. induction a as [|x a IH]; intros b c H1 H2; [reflexivity|].
    destruct b as [|y b]; [discriminate|]. destruct c as [|z c]; [discriminate|]. cbn in *.
    destruct (N.eqb x y) eqn:Exy.
    - apply N.eqb_eq in Exy. subst y. destruct (N.eqb x z) eqn:Exz; [|exact H2]. eapply IH; eassumption.
    - destruct (N.eqb y z) eqn:Eyz.
      + apply N.eqb_eq in Eyz. subst z. rewrite Exy. exact H1.
      + apply N.ltb_lt in H1, H2. destruct (N.eqb x z) eqn:Exz.
        * apply N.eqb_eq in Exz. lia.
        * apply N.ltb_lt. lia.
  Qed.

  Definition le_items (a b : item) : Prop := lex_le (nkey sch a) (nkey sch b) = true.

  Lemma le_items_trans : Relations_1.Transitive le_items.
  Proof. intros a b c. unfold le_items. apply lex_le_trans. Qed.

  Lemma ordered_Sorted l : ordered sch l = true <-> Sorted le_items l.
  Proof.
    induction l as [|a r IH]; cbn [ordered].
    - split; [constructor | reflexivity].
    - rewrite andb_true_iff, IH. split.
      + intros [H1 H2]. constructor; [exact H2|]. destruct r; constructor. exact H1.
      + intros H. inversion H as [|? ? Hs Hh]. subst. split; [|exact Hs].
        destruct r; [reflexivity|]. inversion Hh. assumption.
  Qed.

  Lemma ordered_Strongly l : ordered sch l = true <-> StronglySorted le_items l.
  Proof.
    rewrite ordered_Sorted. split.
    - apply Sorted_StronglySorted. exact le_items_trans.
    - apply StronglySorted_Sorted.
  Qed.

  (* the comparator of SortData on items with complete identifiers *)
  Lemma less_from_lex keys a b :
    forallb (fun k => is_some (fld a k)) keys = true ->
    forallb (fun k => is_some (fld b k)) keys = true ->
    less_from sch keys a b = negb (lex_le (nkey_from sch keys b) (nkey_from sch keys a)).
  Proof.
    induction keys as [|k r IH]; intros Ha Hb; [reflexivity|].
    cbn in Ha, Hb. apply andb_true_iff in Ha, Hb. destruct Ha as [Ha1 Ha2], Hb as [Hb1 Hb2].
    cbn [less_from nkey_from]. destruct (fld a k) as [x|]; [|discriminate]. destruct (fld b k) as [y|]; [|discriminate].
    destruct (kind_of sch k); try reflexivity.
    cbn [lex_le]. rewrite (N.eqb_sym y x). destruct (N.eqb x y) eqn:E.
    - apply IH; assumption.
    - apply N.eqb_neq in E. destruct (N.ltb x y) eqn:L, (N.ltb y x) eqn:L2; try reflexivity.
      + apply N.ltb_lt in L, L2. lia.
      + apply N.ltb_ge in L, L2. lia.
  Qed.

  Lemma less_lex a b :
    has_identifiers sch a = true -> has_identifiers sch b = true ->
    less sch a b = negb (lex_le (nkey sch b) (nkey sch a)).
  Proof. apply less_from_lex. Qed.

  (* ---------------------------------------------------------------- insertion sort *)

  Lemma ins_perm x r : Permutation (ins sch x r) (x :: r).
  Proof.
    induction r as [|y r IH]; [apply Permutation_refl|]. cbn.
    destruct (less sch x y); [|apply Permutation_refl].
    eapply Permutation_trans; [apply perm_skip; exact IH | apply perm_swap].
  Qed.

  Lemma fold_ins_perm l acc : Permutation (fold_left (fun r x => ins sch x r) l acc) (l ++ acc).
  Proof.
    revert acc. induction l as [|x l IH]; intros acc; [apply Permutation_refl|]. cbn.
    eapply Permutation_trans; [apply IH|].
    eapply Permutation_trans; [apply Permutation_app_head; apply ins_perm|].
    apply Permutation_sym. apply Permutation_middle.
  Qed.

  Lemma isort_perm l : Permutation (isort sch l) l.
  Proof.
    unfold isort. eapply Permutation_trans; [apply Permutation_sym; apply Permutation_rev|].
    eapply Permutation_trans; [apply fold_ins_perm|]. rewrite app_nil_r. apply Permutation_refl.
  Qed.

  (* descending adjacent order of the reversed prefix *)
  Fixpoint desc (l : list item) : Prop :=
    match l with
    | a :: r => match r with b :: _ => le_items b a | [] => True end /\ desc r
    | [] => True
    end.

  Lemma ins_desc x r :
    has_identifiers sch x = true -> Forall (fun y => has_identifiers sch y = true) r ->
    desc r -> desc (ins sch x r).
  Proof.
    intros Hx. induction r as [|y r IH]; intros Hr Hd; [cbn; auto|].
    inversion Hr as [|? ? Hy Hr']. subst. cbn [ins].
    destruct (less sch x y) eqn:L.
    - rewrite (less_lex x y Hx Hy) in L. apply negb_true_iff in L. apply lex_le_total in L.
      destruct Hd as [Hh Hd]. specialize (IH Hr' Hd). cbn [desc]. split; [|exact IH].
      destruct r as [|z r]; cbn [ins].
      + exact L.
      + destruct (less sch x z); [exact Hh | exact L].
    - rewrite (less_lex x y Hx Hy) in L. apply negb_false_iff in L.
      cbn [desc]. split; [exact L | exact Hd].
  Qed.

  Lemma ins_ids x r :
    has_identifiers sch x = true -> Forall (fun y => has_identifiers sch y = true) r ->
    Forall (fun y => has_identifiers sch y = true) (ins sch x r).
  Proof.
    intros Hx Hr. eapply Permutation_Forall; [apply Permutation_sym; apply ins_perm|]. constructor; assumption.
  Qed.

  Lemma fold_ins_desc l acc :
    Forall (fun y => has_identifiers sch y = true) l ->
    Forall (fun y => has_identifiers sch y = true) acc ->
    desc acc -> desc (fold_left (fun r x => ins sch x r) l acc).
  Proof.
    revert acc. induction l as [|x l IH]; intros acc Hl Ha Hd; [exact Hd|].
    inversion Hl. subst. cbn. apply IH; [assumption | apply ins_ids; assumption | apply ins_desc; assumption].
  Qed.

  Lemma desc_rev_Sorted l : desc l -> Sorted le_items (rev l).
  Proof.
    induction l as [|a r IH]; intros H; [constructor|].
    destruct H as [Hh Hd]. specialize (IH Hd). cbn [rev].
    clear Hd. revert IH Hh. generalize (rev_involutive r). intros _.
    (* appending a at the end of a sorted list whose last element is below a *)
    destruct r as [|b r']; [intros _ _; cbn; constructor; constructor|].
    intros IH Hh. cbn [rev] in *.
    assert (G : forall l0, Sorted le_items (l0 ++ [b]) -> Sorted le_items ((l0 ++ [b]) ++ [a])).
    { induction l0 as [|c l0 IHl]; intros Hs.
      - cbn. constructor; [constructor; constructor | constructor; exact Hh].
      - cbn in *. inversion Hs as [|? ? Hs' Hhd]. subst. constructor; [apply IHl; exact Hs'|].
        destruct l0; cbn in *; inversion Hhd; constructor; assumption. }
    apply G. exact IH.
  Qed.

  Lemma isort_ordered l :
    Forall (fun y => has_identifiers sch y = true) l -> ordered sch (isort sch l) = true.
  Proof.
    intros H. apply ordered_Sorted. unfold isort. apply desc_rev_Sorted.
    apply fold_ins_desc; [exact H | constructor | exact I].
  Qed.

  (* an already ordered list is left as it is *)
  Lemma fold_ins_sorted l pre :
    Forall (fun y => has_identifiers sch y = true) (pre ++ l) ->
    Sorted le_items (pre ++ l) ->
    fold_left (fun r x => ins sch x r) l (rev pre) = rev (pre ++ l).
  Proof.
    revert pre. induction l as [|x l IH]; intros pre Hids Hs.
    - rewrite app_nil_r. reflexivity.
    - cbn [fold_left].
      assert (Hins : ins sch x (rev pre) = rev (pre ++ [x])).
      { rewrite rev_app_distr. cbn [rev app]. destruct (rev pre) as [|y rp] eqn:Erp; [reflexivity|].
        cbn [ins].
        assert (Hpre : pre = rev rp ++ [y]).
        { rewrite <- (rev_involutive pre), Erp. reflexivity. }
        subst pre. rewrite <- app_assoc in Hs, Hids. cbn in Hs, Hids.
        assert (Hyx : le_items y x).
        { clear - Hs. induction (rev rp) as [|c l0 IHl]; cbn in Hs.
          - inversion Hs as [|? ? _ Hh]. inversion Hh. assumption.
          - inversion Hs. auto. }
        assert (Hy : has_identifiers sch y = true /\ has_identifiers sch x = true).
        { rewrite Forall_forall in Hids. split; apply Hids; apply in_or_app; right; cbn; auto. }
        destruct Hy as [Hy Hx]. rewrite (less_lex x y Hx Hy). unfold le_items in Hyx. rewrite Hyx. reflexivity. }
      rewrite Hins. replace (pre ++ x :: l) with ((pre ++ [x]) ++ l) in * by (rewrite <- app_assoc; reflexivity).
      apply IH; assumption.
  Qed.

  Lemma isort_sorted_id l :
    Forall (fun y => has_identifiers sch y = true) l -> ordered sch l = true -> isort sch l = l.
  Proof.
    intros Hids Ho. unfold isort. apply ordered_Sorted in Ho.
    pose proof (fold_ins_sorted l [] Hids Ho) as H. cbn [rev app] in H. rewrite H. apply rev_involutive.
  Qed.

  Lemma sort_data_isort l : s_keys sch <> [] -> sort_data sch l = isort sch l.
  Proof.
    intros Hk. unfold sort_data. destruct l as [|x l]; [reflexivity|].
    destruct (s_keys sch); [contradiction | reflexivity].
  Qed.
End WithSchema.
