(* C09, interleaving clause — for every schedule the repaired two-step AddBinding of
   Model/BindSched.v is accepted by Spec/BindSchedSpec.v and never yields two bindings on
   one server feature; the pinned code is refuted by a four-step schedule. *)
From Verif Require Import Base.Prelude Model.Stack Model.BindSched Spec.BindSchedSpec.

Definition strip (b : bind) : N * N * N := (sb_srv b, sb_peer b, sb_cli b).

Record SI (s : st) (m : mst) : Prop := {
  si_reg : sreg m = map strip (binds s);
  si_pend : pend m = parked s;
  si_single : NoDup (map sb_srv (binds s));
  si_bound : forall b, In b (binds s) -> (sb_id b <= next s)%N;
  si_ids : NoDup (map sb_id (binds s));
  si_checked : forall t q, In (t, q) (parked s) -> srv_ok q = true
}.

Lemma si_init : SI init minit.
Proof. constructor; simpl; try reflexivity; try constructor; intros; contradiction. Qed.

Lemma eqb_sobs_refl o : eqb_sobs o o = true.
Proof. destruct o; simpl; rewrite ?N.eqb_refl; try reflexivity. destruct err; reflexivity. Qed.

Lemma eqb_sobs_list_refl l : eqb_sobs_list l l = true.
Proof. induction l as [|x l IH]; simpl; [reflexivity|]. rewrite eqb_sobs_refl, IH. reflexivity. Qed.

Lemma eqb3_refl x : eqb3 x x = true.
Proof. destruct x as [[a b] c]. simpl. rewrite !N.eqb_refl. reflexivity. Qed.

Lemma bound_reg s m f : sreg m = map strip (binds s) -> existsb (on3 f) (sreg m) = bound s f.
Proof.
  intros ->. unfold bound. induction (binds s) as [|b l IH]; simpl; [reflexivity|]. rewrite IH. reflexivity.
Qed.

Lemma nodup_map_filter {A B} (f : A -> B) (P : A -> bool) l : NoDup (map f l) -> NoDup (map f (filter P l)).
Proof.
  induction l as [|x l IH]; simpl; intros H; [constructor|].
  inversion H as [|? ? Hn Hd]; subst. destruct (P x); simpl; [|auto].
  constructor; [|auto]. intros Hin. apply Hn. apply in_map_iff in Hin. destruct Hin as [y [Hy Hin]].
  apply in_map_iff. exists y. split; [exact Hy|]. apply filter_In in Hin. tauto.
Qed.

Lemma NoDup_snoc {A} (l : list A) x : NoDup l -> ~ In x l -> NoDup (l ++ [x]).
Proof.
  induction l as [|y l IH]; simpl; intros Hd Hn; [constructor; [tauto | constructor]|].
  inversion Hd as [|? ? Hy Hl]; subst. constructor.
  - intros Hin. apply in_app_or in Hin. destruct Hin as [Hin|[E|[]]]; [tauto | subst; tauto].
  - apply IH; tauto.
Qed.

Lemma nodupN_true l : NoDup l -> nodupN l = true.
Proof.
  induction 1 as [|x l Hn Hd IH]; simpl; [reflexivity|]. rewrite IH, andb_true_r.
  destruct (memN x l) eqn:E; [|reflexivity]. apply memN_In in E. contradiction.
Qed.

Lemma unbound_notin s f : bound s f = false -> ~ In f (map sb_srv (binds s)).
Proof.
  unfold bound. intros H Hin. apply in_map_iff in Hin. destruct Hin as [b [Hb Hin]].
  assert (E : existsb (fun b => N.eqb (sb_srv b) f) (binds s) = true).
  { apply existsb_exists. exists b. split; [exact Hin | apply N.eqb_eq; exact Hb]. }
  rewrite E in H. discriminate.
Qed.

Lemma find_filter_parked (l : list (N * req)) t t' q :
  In (t', q) (filter (fun x => negb (N.eqb (fst x) t)) l) -> In (t', q) l.
Proof. intros H. apply filter_In in H. tauto. Qed.

(* a server feature carries at most one binding *)
Lemma single_count s f : NoDup (map sb_srv (binds s)) -> (length (on_feat s f) <= 1)%nat.
Proof.
  unfold on_feat. induction (binds s) as [|b l IH]; simpl; intros Hd; [lia|].
  inversion Hd as [|? ? Hn Hd']; subst. destruct (N.eqb_spec (sb_srv b) f) as [E|E]; simpl; [|auto].
  assert (Hnone : filter (fun b0 => N.eqb (sb_srv b0) f) l = []).
  { clear IH Hd Hd'. induction l as [|y l' IHl]; simpl; [reflexivity|].
    destruct (N.eqb_spec (sb_srv y) f) as [Ey|Ey].
    - exfalso. apply Hn. simpl. left. congruence.
    - apply IHl. intros Hin. apply Hn. simpl. right. exact Hin. }
  rewrite Hnone. simpl. lia.
Qed.

Lemma complete_refuse m pd q :
  grantable m q = false ->
  complete m pd q [Res (q_peer q) true] = ({| sreg := sreg m; pend := pd |}, []).
Proof. intros H. unfold complete. rewrite H. simpl. rewrite N.eqb_refl. reflexivity. Qed.

Lemma eqb3_pair srv p cli b : eqb3 (srv, p, cli) (strip b) = is_pair p srv cli b.
Proof.
  unfold is_pair, strip. simpl. rewrite (N.eqb_sym srv), (N.eqb_sym p), (N.eqb_sym cli).
  destruct (N.eqb (sb_srv b) srv), (N.eqb (sb_peer b) p), (N.eqb (sb_cli b) cli); reflexivity.
Qed.

Lemma existsb_pair srv p cli l : existsb (eqb3 (srv, p, cli)) (map strip l) = existsb (is_pair p srv cli) l.
Proof. induction l as [|b l IH]; [reflexivity|]. cbn [map existsb]. rewrite IH, eqb3_pair. reflexivity. Qed.

Lemma filter_pair srv p cli l :
  filter (fun x => negb (eqb3 (srv, p, cli) x)) (map strip l) = map strip (filter (fun b => negb (is_pair p srv cli b)) l).
Proof.
  induction l as [|b l IH]; [reflexivity|]. cbn [map filter]. rewrite eqb3_pair.
  destruct (is_pair p srv cli b); cbn [negb map]; rewrite IH; reflexivity.
Qed.

Lemma mine_strip p l :
  filter (fun x : N * N * N => N.eqb (snd (fst x)) p) (map strip l) = map strip (filter (fun b => N.eqb (sb_peer b) p) l).
Proof.
  induction l as [|b l IH]; [reflexivity|]. cbn [map filter]. unfold strip at 1. cbn [fst snd].
  destruct (N.eqb (sb_peer b) p); cbn [map]; rewrite IH; reflexivity.
Qed.

Lemma seen_strip p l :
  flat_map (fun x => match x with Ent _ s0 c => [(s0, p, c)] | _ => [] end)
    (map (fun b => Ent (sb_id b) (sb_srv b) (sb_cli b)) (filter (fun b => N.eqb (sb_peer b) p) l)) =
  map strip (filter (fun b => N.eqb (sb_peer b) p) l).
Proof.
  induction l as [|b l IH]; [reflexivity|]. cbn [filter].
  destruct (N.eqb_spec (sb_peer b) p) as [E|E]; [|exact IH].
  cbn [map flat_map app]. rewrite IH. unfold strip at 2. rewrite E. reflexivity.
Qed.

Lemma ids_strip l :
  flat_map (fun x => match x with Ent i _ _ => [i] | _ => [] end) (map (fun b => Ent (sb_id b) (sb_srv b) (sb_cli b)) l) = map sb_id l.
Proof. induction l as [|b l IH]; [reflexivity|]. cbn [map flat_map app]. rewrite IH. reflexivity. Qed.

Lemma on3_len f l : length (filter (on3 f) (map strip l)) = length (filter (fun b => N.eqb (sb_srv b) f) l).
Proof.
  induction l as [|b l IH]; [reflexivity|]. cbn [map filter]. unfold on3 at 1, strip at 1. cbn [fst].
  destruct (N.eqb (sb_srv b) f); cbn [length]; rewrite IH; reflexivity.
Qed.

Lemma step_inv s m o : SI s m ->
  let '(m1, v) := mon m o (snd (step s o)) in
  v = [] /\ SI (fst (step s o)) m1.
Proof.
  intros I. destruct I as [Hreg Hpend Hsingle Hbound Hids Hchk].
  assert (I : SI s m) by (constructor; assumption).
  destruct o as [t q|t|p srv cli|p|f]; unfold step, step_gen.
  - (* Begin *)
    cbn [mon]. unfold begin_step, is_parked. rewrite Hpend.
    destruct (existsb (fun x => N.eqb (fst x) t) (parked s)); [simpl; split; [reflexivity | exact I]|].
    destruct (known_peer (q_peer q)); cbn [negb]; [|simpl; split; [reflexivity | exact I]].
    destruct (srv_feat (q_srv q)) as [[r ty]|] eqn:Esf.
    2:{ simpl snd. simpl fst. cbn [eqb_sobs_list eqb_sobs andb].
        rewrite complete_refuse by (unfold grantable, srv_ok; rewrite Esf; reflexivity).
        split; [reflexivity|]. rewrite <- Hpend. destruct m; exact I. }
    destruct (role_type_ok r ty RServer (q_typ q)) eqn:Erole; cbn [negb].
    2:{ simpl snd. simpl fst. cbn [eqb_sobs_list eqb_sobs andb].
        rewrite complete_refuse by (unfold grantable, srv_ok; rewrite Esf, Erole; reflexivity).
        split; [reflexivity|]. rewrite <- Hpend. destruct m; exact I. }
    destruct (bound s (q_srv q)) eqn:Eb.
    + simpl snd. simpl fst. cbn [eqb_sobs_list eqb_sobs andb].
      rewrite complete_refuse by (unfold grantable; rewrite (bound_reg s m _ Hreg), Eb, andb_false_r; reflexivity).
      split; [reflexivity|]. rewrite <- Hpend. destruct m; exact I.
    + simpl. split; [reflexivity|]. constructor; simpl; try assumption.
      * reflexivity.
      * intros t' q' Hin. apply in_app_or in Hin. destruct Hin as [Hin|[E|[]]]; [exact (Hchk _ _ Hin)|].
        inversion E; subst. unfold srv_ok. rewrite Esf. exact Erole.
  - (* End *)
    cbn [mon]. unfold end_step. rewrite Hpend.
    destruct (find (fun x => N.eqb (fst x) t) (parked s)) as [[t0 q]|] eqn:Ef;
      [|simpl; split; [reflexivity | exact I]].
    assert (Hsrv : srv_ok q = true).
    { apply find_some in Ef. destruct Ef as [Hin _]. exact (Hchk _ _ Hin). }
    assert (Hchk' : forall t' q', In (t', q') (unpark s t) -> srv_ok q' = true).
    { intros t' q' Hin. apply find_filter_parked in Hin. exact (Hchk _ _ Hin). }
    destruct (cli_feat (q_cli q)) as [[r ty]|] eqn:Ecf.
    2:{ simpl snd. simpl fst.
        rewrite complete_refuse by (unfold grantable, cli_ok; rewrite Ecf, andb_false_r; reflexivity).
        split; [reflexivity|]. constructor; simpl; assumption || reflexivity. }
    destruct (role_type_ok r ty RClient (q_typ q)) eqn:Erole; cbn [negb].
    2:{ simpl snd. simpl fst.
        rewrite complete_refuse by (unfold grantable, cli_ok; rewrite Ecf, Erole, andb_false_r; reflexivity).
        split; [reflexivity|]. constructor; simpl; assumption || reflexivity. }
    cbn [andb]. destruct (bound s (q_srv q)) eqn:Eb.
    + simpl snd. simpl fst.
      rewrite complete_refuse by (unfold grantable; rewrite (bound_reg s m _ Hreg), Eb, andb_false_r; reflexivity).
      split; [reflexivity|]. constructor; simpl; assumption || reflexivity.
    + simpl snd. simpl fst. unfold complete.
      assert (Hg : grantable m q = true).
      { unfold grantable, cli_ok. rewrite Hsrv, Ecf, Erole, (bound_reg s m _ Hreg), Eb. reflexivity. }
      rewrite Hg, eqb_sobs_list_refl. split; [reflexivity|].
      constructor; simpl.
      * rewrite Hreg, map_app. reflexivity.
      * reflexivity.
      * rewrite map_app. simpl. apply NoDup_snoc; [exact Hsingle | apply unbound_notin; exact Eb].
      * intros b Hin. apply in_app_or in Hin. destruct Hin as [Hin|[<-|[]]]; [specialize (Hbound b Hin); lia | simpl; lia].
      * rewrite map_app. simpl. apply NoDup_snoc; [exact Hids|].
        intros Hin. apply in_map_iff in Hin. destruct Hin as [b [Hb Hin]]. specialize (Hbound b Hin). lia.
      * exact Hchk'.
  - (* Unbind *)
    cbn [mon]. unfold unbind_step.
    destruct (known_peer p); cbn [negb]; [|simpl; split; [reflexivity | exact I]].
    assert (Hex : existsb (eqb3 (srv, p, cli)) (sreg m) = existsb (is_pair p srv cli) (binds s))
      by (rewrite Hreg; apply existsb_pair).
    destruct (cli_feat cli) as [cf|]; [|simpl; rewrite N.eqb_refl; split; [reflexivity | exact I]].
    destruct (srv_feat srv) as [[r ty]|]; [|simpl; rewrite N.eqb_refl; split; [reflexivity | exact I]].
    destruct (role_type_ok r ty RServer ty); cbn [negb andb]; [|simpl; rewrite N.eqb_refl; split; [reflexivity | exact I]].
    rewrite Hex. destruct (existsb (is_pair p srv cli) (binds s)); cbn [negb].
    + simpl snd. simpl fst. rewrite eqb_sobs_list_refl. split; [reflexivity|].
      constructor; simpl; try assumption.
      * rewrite Hreg. apply filter_pair.
      * apply nodup_map_filter. exact Hsingle.
      * intros b Hin. apply filter_In in Hin. apply Hbound. tauto.
      * apply nodup_map_filter. exact Hids.
    + simpl. rewrite N.eqb_refl. split; [reflexivity | exact I].
  - (* ListB *)
    cbn [mon]. simpl snd. simpl fst. split; [|exact I].
    set (mineb := filter (fun b => N.eqb (sb_peer b) p) (binds s)).
    assert (Hmine : filter (fun x => N.eqb (snd (fst x)) p) (sreg m) = map strip mineb) by (rewrite Hreg; apply mine_strip).
    pose proof (seen_strip p (binds s)) as Hseen. fold mineb in Hseen.
    pose proof (ids_strip mineb) as Hidl.
    rewrite Hmine, Hseen, Hidl, !map_length, Nat.eqb_refl. simpl.
    rewrite nodupN_true by (apply nodup_map_filter; exact Hids). rewrite andb_true_r.
    assert (Hall : forallb (fun x => existsb (eqb3 x) (map strip mineb)) (map strip mineb) = true).
    { apply forallb_forall. intros x Hx. apply existsb_exists. exists x. split; [exact Hx | apply eqb3_refl]. }
    rewrite Hall. reflexivity.
  - (* OnFeat *)
    cbn [mon]. simpl snd. simpl fst. split; [|exact I].
    assert (Hn : length (filter (on3 f) (sreg m)) = length (on_feat s f)) by (rewrite Hreg; apply on3_len).
    rewrite Hn, N.eqb_refl. pose proof (single_count s f Hsingle) as Hle.
    destruct (N.leb_spec (N.of_nat (length (on_feat s f))) 1) as [_|Hgt]; [reflexivity | lia].
Qed.

Theorem sched_accepted_from ops : forall s m, SI s m -> accepted (judge m (snd (run s ops))) = true.
Proof.
  induction ops as [|o ops IH]; intros s m I; [reflexivity|].
  unfold run in *. simpl. pose proof (step_inv s m o I) as Hs. unfold step in Hs.
  destruct (step_gen true s o) as [s1 out]. destruct (run_gen true s1 ops) as [s2 tr] eqn:Er. simpl in *.
  destruct (mon m o out) as [m1 v]. destruct Hs as [Hv I1]. subst v. simpl.
  specialize (IH s1 m1 I1). rewrite Er in IH. exact IH.
Qed.

Theorem sched_accepted ops : accepted (judge minit (snd (run init ops))) = true.
Proof. apply sched_accepted_from. exact si_init. Qed.

Lemma si_run ops : forall s m, SI s m -> exists m', SI (fst (run s ops)) m'.
Proof.
  induction ops as [|o ops IH]; intros s m I; [exists m; exact I|].
  unfold run in *. simpl. pose proof (step_inv s m o I) as Hs. unfold step in Hs.
  destruct (step_gen true s o) as [s1 out]. simpl in Hs. destruct (mon m o out) as [m1 v]. destruct Hs as [_ I1].
  destruct (IH s1 m1 I1) as [m' Hm']. destruct (run_gen true s1 ops) as [s2 tr]. exists m'. exact Hm'.
Qed.

(* for all schedules of any number of requests: at most one binding per server feature *)
Theorem sched_at_most_one ops f : (length (on_feat (fst (run init ops)) f) <= 1)%nat.
Proof. destruct (si_run ops init minit si_init) as [m' I]. apply single_count. exact (si_single _ _ I). Qed.

(* the pinned code: both requests pass the check before either inserts *)
Definition rq (p : N) : req := {| q_peer := p; q_srv := 1; q_cli := 1; q_typ := 1 |}.
Definition witness : list op := [Begin 1 (rq 1); Begin 2 (rq 2); End 1; End 2; OnFeat 1].

Theorem pinned_two_bindings : length (on_feat (fst (run_pinned init witness)) 1) = 2%nat.
Proof. vm_compute. reflexivity. Qed.

Theorem pinned_rejected : accepted (judge minit (snd (run_pinned init witness))) = false.
Proof. vm_compute. reflexivity. Qed.

(* the pinned model's trace on the witness: exactly what the unrepaired implementation shows
   under the same forced schedule (both requests granted, two entries on feature 1) *)
Example pinned_trace :
  map snd (snd (run_pinned init witness)) =
    [[Parked]; [Parked]; [EvAdd 1 1 1; Res 1 false]; [EvAdd 2 1 1; Res 2 false]; [Cnt 2]].
Proof. vm_compute. reflexivity. Qed.

(* the repaired model on the same schedule: the second request is refused at its insertion step *)
Example repaired_trace :
  map snd (snd (run init witness)) =
    [[Parked]; [Parked]; [EvAdd 1 1 1; Res 1 false]; [Res 2 true]; [Cnt 1]].
Proof. vm_compute. reflexivity. Qed.
