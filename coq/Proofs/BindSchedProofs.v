(* C09, interleaving clause — for every schedule the repaired two-step AddBinding of
   Model/BindSched.v is accepted by Spec/BindSchedSpec.v and never yields two bindings on
   one server feature; the pinned code is refuted by a four-step schedule. *)
From Verif Require Import Base.Prelude Model.Stack Model.BindSched Spec.BindSchedSpec.

Definition strip (b : bind) : N * N * N := (sb_srv b, sb_peer b, sb_cli b).

Record SI (s : st) (m : mst) : Prop := {
  si_reg : sreg m = map strip (binds s);
  si_pend : pend m = parked s;
  si_single : NoDup (map sb_srv (binds s));
  si_bound : forall b, In b (binds s) -> (sb_id b <= next s)%N;
  si_ids : NoDup (map sb_id (binds s));
  si_checked : forall t q, In (t, q) (parked s) -> srv_ok q = true
}.

Lemma si_init : SI init minit.
Proof. constructor; simpl; try reflexivity; try constructor; intros; contradiction. Qed.

Lemma eqb_sobs_refl o : eqb_sobs o o = true.
Proof. destruct o; simpl; rewrite ?N.eqb_refl; try reflexivity. destruct err; reflexivity. Qed.

Lemma eqb_sobs_list_refl l : eqb_sobs_list l l = true.
Proof. induction l as [|x l IH]; simpl; [reflexivity|]. rewrite eqb_sobs_refl, IH. reflexivity. Qed.

Lemma eqb3_refl x : eqb3 x x = true.
Proof. destruct x as [[a b] c]. simpl. rewrite !N.eqb_refl. reflexivity. Qed.

Lemma bound_reg s m f : sreg m = map strip (binds s) -> existsb (on3 f) (sreg m) = bound s f.
Proof.
  intros ->. unfold bound. induction (binds s) as [|b l IH]; simpl; [reflexivity|]. rewrite IH. reflexivity.
Qed.

Lemma nodup_map_filter {A B} (f : A -> B) (P : A -> bool) l : NoDup (map f l) -> NoDup (map f (filter P l)).
Proof.
  induction l as [|x l IH]; simpl; intros H; [constructor|].
  inversion H as [|? ? Hn Hd]; subst. destruct (P x); simpl; [|auto].
  constructor; [|auto]. intros Hin. apply Hn. apply in_map_iff in Hin. destruct Hin as [y [Hy Hin]].
  apply in_map_iff. exists y. split; [exact Hy|]. apply filter_In in Hin. tauto.
Qed.

Lemma NoDup_snoc {A} (l : list A) x : NoDup l -> ~ In x l -> NoDup (l ++ [x]).
Proof.
  induction l as [|y l IH]; simpl; intros Hd Hn; [constructor; [tauto | constructor]|].
  inversion Hd as [|? ? Hy Hl]; subst. constructor.
  - intros Hin. apply in_app_or in Hin. destruct Hin as [Hin|[E|[]]]; [tauto | subst; tauto].
  - apply IH; tauto.
Qed.

Lemma nodupN_true l : NoDup l -> nodupN l = true.
Proof.
  induction 1 as [|x l Hn Hd IH]; simpl; [reflexivity|]. rewrite IH, andb_true_r.
  destruct (memN x l) eqn:E; [|reflexivity]. apply memN_In in E. contradiction.
Qed.

Lemma unbound_notin s f : bound s f = false -> ~ In f (map sb_srv (binds s)).
Proof.
  unfold bound. intros H Hin. apply in_map_iff in Hin. destruct Hin as [b [Hb Hin]].
  assert (E : existsb (fun b => N.eqb (sb_srv b) f) (binds s) = true).
  { apply existsb_exists. exists b. split; [exact Hin | apply N.eqb_eq; exact Hb]. }
  rewrite E in H. discriminate.
Qed.

Lemma find_filter_parked (l : list (N * req)) t t' q :
  In (t', q) (filter (fun x => negb (N.eqb (fst x) t)) l) -> In (t', q) l.
Proof. intros H. apply filter_In in H. tauto. Qed.

(* a server feature carries at most one binding *)
Lemma single_count s f : NoDup (map sb_srv (binds s)) -> (length (on_feat s f) <= 1)%nat.
Proof.
  unfold on_feat. induction (binds s) as [|b l IH]; simpl; intros Hd; [lia|].
  inversion Hd as [|? ? Hn Hd']; subst. destruct (N.eqb_spec (sb_srv b) f) as [E|E]; simpl; [|auto].
  assert (Hnone : filter (fun b0 => N.eqb (sb_srv b0) f) l = []).
  { clear IH Hd Hd'. induction l as [|y l' IHl]; simpl; [reflexivity|].
    destruct (N.eqb_spec (sb_srv y) f) as [Ey|Ey].
    - exfalso. apply Hn. simpl. left. congruence.
    - apply IHl. intros Hin. apply Hn. simpl. right. exact Hin. }
  rewrite Hnone. simpl. lia.
Qed.

Lemma complete_refuse m pd q :
  grantable m q = false ->
  complete m pd q [Res (q_peer q) true] = ({| sreg := sreg m; pend := pd |}, []).
Proof. intros H. unfold complete. rewrite H. simpl. rewrite N.eqb_refl. reflexivity. Qed.

Lemma eqb3_pair srv p cli b : eqb3 (srv, p, cli) (strip b) = is_pair p srv cli b.
Proof.
  unfold is_pair, strip. simpl. rewrite (N.eqb_sym srv), (N.eqb_sym p), (N.eqb_sym cli).
  destruct (N.eqb (sb_srv b) srv), (N.eqb (sb_peer b) p), (N.eqb (sb_cli b) cli); reflexivity.
Qed.

Lemma existsb_pair srv p cli l : existsb (eqb3 (srv, p, cli)) (map strip l) = existsb (is_pair p srv cli) l.
Proof. induction l as [|b l IH]; [reflexivity|]. cbn [map existsb]. rewrite IH, eqb3_pair. reflexivity. Qed.

Lemma filter_pair srv p cli l :
  filter (fun x => negb (eqb3 (srv, p, cli) x)) (map strip l) = map strip (filter (fun b => negb (is_pair p srv cli b)) l).
Proof.
  induction l as [|b l IH]; [reflexivity|]. cbn [map filter]. rewrite eqb3_pair.
  destruct (is_pair p srv cli b); cbn [negb map]; rewrite IH; reflexivity.
Qed.

Lemma mine_strip p l :
  filter (fun x : N * N * N => N.eqb (snd (fst x)) p) (map strip l) = map strip (filter (fun b => N.eqb (sb_peer b) p) l).
Proof.
  induction l as [|b l IH]; [reflexivity|]. cbn [map filter]. unfold strip at 1. cbn [fst snd].
  destruct (N.eqb (sb_peer b) p); cbn [map]; rewrite IH; reflexivity.
Qed.

Lemma seen_strip p l :
  flat_map (fun x => match x with Ent _ s0 c => [(s0, p, c)] | _ => [] end)
    (map (fun b => Ent (sb_id b) (sb_srv b) (sb_cli b)) (filter (fun b => N.eqb (sb_peer b) p) l)) =
  map strip (filter (fun b => N.eqb (sb_peer b) p) l).
Proof.
  induction l as [|b l IH]; [reflexivity|]. cbn [filter].
  destruct (N.eqb_spec (sb_peer b) p) as [E|E]; [|exact IH].
  cbn [map flat_map app]. rewrite IH. unfold strip at 2. rewrite E. reflexivity.
Qed.

Lemma ids_strip l :
  flat_map (fun x => match x with Ent i _ _ => [i] | _ => [] end) (map (fun b => Ent (sb_id b) (sb_srv b) (sb_cli b)) l) = map sb_id l.
Proof. induction l as [|b l IH]; [reflexivity|]. cbn [map flat_map app]. rewrite IH. reflexivity. Qed.

Lemma on3_len f l : length (filter (on3 f) (map strip l)) = length (filter (fun b => N.eqb (sb_srv b) f) l).
Proof.
  induction l as [|b l IH]; [reflexivity|]. cbn [map filter]. unfold on3 at 1, strip at 1. cbn [fst].
  destruct (N.eqb (sb_srv b) f); cbn [length]; rewrite IH; reflexivity.
Qed.

Lemma valid_req_ok q : valid_req q = srv_ok q && cli_ok q.
Proof.
  unfold valid_req, srv_ok, cli_ok. destruct (srv_feat (q_srv q)) as [[r ty]|]; [|reflexivity].
  destruct (cli_feat (q_cli q)) as [[r' ty']|]; [reflexivity | rewrite andb_false_r; reflexivity].
Qed.

Lemma step_inv s m o : SI s m ->
  let '(m1, v) := mon m o (snd (step s o)) in
  v = [] /\ SI (fst (step s o)) m1.
Proof.
  intros I. destruct I as [Hreg Hpend Hsingle Hbound Hids Hchk].
  assert (I : SI s m) by (constructor; assumption).
  destruct o as [t q|t|p srv cli|p|f|n q1 q2]; unfold step, step_gen.
  - (* Begin *)
    cbn [mon]. unfold begin_step, is_parked. rewrite Hpend.
    destruct (existsb (fun x => N.eqb (fst x) t) (parked s)); [simpl; split; [reflexivity | exact I]|].
    destruct (known_peer (q_peer q)); cbn [negb]; [|simpl; split; [reflexivity | exact I]].
    destruct (srv_feat (q_srv q)) as [[r ty]|] eqn:Esf.
    2:{ simpl snd. simpl fst. cbn [eqb_sobs_list eqb_sobs andb].
        rewrite complete_refuse by (unfold grantable, srv_ok; rewrite Esf; reflexivity).
        split; [reflexivity|]. rewrite <- Hpend. destruct m; exact I. }
    destruct (role_type_ok r ty RServer (q_typ q)) eqn:Erole; cbn [negb].
    2:{ simpl snd. simpl fst. cbn [eqb_sobs_list eqb_sobs andb].
        rewrite complete_refuse by (unfold grantable, srv_ok; rewrite Esf, Erole; reflexivity).
        split; [reflexivity|]. rewrite <- Hpend. destruct m; exact I. }
    destruct (bound s (q_srv q)) eqn:Eb.
    + simpl snd. simpl fst. cbn [eqb_sobs_list eqb_sobs andb].
      rewrite complete_refuse by (unfold grantable; rewrite (bound_reg s m _ Hreg), Eb, andb_false_r; reflexivity).
      split; [reflexivity|]. rewrite <- Hpend. destruct m; exact I.
    + simpl. split; [reflexivity|]. constructor; simpl; try assumption.
      * reflexivity.
      * intros t' q' Hin. apply in_app_or in Hin. destruct Hin as [Hin|[E|[]]]; [exact (Hchk _ _ Hin)|].
        inversion E; subst. unfold srv_ok. rewrite Esf. exact Erole.
  - (* End *)
    cbn [mon]. unfold end_step. rewrite Hpend.
    destruct (find (fun x => N.eqb (fst x) t) (parked s)) as [[t0 q]|] eqn:Ef;
      [|simpl; split; [reflexivity | exact I]].
    assert (Hsrv : srv_ok q = true).
    { apply find_some in Ef. destruct Ef as [Hin _]. exact (Hchk _ _ Hin). }
    assert (Hchk' : forall t' q', In (t', q') (unpark s t) -> srv_ok q' = true).
    { intros t' q' Hin. apply find_filter_parked in Hin. exact (Hchk _ _ Hin). }
    destruct (cli_feat (q_cli q)) as [[r ty]|] eqn:Ecf.
    2:{ simpl snd. simpl fst.
        rewrite complete_refuse by (unfold grantable, cli_ok; rewrite Ecf, andb_false_r; reflexivity).
        split; [reflexivity|]. constructor; simpl; assumption || reflexivity. }
    destruct (role_type_ok r ty RClient (q_typ q)) eqn:Erole; cbn [negb].
    2:{ simpl snd. simpl fst.
        rewrite complete_refuse by (unfold grantable, cli_ok; rewrite Ecf, Erole, andb_false_r; reflexivity).
        split; [reflexivity|]. constructor; simpl; assumption || reflexivity. }
    cbn [andb]. destruct (bound s (q_srv q)) eqn:Eb.
    + simpl snd. simpl fst.
      rewrite complete_refuse by (unfold grantable; rewrite (bound_reg s m _ Hreg), Eb, andb_false_r; reflexivity).
      split; [reflexivity|]. constructor; simpl; assumption || reflexivity.
    + simpl snd. simpl fst. unfold complete.
      assert (Hg : grantable m q = true).
      { unfold grantable, cli_ok. rewrite Hsrv, Ecf, Erole, (bound_reg s m _ Hreg), Eb. reflexivity. }
      rewrite Hg, eqb_sobs_list_refl. split; [reflexivity|].
      constructor; simpl.
      * rewrite Hreg, map_app. reflexivity.
      * reflexivity.
      * rewrite map_app. simpl. apply NoDup_snoc; [exact Hsingle | apply unbound_notin; exact Eb].
      * intros b Hin. apply in_app_or in Hin. destruct Hin as [Hin|[<-|[]]]; [specialize (Hbound b Hin); lia | simpl; lia].
      * rewrite map_app. simpl. apply NoDup_snoc; [exact Hids|].
        intros Hin. apply in_map_iff in Hin. destruct Hin as [b [Hb Hin]]. specialize (Hbound b Hin). lia.
      * exact Hchk'.
  - (* Unbind *)
    cbn [mon]. unfold unbind_step.
    destruct (known_peer p); cbn [negb]; [|simpl; split; [reflexivity | exact I]].
    assert (Hex : existsb (eqb3 (srv, p, cli)) (sreg m) = existsb (is_pair p srv cli) (binds s))
      by (rewrite Hreg; apply existsb_pair).
    destruct (cli_feat cli) as [cf|]; [|simpl; rewrite N.eqb_refl; split; [reflexivity | exact I]].
    destruct (srv_feat srv) as [[r ty]|]; [|simpl; rewrite N.eqb_refl; split; [reflexivity | exact I]].
    destruct (role_type_ok r ty RServer ty); cbn [negb andb]; [|simpl; rewrite N.eqb_refl; split; [reflexivity | exact I]].
    rewrite Hex. destruct (existsb (is_pair p srv cli) (binds s)); cbn [negb].
    + simpl snd. simpl fst. rewrite eqb_sobs_list_refl. split; [reflexivity|].
      constructor; simpl; try assumption.
      * rewrite Hreg. apply filter_pair.
      * apply nodup_map_filter. exact Hsingle.
      * intros b Hin. apply filter_In in Hin. apply Hbound. tauto.
      * apply nodup_map_filter. exact Hids.
    + simpl. rewrite N.eqb_refl. split; [reflexivity | exact I].
  - (* ListB *)
    cbn [mon]. simpl snd. simpl fst. split; [|exact I].
    set (mineb := filter (fun b => N.eqb (sb_peer b) p) (binds s)).
    assert (Hmine : filter (fun x => N.eqb (snd (fst x)) p) (sreg m) = map strip mineb) by (rewrite Hreg; apply mine_strip).
    pose proof (seen_strip p (binds s)) as Hseen. fold mineb in Hseen.
    pose proof (ids_strip mineb) as Hidl.
    rewrite Hmine, Hseen, Hidl, !map_length, Nat.eqb_refl. simpl.
    rewrite nodupN_true by (apply nodup_map_filter; exact Hids). rewrite andb_true_r.
    assert (Hall : forallb (fun x => existsb (eqb3 x) (map strip mineb)) (map strip mineb) = true).
    { apply forallb_forall. intros x Hx. apply existsb_exists. exists x. split; [exact Hx | apply eqb3_refl]. }
    rewrite Hall. reflexivity.
  - (* OnFeat *)
    cbn [mon]. simpl snd. simpl fst. split; [|exact I].
    assert (Hn : length (filter (on3 f) (sreg m)) = length (on_feat s f)) by (rewrite Hreg; apply on3_len).
    rewrite Hn, N.eqb_refl. pose proof (single_count s f Hsingle) as Hle.
    destruct (N.leb_spec (N.of_nat (length (on_feat s f))) 1) as [_|Hgt]; [reflexivity | lia].
  - (* Race *)
    cbn [mon]. unfold race_step. destruct (race_ok q1 q2); cbn [negb]; [|simpl; split; [reflexivity | exact I]].
    unfold race_grants. rewrite (bound_reg s m _ Hreg), !valid_req_ok.
    match goal with |- context [if ?c then 1%N else 0%N] => set (g := if c then 1%N else 0%N) end.
    cbn [snd fst]. lazy beta iota. rewrite !N.eqb_refl. split; [reflexivity|].
    constructor; cbn [binds next parked]; try assumption.
    intros b Hin. specialize (Hbound b Hin). lia.
Qed.

Theorem sched_accepted_from ops : forall s m, SI s m -> accepted (judge m (snd (run s ops))) = true.
Proof.
  induction ops as [|o ops IH]; intros s m I; [reflexivity|].
  unfold run in *. simpl. pose proof (step_inv s m o I) as Hs. unfold step in Hs.
  destruct (step_gen true s o) as [s1 out]. destruct (run_gen true s1 ops) as [s2 tr] eqn:Er. simpl in *.
  destruct (mon m o out) as [m1 v]. destruct Hs as [Hv I1]. subst v. simpl.
  specialize (IH s1 m1 I1). rewrite Er in IH. exact IH.
Qed.

Theorem sched_accepted ops : accepted (judge minit (snd (run init ops))) = true.
Proof. apply sched_accepted_from. exact si_init. Qed.

Lemma si_run ops : forall s m, SI s m -> exists m', SI (fst (run s ops)) m'.
Proof.
  induction ops as [|o ops IH]; intros s m I; [exists m; exact I|].
  unfold run in *. simpl. pose proof (step_inv s m o I) as Hs. unfold step in Hs.
  destruct (step_gen true s o) as [s1 out]. simpl in Hs. destruct (mon m o out) as [m1 v]. destruct Hs as [_ I1].
  destruct (IH s1 m1 I1) as [m' Hm']. destruct (run_gen true s1 ops) as [s2 tr]. exists m'. exact Hm'.
Qed.

(* for all schedules of any number of requests: at most one binding per server feature *)
Theorem sched_at_most_one ops f : (length (on_feat (fst (run init ops)) f) <= 1)%nat.
Proof. destruct (si_run ops init minit si_init) as [m' I]. apply single_count. exact (si_single _ _ I). Qed.

(* the pinned code: both requests pass the check before either inserts *)
Definition rq (p : N) : req := {| q_peer := p; q_srv := 1; q_cli := 1; q_typ := 1 |}.
Definition witness : list op := [Begin 1 (rq 1); Begin 2 (rq 2); End 1; End 2; OnFeat 1].

Theorem pinned_two_bindings : length (on_feat (fst (run_pinned init witness)) 1) = 2%nat.
Proof. vm_compute. reflexivity. Qed.

Theorem pinned_rejected : accepted (judge minit (snd (run_pinned init witness))) = false.
Proof. vm_compute. reflexivity. Qed.

(* the pinned model's trace on the witness: exactly what the unrepaired implementation shows
   under the same forced schedule (both requests granted, two entries on feature 1) *)
Example pinned_trace :
  map snd (snd (run_pinned init witness)) =
    [[Parked]; [Parked]; [EvAdd 1 1 1; Res 1 false]; [EvAdd 2 1 1; Res 2 false]; [Cnt 2]].
Proof. vm_compute. reflexivity. Qed.

(* the repaired model on the same schedule: the second request is refused at its insertion step *)
Example repaired_trace :
  map snd (snd (run init witness)) =
    [[Parked]; [Parked]; [EvAdd 1 1 1; Res 1 false]; [Res 2 true]; [Cnt 1]].
Proof. vm_compute. reflexivity. Qed.

(* ---------- the free-running overlap [Race] ---------- *)
Lemma race_ok_sym q1 q2 : race_ok q1 q2 = race_ok q2 q1.
Proof.
  unfold race_ok. rewrite (N.eqb_sym (q_peer q1)), (N.eqb_sym (q_srv q1)).
  destruct (known_peer (q_peer q1)), (known_peer (q_peer q2)); reflexivity.
Qed.

(* which request is released first does not matter: same state, same (peer-blanked) observation *)
Theorem race_order_irrelevant s n q1 q2 : step s (Race n q1 q2) = step s (Race n q2 q1).
Proof.
  unfold step, step_gen, race_step. rewrite (race_ok_sym q2 q1).
  destruct (race_ok q1 q2) eqn:E; [|reflexivity]. cbn [negb].
  assert (Hs : q_srv q1 = q_srv q2).
  { unfold race_ok in E. apply andb_true_iff in E. destruct E as [_ E]. apply N.eqb_eq in E. exact E. }
  unfold race_grants. rewrite Hs, (orb_comm (valid_req q1)). reflexivity.
Qed.

(* a race leaves the registry as it was *)
Theorem race_keeps_registry s n q1 q2 : binds (fst (step s (Race n q1 q2))) = binds s.
Proof. unfold step, step_gen, race_step. destruct (race_ok q1 q2); reflexivity. Qed.

(* one round is the sequential composition "request 1; request 2; delete what was granted", in
   either order: on the unbound feature the state afterwards is the state of [Race 1] and exactly
   one request is granted (checked on the empty registry and on a registry with other bindings
   and a parked request, all four validity combinations) *)
Definition seq_round (s : st) (t : N) (q1 q2 : req) : st * list (list obs) :=
  let '(s', tr) := run s [Begin t q1; End t; Begin t q2; End t;
                          Unbind (q_peer q1) (q_srv q1) (q_cli q1); Unbind (q_peer q2) (q_srv q2) (q_cli q2)] in
  (s', map snd tr).

Definition grants_in (tr : list (list obs)) : nat :=
  length (filter (fun o => match o with EvAdd _ _ _ => true | _ => false end) (concat tr)).

Definition eqb_bind (a b : bind) : bool :=
  N.eqb (sb_id a) (sb_id b) && N.eqb (sb_srv a) (sb_srv b) && N.eqb (sb_peer a) (sb_peer b) && N.eqb (sb_cli a) (sb_cli b).
Fixpoint eqb_binds (a b : list bind) : bool :=
  match a, b with [], [] => true | x :: a', y :: b' => eqb_bind x y && eqb_binds a' b' | _, _ => false end.

Definition round_agrees (s : st) (t : N) (q1 q2 : req) : bool :=
  let '(sa, tra) := seq_round s t q1 q2 in
  let '(sb, trb) := seq_round s t q2 q1 in
  let sr := fst (step s (Race 1 q1 q2)) in
  eqb_binds (binds sa) (binds sr) && eqb_binds (binds sb) (binds sr) &&
  N.eqb (next sa) (next sr) && N.eqb (next sb) (next sr) &&
  Nat.eqb (length (parked sa)) (length (parked sr)) && Nat.eqb (length (parked sb)) (length (parked sr)) &&
  Nat.eqb (grants_in tra) (grants_in trb) &&
  N.eqb (N.of_nat (grants_in tra)) (race_grants s q1 q2).

Definition mkq (p srv cli typ : N) : req := {| q_peer := p; q_srv := srv; q_cli := cli; q_typ := typ |}.
Definition busy_state : st :=
  fst (run init [Begin 1 (mkq 1 2 2 2); End 1; Begin 2 (mkq 3 4 4 1); End 2; Begin 3 (mkq 3 1 1 1)]).

Example race_round_sequential :
  forallb (fun s => forallb (fun qq => round_agrees s 9 (fst qq) (snd qq))
     [ (mkq 1 1 1 1, mkq 2 1 1 1);      (* both valid *)
       (mkq 1 1 1 1, mkq 2 1 3 1);      (* second names a server-role client feature *)
       (mkq 1 1 2 1, mkq 2 1 4 1);      (* first has the wrong client type, second a Generic client *)
       (mkq 1 1 3 1, mkq 2 1 7 1);      (* neither valid *)
       (mkq 3 4 1 1, mkq 2 4 2 2);      (* feature 4 (bound in busy_state) *)
       (mkq 1 3 1 1, mkq 2 3 1 1) ])    (* client-role server feature *)
     [init; busy_state] = true.
Proof. vm_compute. reflexivity. Qed.

(* ---------- one round of a race is the sequential composition, for every state ---------- *)
Lemma find_parked_snoc (l : list (N * req)) t q :
  existsb (fun x => N.eqb (fst x) t) l = false ->
  find (fun x => N.eqb (fst x) t) (l ++ [(t, q)]) = Some (t, q).
Proof.
  induction l as [|x l IH]; simpl; intros H; [rewrite N.eqb_refl; reflexivity|].
  apply orb_false_iff in H. destruct H as [H1 H2]. rewrite H1. apply IH. exact H2.
Qed.

Lemma unpark_snoc (l : list (N * req)) t q :
  existsb (fun x => N.eqb (fst x) t) l = false ->
  filter (fun x => negb (N.eqb (fst x) t)) (l ++ [(t, q)]) = l.
Proof.
  induction l as [|x l IH]; simpl; intros H; [rewrite N.eqb_refl; reflexivity|].
  apply orb_false_iff in H. destruct H as [H1 H2]. rewrite H1. simpl. f_equal. apply IH. exact H2.
Qed.

Definition same_st (a b : st) : Prop := binds a = binds b /\ next a = next b /\ parked a = parked b.

Definition grant_st (s : st) (q : req) : st :=
  {| binds := binds s ++ [ {| sb_id := N.succ (next s); sb_srv := q_srv q; sb_peer := q_peer q; sb_cli := q_cli q |} ];
     next := N.succ (next s); parked := parked s |}.

(* one request handled sequentially (Begin then End of a free thread id) *)
Lemma request_seq s t q :
  is_parked s t = false -> known_peer (q_peer q) = true ->
  same_st (fst (step (fst (step s (Begin t q))) (End t)))
          (if valid_req q && negb (bound s (q_srv q)) then grant_st s q else s).
Proof.
  intros Hp Hk. unfold step, step_gen, begin_step, valid_req. rewrite Hp, Hk. cbn [negb].
  assert (Hnr : fst (end_step true s t) = s).
  { unfold end_step. unfold is_parked in Hp.
    assert (Hf : find (fun x => N.eqb (fst x) t) (parked s) = None).
    { destruct (find _ (parked s)) as [x|] eqn:Ef; [|reflexivity]. apply find_some in Ef.
      assert (E : existsb (fun x => N.eqb (fst x) t) (parked s) = true) by (apply existsb_exists; exists x; exact Ef).
      rewrite E in Hp. discriminate. }
    rewrite Hf. reflexivity. }
  destruct (srv_feat (q_srv q)) as [[r ty]|]; [|cbn [fst andb]; rewrite Hnr; repeat split].
  destruct (role_type_ok r ty RServer (q_typ q)); cbn [negb];
    [|destruct (cli_feat (q_cli q)) as [[r' ty']|]; cbn [fst andb]; rewrite Hnr; repeat split].
  destruct (bound s (q_srv q)) eqn:Eb.
  { destruct (cli_feat (q_cli q)) as [[r' ty']|]; cbn [fst andb negb]; rewrite ?andb_false_r; rewrite Hnr; repeat split. }
  cbn [fst]. unfold end_step. cbn [parked binds next]. unfold is_parked in Hp.
  rewrite (find_parked_snoc (parked s) t q Hp). unfold unpark. cbn [parked].
  rewrite (unpark_snoc (parked s) t q Hp).
  destruct (cli_feat (q_cli q)) as [[r' ty']|]; [|cbn [fst andb]; repeat split].
  destruct (role_type_ok r' ty' RClient (q_typ q)); cbn [negb andb fst].
  - unfold bound at 1. cbn [binds]. fold (bound s (q_srv q)). rewrite Eb. cbn [fst]. repeat split.
  - repeat split.
Qed.

Lemma same_st_eq a b : same_st a b -> a = b.
Proof. destruct a, b. intros [H1 [H2 H3]]. simpl in *. subst. reflexivity. Qed.

Lemma unbound_no_pair s p srv cli : bound s srv = false -> existsb (is_pair p srv cli) (binds s) = false.
Proof.
  unfold bound. induction (binds s) as [|b l IH]; simpl; intros H; [reflexivity|].
  apply orb_false_iff in H. destruct H as [H1 H2]. unfold is_pair at 1. rewrite H1, andb_false_r. simpl. apply IH. exact H2.
Qed.

Lemma unbound_filter s p srv cli : bound s srv = false ->
  filter (fun b => negb (is_pair p srv cli b)) (binds s) = binds s.
Proof.
  unfold bound. induction (binds s) as [|b l IH]; simpl; intros H; [reflexivity|].
  apply orb_false_iff in H. destruct H as [H1 H2]. unfold is_pair at 1. rewrite H1, andb_false_r. simpl. f_equal. apply IH. exact H2.
Qed.

(* deleting a pair that is not bound changes nothing *)
Lemma unbind_absent s p srv cli : existsb (is_pair p srv cli) (binds s) = false -> fst (unbind_step s p srv cli) = s.
Proof.
  intros H. unfold unbind_step. destruct (known_peer p); [|reflexivity]. cbn [negb].
  destruct (cli_feat cli); [|reflexivity]. destruct (srv_feat srv) as [[r ty]|]; [|reflexivity].
  destruct (role_type_ok r ty RServer ty); cbn [negb]; [|reflexivity]. rewrite H. reflexivity.
Qed.

Lemma valid_srv_role q : valid_req q = true ->
  exists r ty cf, srv_feat (q_srv q) = Some (r, ty) /\ cli_feat (q_cli q) = Some cf /\ role_type_ok r ty RServer ty = true.
Proof.
  unfold valid_req. destruct (srv_feat (q_srv q)) as [[r ty]|]; [|discriminate].
  destruct (cli_feat (q_cli q)) as [cf|]; [|discriminate]. destruct cf as [r' ty'].
  intros H. apply andb_true_iff in H. destruct H as [H _]. exists r, ty, (r', ty'). split; [reflexivity|]. split; [reflexivity|].
  unfold role_type_ok in *. apply andb_true_iff in H. destruct H as [H _]. rewrite H, N.eqb_refl. reflexivity.
Qed.

(* deleting the binding just granted on an unbound feature restores the registry *)
Lemma unbind_granted s q : known_peer (q_peer q) = true -> valid_req q = true -> bound s (q_srv q) = false ->
  same_st (fst (unbind_step (grant_st s q) (q_peer q) (q_srv q) (q_cli q)))
          {| binds := binds s; next := N.succ (next s); parked := parked s |}.
Proof.
  intros Hk Hv Hb. destruct (valid_srv_role q Hv) as [r [ty [cf [E1 [E2 E3]]]]].
  unfold unbind_step. rewrite Hk, E1, E2, E3. cbn [negb]. unfold grant_st at 1. cbn [binds].
  rewrite existsb_app. cbn [existsb]. unfold is_pair at 2. cbn [sb_peer sb_cli sb_srv]. rewrite !N.eqb_refl. cbn [andb orb].
  rewrite orb_true_r. cbn [negb fst]. unfold grant_st. cbn [binds next parked].
  rewrite filter_app, (unbound_filter s _ _ _ Hb). cbn [filter]. unfold is_pair. cbn [sb_peer sb_cli sb_srv].
  rewrite !N.eqb_refl. cbn [andb negb]. rewrite app_nil_r. repeat split.
Qed.

(* the binding of another peer is not touched by a delete *)
Lemma unbind_other s q p cli : N.eqb (q_peer q) p = false -> bound s (q_srv q) = false ->
  fst (unbind_step (grant_st s q) p (q_srv q) cli) = grant_st s q.
Proof.
  intros Hne Hb. apply unbind_absent. unfold grant_st. cbn [binds]. rewrite existsb_app, (unbound_no_pair s _ _ _ Hb).
  cbn [existsb orb]. unfold is_pair. cbn [sb_peer]. rewrite Hne. reflexivity.
Qed.

Definition seq_state (s : st) (t : N) (q1 q2 : req) : st :=
  fst (run s [Begin t q1; End t; Begin t q2; End t;
              Unbind (q_peer q1) (q_srv q1) (q_cli q1); Unbind (q_peer q2) (q_srv q2) (q_cli q2)]).

Lemma seq_state_unfold s t q1 q2 :
  seq_state s t q1 q2 =
  let s1 := fst (step (fst (step s (Begin t q1))) (End t)) in
  let s2 := fst (step (fst (step s1 (Begin t q2))) (End t)) in
  fst (unbind_step (fst (unbind_step s2 (q_peer q1) (q_srv q1) (q_cli q1))) (q_peer q2) (q_srv q2) (q_cli q2)).
Proof.
  unfold seq_state, run. cbn [run_gen]. unfold step.
  repeat match goal with |- context [step_gen true ?a ?b] => destruct (step_gen true a b) as [? ?] eqn:? end.
  cbn [fst] in *. cbn [step_gen] in *.
  repeat match goal with H : _ = (_, _) |- _ => apply (f_equal fst) in H; cbn [fst] in H end.
  subst. reflexivity.
Qed.

(* one round of a race on an unbound feature IS the sequential composition
   request 1; request 2; delete pair 1; delete pair 2 — for every state and every free thread id *)
Theorem race_round_general s t q1 q2 :
  is_parked s t = false -> race_ok q1 q2 = true -> bound s (q_srv q1) = false ->
  seq_state s t q1 q2 = fst (step s (Race 1 q1 q2)).
Proof.
  intros Hp Hok Hb. pose proof Hok as Hok'. unfold race_ok in Hok'.
  apply andb_true_iff in Hok'. destruct Hok' as [Hok' Hsrv]. apply andb_true_iff in Hok'. destruct Hok' as [Hok' Hne].
  apply andb_true_iff in Hok'. destruct Hok' as [Hk1 Hk2]. apply N.eqb_eq in Hsrv. apply negb_true_iff in Hne.
  assert (Hb2 : bound s (q_srv q2) = false) by (rewrite <- Hsrv; exact Hb).
  unfold step at 1. cbn [step_gen]. unfold race_step, race_grants. rewrite Hok, Hb. cbn [negb andb fst].
  rewrite seq_state_unfold. cbv zeta.
  rewrite (same_st_eq _ _ (request_seq s t q1 Hp Hk1)), Hb. cbn [negb]. rewrite andb_true_r.
  destruct (valid_req q1) eqn:V1; cbn [orb].
  - assert (Hp1 : is_parked (grant_st s q1) t = false) by exact Hp.
    assert (Hbound : bound (grant_st s q1) (q_srv q2) = true).
    { unfold bound, grant_st. cbn [binds]. rewrite existsb_app. cbn [existsb sb_srv]. rewrite Hsrv, N.eqb_refl. rewrite orb_true_r. reflexivity. }
    rewrite (same_st_eq _ _ (request_seq (grant_st s q1) t q2 Hp1 Hk2)), Hbound. cbn [negb]. rewrite andb_false_r.
    rewrite (same_st_eq _ _ (unbind_granted s q1 Hk1 V1 Hb)).
    rewrite unbind_absent by (apply unbound_no_pair; exact Hb2).
    rewrite N.mul_1_l, N.add_1_r. reflexivity.
  - rewrite (same_st_eq _ _ (request_seq s t q2 Hp Hk2)), Hb2. cbn [negb]. rewrite andb_true_r.
    destruct (valid_req q2) eqn:V2.
    + assert (Hne' : N.eqb (q_peer q2) (q_peer q1) = false) by (rewrite N.eqb_sym; exact Hne).
      rewrite Hsrv. rewrite (unbind_other s q2 (q_peer q1) (q_cli q1) Hne' Hb2).
      rewrite (same_st_eq _ _ (unbind_granted s q2 Hk2 V2 Hb2)).
      rewrite N.mul_1_l, N.add_1_r. reflexivity.
    + rewrite (unbind_absent s (q_peer q1) (q_srv q1) (q_cli q1) (unbound_no_pair s _ _ _ Hb)).
      rewrite (unbind_absent s (q_peer q2) (q_srv q2) (q_cli q2) (unbound_no_pair s _ _ _ Hb2)).
      rewrite N.mul_1_l, N.add_0_r. destruct s; reflexivity.
Qed.

(* hence in both orders *)
Corollary race_round_both_orders s t q1 q2 :
  is_parked s t = false -> race_ok q1 q2 = true -> bound s (q_srv q1) = false ->
  seq_state s t q1 q2 = seq_state s t q2 q1.
Proof.
  intros Hp Hok Hb. rewrite (race_round_general s t q1 q2 Hp Hok Hb).
  assert (Hs : q_srv q1 = q_srv q2).
  { unfold race_ok in Hok. apply andb_true_iff in Hok. destruct Hok as [_ E]. apply N.eqb_eq in E. exact E. }
  rewrite (race_round_general s t q2 q1 Hp); [apply f_equal, race_order_irrelevant | rewrite race_ok_sym; exact Hok | rewrite <- Hs; exact Hb].
Qed.
